"""C15 — converter, parser and encoder objects carry nothing from one run to the next.

1. translator: vlib/gen_structs.py -> coq/Gen/Structs.v (clang JSON AST of the current tree: field lists and
   "who assigns which field" of the four object structs);
2. proof: coq/Properties/Properties_C15.v rebuilt and re-checked (struct obligations included);
3. tie: harness struct dumps (after create / parse / reinit / encode / reset) against the extracted
   transcriptions (parser_create, parser_reinit, enc_create, enc_reset / enc_reset_fixed, enc_derive);
4. oracle = the property itself, on the C: HISTORIES of documents through ONE parser / converter / encoder
   (reset between trees) against FRESH objects with the same settings; status, output, events must be equal.
"""
import glob
import json
import os

from vlib import common, gen_structs
from vlib.common import Rng

PID = "C15"

# Defect D14 (props/C15/DEFECTS.md) was repaired in /repo by commit ba7ea3b: nothing is pending any more, and every
# D14-shaped disagreement below is reported as a VIOLATION (named by the history shape).  The texts are kept as the
# description of each shape; an entry would only be honoured again through known_findings.json (ctx.known).
PENDING = {}
D14_SHAPES = {
    "reset-leaves-strstbl-null":
        "D14a history 'encode, reset, encode WBXML (string table on)': wbxml_encoder_reset leaves encoder->strstbl NULL, "
        "the second encoding fails (a newly created encoder succeeds)",
    "derived-lang-survives-reset":
        "D14b history 'WV tree, reset, SI tree' (no language set by the caller): the language derived from the first tree "
        "stays in encoder->lang, the second tree is encoded with the first tree's tables",
    "derived-use_strtbl-survives-reset":
        "D14c history 'WV/OTA tree to WBXML, reset, other tree to WBXML': use_strtbl forced off for the first tree stays off",
    "reset-strstbl-null-double-free":
        "D14e history 'encode, reset, encode to WBXML a tree with a literal (unknown) tag or attribute name': with the "
        "string-table list NULL wbxml_strtbl_add_element fails and wbxml_encode_tag_literal / wbxml_encode_attr_start_literal "
        "free the name buffer twice (AddressSanitizer: heap-use-after-free in wbxml_buffer_destroy)",
    "indent-survives-reset":
        "D14d history 'indented XML run that fails inside an element, reset, indented XML run': encoder->indent is not reset, "
        "the next document is shifted",
}

LANGS = [0, 1104, 1301, 1401, 1501, 1601, 1701, 1801, 1901, 2001, 2101, 2201, 2202, 2203, 2301, 2302, 2401, 2402, 2501]
E_NFIELDS = 34
E_SETTING_IDX = [1, 10, 11, 12, 13, 14, 21, 22, 23, 24, 25, 26, 33]   # setting fields in the 34-field encoder dump
E_RUN_IDX = [i for i in range(E_NFIELDS) if i not in E_SETTING_IDX]


def hx(b):
    return b.hex() if b else "-"


# ----------------------------------------------------------------------------------------------
# documents
# ----------------------------------------------------------------------------------------------

HAND_WBXML = [
    # PROV 1.0: element with attributes, SWITCH_PAGE to attribute page 1, a page-1 attribute, then cut off
    bytes.fromhex("030b6a00c54501c600015006"),
    bytes.fromhex("030b6a00c500015006"),
    bytes.fromhex("030b6a00c5450001"),
    # PROV complete small document using page-0 and page-1 attribute tokens
    bytes.fromhex("030b6a00c54503312e310001c655018707060387000106038105010101"),
    # SyncML 1.2: switch the TAG page to 1 (MetInf) and stop
    bytes.fromhex("02a4016a006d6c710001"),
    bytes.fromhex("02a4016a006d6c7100015a"),
    # WML with a string table, reference into it, cut off in the middle of an element
    bytes.fromhex("01046a0661626364650 07f".replace(" ", "")),
    bytes.fromhex("03010 36a0c2d2f2f582f2f595a2f2f454e00".replace(" ", "")),
    # public id by string-table index (unknown id string)
    bytes.fromhex("0300006a052f2f782f00 45 01".replace(" ", "")),
    # version only / version + public id only / bad multibyte / charset without converter
    bytes.fromhex("03"), bytes.fromhex("0301"), bytes.fromhex("03818181818100"), bytes.fromhex("0304046a004501"),
    # WBXML 1.0 (no charset field)
    bytes.fromhex("0004007f01"),
    # SI with an opaque date cut in the middle
    bytes.fromhex("03056a0045c60a c30419 99".replace(" ", "")),
    # WML: 997 / 600 elements deep, then cut off (leaves the parser as deep as it can be inside the nesting limit)
    bytes.fromhex("03046a00" + "7f" + "67" + "60" * 995),
    bytes.fromhex("03046a00" + "7f" + "67" + "60" * 600),
    # SI, charset ISO-8859-1 (no converter in this build) but no string at all: converts successfully
    bytes.fromhex("0305040005"),
    bytes.fromhex("030504004501"),
    # WBXML 1.0 (no charset field) / charset 0 with inline strings: the default charset or the caller's meta charset applies
    bytes.fromhex("000500" + "45" + "c6" + "0b" + "036100" + "01" + "03" + "7a00" + "01" + "01"),
    bytes.fromhex("03050000" + "45" + "c6" + "0b" + "036100" + "01" + "03" + "7a00" + "01" + "01"),
]


# XML documents with CDATA sections and text that needs escaping / stripping (the corpus has a single CDATA document)
HAND_XML = [
    b'<?xml version="1.0"?><!DOCTYPE wml PUBLIC "-//WAPFORUM//DTD WML 1.1//EN" "http://www.wapforum.org/DTD/wml_1.1.xml">'
    b'<wml><card id="a"><p>  x &lt; y &amp; z  <![CDATA[ raw < & > ]]> tail &quot;q&quot; </p><p><![CDATA[second]]></p></card></wml>',
    b'<?xml version="1.0"?><!DOCTYPE SyncML PUBLIC "-//SYNCML//DTD SyncML 1.1//EN" "http://www.syncml.org/docs/syncml_represent_v11_20020213.dtd">'
    b'<SyncML><SyncHdr><VerDTD>1.1</VerDTD><SessionID>  1 &amp; 2  </SessionID></SyncHdr><SyncBody><Add><CmdID>1</CmdID><Item>'
    b'<Data><![CDATA[BEGIN:VCARD\r\nN:a<b>&c\r\nEND:VCARD]]></Data></Item></Add><Final/></SyncBody></SyncML>',
    b'<?xml version="1.0"?><!DOCTYPE si PUBLIC "-//WAPFORUM//DTD SI 1.0//EN" "http://www.wapforum.org/DTD/si.dtd">'
    b'<si><indication href="http://a/?x=1&amp;y=2">  you &lt;have&gt; \'mail\' &amp; more  </indication></si>',
]


def corpus_xml(limit):
    xs = sorted(glob.glob(os.path.join(common.REPO, "test", "tools", "**", "*.xml"), recursive=True))
    out = []
    for p in xs:
        if os.path.basename(p) == "testsuite.xml":
            continue
        b = open(p, "rb").read()
        if 0 < len(b) <= limit:
            out.append((os.path.relpath(p, common.REPO), b))
    return out


class Docs:
    """the document table shared with the harness through $C15_DOCS"""

    def __init__(self, tag):
        self.items = []          # (kind, bytes, label)
        self.path = os.path.join(common.BUILD, "c15-docs-%s-%d.txt" % (tag, os.getpid()))

    def add(self, kind, data, label):
        self.items.append((kind, data, label))
        return len(self.items) - 1

    def write(self):
        os.makedirs(common.BUILD, exist_ok=True)
        with open(self.path, "w") as f:
            for k, d, _ in self.items:
                f.write("%s %s\n" % (k, hx(d)))

    extra_env = None

    def env(self):
        e = {"C15_DOCS": self.path}
        e.update(self.extra_env or {})
        return common.run_env(e)


def build_docs(ctx, harness):
    """corpus XML, its WBXML (with and without string table), cut / corrupted variants, hand-made ones"""
    rng = Rng(ctx.seed, 151)
    docs = Docs("main")
    xmls = corpus_xml(12000 if ctx.tier == "quick" else 40000)
    if ctx.tier == "quick":
        # a spread over all directories, small documents first
        by_dir = {}
        for p, b in xmls:
            by_dir.setdefault(os.path.dirname(p), []).append((p, b))
        xmls = []
        for d in sorted(by_dir):
            xmls += sorted(by_dir[d], key=lambda pb: len(pb[1]))[:8]
    x_ids = [docs.add("x", b, p) for p, b in xmls]
    x_hand = [docs.add("x", b, "hand-made xml %d" % k) for k, b in enumerate(HAND_XML)]
    x_cdata = x_hand[:2] + [i for i in x_ids if b"<![CDATA[" in docs.items[i][1]]
    x_ids = x_ids + x_hand
    docs.write()
    lines = ["mk %d" % i for i in x_ids] + ["mk %d S" % i for i in x_ids]
    ans, crashes = common.run_lines(harness, lines, env=docs.env())
    w_ok, w_nost = [], []
    n = len(x_ids)
    for k, i in enumerate(x_ids):
        a, a2 = ans[k], ans[n + k]
        if a and a not in ("none", "bad"):
            w_ok.append(docs.add("w", bytes.fromhex(a), "wbxml(%s)" % docs.items[i][2]))
        if a2 and a2 not in ("none", "bad") and a2 != a:
            w_nost.append(docs.add("w", bytes.fromhex(a2), "wbxml-nostrtbl(%s)" % docs.items[i][2]))
    # cut off mid-way: right after a 00 xx pair in the body (SWITCH_PAGE candidates), and at random places
    w_cut, w_bad = [], []
    for i in list(w_ok) + list(w_nost):
        b = docs.items[i][1]
        cuts = set()
        sw = [p + 2 for p in range(4, len(b) - 2) if b[p] == 0 and b[p + 1] in (1, 2, 3, 4, 5, 6, 7)]
        for p in sw[:2] + ([rng.choice(sw)] if sw else []):
            cuts.add(p)
            cuts.add(p + 1)
        for _ in range(2 if ctx.tier == "quick" else 5):
            cuts.add(rng.range(1, max(1, len(b) - 1)))
        for c in sorted(cuts):
            if 0 < c < len(b):
                w_cut.append(docs.add("w", b[:c], "cut%d(%s)" % (c, docs.items[i][2])))
        for _ in range(1 if ctx.tier == "quick" else 3):
            bb = bytearray(b)
            p = rng.below(len(bb))
            bb[p] = rng.below(256)
            w_bad.append(docs.add("w", bytes(bb), "flip%d(%s)" % (p, docs.items[i][2])))
    hand = [docs.add("w", b, "hand-made %d" % k) for k, b in enumerate(HAND_WBXML)]
    # corpus documents with the charset field set to 0 (= not given: default / meta charset applies)
    w_nocs = []
    for i in w_ok[:: max(1, len(w_ok) // 12)]:
        b = docs.items[i][1]
        if len(b) > 4 and b[2] == 0x6a and b[1] < 0x80 and b[1] != 0:
            w_nocs.append(docs.add("w", b[:2] + b"\x00" + b[3:], "nocharset(%s)" % docs.items[i][2]))
    # invalid XML: truncated, unknown language, not XML at all
    x_bad = []
    for i in x_ids[:: max(1, len(x_ids) // 25)]:
        b = docs.items[i][1]
        x_bad.append(docs.add("x", b[:rng.range(1, len(b) - 1)], "cutxml(%s)" % docs.items[i][2]))
    x_bad.append(docs.add("x", b"<?xml version=\"1.0\"?><nolanguage><a/></nolanguage>", "unknown language"))
    x_bad.append(docs.add("x", b"this is not xml", "not xml"))
    x_bad.append(docs.add("x", b"<a><b></a>", "ill-formed"))
    docs.write()
    return docs, {"x": x_ids, "w": w_ok, "wn": w_nost, "cut": w_cut, "flip": w_bad, "hand": hand, "xbad": x_bad, "nocs": w_nocs,
                  "xcdata": x_cdata, "xhand": x_hand}, crashes


# ----------------------------------------------------------------------------------------------
# histories
# ----------------------------------------------------------------------------------------------

def pick_w(rng, g):
    r = rng.below(20)
    if r < 7:
        return rng.choice(g["w"])
    if r < 9 and g["wn"]:
        return rng.choice(g["wn"])
    if r < 14 and g["cut"]:
        return rng.choice(g["cut"])
    if r < 16 and g["flip"]:
        return rng.choice(g["flip"])
    if r < 18:
        return rng.choice(g["hand"])
    if r < 19:
        return rng.choice(g["x"])          # XML text fed to the WBXML parser: fails at the first stage
    return rng.choice(g["w"])


def pick_x(rng, g):
    return rng.choice(g["xbad"]) if rng.chance(1, 4) else rng.choice(g["x"])


def gen_histories(ctx, g, n):
    rng = Rng(ctx.seed, 152)
    out = []
    for k in range(n):
        kind = "PWXE"[k % 4] if k % 8 < 6 else "PEF"[k % 3]       # more parser / encoder / flow-mode encoder histories
        ops = []
        ln = rng.range(2, 8)
        for _ in range(ln):
            if kind == "P":
                if rng.chance(1, 5):
                    ops.append("L%d" % rng.choice(LANGS) if rng.chance(1, 2) else "M%d" % rng.choice([0, 3, 4, 106]))
                ops.append("d%d" % pick_w(rng, g))
            elif kind == "W":
                if rng.chance(1, 4):
                    ops.append(rng.choice(["G%d" % rng.below(3), "L%d" % rng.choice(LANGS), "C%d" % rng.choice([0, 3, 106]),
                                           "I%d" % rng.choice([0, 1, 2, 4]), "K"]))
                ops.append("d%d" % pick_w(rng, g))
            elif kind == "X":
                if rng.chance(1, 4):
                    ops.append(rng.choice(["V%d" % rng.below(4), "K", "S", "A"]))
                ops.append("d%d" % pick_x(rng, g))
            elif kind == "F":
                if rng.chance(1, 3):
                    ops.append(rng.choice(["i%d" % rng.below(2), "b%d" % rng.below(2), "a%d" % rng.below(2), "v%d" % rng.below(4),
                                           "g%d" % rng.below(3), "n%d" % rng.choice([0, 1, 2]), "p%d" % rng.below(2)]))
                src = rng.choice(g["x"]) if rng.chance(1, 2) else rng.choice(g["w"] + g["wn"])
                op = rng.choice("wxWX") + str(src)
                if rng.chance(1, 4):
                    op += "!%d" % rng.below(40)
                ops.append(op)
            else:
                if rng.chance(1, 3):
                    ops.append(rng.choice(["i%d" % rng.below(2), "b%d" % rng.below(2), "c%d" % rng.choice([0, 3, 106]),
                                           "s%d" % rng.below(2), "a%d" % rng.below(2), "v%d" % rng.below(4),
                                           "g%d" % rng.below(3), "n%d" % rng.choice([0, 1, 2, 3]),
                                           "l%d" % rng.choice(LANGS), "p%d" % rng.below(2)]))
                src = rng.choice(g["x"]) if rng.chance(1, 2) else rng.choice(g["w"] + g["wn"])
                op = ("x" if rng.chance(1, 2) else "w") + str(src)
                if rng.chance(1, 4):
                    op += ("!c%d" % rng.below(3)) if rng.chance(1, 4) else ("!%d" % rng.below(40))
                ops.append(op)
        out.append(kind + " " + " ".join(ops))
    return out


def run_robust(exe, lines, env, shards=None):
    """common.run_lines, but a crash of a shard only costs the line that crashed: the lines after it are run again.
    Returns (answers, culprits) with culprits = [{'index', 'line', 'rc', 'stderr'}]; their answer stays None."""
    ans, crashes = common.run_lines(exe, lines, env=env, shards=shards)
    culprits = []
    pending = list(crashes)
    rounds = 0
    while pending and rounds < 200:
        rounds += 1
        nxt = []
        for c in pending:
            i0, i1 = c["range"]
            bad = next((i for i in range(i0, i1) if ans[i] is None and i not in [x["index"] for x in culprits]), None)
            if bad is None:
                continue
            culprits.append({"index": bad, "line": lines[bad], "rc": c["rc"], "stderr": c["stderr"]})
            rest = list(range(bad + 1, i1))
            if rest:
                a2, c2 = common.run_lines(exe, [lines[i] for i in rest], env=env, shards=1)
                for i, a in zip(rest, a2):
                    ans[i] = a
                for cc in c2:
                    nxt.append({"rc": cc["rc"], "stderr": cc["stderr"], "range": [rest[0] + cc["range"][0], rest[0] + cc["range"][1]]})
        pending = nxt
    return ans, culprits


def systematic_histories(docs, g):
    """every hand-made / dirty document followed by representative documents (one WBXML per corpus directory, the
    charset-less variants, the hand-made complete ones), on the parser and on the wbxml2xml converter; dirty twice for
    state that accumulates"""
    reps, seen = [], set()
    for i in g["w"]:
        d = os.path.dirname(docs.items[i][2])
        if d not in seen:
            seen.add(d)
            reps.append(i)
    reps += g.get("nocs", []) + g["hand"]
    dirty = g["hand"] + g["cut"][:: max(1, len(g["cut"]) // 25)]
    out = []
    for a in dirty:
        for b in reps:
            out.append("P d%d d%d" % (a, b))
            out.append("W d%d d%d" % (a, b))
        out.append("P d%d d%d " % (a, a) + " ".join("d%d" % b for b in reps[:10]))
    # encoder: a run that FAILS where in_cdata / in_content / indent are dirty (a PI node under a CDATA node, under the
    # k-th element), reset, then text-bearing trees; every XML generation type, with and without blank stripping
    texty = g.get("xhand", []) + [i for i in g["x"][:: max(1, len(g["x"]) // 8)]]
    for gen in (0, 1, 2):
        for strip in (0, 1):
            pre = "E g%d n2 b%d i%d" % (gen, strip, strip)
            for c in g.get("xcdata", []):
                for k in (0, 1):
                    out.append("%s x%d!c%d " % (pre, c, k) + " ".join("x%d" % t for t in texty))
                    out.append("%s w%d!c%d " % (pre, c, k) + " ".join("x%d w%d" % (t, t) for t in texty[:4]))
            for c in texty[:5]:
                for k in (1, 3, 6):
                    out.append("%s x%d!%d " % (pre, c, k) + " ".join("x%d" % t for t in texty))
    # FLOW MODE encoder (wbxml_encoder_set_flow_mode; nodes fed by the caller, wbxml_encoder_get_output, reset): documents
    # of different languages and changed settings between the resets, a failed node before a reset; whole root (w/x)
    # and root opened raw + children (W/X); the header (public id / DOCTYPE) must be the one of the current document
    flow_docs = reps[:8] + g.get("xhand", [])[:2]
    for a in flow_docs:
        for b in flow_docs:
            if a != b:
                out.append("F w%d w%d x%d x%d" % (a, b, a, b))
        out.append("F x%d g1 n2 x%d v1 w%d p1 w%d a1 w%d" % (a, a, a, a, a))
        out.append("F W%d X%d W%d!3 X%d w%d!2 w%d" % (a, flow_docs[0], a, a, flow_docs[-1], a))
    return out


def doc_ids(line):
    ids = []
    for t in line.split()[1:]:
        if t[0] in "dwxWX" and t[1:2].isdigit():
            ids.append(int(t[1:].split("!")[0]))
    return ids


def payload_for(line, docs, extra):
    ids = sorted(set(doc_ids(line)))
    return {"history": line, "docs": [[i, docs.items[i][0], hx(docs.items[i][1]), docs.items[i][2]] for i in ids],
            "replay_cmd": "bin/check C15 --replay <this file>", **extra}


# ----------------------------------------------------------------------------------------------
# judging one answered history
# ----------------------------------------------------------------------------------------------

def judge(line, ans, stats):
    """returns list of (kind, detail) with kind in {'violation', 'pending:<key>'}"""
    res = []
    toks = line.split()
    kind = toks[0]
    if ans is None:
        return [("violation", {"what": "no answer (crash?)"})]
    parts = ans.split()
    runs = [t for t in toks[1:] if t[0] in "dwxWX"]
    if len(parts) != len(runs) or "bad" in parts:
        return [("violation", {"what": "harness answered %d runs for %d" % (len(parts), len(runs)), "answer": ans[:300]})]
    lang = meta = 0
    ri = 0
    for t in toks[1:]:
        if kind == "P" and t[0] == "L":
            lang = int(t[1:])
            continue
        if kind == "P" and t[0] == "M":
            meta = int(t[1:])
            continue
        if t[0] not in "dwxWX":
            continue
        a = parts[ri]
        ri += 1
        stats["runs"] += 1
        if kind == "P":
            obs, sett = a.split("~")
            r, f = obs.split("=")
            if r != f:
                res.append(("violation", {"what": "parser: document %s on the reused parser differs from the fresh parser" % t,
                                          "reused": r, "fresh": f, "run_index": ri - 1}))
            if sett != "%d,%d,1,1,1" % (lang, meta):
                res.append(("violation", {"what": "parser: settings did not persist", "object": sett,
                                          "caller": "%d,%d,1,1,1" % (lang, meta), "run_index": ri - 1}))
            if ri > 1 and int(r.split("/")[2]) > 0:
                stats["nontrivial"].add((kind, t, prev_run, lang, meta))
        elif kind in "WX":
            r, f = a.split("=")
            if r != f:
                res.append(("violation", {"what": "converter %s: document %s on the reused converter differs from a fresh one" % (kind, t),
                                          "reused": r, "fresh": f, "run_index": ri - 1}))
            if ri > 1:
                stats["nontrivial"].add((kind, t, prev_run))
        else:
            if a.startswith("T"):
                prev_run = t
                continue
            if a.startswith("X"):      # run withheld: confirmed double free on a reset encoder (pending finding D14e)
                res.append(("pending:reset-strstbl-null-double-free", {"run": t, "run_index": ri - 1}))
                prev_run = t
                continue
            obs, fl = a.split("~")
            r, f, s = obs.split("=")
            stats["flags"][fl] = stats["flags"].get(fl, 0) + 1
            if ri > 1:
                stats["nontrivial"].add((kind, t, prev_run, fl))
            if r != f:
                to_wbxml = t[0] in "wW"
                rs, fs = r.split("/")[0], f.split("/")[0]
                if s == f and any(c in fl for c in "NILU") and "S" not in fl and "O" not in fl:
                    if "N" in fl and to_wbxml and rs != "0":      # fresh succeeds, or fails later with another code
                        key = "reset-leaves-strstbl-null"
                    elif "L" in fl:
                        key = "derived-lang-survives-reset"
                    elif "U" in fl and to_wbxml:
                        key = "derived-use_strtbl-survives-reset"
                    elif "I" in fl and not to_wbxml:
                        key = "indent-survives-reset"
                    else:
                        key = None
                    if key:
                        res.append(("pending:" + key, {"run": t, "reused": r, "fresh": f, "flags": fl, "run_index": ri - 1}))
                        prev_run = t
                        continue
                res.append(("violation", {"what": "encoder: tree %s on the reset encoder differs from a newly created encoder" % t,
                                          "reused": r, "fresh": f, "repaired_reset": s, "flags": fl, "run_index": ri - 1}))
        prev_run = t
    return res


# ----------------------------------------------------------------------------------------------
# tie: struct dumps against the extracted transcriptions
# ----------------------------------------------------------------------------------------------

def tie(ctx, harness, driver, docs, g, fixed_world):
    rng = Rng(ctx.seed, 153)
    n = 150 if ctx.tier == "quick" else 1500
    lines = []
    for k in range(n):
        if k % 2 == 0:
            ops = []
            for _ in range(rng.range(1, 4)):
                if rng.chance(1, 4):
                    ops.append("L%d" % rng.choice(LANGS) if rng.chance(1, 2) else "M%d" % rng.choice([0, 3, 106]))
                ops.append("d%d" % pick_w(rng, g))
            lines.append("pd " + " ".join(ops))
        else:
            ops = []
            for _ in range(rng.range(1, 4)):
                if rng.chance(1, 3):
                    ops.append(rng.choice(["s%d" % rng.below(2), "g%d" % rng.below(3), "l%d" % rng.choice(LANGS), "c%d" % rng.choice([0, 3, 106]),
                                           "n%d" % rng.below(4), "v%d" % rng.below(4)]))
                src = rng.choice(g["x"]) if rng.chance(1, 2) else rng.choice(g["w"])
                if g.get("xcdata") and rng.chance(1, 5):
                    ops.append(("x" if rng.chance(2, 3) else "w") + str(rng.choice(g["xcdata"])) + "!c%d" % rng.below(2))
                else:
                    ops.append(("x" if rng.chance(1, 2) else "w") + str(src) + ("!%d" % rng.below(30) if rng.chance(1, 3) else ""))
            if k % 6 == 5:      # a Flow-Mode encoder: no string-table switch, runs through the node API
                ops = [o.upper() if (o[0] in "wx" and rng.chance(1, 2)) else o for o in ops if o[0] != "s"]
                lines.append("fd " + " ".join(ops))
            else:
                lines.append("ed " + " ".join(ops))
    ans, crashes = common.run_lines(harness, lines, env=docs.env())
    q, where = [], []           # driver questions, and (line index, what, expected C value)
    dirty = {}
    for li, (l, a) in enumerate(zip(lines, ans)):
        if a is None:
            continue
        parts = a.split()
        if l.startswith("pd"):
            q.append("pcreate"); where.append((li, "parser_create", parts[0][2:]))
            for p in parts[1:]:
                if not p.startswith("D:"):
                    continue
                st, post_parse, post_reinit = p[2:].split("|")
                q.append("preinit " + post_parse); where.append((li, "parser_reinit", post_reinit))
                q.append("pfresh " + post_parse); where.append((li, "parser_fresh(settings)", post_reinit))
                vals = post_parse.split(",")
                for name, idx, init in (("strstbl", 3, "0"), ("langTable", 5, "0"), ("current_tag", 7, "0"), ("public_id", 9, "1"),
                                        ("public_id_index", 10, "-1"), ("charset", 11, "0"), ("pos", 13, "0"),
                                        ("version", 14, "255"), ("tagCodePage", 15, "0"), ("attrCodePage", 16, "0"), ("nesting", 17, "0")):
                    if vals[idx] != init:
                        dirty["parser." + name] = dirty.get("parser." + name, 0) + 1
        else:
            q.append("ecreate"); where.append((li, "enc_create", parts[0][2:]))
            for p in parts[1:]:
                if not p.startswith("D:"):
                    continue
                pre, tinfo, st, post_run, post_reset = p[2:].split("|")
                tl, tc, ot = tinfo.split(",")
                q.append(("ereset_fixed " if fixed_world else "ereset ") + post_run)
                where.append((li, "enc_reset_fixed" if fixed_world else "enc_reset", post_reset))
                q.append("ederive %s %s %s %s" % (pre, tl, tc, ot)); where.append((li, "enc_derive", (pre, ot, st, post_run)))
                vals = post_run.split(",")
                for name, idx in (("output", 2), ("output_header", 3), ("current_tag", 4), ("current_node", 7), ("tagCodePage", 8), ("attrCodePage", 9),
                                  ("indent", 15), ("in_content", 16), ("in_cdata", 17), ("cdata", 18), ("strstbl_len", 20)):
                    if vals[idx] != "0":
                        dirty["encoder." + name] = dirty.get("encoder." + name, 0) + 1
                if vals[19] not in ("0", "1"):
                    dirty["encoder.strstbl(non-empty)"] = dirty.get("encoder.strstbl(non-empty)", 0) + 1
    ma, _ = common.run_lines(driver, q, shards=4)
    bad = []
    for (li, what, exp), m in zip(where, ma):
        if what == "enc_derive":
            pre, ot, st, post_run = exp
            verdict, _, mdump = (m or "bad ").partition(" ")
            mvals, cvals, pvals = mdump.split(","), post_run.split(","), pre.split(",")
            if fixed_world and verdict != "badparam":
                want = [pvals[i] for i in E_SETTING_IDX]
                want[E_SETTING_IDX.index(12)] = ot
            else:
                want = [mvals[i] for i in E_SETTING_IDX] if len(mvals) == E_NFIELDS else None
            got = [cvals[i] for i in E_SETTING_IDX]
            if want != got:
                bad.append({"function": "encoder_encode_tree (values stored into setting fields)", "history": lines[li],
                            "model": want, "c": got, "fields": E_SETTING_IDX})
            if verdict == "badparam" and st != "12":
                bad.append({"function": "encoder_encode_tree (no language)", "history": lines[li], "model": "BAD_PARAMETER", "c_status": st})
            if verdict == "mustfail" and st == "0" and not fixed_world:
                bad.append({"function": "encoder_encode_tree (NULL string-table list)", "history": lines[li], "model": "error", "c_status": st})
        elif m != exp:
            bad.append({"function": what, "history": lines[li], "model": m, "c": exp})
    return {"lines": len(lines), "comparisons": len(q), "bad": bad, "crashes": crashes, "dirty": dirty,
            "samples": [{"history": lines[i], "c": (ans[i] or "")[:400]} for i in (0, 1)]}


# ----------------------------------------------------------------------------------------------

def probe_world(harness, docs, g):
    """is the encoder of the current tree the repaired one?  (string-table list present after a reset)"""
    ans, _ = common.run_lines(harness, ["ed w%d" % g["w"][0]], shards=1, env=docs.env())
    try:
        post_reset = ans[0].split()[1].split("|")[4].split(",")
        return post_reset[19] != "0"
    except Exception:
        return False


def find_lang(docs, ids, needle):
    for i in ids:
        if needle in docs.items[i][2]:
            return i
    return None


def run(ctx):
    ctx.level = "proof"
    ctx.assumptions = [
        "pointers are abstracted (0 = NULL / identity); buffers and lists by presence and length",
        "everything a run does after the (re)initialisation is a parameter of the theorems that receives the whole object "
        "(it may read every field); that run functions assign no SETTING field other than the transcribed ones is the "
        "writers obligation over the clang AST (Gen/Structs.v)",
        "allocation failure is not modelled here (C16)",
        "flow-mode encoding (wbxml_encoder_encode_node) is not exercised by the histories (C17)",
    ]
    bad = common.forbidden_scan()
    gen_err = None
    try:
        sres = gen_structs.gen_structs()
    except common.BuildError as e:
        sres, gen_err = None, str(e)
    cres = common.coq_property(PID)
    common.proof_coverage(ctx, cres, extra_tb=[
        "translator vlib/gen_structs.py: clang 14 -ast-dump=json of src/wbxml_parser.c, wbxml_encoder.c, wbxml_conv.c (RecordDecl/FieldDecl, "
        "assignments through MemberExpr) -> coq/Gen/Structs.v",
        "harness/c15_harness.c + c15_enc.c (include the library sources to reach static functions and private structs)"])
    proof_broken = (not cres["ok"]) or bool(bad) or gen_err is not None

    harness = common.build_harness("c15_harness", sources=[os.path.join(common.VERIF, "harness", "c15_harness.c"),
                                                           os.path.join(common.VERIF, "harness", "c15_enc.c")])
    driver = common.build_driver("C15")

    stats = {"runs": 0, "nontrivial": set(), "flags": {}}
    concrete, pending, crashes_all = [], {}, []

    if getattr(ctx, "replay", None):
        rp = json.load(open(ctx.replay))
        docs = Docs("replay")
        if "history" in rp:
            top = max([d[0] for d in rp["docs"]] + [0])
            table = {d[0]: d for d in rp["docs"]}
            for i in range(top + 1):
                d = table.get(i)
                docs.add(d[1] if d else "w", bytes.fromhex(d[2]) if d and d[2] != "-" else b"", d[3] if d else "unused")
            docs.write()
            ans, crashes = common.run_lines(harness, [rp["history"]], shards=1, env=docs.env())
            print("replay:", rp["history"], "->", ans[0])
            for kind, det in judge(rp["history"], ans[0], stats):
                if kind == "violation":
                    concrete.append(payload_for(rp["history"], docs, det))
                else:
                    pending.setdefault(kind[8:], payload_for(rp["history"], docs, det))
            for c in crashes:
                concrete.append(payload_for(rp["history"], docs, {"what": "crash or sanitizer report", **c}))
        ctx.coverage.update({"evaluations": stats["runs"], "distinct_nontrivial": len(stats["nontrivial"]), "rule": "replay of one history",
                             "samples": [rp.get("history")], "traces_validated_against_impl": 0})
        for v in concrete:
            ctx.violation("history-" + v.get("what", "x")[:30], v)
        for k, v in pending.items():
            report_pending(ctx, k, v)
        return

    docs, g, crashes = build_docs(ctx, harness)
    crashes_all += crashes
    fixed_world = probe_world(harness, docs, g)

    # ---- witnesses of the refutation theorems, replayed on the C --------------------------------------------
    si = find_lang(docs, g["w"], "/si/")
    wv = find_lang(docs, g["w"], "/wv/")
    sy = find_lang(docs, g["x"], "/syncml/")
    wit_lines, wit_names = [], []
    if si is not None:
        wit_lines.append("E w%d w%d" % (si, si)); wit_names.append(("W1", "reset-leaves-strstbl-null"))
    if wv is not None and si is not None:
        wit_lines.append("E w%d w%d" % (wv, si)); wit_names.append(("W2", "derived-lang-survives-reset"))
    if sy is not None:
        wit_lines.append("E g1 n2 x%d!7 x%d" % (sy, sy)); wit_names.append(("W3", "indent-survives-reset"))
    wans, wcr = common.run_lines(harness, wit_lines, shards=1, env=docs.env())
    crashes_all += wcr
    witness_report = []
    for l, a, (wn, key) in zip(wit_lines, wans, wit_names):
        js = judge(l, a, {"runs": 0, "nontrivial": set(), "flags": {}})
        got = [k for k, _ in js]
        witness_report.append({"witness": wn, "history": l, "c": a, "verdict": got})
        for kind, det in js:
            if kind == "violation":
                concrete.append(payload_for(l, docs, det))
            else:
                pending.setdefault(kind[8:], payload_for(l, docs, det))
        # does the model's refutation witness replay on the (unrepaired) C?  second run: state flag present, results differ
        try:
            obs, fl = a.split()[-1].split("~")
            r, f, _ = obs.split("=")
            flag = {"W1": "N", "W2": "L", "W3": "I"}[wn]
            shows = flag in fl and r != f and (wn != "W1" or (r.split("/")[0] != "0" and f.split("/")[0] == "0"))
        except Exception:
            shows = False
        witness_report[-1]["replays"] = shows
        if fixed_world:
            witness_report[-1]["note"] = "repaired encoder: the witness must NOT replay"

    # ---- histories ------------------------------------------------------------------------------------------
    nh = 4000 if ctx.tier == "quick" else 50000
    hist = systematic_histories(docs, g) + gen_histories(ctx, g, nh)
    ans, culprits = run_robust(harness, hist, docs.env(), shards=common.NPROC * 2)
    for c in culprits:
        concrete.append(payload_for(c["line"], docs, {"what": "crash or sanitizer report", "rc": c["rc"], "stderr": c["stderr"]}))
    kinds = {}
    crashed = set(c["index"] for c in culprits)
    for hi, (l, a) in enumerate(zip(hist, ans)):
        kinds[l[0]] = kinds.get(l[0], 0) + 1
        if hi in crashed:
            continue
        for kind, det in judge(l, a, stats):
            if kind == "violation":
                if len(concrete) < 40:
                    concrete.append(payload_for(l, docs, det))
            else:
                k = kind[8:]
                pending.setdefault(k, payload_for(l, docs, det))
                pending[k]["count"] = pending[k].get("count", 0) + 1
    # an "X" run (withheld by the fork guard): confirm the crash in a process of its own, without the guard
    if "reset-strstbl-null-double-free" in pending:
        pl = pending["reset-strstbl-null-double-free"]
        docs.extra_env = {"C15_NO_GUARD": "1"}
        _, cr = common.run_lines(harness, [pl["history"]], shards=1, env=docs.env())
        docs.extra_env = None
        if cr and "AddressSanitizer" in cr[0].get("stderr", ""):
            pl["asan_report"] = cr[0]["stderr"][:2500]
        else:
            # the child died but the unguarded run does not: not the known double free
            concrete.append(payload_for(pl["history"], docs, {"what": "guarded run died in the child, unguarded run did not crash", "detail": cr}))
            del pending["reset-strstbl-null-double-free"]
    for c in crashes_all:
        concrete.append({"what": "crash or sanitizer report", "history": c.get("first_unanswered"),
                         "docs": [[i, docs.items[i][0], hx(docs.items[i][1]), docs.items[i][2]] for i in sorted(set(doc_ids(c.get("first_unanswered") or "")))],
                         **c})

    # ---- tie --------------------------------------------------------------------------------------------------
    t = tie(ctx, harness, driver, docs, g, fixed_world)

    ctx.coverage.update({
        "evaluations": stats["runs"],
        "distinct_nontrivial": len(stats["nontrivial"]),
        "rule": "histories of 2-8 runs with setter calls in between (splitmix64 from VERIF_SEED) over the corpus of test/tools "
                "(XML, its WBXML with and without string table, documents cut after SWITCH_PAGE and at random places, byte flips, "
                "hand-made headers/attribute-page documents, invalid XML); a run is non-trivial when it is not the first run on its "
                "object (and, for the parser, produced at least one event); distinct by (object kind, document, previous run, settings / state flags)",
        "input_distribution": {"histories": kinds, "documents": {k: len(v) for k, v in g.items()},
                               "encoder_state_flags_at_run_start": stats["flags"],
                               "dirty_fields_before_reinit_or_reset (tie histories)": t["dirty"]},
        "samples": [{"history": h, "answer": (a or "")[:300]} for h, a in list(zip(hist, ans))[:: max(1, len(hist) // 6)]][:6] + t["samples"],
        "traces_validated_against_impl": t["comparisons"],
        "tie_histories": t["lines"],
        "correspondence_disagreements": len(t["bad"]),
        "encoder_world": "repaired reset (enc_reset_fixed / enc_encode_fixed)" if fixed_world else "reset as pinned (enc_reset / enc_encode): D14 present",
        "witness_replays": witness_report,
        "struct_fields": {k: [f for f, _ in v["fields"]] for k, v in (sres or {}).items()},
    })

    # ---- verdict ---------------------------------------------------------------------------------------------
    for k, v in pending.items():
        report_pending(ctx, k, v)
    for v in concrete[:6]:
        ctx.violation("history-" + str(v.get("what", "x"))[:40], v)
    corr = list(t["bad"]) + [w for w in witness_report if w.get("replays") is (True if fixed_world else False)]
    pending_viol = [k for k in pending if not ctx.known(k) and k not in PENDING]
    if not concrete and not pending_viol:
        if proof_broken:
            ctx.violation("proof-broken", {"broken": "Properties_C15.v / Gen/Structs.v no longer check against the current tree",
                                           "failed_theorems": cres["failed"], "broken_at": cres.get("broken_at"), "forbidden": bad,
                                           "translator_error": gen_err, "log_tail": cres["log"][-3000:],
                                           "search": "%d runs in %d histories on the C: every reused-object run equalled the fresh-object run" % (stats["runs"], len(hist))},
                          found_input=False)
        if corr:
            ctx.violation("correspondence-broken", {"broken": "Model/Lifecycle.v and the C disagree on a struct dump / witness; no history was found on which the C violates the property",
                                                    "first_cases": corr[:5]}, found_input=False)
    elif corr or proof_broken:
        ctx.coverage["note"] = "also: proof broken=%s, model/C dump disagreements=%d" % (proof_broken, len(corr))


def report_pending(ctx, key, payload):
    """pending finding (D14): KNOWN-FINDING line, exit status unaffected.  If the key has been registered in
    known_findings.json use that text."""
    if ctx.known(key):
        ctx.report_known(key)
        return
    if key in PENDING:
        print("KNOWN-FINDING: property=%s %s [e.g. %s]" % (PID, PENDING[key], payload.get("history")), flush=True)
        ctx.known_hits.append(key)
        ctx.coverage.setdefault("pending_findings", {})[key] = {"example": payload, "count": payload.get("count", 1)}
    else:
        payload = dict(payload)
        payload["what"] = D14_SHAPES.get(key, key)
        ctx.violation("history-" + key, payload)
