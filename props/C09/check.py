"""C09 — published token assignments never change (wire compatibility).

1. translator: Gen/TablesData.v is regenerated from the library compiled from the current tree;
2. proof: coq/Properties/Properties_C09.v (vm_compute over Registry.registry_table x TablesData.main_table);
3. oracle on the C, independent of the Coq model: every row of the pinned registry json is replayed
   through the REAL lookups of the current library (parser's scans, wbxml_tables_*) by
   harness/c08_lookup.c and judged against the registry; the two dumps are diffed in python;
4. tie: the extracted model answers the same lines and is compared with the C.
"""
import json

from vlib import common, gen, tables

PID = "C09"


def run(ctx):
    ctx.level = "proof"
    ctx.assumptions = [
        "the pinned registry (registry/tables-0.11.10.json, Model/Registry.v) is the dump of the 0.11.10 tables made by the same dumper",
        "table names are ASCII; strcasecmp/strcmp modelled as ASCII comparison ('C' locale)",
        "a published row is 'understood identically' when its token decodes (first match, as the parser scans) to the registry's name/options/value prefix, the row is still present, and the token now written for its name is read by a registry-built peer as the same name",
    ]
    cur = gen.gen_tables()
    reg = tables.load_registry()
    bad = common.forbidden_scan()
    cres = common.coq_property(PID)
    common.proof_coverage(ctx, cres, extra_tb=["table translator: harness/dump_tables.c + vlib/gen.py (Gen/TablesData.v regenerated on this run)",
                                               "registry/tables-0.11.10.json = Model/Registry.v (committed, pinned)"])
    proof_broken = (not cres["ok"]) or bool(bad)

    # (a) diff of the two dumps (python reference lookups)
    diff = tables.registry_diff(cur, reg)

    # (b) replay of every registry row on the real lookups, and on the extracted model
    harness = common.build_harness("c08_lookup")
    driver = common.build_driver("C08")
    cases = tables.registry_cases(reg) + tables.registry_id_cases(reg)
    if getattr(ctx, "replay", None):
        rp = json.load(open(ctx.replay))
        want = rp.get("input") or (rp.get("offending_rows") or [{}])[0].get("input")
        sel = [c for c in cases if c[0] == want]
        cases = sel or cases
    lines = [c[0] for c in cases]
    ca, crashes = common.run_lines(harness, lines)
    ma, _ = common.run_lines(driver, lines, shards=4)
    offending, corr = [], []
    kinds = {}
    nrows = 0
    for (line, judge, n, what), c, m in zip(cases, ca, ma):
        kinds[what] = kinds.get(what, 0) + n
        nrows += n
        for o in judge(c):
            o["input"] = line
            offending.append(o)
        if c != m:
            corr.append({"input": line, "c": (c or "")[:300], "model": (m or "")[:300]})
    for cr in crashes:
        offending.append({"kind": "crash-or-sanitizer-report", **cr})
    hdr = [d for d in diff if d["table"] == "main"]

    rng = common.Rng(ctx.seed, 9)
    samples = []
    for _ in range(10):
        i = rng.below(len(cases))
        samples.append({"input": lines[i], "c": (ca[i] or "")[:120], "model_agrees": ca[i] == ma[i]})
    ctx.coverage.update({
        "evaluations": nrows + 29 * 4,
        "distinct_nontrivial": nrows,
        "rule": "one evaluation = one registry row replayed on the real lookup of the current library (decode direction: every row incl. the 3 masked "
                "variants of tag bytes; encode direction: every tag / attribute / extension row; namespaces both ways) + 4 header fields per language; "
                "non-trivial = the row exists in the registry (all of them); exhaustive, the seed only picks the samples shown",
        "input_distribution": kinds,
        "samples": samples,
        "traces_validated_against_impl": len(lines),
        "correspondence_disagreements": len(corr),
        "registry_rows": sum(len(tables.rows(reg, l, k) or []) for l in reg["langs"] for k in tables.KINDS),
        "current_rows": sum(len(tables.rows(cur, l, k) or []) for l in cur["langs"] for k in tables.KINDS),
        "python_dump_diff": len(diff),
    })

    # ---- verdict
    if offending or hdr:
        rows_ = offending[:20] + hdr[:20]
        ctx.violation("registry-row-changed", {
            "broken": "a published assignment is no longer understood identically by the current library",
            "input": offending[0]["input"] if offending else None,
            "replay_cmd": "echo '<input>' | <c08_lookup harness built from the current tree>  (or bin/check C09 --replay <this file>)",
            "offending_rows": rows_, "offending_total": len(offending) + len(hdr),
            "failed_theorems": cres["failed"]})
    elif diff:
        # the dump differs in a way the C replay did not show (should not happen: both read the same tables)
        ctx.violation("registry-dump-diff", {"broken": "python diff of the dumps", "offending_rows": diff[:20]}, found_input=False)
    if not (offending or hdr):
        if proof_broken:
            ctx.violation("proof-broken", {"broken": "Properties_C09.v no longer checks", "failed_theorems": cres["failed"],
                                           "broken_at": cres.get("broken_at"), "forbidden": bad, "log_tail": cres["log"][-3000:],
                                           "search": "all %d registry rows replayed on the C without a difference; python diff rows: %d" % (nrows, len(diff)),
                                           "offending_rows": diff[:20]}, found_input=False)
        if corr:
            ctx.violation("correspondence-broken", {"broken": "Model/Tables.v and the C lookups disagree; the C still reads every registry row identically",
                                                    "first_cases": corr[:5]}, found_input=False)
