"""C05 — generated XML is well-formed and denotes exactly the parsed document (and the XML half of C07).

1. proof: coq/Properties/Properties_C05.v (theorems over Model/EncXml.v + Model/XmlRead.v) rebuilt and re-checked;
2. tie: the C (ASan+UBSan build of the current tree) parses each WBXML document, DUMPS THE TREE it built, and
   serialises it; the extracted enc_xml runs on the dumped tree; outputs are compared byte for byte;
3. oracle (independent of the transcription): pyexpat must accept the C's output whenever the property's
   hypotheses hold for the dumped tree, the infoset it delivers must equal the tree's elements / attributes /
   character data (white space rule per mode, see NOTES.md), the DOCTYPE must be the language's, the in-scope
   default namespace of every token element must be the one of its code page; the extracted reader read_xml is
   run on the same text and compared with pyexpat (validates the reader model).
"""
import base64
import glob
import json
import os
import re
import xml.parsers.expat as expat

from vlib import common, gen, xmlgen
from vlib.common import Rng

PID = "C05"

MODES_FULL = [(0, 0), (1, 0), (1, 1), (1, 2), (1, 3), (1, 8), (1, 127), (1, 128), (1, 255), (2, 0)]
MODES_SMALL = [(0, 0), (1, 2), (2, 0)]

# pending findings (confirmed on the current tree, patch proposed, not yet applied), keyed by the exact shape: none at present
PENDING = {}

# findings repaired in /repo (3c772f6 D8 tree builder, 0de0008 D9 CDATA split, 32930ca D28/D29 xmlns around literal
# elements, 093ad9f D32 binary-later-text): their shapes are ordinary violations now.  `shapes` is kept for the evidence (how often the
# generators reach these shapes).


# ---------------------------------------------------------------------------------------------------------
# the dumped tree
# ---------------------------------------------------------------------------------------------------------

class Node:
    __slots__ = ("kind", "name", "attrs", "text", "children", "sub")


def unhex(h):
    return b"" if h == "-" else bytes.fromhex(h)


def parse_dump(toks):
    """toks: token list of the harness dump. Returns (langid, roots)"""
    pos = [0]

    def nx():
        t = toks[pos[0]]; pos[0] += 1; return t

    def tree():
        assert nx() == "L"
        lid = int(nx()); n = int(nx())
        return lid, [node() for _ in range(n)]

    def node():
        k = nx()
        nd = Node(); nd.kind = k; nd.name = None; nd.attrs = []; nd.text = None; nd.children = []; nd.sub = None
        if k == "E":
            t = nx()
            if t == "t":
                idx, page, tok, opts, nm = int(nx()), int(nx()), int(nx()), int(nx()), unhex(nx())
                nd.name = ("t", idx, page, tok, opts, nm)
            elif t == "l":
                nd.name = ("l", unhex(nx()))
            else:
                nd.name = ("n",)
            for _ in range(int(nx())):
                a = nx()
                if a == "t":
                    idx, nm = int(nx()), unhex(nx()); an = ("t", idx, nm)
                elif a == "l":
                    an = ("l", unhex(nx()))
                else:
                    an = ("n",)
                v = nx()
                nd.attrs.append((an, None if v == "~" else unhex(v)))
        elif k == "T":
            v = nx()
            nd.text = None if v == "~" else unhex(v)
        elif k == "S":
            nd.sub = tree()
        elif k in ("C", "P"):
            pass
        else:
            raise ValueError("node kind " + k)
        nd.children = [node() for _ in range(int(nx()))]
        return nd
    r = tree()
    assert pos[0] == len(toks)
    return r


# ---------------------------------------------------------------------------------------------------------
# hypotheses of the property, as predicates on the dumped tree
# ---------------------------------------------------------------------------------------------------------

_NS = "A-Z_a-z:\u00C0-\u00D6\u00D8-\u00F6\u00F8-\u02FF\u0370-\u037D\u037F-\u1FFF\u200C-\u200D\u2070-\u218F\u2C00-\u2FEF\u3001-\uD7FF\uF900-\uFDCF\uFDF0-\uFFFD\U00010000-\U000EFFFF"
NAME_RE = re.compile("[" + _NS + "][" + _NS + "\\-.0-9\u00B7\u0300-\u036F\u203F-\u2040]*\\Z")
CHAR_RE = re.compile("[\u0009\u000A\u000D\u0020-\uD7FF\uE000-\uFFFD\U00010000-\U0010FFFF]*\\Z")


def is_name(b):
    try:
        return NAME_RE.match(b.decode("utf-8")) is not None
    except UnicodeDecodeError:
        return False


def is_chars(b):
    try:
        return CHAR_RE.match(b.decode("utf-8")) is not None
    except UnicodeDecodeError:
        return False


def cstr(b):
    """attribute values and literal names are handed around as C strings (the parser NUL-terminates the value buffer)"""
    i = b.find(b"\0")
    return b if i < 0 else b[:i]


def name_bytes(nm):
    return nm[5] if nm[0] == "t" else cstr(nm[1])


def is_binary_elt(n):
    return n is not None and n.kind == "E" and n.name[0] == "t" and bool(n.name[4] & 1)


def hypotheses(roots, why, parent=None):
    """names are XML names, character data consists of XML characters, no element carries an attribute name twice.
    Appends the reasons to `why`; returns True when all hold."""
    ok = True
    for n in roots:
        if n.kind == "E":
            if n.name[0] == "n" or not is_name(name_bytes(n.name)):
                why.append("name"); ok = False
            seen = set()
            for an, v in n.attrs:
                nb = an[2] if an[0] == "t" else (cstr(an[1]) if an[0] == "l" else b"")
                if not is_name(nb):
                    why.append("attr-name"); ok = False
                if nb in seen:
                    why.append("dup-attr"); ok = False
                if nb == b"xmlns" or nb.startswith(b"xmlns:") or b":" in nb:
                    why.append("ns-attr"); ok = False      # literal namespace declarations / prefixed attributes: outside the tables' namespace model
                seen.add(nb)
                if v is not None and not is_chars(cstr(v)):
                    why.append("attr-chars"); ok = False
            if b":" in name_bytes(n.name) and n.name[0] == "l":
                why.append("prefixed-literal"); ok = False
        elif n.kind == "T":
            # the content of a binary-flagged element is arbitrary octets (it is rendered as base64)
            if n.text is None or (not is_binary_elt(parent) and not is_chars(n.text)):
                why.append("chars"); ok = False
            if n.children:
                why.append("children-on-text"); ok = False
        elif n.kind == "P":
            why.append("pi"); ok = False
        elif n.kind == "S":
            if not hypotheses(n.sub[1], why):
                ok = False
        if n.kind != "S" and not hypotheses(n.children, why, n):
            ok = False
    return ok


def shapes(roots, in_cdata=False, acc=None, parent=None):
    """noteworthy shapes present in the tree (sites of the repaired findings D8, D9, D28, D29)"""
    acc = set() if acc is None else acc
    if in_cdata:
        txt = b"".join(n.text or b"" for n in roots if n.kind == "T")
        if b"]]>" in txt:
            acc.add("cdata-end-in-text")
    for n in roots:
        if n.kind == "E" and n.name[0] == "l" and parent is None:
            acc.add("literal-root")
        if n.kind == "E" and n.name[0] == "t" and parent is not None and parent.kind == "E" and parent.name[0] == "l":
            acc.add("token-under-literal")
        if n.kind == "T" and is_binary_elt(parent) and n is not roots[0]:
            acc.add("binary-later-text")
        if in_cdata and n.kind == "C":
            acc.add("nested-cdata")
        if in_cdata and n.kind == "E":
            acc.add("element-in-cdata")
        if n.kind == "S":
            shapes(n.sub[1], False, acc, None)
        shapes(n.children, in_cdata or n.kind == "C", acc, n)
    return acc


# ---------------------------------------------------------------------------------------------------------
# expected infoset (specification written directly in python, from the property text)
# ---------------------------------------------------------------------------------------------------------

WS = b" \t\n\r\x0b\x0c"
MAGIC = {b"application/vnd.syncml-devinf+wbxml": b"application/vnd.syncml-devinf+xml",
         b"application/vnd.syncml.dmtnds+wbxml": b"application/vnd.syncml.dmtnds+xml"}


def norm_text(b):
    return b.replace(b"\r\n", b"\n").replace(b"\r", b"\n")


def norm_attr(b):
    return norm_text(b).replace(b"\n", b" ").replace(b"\t", b" ")


class Skip(Exception):
    """the document is outside what the property speaks about (reason in args)"""


def expected(nodes, T, lang, gen_type, keep_ws, in_cdata=False, parent=None):
    """list of ('e', name, attrs, children, page_or_None, lang) | ('t', bytes | (bytes, bytes))"""
    out = []
    first = True
    for n in nodes:
        if n.kind == "E":
            attrs = []
            if lang["attrs"] >= 0:       # languages without an attribute table: see NOTES (attributes are not part of those languages)
                for an, v in n.attrs:
                    nb = an[2] if an[0] == "t" else cstr(an[1])
                    v = cstr(v or b"")
                    attrs.append((nb, v if gen_type == 2 else norm_attr(v)))
            elif n.attrs:
                raise Skip("attributes-in-language-without-attribute-table")
            page = n.name[2] if n.name[0] == "t" else None
            out.append(("e", name_bytes(n.name), attrs, expected(n.children, T, lang, gen_type, keep_ws, False, n), page, lang))
        elif n.kind == "T":
            t = n.text
            binary = parent is not None and parent.kind == "E" and parent.name[0] == "t" and (parent.name[4] & 1)
            if in_cdata:
                t = norm_text(t)                     # raw inside the section: XML's own end-of-line handling applies in every mode
            elif binary:
                if len(t) == 0:
                    raise Skip("empty-binary")      # conversion fails (base64 of nothing): the property speaks of successful conversions
                t = base64.b64encode(t)
            else:
                if gen_type != 2:
                    if not keep_ws:
                        if all(c in WS for c in t):
                            first = False
                            continue
                        t = t.strip(WS)
                    t = norm_text(t)
                if (parent is not None and parent.kind == "E" and parent.name[0] == "t" and parent.name[2] == 1 and parent.name[3] == 0x13
                        and lang["id"] in (2001, 2101, 2201) and t in MAGIC):
                    t = (t, MAGIC[t])                # the documented <Type> rewrite: either spelling accepted
            out.append(("t", t))
        elif n.kind == "C":
            out += expected(n.children, T, lang, gen_type, keep_ws, True, n)
        elif n.kind == "S":
            sl = [l for l in T["langs"] if l["id"] == n.sub[0]]
            if not sl:
                raise Skip("embedded-tree-without-language")
            out += expected(n.sub[1], T, sl[0], gen_type, keep_ws, False, None)
        else:
            raise Skip("pi")
        first = False
    return out


def merge_text(items):
    """adjacent character data is one run"""
    out = []
    for it in items:
        if it[0] == "t" and out and out[-1][0] == "t":
            a, b = out[-1][1], it[1]
            if isinstance(a, tuple) or isinstance(b, tuple):
                a = a if isinstance(a, tuple) else (a, a)
                b = b if isinstance(b, tuple) else (b, b)
                out[-1] = ("t", (a[0] + b[0], a[1] + b[1]))
            else:
                out[-1] = ("t", a + b)
        else:
            out.append(it)
    return [it for it in out if not (it[0] == "t" and not isinstance(it[1], tuple) and it[1] == b"")]


def text_eq(exp, act):
    return act in exp if isinstance(exp, tuple) else exp == act


def strip_blank_runs(items):
    out = []
    for it in items:
        if it[0] == "t":
            v = it[1]
            v = tuple(x.strip(b" \t\n\r") for x in v) if isinstance(v, tuple) else v.strip(b" \t\n\r")
            if (v if not isinstance(v, tuple) else v[0]) == b"":
                continue
            out.append(("t", v))
        else:
            out.append(it)
    return out


def ns_of(T, lang, page):
    if lang["ns"] < 0:
        return None
    for nm, pg in T["tables"][str(lang["ns"])]["rows"]:
        if pg == page:
            return nm.encode()
    return None


def compare(exp, act, T, gen_type, inscope, path, errs):
    """exp: expected items, act: items of the pyexpat infoset (('e', name, attrs, children) | ('t', bytes))"""
    exp = merge_text(exp)
    mixed = any(it[0] == "e" for it in exp) or any(it[0] == "e" for it in act)
    if gen_type == 1 and mixed:
        exp, act = strip_blank_runs(exp), strip_blank_runs(act)     # white space between markup
    if len(exp) != len(act):
        errs.append(("children", path, [(e[0], e[1]) for e in exp][:6], [(a[0], a[1]) for a in act][:6]))
        return
    for e, a in zip(exp, act):
        if e[0] != a[0]:
            errs.append(("kind", path, e[:2], a[:2])); return
        if e[0] == "t":
            if not text_eq(e[1], a[1]):
                errs.append(("text", path, e[1], a[1])); return
        else:
            _, name, attrs, ch, page, lang = e
            if name != a[1]:
                errs.append(("name", path, name, a[1])); return
            aattrs = [(k, v) for k, v in a[2] if k != b"xmlns"]
            xm = [v for k, v in a[2] if k == b"xmlns"]
            scope = xm[0] if xm else inscope
            if sorted(attrs) != sorted(aattrs):
                errs.append(("attrs", path + [name], attrs, aattrs)); return
            if page is not None:
                want = ns_of(T, lang, page)
                if want is not None and scope != want:
                    errs.append(("namespace", path + [name], want, scope)); return
            elif xm:
                # a literal element has no code page a declaration could match
                errs.append(("namespace-on-literal", path + [name], None, xm[0])); return
            compare(ch, a[3], T, gen_type, scope, path + [name], errs)
            if errs:
                return


def pyexpat_infoset(data):
    """(doctype, root items) or raises expat.ExpatError"""
    p = expat.ParserCreate()
    p.ordered_attributes = True
    p.buffer_text = True
    p.buffer_size = 1 << 22
    root = []
    stack = [root]
    dt = []

    def se(name, attrs):
        e = ("e", name.encode(), [(attrs[i].encode(), attrs[i + 1].encode()) for i in range(0, len(attrs), 2)], [])
        stack[-1].append(e); stack.append(e[3])

    def ee(name):
        stack.pop()

    def cd(s):
        stack[-1].append(("t", s.encode()))

    def sd(name, sysid, pubid, has_internal):
        dt.append((name, sysid, pubid, has_internal))
    p.StartElementHandler, p.EndElementHandler, p.CharacterDataHandler, p.StartDoctypeDeclHandler = se, ee, cd, sd
    p.Parse(data, True)

    def merge(items):
        out = []
        for it in items:
            if it[0] == "t" and out and out[-1][0] == "t":
                out[-1] = ("t", out[-1][1] + it[1])
            elif it[0] == "e":
                out.append(("e", it[1], it[2], merge(it[3])))
            else:
                out.append(it)
        return out
    return (dt[0] if dt else None), merge(root)


def canon_infoset(dt, items):
    """canonical text of an infoset — same form as the driver's `read` answer"""
    def hx(b):
        return b.hex() if b else "-"
    out = []
    if dt is None:
        out.append("D ~")
    else:
        out += ["D", hx(dt[0].encode()), "~" if dt[2] is None else hx(dt[2].encode()), "~" if dt[1] is None else hx(dt[1].encode())]

    def go(items):
        out.append(str(len(items)))
        for it in items:
            if it[0] == "t":
                out.extend(["T", hx(it[1])])
            else:
                out.extend(["E", hx(it[1]), str(len(it[2]))])
                for k, v in it[2]:
                    out.extend([hx(k), hx(v)])
                go(it[3])
    go(items)
    return " ".join(out)


# ---- C07, XML half: relations between the generation modes (theorems c07_xml_indent_compact_e / c07_xml_compact_canonical_e,
#      Proofs/EncXmlC07e.v), checked on the pyexpat infosets of the C's outputs

XWS = b" \t\n\r"


def nb_infoset(it):
    """modulo blank text between markup: in every element that has an element child each run of character data is trimmed and
    blank runs are dropped; elements with only character data are kept exactly (nb of Proofs/EncXmlIndent.v)"""
    if it[0] == "t":
        return it
    ch = [nb_infoset(c) for c in it[3]]
    if any(c[0] == "e" for c in ch):
        ch = [c if c[0] == "e" else ("t", c[1].strip(XWS)) for c in ch]
        ch = [c for c in ch if c[0] == "e" or c[1]]
    return ("e", it[1], it[2], ch)


def eol_infoset(it):
    """the reader's own normalisation applied to a canonical reading: line ends in character data, attribute-value
    normalisation in attribute values (eol_rel of Proofs/EncXmlC07e.v, for trees without a text ending in CR directly
    before a CDATA payload starting with LF)"""
    if it[0] == "t":
        return ("t", norm_text(it[1]))
    return ("e", it[1], [(k, norm_attr(v)) for k, v in it[2]], merge_t([eol_infoset(c) for c in it[3]]))


def merge_t(items):
    out = []
    for c in items:
        if c[0] == "t" and out and out[-1][0] == "t":
            out[-1] = ("t", out[-1][1] + c[1])
        else:
            out.append(c)
    return out


def cr_before_cdata(roots):
    """the one shape where the piecewise normalisation is not the normalisation of the merged text"""
    for i, n in enumerate(roots):
        if n.kind == "T" and n.text and n.text.endswith(b"\r") and i + 1 < len(roots) and roots[i + 1].kind == "C":
            return True
        if n.kind == "S" and cr_before_cdata(n.sub[1]):
            return True
        if cr_before_cdata(n.children):
            return True
    return False


def tree_size(roots):
    """size_t of Proofs/EncXmlSize.v: bytes of names, attribute names / values and text + nodes + attributes"""
    n = 0
    for x in roots:
        n += 1
        if x.kind == "E":
            n += len(name_bytes(x.name)) if x.name[0] != "n" else 0
            for an, v in x.attrs:
                nb = an[2] if an[0] == "t" else (cstr(an[1]) if an[0] == "l" else b"")
                n += 1 + len(nb) + len(cstr(v or b""))
        elif x.kind == "T":
            n += len(x.text or b"")
        elif x.kind == "S":
            n += tree_size(x.sub[1])
        n += tree_size(x.children)
    return n


def size_bound(T, lang, roots, gen_type, indent):
    """C01x_xml_size with K = 54 (C01x_namespace_bound)"""
    hb = 47 + len(lang["root"] or "") + len(lang["dtd"] or "") + len(lang["pub_text"] or "")
    w = (indent % 256) if gen_type == 1 else 1
    return hb + tree_size(roots) * (54 + 33 + 510 * w)


def judge(T, dump_toks, gen_type, keep_ws, xml_bytes):
    """Returns (verdict, details): verdict in {'ok', 'skip', 'fail'}"""
    lid, roots = parse_dump(dump_toks)
    why = []
    if not hypotheses(roots, why):
        return "skip", {"why": sorted(set(why))}
    lang = [l for l in T["langs"] if l["id"] == lid]
    if not lang:
        return "skip", {"why": ["no-language"]}
    lang = lang[0]
    try:
        exp = expected(roots, T, lang, gen_type, keep_ws)
    except Skip as s:
        return "skip", {"why": [s.args[0]]}
    try:
        dt, act = pyexpat_infoset(xml_bytes)
    except expat.ExpatError as e:
        return "fail", {"kind": "not-well-formed", "expat": str(e)}
    errs = []
    # DOCTYPE = the language's
    want = (lang["root"] or "", lang["dtd"] or "", lang["pub_text"] or None)
    if dt is None or (dt[0], dt[1] or "", dt[2]) != want or dt[3]:
        errs.append(("doctype", want, dt))
    if len(act) != 1 or act[0][0] != "e":
        errs.append(("root", len(act)))
    else:
        compare(exp, act, T, gen_type, None, [], errs)
    if errs:
        return "fail", {"kind": errs[0][0], "detail": repr(errs[0])[:600]}
    return "ok", {"infoset": (dt, act)}


# ---------------------------------------------------------------------------------------------------------
# cases
# ---------------------------------------------------------------------------------------------------------

def corpus_wbxml(harness):
    """the project's corpus: /repo/test/tools/**/*.xml converted to WBXML through the public API (inside the harness)"""
    files = sorted(glob.glob(os.path.join(common.REPO, "test", "tools", "**", "*.xml"), recursive=True))
    files = [f for f in files if os.path.basename(f) != "testsuite.xml"]
    lines = []
    for f in files:
        lines.append("x2w %s 0" % (open(f, "rb").read().hex() or "-"))
    ans, crashes = common.run_lines(harness, lines)
    out = []
    for f, a in zip(files, ans):
        if a and a.startswith("wbxml OK "):
            out.append((os.path.relpath(f, common.REPO), bytes.fromhex(a.split()[2]) if a.split()[2] != "-" else b"", int(a.split()[3])))
    return out, len(files), crashes


def big_stack(exe):
    """the extracted model appends lists non-tail-recursively: run it with a large stack (wrapper script next to it)"""
    w = exe + "_bigstack.sh"
    common.write_if_changed(w, "#!/bin/sh\nulimit -s 4000000 2>/dev/null || ulimit -s unlimited 2>/dev/null\nexec %s\n" % exe)
    os.chmod(w, 0o755)
    return w


def gen_cases(ctx, T, harness):
    """list of dict(doc=bytes, forced=int, modes=[(gen, indent)], kind=str)"""
    cases = []
    rng = Rng(ctx.seed, 5)
    G = xmlgen.Gen(T, rng)
    langs = T["langs"]
    quick = ctx.tier == "quick"

    def add(lang, root, kind, modes):
        r = Rng(ctx.seed * 1000003 + len(cases), 6)
        if lang["pub_text"] and r.chance(1, 4):
            doc, forced = xmlgen.serialize(lang, root, version=r.range(0, 3), pubid_mode="str"), 0
        elif lang["pub_num"] != 1 and r.chance(2, 3):
            doc, forced = xmlgen.serialize(lang, root, version=r.range(0, 3)), 0
        else:
            doc, forced = xmlgen.serialize(lang, root, version=r.range(0, 3), pubid_mode=r.choice(["num", "unknown"])), lang["id"]
        cases.append({"doc": doc, "forced": forced, "modes": modes, "kind": kind})

    # corpus of minimised findings first
    cfile = os.path.join(common.VERIF, "corpus", "C05.txt")
    if os.path.exists(cfile):
        for l in open(cfile):
            l = l.strip()
            if l and not l.startswith("#"):
                f = l.split()
                cases.append({"doc": bytes.fromhex(f[0]), "forced": int(f[1]) if len(f) > 1 else 0, "modes": MODES_FULL, "kind": "corpus-findings"})
    # SyncML shapes (CDATA rule, Type rewrite, embedded documents)
    for lang, root, kind in xmlgen.syncml_shapes(T, rng):
        add(lang, root, kind, MODES_FULL if rng.chance(1, 3) or not quick else MODES_SMALL)
    # sweeps: every tag / attribute start / attribute value of every language
    for lang in langs:
        for root in G.sweep_docs(lang):
            add(lang, root, "sweep", MODES_SMALL if quick else MODES_FULL)
    # random documents, full option cross product
    nrand = 36 if quick else 400
    for lang in langs:
        for _ in range(nrand):
            add(lang, G.random_doc(lang), "random", MODES_FULL if rng.chance(1, 2) or not quick else MODES_SMALL)
    # deep nesting: the 8-bit indent field wraps at depth 256 (white space only)
    wml = [l for l in langs if l["id"] == 1104][0]
    ptag = xmlgen.tagrow(T, wml, "p")
    for depth in (30, 100, 255, 256, 257, 300):
        e = xmlgen.Elem(('t', ptag), None, [('s', b"deep")])
        for _ in range(depth):
            e = xmlgen.Elem(('t', ptag), None, [e])
        add(wml, e, "deep-%d" % depth, [(0, 0), (1, 1), (1, 2), (1, 3), (2, 0)] + ([(1, 255), (1, 128)] if depth <= 30 else []))
    # project corpus
    corp, nfiles, crashes = corpus_wbxml(harness)
    for name, doc, lid in corp:
        # public id 'unknown' (01) in the WBXML: the language has to be forced, as the project's own tests do
        pub_unknown = len(doc) > 1 and doc[1] == 1
        cases.append({"doc": doc, "forced": lid if pub_unknown else 0, "modes": MODES_FULL if (not quick or rng.chance(1, 3)) else MODES_SMALL, "kind": "corpus"})
    return cases, {"corpus_files": nfiles, "corpus_converted": len(corp)}, crashes


def run(ctx):
    ctx.level = "proof"
    ctx.assumptions = [
        "bytes are N < 256; the encoder's indent field is modelled mod 256 (WB_UTINY), the indentation loop bound indent*indent_delta without wrap (int arithmetic, WB_ULONG counter)",
        "the model starts from the tree the C built (dumped by the harness before serialisation); the tree builder itself is not modelled",
        "text, PI and embedded-tree nodes have no children (true of every tree the WBXML tree builder makes; the driver refuses other dumps)",
        "isspace() is the C-locale function (space, HT, LF, VT, FF, CR)",
        "a literal ROOT element in a language with a namespace table: the C reads the code page through the wrong union member (low byte of the literal's length on x86-64); REPAIRED in /repo (32930ca): xmlns only for token names, compared with the nearest token-named ancestor",
        "oracle reading of 'exactly the character data': exact for compact/canonical; keep-whitespace off strips each text node and drops blank ones (not inside CDATA / binary elements / canonical mode); indented generation compared modulo blank text between markup in elements that have element children; XML end-of-line and attribute-value normalisation applied to the expectation outside canonical mode and inside CDATA sections",
    ]
    bad = common.forbidden_scan()
    T = gen.gen_tables()
    cres = common.coq_property(PID)
    common.proof_coverage(ctx, cres)
    proof_broken = (not cres["ok"]) or bool(bad)

    harness = common.build_harness("c05_harness")
    driver = big_stack(common.build_driver(PID))

    if getattr(ctx, "replay", None):
        rp = json.load(open(ctx.replay))
        cases = [{"doc": bytes.fromhex(rp["wbxml"]), "forced": rp.get("forced", 0),
                  "modes": [tuple(rp["mode"])] if "mode" in rp else MODES_FULL, "kind": "replay",
                  "keep": [rp["keep_ws"]] if "keep_ws" in rp else [0, 1]}]
        cinfo, crashes0 = {}, []
    else:
        cases, cinfo, crashes0 = gen_cases(ctx, T, harness)

    # ---- C side
    lines, meta = [], []
    for ci, c in enumerate(cases):
        for (g, ind) in c["modes"]:
            for kw in c.get("keep", [0, 1]):
                lines.append("w2x %s %d %d %d %d" % (c["doc"].hex() or "-", g, ind, kw, c["forced"]))
                meta.append((ci, g, ind, kw))
    ca, crashes = common.run_lines(harness, lines)
    crashes = list(crashes0) + list(crashes)

    # ---- model side: enc on the dumped tree; read on the C's text
    mlines, midx = [], []
    for i, a in enumerate(ca):
        if a is None or not a.startswith("tree OK "):
            continue
        dump = a[8:].split(" | xml ")[0]
        ci, g, ind, kw = meta[i]
        mlines.append("enc %d %d %d %s" % (g, ind, kw, dump))
        midx.append(i)
    ma, mcr = common.run_lines(driver, mlines)
    model = {i: m for i, m in zip(midx, ma)}

    concrete, corr, pending_hits = [], [], {}
    size_bad, nsize = [], 0
    by_doc = {}          # (case, keep_ws) -> {(gen, indent): (pyexpat items, evaluation index)}
    shape_count = {}
    kinds, verdicts, skipwhy = {}, {}, {}
    nontrivial = set()
    reads = []          # (index, xml bytes, pyexpat canonical infoset or None)
    specs = []          # (index, driver line, pyexpat canonical items) for the specification side of the theorems
    nparsed = 0
    for i, a in enumerate(ca):
        ci, g, ind, kw = meta[i]
        c = cases[ci]
        kinds[c["kind"]] = kinds.get(c["kind"], 0) + 1
        if a is None:
            continue
        if not a.startswith("tree OK "):
            verdicts["parse-refused"] = verdicts.get("parse-refused", 0) + 1
            continue
        nparsed += 1
        dump, _, xr = a[8:].partition(" | xml ")
        m = model.get(i)
        cstat, _, chex = xr.partition(" ")
        if m is None or m.startswith("unsupported") or m == "bad":
            corr.append({"wbxml": c["doc"].hex(), "forced": c["forced"], "mode": [g, ind], "keep_ws": kw, "c": xr[:200], "model": m, "kind": "model-cannot-run"})
            continue
        mstat, _, mhex = m.partition(" ")
        if cstat == "OK":
            if not (mstat == "OK" and mhex == chex):
                corr.append({"wbxml": c["doc"].hex(), "forced": c["forced"], "mode": [g, ind], "keep_ws": kw, "c": xr[:400], "model": m[:400], "kind": "bytes-differ"})
        else:
            if mstat == "OK":
                corr.append({"wbxml": c["doc"].hex(), "forced": c["forced"], "mode": [g, ind], "keep_ws": kw, "c": xr[:100], "model": m[:100], "kind": "status-differ"})
            verdicts["encode-refused"] = verdicts.get("encode-refused", 0) + 1
            continue
        xml_bytes = b"" if chex == "-" else bytes.fromhex(chex)
        toks = dump.split()
        # size theorem (C01x_xml_size, Proofs/EncXmlSize.v) on the C's output
        lid0, roots0 = parse_dump(toks)
        lang0 = [l for l in T["langs"] if l["id"] == lid0]
        if lang0:
            nsize += 1
            if len(xml_bytes) > size_bound(T, lang0[0], roots0, g, ind):
                size_bad.append({"wbxml": c["doc"].hex(), "forced": c["forced"], "mode": [g, ind], "keep_ws": kw,
                                 "length": len(xml_bytes), "bound": size_bound(T, lang0[0], roots0, g, ind)})
        v, det = judge(T, toks, g, kw, xml_bytes)
        verdicts[v] = verdicts.get(v, 0) + 1
        if g == 0 and kw == 0:
            for shp in shapes(parse_dump(toks)[1]):
                shape_count[shp] = shape_count.get(shp, 0) + 1
        if v == "skip":
            for w in det["why"]:
                skipwhy[w] = skipwhy.get(w, 0) + 1
            # the reader model is still compared with pyexpat on well-formedness
            reads.append((i, xml_bytes, None))
        elif v == "ok":
            nontrivial.add((c["doc"], g, ind, kw))
            by_doc.setdefault((ci, kw), {})[(g, ind)] = (det["infoset"][1], i)
            ci_ = canon_infoset(*det["infoset"])
            reads.append((i, xml_bytes, ci_))
            specs.append((i, "spec %d %d %d %s" % (g, ind, kw, dump), " ".join(ci_.split()[4:])))
        else:
            lid, roots = parse_dump(toks)
            sh = shapes(roots)
            payload = {"wbxml": c["doc"].hex(), "forced": c["forced"], "mode": [g, ind], "keep_ws": kw, "xml": xml_bytes.decode("utf-8", "replace")[:2000],
                       "oracle": det, "kind": det["kind"], "case_kind": c["kind"]}
            payload["shapes"] = sorted(sh)
            # the binary-later-text finding (D32) was repaired in /repo (093ad9f): an ordinary violation now
            concrete.append(payload)
    for cr in crashes:
        concrete.append({"kind": "crash-or-sanitizer-report", **cr})

    # ---- C07 XML half: the generation modes denote the same document (indent ~ compact modulo blank text between markup;
    #      compact = canonical with the reader's normalisation)
    mode_bad, n_ic, n_kc = [], 0, 0
    for (ci, kw), res in by_doc.items():
        if (0, 0) not in res:
            continue
        rc = res[(0, 0)][0]
        for (g, ind), (r, i) in res.items():
            if g == 1:
                n_ic += 1
                if [nb_infoset(x) for x in r] != [nb_infoset(x) for x in rc]:
                    mode_bad.append({"kind": "indent-vs-compact", "wbxml": cases[ci]["doc"].hex(), "forced": cases[ci]["forced"], "mode": [g, ind], "keep_ws": kw})
            elif g == 2 and kw == 1:
                dump_i = ca[i][8:].split(" | xml ")[0].split()
                if cr_before_cdata(parse_dump(dump_i)[1]):
                    continue
                n_kc += 1
                if [eol_infoset(x) for x in r] != rc:
                    mode_bad.append({"kind": "canonical-vs-compact", "wbxml": cases[ci]["doc"].hex(), "forced": cases[ci]["forced"], "mode": [g, ind], "keep_ws": kw})

    # ---- reader model vs pyexpat
    rlines = ["read %s" % (x.hex() or "-") for _, x, _ in reads]
    ra, _ = common.run_lines(driver, rlines)
    read_bad = []
    nread_ok = 0
    for (i, x, want), r in zip(reads, ra):
        if want is None:
            continue
        if r != "OK " + want:
            ci, g, ind, kw = meta[i]
            read_bad.append({"xml": x.decode("utf-8", "replace")[:1500], "pyexpat": want[:600], "read_xml": (r or "")[:600],
                             "wbxml": cases[ci]["doc"].hex(), "mode": [g, ind], "keep_ws": kw})
        else:
            nread_ok += 1

    # ---- specification side of the theorems (info_node under node_ok) vs pyexpat
    sa, _ = common.run_lines(driver, [s[1] for s in specs])
    spec_bad, nspec = [], 0
    for (i, line, want), r in zip(specs, sa):
        f = (r or "").split(" ", 3)
        if len(f) < 4 or f[0] != "SPEC" or f[1] != "true" or f[2] != "true" or f[3] == "NONE":
            continue                    # hypotheses of the theorem (node_ok: stricter than the property's) do not hold
        nspec += 1
        if f[3] != want:
            ci, g, ind, kw = meta[i]
            spec_bad.append({"wbxml": cases[ci]["doc"].hex(), "mode": [g, ind], "keep_ws": kw, "spec": f[3][:600], "pyexpat": want[:600]})

    ctx.coverage.update({
        "evaluations": len(lines),
        "distinct_nontrivial": len(nontrivial),
        "rule": "one evaluation = one (WBXML document, generation mode, indent, keep-ws) tuple run on the C and on the extracted model; "
                "non-trivial = the C converted it, the hypotheses of the property hold for the dumped tree and the pyexpat oracle was applied; distinct by (document, options)",
        "input_distribution": {"by_kind": kinds, "verdicts": verdicts, "hypotheses_failed_or_outside": skipwhy, **cinfo,
                               "documents": len(cases), "parsed_by_c": nparsed},
        "samples": [{"wbxml": cases[meta[i][0]]["doc"].hex()[:200], "mode": list(meta[i][1:3]), "keep_ws": meta[i][3], "kind": cases[meta[i][0]]["kind"],
                     "c": (ca[i] or "")[-160:]} for i in range(0, len(lines), max(1, len(lines) // 12))][:14],
        "traces_validated_against_impl": len(mlines),
        "correspondence_disagreements": len(corr),
        "reader_vs_pyexpat_compared": nread_ok + len(read_bad),
        "reader_vs_pyexpat_disagreements": len(read_bad),
        "theorem_spec_vs_pyexpat_compared": nspec,
        "theorem_spec_vs_pyexpat_disagreements": len(spec_bad),
        "shapes_reached": shape_count,
        "size_bound_checked": nsize,
        "size_bound_exceeded": len(size_bad),
        "c07_indent_vs_compact_compared": n_ic,
        "c07_canonical_vs_compact_compared": n_kc,
        "c07_mode_relation_broken": len(mode_bad),
        "pending_findings": {k: len(v) for k, v in pending_hits.items()},
    })

    # ---- verdict
    for k, hits in pending_hits.items():
        print("KNOWN-FINDING: property=%s %s [pending, see props/C05/DEFECTS.md; first input wbxml=%s forced=%d mode=%s keep_ws=%d]"
              % (PID, PENDING[k], hits[0]["wbxml"], hits[0]["forced"], hits[0]["mode"], hits[0]["keep_ws"]), flush=True)
        if k not in ctx.known_hits:
            ctx.known_hits.append(k)
    seen = set()
    for v in concrete:
        if v["kind"] in seen:          # one replay per kind of failure
            continue
        seen.add(v["kind"])
        ctx.violation("c-violates-oracle-" + v["kind"], {"replay_cmd": "bin/check C05 --replay <this file>", **v})
    if read_bad:
        ctx.violation("reader-model-vs-pyexpat", {"broken": "Model/XmlRead.v read_xml disagrees with pyexpat on output of the C", "first_cases": read_bad[:3]},
                      found_input=False)
    for v in mode_bad[:2]:
        ctx.violation("c-modes-denote-different-documents-" + v["kind"], {"broken": "C07 XML half: " + v["kind"] + " relation (Proofs/EncXmlC07e.v) fails on the C's outputs", **v})
    for v in size_bad[:1]:
        ctx.violation("c-exceeds-size-bound", {"broken": "output longer than the bound of C01x_xml_size (Proofs/EncXmlSize.v)", "kind": "size-bound", **v})
    if spec_bad:
        ctx.violation("theorem-spec-vs-pyexpat", {"broken": "the infoset specified by info_e (Proofs/EncXmlEol.v) under node_ok_e differs from what pyexpat reads in the C's output",
                                                  "first_cases": spec_bad[:3]}, found_input=False)
    if not concrete:
        if proof_broken:
            ctx.violation("proof-broken", {"broken": "Properties_C05.v no longer checks", "failed_theorems": cres["failed"],
                                           "broken_at": cres.get("broken_at"), "forbidden": bad, "log_tail": cres["log"][-3000:],
                                           "search": "oracle run on %d evaluations found no failing input" % len(lines)}, found_input=False)
        if corr:
            ctx.violation("correspondence-broken", {"broken": "model EncXml.v and the C disagree; the C still satisfies the oracle on every generated case",
                                                    "first_cases": corr[:5]}, found_input=False)
    elif corr:
        ctx.coverage["note"] = "model/C disagreements also present: %d" % len(corr)
