"""C14 — concurrent conversions do not interfere with each other.

(a) proof: Model/Concurrency.v + Proofs/ConcurrencyProofs.v — for every interleaving of any number of threads
    whose steps are read-only on the shared store, each thread's outputs equal its solo outputs, and no two
    steps conflict;
(b) proof over regenerated data: vlib/gen_globals.py reads the library objects compiled from the current tree
    (shipped flags, -fPIC) with readelf/nm and writes coq/Gen/Globals.v; the theorems (vm_compute) say that
    every static object is in a read-only section, no allocated section is writable (except .data.rel.ro*),
    every import is in registry/c14_import_allowlist.json and the logging code is compiled out;
(support, exploration — not a proof) harness/c14_threads.c under ThreadSanitizer: 2-16 threads running seeded
    mixed sequences on corpus documents; any race report or any difference from the sequential run is a
    concrete violation (replay = seed, thread count, operations per thread, document list).
"""
import glob
import json
import os
import re

from vlib import common, gen_globals
from vlib.common import Rng

PID = "C14"
TSAN_ENV = {"TSAN_OPTIONS": "halt_on_error=0 exitcode=66 report_signal_unsafe=0 history_size=4"}


def pick_docs(ctx, n):
    rng = Rng(ctx.seed, 140)
    files = sorted(glob.glob(os.path.join(common.REPO, "test", "tools", "**", "*.xml"), recursive=True))
    by_dir = {}
    for f in files:
        by_dir.setdefault(os.path.basename(os.path.dirname(f)), []).append(f)
    chosen = []
    # every language directory is represented; wv (typed opaque content) most
    for d, fs in sorted(by_dir.items()):
        k = max(2, n * len(fs) // max(1, len(files)))
        for _ in range(k):
            chosen.append(rng.choice(fs))
    return list(dict.fromkeys(chosen))[: max(n, 8)]


def run_threads(exe, threads, seed, ops, listfile):
    """first pass stops at the first ThreadSanitizer report (reports are expensive and a racy library can also
    spin for ever); if it reported, a second pass with reports switched off collects output differences."""
    def once(opts, timeout):
        env = dict(os.environ)
        env["TSAN_OPTIONS"] = opts
        try:
            rc, out, err = common.sh([exe, str(threads), str(seed), str(ops), listfile], env=env, timeout=timeout)
            return rc, out, err, False
        except Exception as e:                               # timeout: the concurrent run does not terminate
            return -999, "", "timeout after %d s: %s" % (timeout, type(e).__name__), True
    rc, out, err, to = once("halt_on_error=1 exitcode=66 report_signal_unsafe=0", 300)
    env_failure = False
    for _ in range(3):
        # ThreadSanitizer itself could not start (address-space layout): not a property of the library; try again
        if "FATAL: ThreadSanitizer" in err or "unexpected memory mapping" in err:
            env_failure = True
            rc, out, err, to = once("halt_on_error=1 exitcode=66 report_signal_unsafe=0", 300)
            if not ("FATAL: ThreadSanitizer" in err or "unexpected memory mapping" in err):
                env_failure = False
        else:
            break
    if env_failure:
        return {"threads": threads, "seed": seed, "ops": ops, "rc": 0, "diffs": [], "tsan": [], "done": "UNAVAILABLE (ThreadSanitizer could not start: %s)" % err.strip()[:200],
                "hang": False, "stderr_tail": err[-500:], "unavailable": True}
    reports = []
    if "ThreadSanitizer" in err:
        for blk in err.split("=================="):
            if "WARNING: ThreadSanitizer" in blk:
                reports.append(blk.strip()[:2500])
    hang = to
    if reports or to:
        rc2, out2, err2, to2 = once("report_bugs=0 exitcode=0", 60)
        hang = hang or to2
        if not to2:
            out = out2
    diffs = [l for l in out.split("\n") if l.startswith("DIFF")]
    done = [l for l in out.split("\n") if l.startswith("DONE")]
    return {"threads": threads, "seed": seed, "ops": ops, "rc": rc, "diffs": diffs, "tsan": reports, "done": done[0] if done else None,
            "hang": hang, "stderr_tail": err[-1500:] if (rc not in (0, 1, 66) or not done) else ""}


def summarize_race(report):
    """first two frames that lie in the library, and the location line"""
    lines = report.split("\n")
    loc = [l.strip() for l in lines if l.strip().startswith("Location is")]
    fr = [l.strip() for l in lines if re.match(r"\s+#\d+ ", l) and ("/src/wbxml_" in l or "wbxml_" in l)]
    return {"headline": lines[0].strip() if lines else "", "location": loc[:1], "library_frames": fr[:4]}


def run(ctx):
    ctx.level = "proof"
    ctx.assumptions = [
        "MODELLING ASSUMPTION linking (b) to the premise of (a): C code can only write static storage that lives in a writable section, "
        "heap objects it holds a pointer to, and its own stack; with no writable static storage in the library the shared store is read-only",
        "each thread works on its own converter/parser/encoder/tree objects and its own input buffers (the property's quantifier)",
        "the ELF loader maps .data.rel.ro* read-only after relocation (RELRO, the default of the platform's linker)",
        "imported libc/Expat entry points behave as the glibc manual's MT-safety annotations and Expat's threading rule say (registry/c14_import_allowlist.json, reviewed by hand); "
        "isspace/strcasecmp/strtol/sprintf read the process locale: safe unless some other code calls setlocale concurrently",
        "objects are compiled with the shipped flags (-O2 -g -DNDEBUG -fPIC) and the default CMake options; WBXML_LIB_VERBOSE is off (checked: wbxml_log.o defines nothing)",
    ]
    # ---- (b) translator
    inv = gen_globals.gen_globals()
    off = gen_globals.offenders(inv)
    # ---- proofs
    bad = common.forbidden_scan()
    cres = common.coq_property(PID)
    common.proof_coverage(ctx, cres, extra_tb=[
        "binutils readelf/nm and vlib/gen_globals.py (translator from the compiled objects to Gen/Globals.v)",
        "the hand-reviewed allow-list registry/c14_import_allowlist.json",
        "ThreadSanitizer (gcc -fsanitize=thread) for the exploration harness — support only",
        "the link from the section inventory to the read-only premise is an assumption, not a theorem"])
    proof_broken = (not cres["ok"]) or bool(bad)

    # ---- exploration under ThreadSanitizer
    exe = common.build_harness("c14_threads", flavor="tsan", libs=("-lexpat", "-lpthread"))
    os.makedirs(os.path.join(common.BUILD, "tmp"), exist_ok=True)
    runs = []
    if getattr(ctx, "replay", None):
        rp = json.load(open(ctx.replay))
        rp = rp.get("interfering_pair") or rp
        docs = [os.path.join(common.REPO, d) for d in rp.get("documents") or []] or pick_docs(ctx, 40)
        plan = [(rp.get("threads") or 4, rp.get("harness_seed") or ctx.seed, rp.get("ops") or 120)]
    else:
        docs = pick_docs(ctx, 40 if ctx.tier == "quick" else 120)
        rng = Rng(ctx.seed, 141)
        if ctx.tier == "quick":
            plan = [(n, rng.below(1 << 30), 120) for n in (2, 3, 4, 6, 8, 12, 16, 16)]
        else:
            plan = [(n, rng.below(1 << 30), 400) for n in range(2, 17) for _ in range(4)]
    listfile = os.path.join(common.BUILD, "tmp", "c14_docs_%d_%d.txt" % (os.getpid(), ctx.seed))
    with open(listfile, "w") as f:
        f.write("\n".join(docs) + "\n")
    for n, s, ops in plan:
        runs.append(run_threads(exe, n, s, ops, listfile))
        if runs[-1]["tsan"] or runs[-1]["diffs"] or runs[-1]["hang"] or runs[-1]["rc"] != 0:
            break                                            # one interfering pair is enough
    os.unlink(listfile)

    total_ops = sum(r["threads"] * r["ops"] for r in runs)
    nontrivial = 0
    for r in runs:
        m = re.search(r"nontrivial=(\d+)", r["done"] or "")
        nontrivial += int(m.group(1)) if m else 0            # counted once per operation, in the sequential reference pass
    rel = [os.path.relpath(d, common.REPO) for d in docs]
    ctx.coverage.update({
        "evaluations": total_ops + len(inv["objects"]) + len(inv["sections"]) + len(inv["imported"]),
        "distinct_nontrivial": nontrivial,
        "rule": "evaluations = operations executed concurrently under ThreadSanitizer and compared with the sequential run, plus the symbols / sections / imports "
                "checked by the theorems over Gen/Globals.v; non-trivial = operations whose sequential reference produced output bytes or more than two parser events",
        "input_distribution": {"thread_counts": [r["threads"] for r in runs], "ops_per_thread": [r["ops"] for r in runs],
                               "documents": len(docs), "document_dirs": sorted(set(os.path.basename(os.path.dirname(d)) for d in docs)),
                               "operation_kinds": "xml2wbxml, wbxml2xml, parser with callbacks, tree+encoder (both outputs), tree-api+encoder, flow-mode encoder (encode_node per child, delete_last_node, get_output), tree build API (add_xml_elt_with_attrs / add_text / add_cdata / extract_node, then both encodings), conversions of damaged documents; uniform by seed",
                               "static_objects": len(inv["objects"]), "allocated_sections": len(inv["sections"]), "imports": len(inv["imported"])},
        "samples": [{"threads": r["threads"], "harness_seed": r["seed"], "result": r["done"]} for r in runs[:6]] +
                   [{"object": "%s:%s" % (o["file"], o["name"]), "section": o["section"], "bind": o["bind"], "size": o["size"]} for o in inv["objects"][:: max(1, len(inv["objects"]) // 6)]][:7] +
                   [{"import": s} for s in inv["imported"][:3]],
        "traces_validated_against_impl": sum(r["threads"] for r in runs),
        "globals_inputs_hash": inv["inputs_hash"],
        "imports": inv["imported"],
        "partial": "real schedules: the ThreadSanitizer harness explores the schedules the machine happens to produce (exploration support, not proof); "
                   "the proved part is (a) the generic theorem and (b) the section/import inventory of the current objects",
        "exploration_label": "support (search for a concrete interfering pair), level stays `proof` for (a)+(b)",
        "exploration_runs_unavailable": sum(1 for r in runs if r.get("unavailable")),
        "tsan_reports": sum(len(r["tsan"]) for r in runs),
        "output_differences": sum(len(r["diffs"]) for r in runs),
    })

    # ---- verdict
    racy = [r for r in runs if r["tsan"] or r["diffs"] or r["hang"] or r["rc"] not in (0,) or not r["done"]]
    pair = None
    if racy:
        r = racy[0]
        pair = {"threads": r["threads"], "harness_seed": r["seed"], "ops": r["ops"], "documents": rel,
                "output_differences": r["diffs"][:5], "tsan": [summarize_race(x) for x in r["tsan"][:3]], "tsan_first_report": (r["tsan"] or [""])[0][:2500],
                "rc": r["rc"], "did_not_terminate": r["hang"], "stderr_tail": r.get("stderr_tail", ""),
                "replay_cmd": "bin/check C14 --replay <this file>   (or: %s %d %d %d <file listing `documents`>)" % (os.path.basename(exe), r["threads"], r["seed"], r["ops"])}
    if off:
        # obligation (b) is broken by a concrete symbol: that symbol is the replay; the harness adds an interfering pair if it found one
        thm = {"writable-static-object": ["C14_all_static_objects_readonly", "C14_no_object_in_writable_section"],
               "writable-allocated-section": ["C14_no_writable_allocated_section"], "import-not-allowed": ["C14_imports_allowed"],
               "logging-code-compiled-in": ["C14_logging_compiled_out"]}
        for o in off[:5]:
            ctx.violation("static-state-" + o["kind"], {"offending": o, "broken_theorems": thm.get(o["kind"]), "proof_check_ok": cres["ok"], "interfering_pair": pair,
                                                        "how_to_see": "readelf -sW / -SW on build/c/<hash>-plain/obj/%s" % o.get("file", "*.o")})
    elif racy:
        ctx.violation("concurrent-run-differs-or-races", pair)
    if not off and proof_broken:
        ctx.violation("proof-broken", {"broken": "Properties_C14.v no longer checks", "failed_theorems": cres["failed"], "broken_at": cres.get("broken_at"),
                                       "forbidden": bad, "log_tail": cres["log"][-3000:],
                                       "search": "inventory shows no offending symbol; %d concurrent operations found no race or difference" % total_ops}, found_input=False)
    if inv["nm_vs_readelf"]:
        ctx.coverage["note"] = "nm -u and readelf disagree on: %r" % inv["nm_vs_readelf"]
