"""C01 — WBXML-to-XML conversion is total, memory-safe and bounded on arbitrary bytes.

proved (coq/Properties/Properties_C01.v): totality of the parser model with linear fuel, cursor invariant,
  nesting bound, result contract of the conversion model — see the theorem file;
partial (what no model can exhibit): memory safety / leaks / heap and stack use of the compiled C — supported by
  the sanitizer-backed exploration below (ASan+UBSan+LSan build of the current tree, input in read-only memory
  ending at a guard page, library heap accounting, painted 8 MiB stack).
"""
import json
import os

from vlib import common, convcases as cc
from vlib.common import Rng

PID = "C01"
HEAP_LIN = 256          # bytes of library heap per byte of (input + output) on success
HEAP_QUAD = 256         # … per (input length)^2 + input length in every case (fixed polynomial)
HEAP_C0 = 1 << 16
STACK_MAX = 4 << 20     # half of the default 8 MiB stack, measured on the ASan build (larger frames than -O2)


def judge(line, a, n_in):
    """independent oracle for one answer of the harness: list of violated clauses"""
    bad = []
    d = cc.parse_answer(a)
    if d is None:
        return ["no answer (crash / sanitizer abort / timeout)"], None
    api = line.split(" ")[1]
    if d["st"] == 0:
        if d["null_out"] or d["untouched_out"]:
            bad.append("success without output")
        elif not d["nul"]:
            bad.append("output not NUL-terminated at the reported length")
        if d["peak"] > HEAP_LIN * (n_in + d["len"]) + HEAP_C0:
            bad.append("heap use %d exceeds %d*(in+out)+%d" % (d["peak"], HEAP_LIN, HEAP_C0))
    else:
        if not d["null_out"]:
            bad.append("error code %d but output pointer not null" % d["st"])
        if d["len"] != 0 and api != "nolen":
            bad.append("error code %d but length %d" % (d["st"], d["len"]))
    if d["peak"] > HEAP_QUAD * (n_in * n_in + n_in) + HEAP_C0:
        bad.append("heap use %d exceeds the fixed polynomial of the input length" % d["peak"])
    if d["leak"]:
        bad.append("leak reported by LeakSanitizer")
    if d["held"]:
        bad.append("library still holds %d bytes after returning" % d["held"])
    if d["stack"] > STACK_MAX:
        bad.append("stack use %d exceeds %d" % (d["stack"], STACK_MAX))
    return bad, d


def gen_cases(ctx, corpus, quick):
    rng = Rng(ctx.seed, 101)
    cases = []   # (line, kind)
    langs = [0] + list(range(1, 30))
    charsets = [0, 3, 4, 106, 1000, 1015, 17, 2026]
    docs = [bytes.fromhex(h) for _, h in corpus]

    def opts():
        gen = rng.below(3)
        ind = rng.choice([0, 1, 2, 3, 8, 127, 128, 255]) if gen == 1 else rng.below(256)
        return dict(api=rng.choice(cc.W2X_APIS), lang=rng.choice(langs) if rng.chance(1, 4) else 0,
                    charset=rng.choice(charsets) if rng.chance(1, 4) else 0, gen=gen, indent=ind, keep=rng.below(2))
    # corpus under a few option tuples each
    for d in docs:
        for _ in range(2 if quick else 12):
            cases.append((cc.w2x_line(d, **opts()), "corpus"))
    # the project's fuzz files
    import glob
    for f in sorted(glob.glob(os.path.join(common.REPO, "test", "fuzz", "*.fuzz"))):
        b = open(f, "rb").read()
        for g in (0, 1, 2):
            cases.append((cc.w2x_line(b, gen=g, indent=2), "fuzzfile"))
    # mutations of corpus documents (truncated, flipped, over-long fields …)
    for _ in range(4000 if quick else 40000):
        d = rng.choice(docs)
        for _ in range(rng.range(1, 3)):
            d = cc.mutate(rng, d)
        cases.append((cc.w2x_line(d, **opts()), "mutated"))
    # every prefix of a few documents
    for d in rng and [rng.choice(docs) for _ in range(3 if quick else 40)]:
        for k in range(len(d)):
            cases.append((cc.w2x_line(d[:k], gen=rng.below(3), indent=1), "prefix"))
    # random bytes, with and without a plausible header
    for _ in range(1500 if quick else 15000):
        b = rng.bytes(rng.range(1, 60))
        if rng.chance(1, 2):
            b = bytes([rng.below(4), rng.choice([1, 2, 4, 0x0a, 0x0b, 0x0f, 0x10, 0x11, 0x12]), rng.choice([3, 106, 4]), 0]) + b
        cases.append((cc.w2x_line(b, **opts()), "random"))
    # grammar stream: documents generated from the WBXML grammar over every language's tables (the C04 generators),
    # well-formed and not, plus their field corruptions — here under all option tuples and on the sanitizer harness
    try:
        from vlib import gen as _gen, parser_gen as pg, parser_streams as ps
        T = pg.Tables(_gen.gen_tables())
        gdocs = [ps.doc_case(x, "g") for x in pg.systematic_docs(T)]
        gdocs += [ps.doc_case(x, "g") for x in ps.grammar_docs(ctx.seed, T, 6 if quick else 80, stream=140)]
        gdocs += [ps.doc_case(x, "g") for x in ps.grammar_docs(ctx.seed, T, 3 if quick else 40, stream=141, wf=False)]
        for c in gdocs:
            o = opts()
            if c["forced"]:
                o["lang"] = c["forced"]
            if c["meta"]:
                o["charset"] = c["meta"]
            cases.append((cc.w2x_line(c["bytes"], **o), "grammar"))
            if rng.chance(1, 3) and c["bytes"]:
                cases.append((cc.w2x_line(cc.mutate(rng, c["bytes"]), **o), "grammar-mutated"))
    except ImportError:
        pass
    # typed payloads: arbitrary OPAQUE / inline payloads (lengths 0..9, all bits set incl. reserved ones, zeros, BCD and
    # random bytes) in every element / attribute the library decodes in a typed way (from the behavioural probe of the
    # current tree), and attribute lists / PIs with valueless or reserved value items after an ordinary value
    try:
        from vlib import gen as _gen3, gen_hardwired as _gh
        tj = _gen3.tables_json()
        for b, forced in cc.typed_payload_docs(rng, tj, _gh.probe()["dec"], per_elem=(10 if quick else 60)):
            o = opts()
            if forced:
                o["lang"] = forced
            cases.append((cc.w2x_line(b, **o), "typed-payload"))
        for b, forced in cc.attr_extension_docs(tj):
            o = opts()
            if forced:
                o["lang"] = forced
            cases.append((cc.w2x_line(b, **o), "attr-extension"))
    except ImportError:
        pass
    # SyncML shapes of the XML-generator development: CDATA sections (one-byte / empty / ']]>' payloads, several content
    # items, elements inside <Data>), <Type> rewrite, embedded DevInf / DM documents, binary-flagged elements
    try:
        from vlib import gen as _gen2, xmlgen
        T2 = _gen2.tables_json()
        for lang, root, kind in xmlgen.syncml_shapes(T2, Rng(ctx.seed, 103)):
            b = xmlgen.serialize(lang, root)
            for g, i in ((0, 0), (1, 2), (2, 0)):
                cases.append((cc.w2x_line(b, gen=g, indent=i, keep=rng.below(2)), "syncml-shapes"))
        for l in open(os.path.join(common.VERIF, "corpus", "C05.txt")):
            f = l.split()
            if f and not f[0].startswith("#"):
                cases.append((cc.w2x_line(bytes.fromhex(f[0]), lang=int(f[1]) if len(f) > 1 else 0, gen=rng.below(3), indent=1), "syncml-shapes"))
        # one-byte and empty content items in a CDATA'd <Data> (boundary of the ']]>' scan)
        langs2 = {l["id"]: l for l in T2["langs"]}
        for lid in (2001, 2101, 2201):
            for items in ([('s', b"x")], [('o', b"x")], [('s', b"]")], [('s', b"x"), ('s', b"y")], [('s', b"")], [('s', b"xy")], [('s', b"]]")]):
                for cmd in ("Add", "Replace"):
                    b = xmlgen.serialize(langs2[lid], xmlgen.syncml_doc(T2, langs2[lid], cmd, b"text/x-vcard", items))
                    cases.append((cc.w2x_line(b, gen=rng.below(3), indent=1, keep=rng.below(2)), "syncml-shapes"))
    except (ImportError, FileNotFoundError):
        pass
    # nesting at the limit, width, string-table blow-up, indentation products around 256
    L = 1000
    for n in (L - 1, L, L + 1, L + 2, 5000, 60000):
        for g, i in ((0, 0), (1, 1), (2, 0)):
            cases.append((cc.w2x_line(cc.deep_wml(n), gen=g, indent=i), "deep"))
        cases.append((cc.w2x_line(cc.deep_wml(n, close=False), gen=1, indent=1), "deep"))
    for depth, ind in ((127, 2), (128, 2), (129, 2), (255, 1), (256, 1), (257, 1), (2, 127), (2, 128), (3, 255), (300, 255)):
        cases.append((cc.w2x_line(cc.deep_wml(depth), gen=1, indent=ind), "indent-product"))
    for n in (1000, 100000 if quick else 150000):   # building n siblings is quadratic in time (sibling-list walk): time is not part of the property
        for g, i in ((0, 0), (1, 2)):
            cases.append((cc.w2x_line(cc.wide_wml(n), gen=g, indent=i), "wide"))
    # embedded documents: chains (each embedded parse has its own nesting limit) and documents multiplied through the
    # string table at every embedding level (found by the parser development; bounded since WBXML_MAX_EMBEDDED_DEPTH)
    for k in (1, 2, 3, 60, 4000, 12000):
        cases.append((cc.w2x_line(cc.embedded_chain(k), gen=rng.below(3), indent=1), "embedded"))
    for lv, k in ((2, 8), (4, 8), (7, 8), (12, 8), (30, 4)):
        cases.append((cc.w2x_line(cc.embedded_bomb(lv, k), gen=0), "embedded"))
    for k, m in ((300, 300), (2000, 2000) if quick else (6000, 6000)):
        cases.append((cc.w2x_line(cc.strtbl_blowup(k, m), gen=0), "strtbl-blowup"))
        cases.append((cc.w2x_line(cc.strtbl_blowup(k, m)[:-2], gen=0), "strtbl-blowup"))
    return cases


def run(ctx):
    ctx.level = "proof"
    ctx.assumptions = [
        "memory safety, leaks, heap and stack use are properties of the compiled C and of its runtime: they are explored (sanitizer build, "
        "read-only input at a guard page, heap accounting of the library's allocations, painted 8 MiB stack), not proved — labelled partial",
        "heap bound checked: peak <= %d*(in+out)+%d on success and <= %d*(in^2+in)+%d always (library allocations only)" % (HEAP_LIN, HEAP_C0, HEAP_QUAD, HEAP_C0),
        "stack bound checked on the ASan build (frames larger than the shipped -O2 build): <= %d bytes" % STACK_MAX,
    ]
    bad = common.forbidden_scan()
    cres = common.coq_properties([PID, "C01_parser", "C01_xmlsize", "C01_conv"])
    common.proof_coverage(ctx, cres)
    proof_broken = (not cres["ok"]) or bool(bad)

    harness = common.build_harness("c01_harness", tag="-vfmem", libs=("-lexpat", "-lpthread"))
    quick = ctx.tier == "quick"
    corpus = cc.corpus_wbxml(harness)
    if getattr(ctx, "replay", None):
        rp = json.load(open(ctx.replay))
        cases = [(rp["input"], "replay")] if "input" in rp else []
    else:
        pre = []
        cp = os.path.join(common.VERIF, "corpus", "C01.txt")
        if os.path.exists(cp):
            pre = [(l.rstrip("\n"), "kept") for l in open(cp) if l.strip() and not l.startswith("#")]
        cases = pre + gen_cases(ctx, corpus, quick)
    lines = [c[0] for c in cases]
    # hang-prone / heavy cases run in their own processes with a short time limit
    heavy = [i for i, c in enumerate(cases) if c[1] in ("deep", "indent-product", "wide", "strtbl-blowup", "embedded", "replay", "kept")]
    light = [i for i in range(len(cases)) if i not in set(heavy)]
    answers = [None] * len(cases)
    la, lcr = common.run_lines(harness, [lines[i] for i in light], timeout=(900 if quick else 3000))
    for i, a in zip(light, la):
        answers[i] = a
    ha, hcr = common.run_lines(harness, [lines[i] for i in heavy], shards=max(1, len(heavy)), timeout=(120 if quick else 600))
    for i, a in zip(heavy, ha):
        answers[i] = a

    kinds, viol, nontrivial, ok_n, err_n = {}, [], set(), 0, 0
    maxima = {"peak_ratio": 0.0, "stack": 0}
    for (line, kind), a in zip(cases, answers):
        kinds[kind] = kinds.get(kind, 0) + 1
        n_in = 0 if line.endswith(" -") else len(line.rsplit(" ", 1)[1]) // 2
        b, d = judge(line, a, n_in)
        if d:
            ok_n += d["st"] == 0
            err_n += d["st"] != 0
            if d["allocs"] > 20:
                nontrivial.add(line.rsplit(" ", 1)[1])
            maxima["peak_ratio"] = max(maxima["peak_ratio"], d["peak"] / (n_in + d["len"] + 1))
            maxima["stack"] = max(maxima["stack"], d["stack"])
        if b:
            viol.append({"input": line, "kind": kind, "clauses": b, "answer": a})
    crash_info = (lcr + hcr)[:3]
    # ---- tie of the concrete conversion model (Model/ConvConcrete.v: parser + tree builder + XML generator under the
    #      option tuple) to wbxml_conv_wbxml2xml_run: status, length, NUL terminator and the exact output bytes
    conv = None
    if not getattr(ctx, "replay", None):
        try:
            from vlib import convmodel
            conv = convmodel.correspond(ctx.seed, quick)
        except common.BuildError:
            raise
        except ImportError:
            pass
    if conv is not None:
        ctx.coverage["conversion_model_tie"] = {k: conv[k] for k in ("evaluations", "soft", "accepted_by_c", "distribution", "bound_checked", "bound_exceeded", "bound_examples_pinned") if k in conv}
        if conv.get("bound_exceeded"):
            viol.append({"input": str(conv.get("bound_samples", ""))[:4000], "kind": "output-exceeds-proved-bound", "clauses": ["output longer than the proved polynomial bound (C01c_output_size_cubic)"], "answer": str(conv.get("bound_exceeded"))})
        ctx.coverage["conversion_model_tie"]["disagreements"] = len(conv.get("disagreements", []))
        for c in (conv.get("crashes") or [])[:3]:
            viol.append({"input": str(c.get("input", c))[:4000], "kind": "conversion-tie-crash", "clauses": ["crash / sanitizer report in wbxml_conv_wbxml2xml_run"], "answer": str(c)[:1500]})
    ctx.coverage.update({
        "evaluations": len(cases) + (conv["evaluations"] if conv else 0), "distinct_nontrivial": len(nontrivial),
        "rule": "documents = project corpus converted by the library + mutations (truncation, flips, huge length/index fields, duplication, "
                "inserted global tokens) + every prefix of sampled documents + random bytes + nesting at L-1..L+2 and far beyond + width "
                "+ string-table blow-up + indent*depth around 256, each under random option tuples (29 forced languages + none, charset "
                "overrides, 3 modes, indent, keep-ws, 4 API variants); non-trivial = the library performed > 20 allocations (got past the header); distinct by document",
        "input_distribution": kinds, "successes": ok_n, "errors": err_n, "maxima": maxima,
        "samples": [{"input": l[:160], "answer": a} for (l, _), a in list(zip(cases, answers))[:: max(1, len(cases) // 10)]][:12],
        "traces_validated_against_impl": len(cases),
    })
    for v in viol[:6]:
        ctx.violation("c-" + v["clauses"][0][:40], {"replay_cmd": "bin/check C01 --replay <this file>", "sanitizer": crash_info, **v})
    if not viol and conv is not None and conv.get("disagreements"):
        ctx.violation("conversion-correspondence-broken", {"broken": "Model/ConvConcrete.v and wbxml_conv_wbxml2xml_run disagree on status, length or output bytes; the sanitizer-backed exploration found no input violating the property's own clauses",
                                                            "first_cases": [{k: str(v)[:1500] for k, v in d.items()} for d in conv["disagreements"][:3]],
                                                            "replay_cmd": "python3 -m vlib.convmodel"}, found_input=False)
    if not viol and proof_broken:
        ctx.violation("proof-broken", {"broken": "Properties_C01.v / Properties_C01_parser.v / Properties_C01_xmlsize.v / Properties_C01_conv.v no longer check", "failed_theorems": cres["failed"],
                                       "broken_at": cres.get("broken_at"), "forbidden": bad, "log_tail": cres["log"][-3000:],
                                       "search": "sanitizer-backed exploration of %d cases found no failing input" % len(cases)}, found_input=False)
