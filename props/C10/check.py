"""C10 — every language is recognised from its own identifiers; forcing always wins.

1. translator: Gen/TablesData.v regenerated from the library compiled from the current tree;
2. proof: coq/Properties/Properties_C10.v;
3. tie: minimal documents per language and route through the real entry points
   (wbxml_parser_parse with a start-document handler, wbxml_conv_wbxml2xml_run, wbxml_conv_xml2wbxml_run;
   29 languages x routes x {no forcing, forcing each language, forcing an unregistered id}) vs the extracted model;
4. oracle (python, from tables.json and the property's wording only): which language must be chosen.
"""
import json
import re

from vlib import common, gen, tables, langselect

PID = "C10"

# F1/F2 of DEFECTS.md (namespaced MetInf root, DRMREL root) are fixed in /repo (8a5d5ba, D30): nothing is pending, the old
# behaviour is an ordinary violation
PENDING = {}


def run(ctx):
    ctx.level = "proof"
    ctx.assumptions = [
        "main table = entries before the sentinel; every entry has a publicID (checked on the C: both loop conditions end at the same index)",
        "strcasecmp / strncasecmp modelled as ASCII case folding ('C' locale); public ids in the string table are delivered only for US-ASCII / UTF-8 documents (no charset converter in this build configuration)",
        "Expat's namespace-expanded localName of the root ('namespace:local') is computed by the test generator and handed to the model; Expat itself is not modelled",
        "forcing an id that is not registered is an error (model and C); the property is silent about it",
    ]
    cur = gen.gen_tables()
    bad = common.forbidden_scan()
    cres = common.coq_property(PID)
    common.proof_coverage(ctx, cres, extra_tb=["table translator: harness/dump_tables.c + vlib/gen.py (Gen/TablesData.v regenerated on this run)"])
    proof_broken = (not cres["ok"]) or bool(bad)

    harness = common.build_harness("c10_harness")
    driver = common.build_driver("C10")
    rng = common.Rng(ctx.seed, 10)
    wc = langselect.wbxml_cases(cur, rng)
    xc = langselect.xml_cases(cur, rng)
    cc = langselect.conv_cases(cur, rng)
    rc_ = langselect.reuse_cases(cur, rng)
    if getattr(ctx, "replay", None):
        rp = json.load(open(ctx.replay))
        want = set(o.get("input") for o in [rp] + list(rp.get("cases", [])) if o.get("input"))
        wc = [c for c in wc if c["line"] in want] or ([dict(line=w, oracle=None, kind="replay", lang=0, route="replay", forced=0) for w in want if w.startswith("w ")])
        xc = [c for c in xc if c["line"] in want]
        cc = [c for c in cc if c["line"] in want]
        rc_ = [c for c in rc_ if c["line"] in want]

    concrete, corr, soft = [], [], 0
    kinds = {}
    nontrivial = set()

    # sentinel assumption on the C
    ma_, _ = common.run_lines(harness, ["m"], shards=1)
    if ma_ and ma_[0] and len(set(ma_[0].split())) != 1:
        concrete.append({"kind": "main-table-sentinel", "input": "m", "c": ma_[0], "reason": "an entry before the sentinel has no publicID / langID"})

    # ---- WBXML side, parser level
    lines = [c["line"] for c in wc]
    ca, crashes = common.run_lines(harness, lines)
    ma, _ = common.run_lines(driver, lines)
    for c, a, m in zip(wc, ca, ma):
        kinds[c["kind"]] = kinds.get(c["kind"], 0) + 1
        a0 = " ".join((a or "").split(" ")[:2]) if (a or "").startswith("ok") else "err"
        m0 = " ".join((m or "").split(" ")[:2]) if (m or "").startswith("ok") else "err"
        if a0.startswith("ok"):
            nontrivial.add(c["line"])
        if c["oracle"] is not None and a0 != c["oracle"]:
            concrete.append({"kind": c["kind"], "input": c["line"], "lang": c["lang"], "route": c["route"], "forced": c["forced"], "c": a, "oracle": c["oracle"]})
        if a0 != m0 or (a0.startswith("ok") and a != m):
            corr.append({"input": c["line"], "c": a, "model": m, "route": c["route"], "forced": c["forced"]})
        elif a0 == "err" and (a or "").split(" ")[-1:] != [{"EMPTY_WBXML": "44", "END_OF_BUFFER": "45", "UNVALID_MBUINT32": "70", "CHARSET_NOT_FOUND": "35",
                                                            "STRTBL_LENGTH": "54", "UNKNOWN_PUBLIC_ID": "64"}.get((m or "").split(" ")[-1], "")]:
            soft += 1
    for cr in crashes:
        concrete.append({"kind": "crash-or-sanitizer-report", **cr})

    # ---- parser object reuse: one WBXMLParser, two documents in a row
    lines = [c["line"] for c in rc_]
    ca, crashes = common.run_lines(harness, lines)
    ma, _ = common.run_lines(driver, lines)

    def canon2(a):
        return " ; ".join(" ".join(x.split(" ")[:2]) if x.startswith("ok") else "err" for x in (a or "").split(" ; "))
    for c, a, m in zip(rc_, ca, ma):
        kinds[c["kind"]] = kinds.get(c["kind"], 0) + 1
        if canon2(a) != c["oracle"]:
            concrete.append({"kind": c["kind"], "input": c["line"], "lang": c["lang"], "c": a, "oracle": c["oracle"],
                             "reason": "the second document parsed by the same parser object is given another language than on a fresh parser"})
        else:
            nontrivial.add(c["line"])
        if canon2(a) != canon2(m):
            corr.append({"input": c["line"], "c": a, "model": m, "route": c["route"]})
    for cr in crashes:
        concrete.append({"kind": "crash-or-sanitizer-report", **cr})

    # ---- XML side
    lines = [c["line"] for c in xc]
    ca, crashes = common.run_lines(harness, lines)
    ma, _ = common.run_lines(driver, [c["model_line"] for c in xc])
    pending_hit = set()
    inferred = 0
    for c, a, m in zip(xc, ca, ma):
        kinds[c["kind"]] = kinds.get(c["kind"], 0) + 1
        if (a or "").startswith("ok "):
            f = langselect.parse_wbxml_header(bytes.fromhex(a[3:]))
            a0 = "ok %s %s" % f
            nontrivial.add(c["line"])
        elif a == "err 100" and c["kind"].endswith("-precedence"):
            # WBXML_ERROR_STRTBL_DISABLED: the language chosen has no string table (WV, OTA) and the foreign root would be a
            # literal; the root's own language would have encoded it, so the language chosen is not the root's: counted as
            # the DOCTYPE's language by inference
            a0 = c["oracle"]
            inferred += 1
        else:
            a0 = "err"
        mf = (m or "").split(" ")
        m0 = "err" if mf[0] != "ok" else "ok %s %s" % (mf[2], mf[3] if mf[2] == "num" else tables.unhx(mf[3]))
        if a0 != c["oracle"]:
            if c.get("pending") in PENDING:
                pending_hit.add(c["pending"])
            else:
                concrete.append({"kind": c["kind"], "input": c["line"], "xml": c["xml"], "lang": c["lang"], "c": a, "c_header": a0, "oracle": c["oracle"]})
        if a0 != m0:
            corr.append({"input": c["line"], "xml": c["xml"], "model_input": c["model_line"], "c_header": a0, "model": m})
    for cr in crashes:
        concrete.append({"kind": "crash-or-sanitizer-report", **cr})
    for k in sorted(pending_hit):
        print("KNOWN-FINDING: property=C10 %s" % PENDING[k], flush=True)
        ctx.known_hits.append(k)

    # ---- WBXML side, converter level: the DOCTYPE names the language
    lines = [c["line"] for c in cc]
    ca, crashes = common.run_lines(harness, lines)
    for c, a in zip(cc, ca):
        kinds[c["kind"]] = kinds.get(c["kind"], 0) + 1
        want = c["want"]
        if want is None:
            if (a or "").startswith("ok"):
                concrete.append({"kind": c["kind"], "input": c["line"], "c": a[:200], "oracle": "error (no identifier, no forcing)"})
            continue
        if not (a or "").startswith("ok "):
            concrete.append({"kind": c["kind"], "input": c["line"], "c": a, "oracle": "converted with language %d" % want["id"], "forced": c["forced"]})
            continue
        nontrivial.add(c["line"])
        xml = bytes.fromhex(a[3:]).decode("latin-1")
        mt = re.search(r'<!DOCTYPE\s+(\S+)\s+PUBLIC\s+"([^"]*)"', xml)
        if want["pub_text"] is not None and (mt is None or mt.group(2) != want["pub_text"]):
            concrete.append({"kind": c["kind"], "input": c["line"], "c_xml": xml[:300], "oracle": "DOCTYPE public id " + want["pub_text"], "forced": c["forced"]})
    for cr in crashes:
        concrete.append({"kind": "crash-or-sanitizer-report", **cr})

    # python counterpart of C10_shared_identifiers (offending rows when the pinned sharing changes)
    shared_now = shared_identifiers_py(cur)
    n = len(wc) + len(xc) + len(cc) + len(rc_)
    pick = [wc[rng.below(len(wc))] for _ in range(5)] + [xc[rng.below(len(xc))] for _ in range(4)] if wc and xc else []
    ctx.coverage.update({
        "evaluations": n,
        "distinct_nontrivial": len(nontrivial),
        "rule": "one evaluation = one document through a real entry point (parser with start-document handler / wbxml2xml / xml2wbxml), compared with the extracted model "
                "and judged by the python oracle; non-trivial = the C selected a language; exhaustive over 29 languages x routes x 31 forcings, the seed varies letter case, string-table offsets and the 'other' language",
        "input_distribution": kinds,
        "samples": [{"input": c["line"][:160], "route": c["route"], "forced": c["forced"], "oracle": c["oracle"]} for c in pick],
        "traces_validated_against_impl": len(wc) + len(xc) + len(rc_),
        "correspondence_disagreements": len(corr),
        "soft_error_code_differences": soft,
        "xml_precedence_cases_inferred_from_encoder_refusal": inferred,
        "shared_identifiers": shared_now,
    })

    if concrete:
        ctx.violation("language-selection", {"broken": "the C selects another language than the property demands (or none)",
                                             "input": concrete[0].get("input"), "cases": concrete[:10], "total": len(concrete),
                                             "replay_cmd": "echo '<input>' | <c10_harness built from the current tree>  (or bin/check C10 --replay <this file>)"})
    else:
        if proof_broken:
            ctx.violation("proof-broken", {"broken": "Properties_C10.v no longer checks", "failed_theorems": cres["failed"],
                                           "broken_at": cres.get("broken_at"), "forbidden": bad, "log_tail": cres["log"][-3000:],
                                           "shared_identifiers_now": shared_now, "pinned": PINNED_SHARED,
                                           "offending_rows": [s for s in shared_now if s not in PINNED_SHARED] + [["no longer shared"] + s for s in PINNED_SHARED if s not in shared_now],
                                           "search": "%d documents through the real entry points: none violates the oracle" % n}, found_input=False)
        if corr:
            ctx.violation("correspondence-broken", {"broken": "Model/LangSelect.v and the C disagree; the C still satisfies the oracle on every generated document",
                                                    "first_cases": corr[:5], "total": len(corr)}, found_input=False)


PINNED_SHARED = [["system-id", "http://www.microsoft.com/", 2401, 2402],
                 ["root", "wml", 1101, 1102], ["root", "wml", 1101, 1103], ["root", "wml", 1101, 1104],
                 ["root", "channel", 1203, 1204],
                 ["root", "SyncML", 2201, 2101], ["root", "DevInf", 2202, 2102], ["root", "MetInf", 2203, 2103],
                 ["root", "SyncML", 2201, 2001], ["root", "DevInf", 2202, 2002], ["root", "WV-CSP-Message", 2301, 2302],
                 ["ns-root", "syncml:devinf|DevInf", 2202, 2102], ["ns-root", "syncml:devinf|DevInf", 2202, 2002]]


def shared_identifiers_py(tj):
    """python counterpart of LangSelectCheck.shared_identifiers (the C's search order, transcribed in python)"""
    langs = tj["langs"]
    out = []

    def ns0(l):
        r = tables.rows(tj, l, "ns")
        return r[0][0] if r else None

    def by_root(root):
        idx = 0
        local = None
        if "|" in root:
            for i, l in enumerate(langs):
                if ns0(l) is not None and root.lower().startswith(ns0(l).lower()):
                    return l
            local = root.rsplit("|", 1)[1]
        return tables.first(l for l in langs if l["root"] == root or (local is not None and l["root"] is not None and l["root"].rsplit(":", 1)[-1] == local))
    for l in langs:
        if l["pub_num"] != 1:
            f = tables.first(x for x in langs if x["pub_num"] == l["pub_num"])
            if f["id"] != l["id"]:
                out.append(["numeric", "", f["id"], l["id"]])
    for l in langs:
        if l["pub_text"] is not None:
            f = tables.first(x for x in langs if x["pub_text"] is not None and x["pub_text"].lower() == l["pub_text"].lower())
            if f["id"] != l["id"]:
                out.append(["public-id", l["pub_text"], f["id"], l["id"]])
    for l in langs:
        if l["dtd"] is not None:
            f = tables.first(x for x in langs if x["dtd"] == l["dtd"])
            if f["id"] != l["id"]:
                out.append(["system-id", l["dtd"], f["id"], l["id"]])
    for l in langs:
        if l["root"] is not None:
            f = by_root(l["root"])
            if f is None or f["id"] != l["id"]:
                out.append(["root", l["root"], 0 if f is None else f["id"], l["id"]])
    for l in langs:
        if ns0(l) is not None and l["root"] is not None:
            r = ns0(l) + "|" + l["root"]
            f = by_root(r)
            if f is None or f["id"] != l["id"]:
                out.append(["ns-root", r, 0 if f is None else f["id"], l["id"]])
    return out
