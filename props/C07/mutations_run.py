"""re-runs the C07 mutation campaign: needs a scratch worktree of /repo at W (git -C /repo worktree add W HEAD; cmake -S . -B _b -G Ninja)"""
import subprocess, sys, os, json
W = os.environ.get("MUT_WORKTREE", "/tmp/rw-wbxmlenc-2"); V = os.path.dirname(os.path.dirname(os.path.dirname(os.path.abspath(__file__))))
PID = "C07"
muts = [
 ("M1-anonymous-keeps-id-string", "src/wbxml_encoder.c", "    if ((encoder->textual_publicid || (public_id == WBXML_PUBLIC_ID_UNKNOWN)) &&\n        !encoder->produce_anonymous)", "    if ((encoder->textual_publicid || (public_id == WBXML_PUBLIC_ID_UNKNOWN)))"),
 ("M2-charset-field-from-source-encoding", "src/wbxml_encoder.c", "         !wbxml_buffer_append_mb_uint_32(header, WBXML_ENCODER_DEFAULT_CHARSET)) ||", "         !wbxml_buffer_append_mb_uint_32(header, encoder->output_charset)) ||"),
 ("M3-indent-inside-text-only-elements", "src/wbxml_encoder.c", "#define WBXML_ENCODER_XML_NO_EMPTY_ELT_INDENT\n", "/* #define WBXML_ENCODER_XML_NO_EMPTY_ELT_INDENT */\n"),
 ("M4-conv-object-copies-wrong-option", "src/wbxml_conv.c", "    params.use_strtbl        = conv->use_strtbl;", "    params.use_strtbl        = conv->keep_ignorable_ws;"),
 ("M5-canonical-mode-trims-text", "src/wbxml_encoder.c", "        if ((encoder->output_type != WBXML_ENCODER_OUTPUT_XML) || (encoder->xml_gen_type != WBXML_GEN_XML_CANONICAL)) {", "        if ((encoder->output_type != WBXML_ENCODER_OUTPUT_XML) || (encoder->xml_gen_type != WBXML_GEN_XML_COMPACT)) {"),
 ("M6-table-reference-only-from-version-1.1", "src/wbxml_encoder.c", "    if (encoder->use_strtbl && !(encoder->in_cdata && (ctx == WBXML_VALUE_ELEMENT_CTX_CONTENT))) {\n        /* For each String Table Element */", "    if (encoder->use_strtbl && !(encoder->in_cdata && (ctx == WBXML_VALUE_ELEMENT_CTX_CONTENT)) && (encoder->wbxml_version != WBXML_VERSION_10 || ctx == WBXML_VALUE_ELEMENT_CTX_CONTENT)) {\n        /* For each String Table Element */"),
 ("M7-conv-object-keep-ws-from-strtbl-flag", "src/wbxml_conv.c", "    params.wbxml_version     = conv->wbxml_version;\n    params.keep_ignorable_ws = conv->keep_ignorable_ws;", "    params.wbxml_version     = conv->wbxml_version;\n    params.keep_ignorable_ws = conv->use_strtbl;"),
]
only = sys.argv[1:]
res = {}
for name, f, old, new in muts:
    if only and name.split('-')[0] not in only: continue
    subprocess.run(['git','checkout','-q','src'],cwd=W)
    p=W+'/'+f; s=open(p).read()
    assert s.count(old)==1, (name, s.count(old))
    open(p,'w').write(s.replace(old,new))
    diff=subprocess.run(['git','diff'],cwd=W,capture_output=True,text=True).stdout
    b=subprocess.run('cmake --build _b >/dev/null 2>&1 && ctest --test-dir _b -j8 2>&1 | tail -3',shell=True,cwd=W,capture_output=True,text=True).stdout
    env=dict(os.environ, VERIF_REPO=W, VERIF_SEED='1')
    r=subprocess.run(['bin/check',PID],cwd=V,env=env,capture_output=True,text=True)
    viol=[l for l in r.stdout.split('\n') if l.startswith('VIOLATION')]
    whats=[]
    for v in viol:
        j=json.load(open(v.split('replay=')[1].split()[0])); whats.append(j.get('what'))
    first=None
    if viol:
        j=json.load(open(viol[0].split('replay=')[1].split()[0]))
        first={k:(str(v)[:300]) for k,v in j.items() if k not in ('source_xml_hex','wbxml_a','wbxml_b','wbxml_hex','transcoded_hex','utf8_result','result','conv_object','tree_api','withlen','stderr')}
    ev=json.load(open(V+'/evidence/%s.json'%PID))['coverage']
    res[name]={'diff':diff,'ctest':b.strip().split('\n')[0] if b.strip() else b,'exit':r.returncode,'nviol':len(viol),'whats':whats,'first':first,'violations_found':ev.get('violations_found')}
    print(name, res[name]['ctest'], 'exit', r.returncode, ev.get('violations_found'), whats, flush=True)
subprocess.run(['git','checkout','-q','src'],cwd=W)
os.makedirs(V+'/build/mut',exist_ok=True)
old={}
try: old=json.load(open(V+'/build/mut/results_%s.json'%PID))
except Exception: pass
old.update(res)
json.dump(old,open(V+'/build/mut/results_%s.json'%PID,'w'),indent=1)
