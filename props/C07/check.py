"""C07 — conversion options change the form of the output, never its meaning.

1. proof: coq/Properties/Properties_C07.v (WBXML half: theorems over Model/EncWbxml.v; the XML half has no model theorems
   here — corresponded only);
2. WBXML half on the C (public conversion entry points, harness/c01_harness.c): for one source, the 16 option tuples
   {version 1.0..1.3} x {string table on, off} x {public id, anonymous} that agree on keep-ws must all be strict WBXML
   (vlib/strictdec.py, language forced) denoting the SAME infoset; the header carries the requested version, and for an
   anonymous document the public id 0x01 and no id string (parsed header: empty table when the table is disabled; no
   identifier entry that the body does not reference otherwise — the identifier may legitimately be content); the conv-object API, the legacy `_withlen` API and the tree API
   (harness/c06_harness.c) must give the same bytes for the same options (options are copied verbatim);
3. XML half on the C: for one WBXML document, compact / indented (indent 0..255) / canonical generation parse (pyexpat) to the
   same infoset, exactly for elements without element children, modulo white space around markup otherwise;
4. transcoding: an XML source without embedded sub-documents re-encoded as UTF-16 / ISO-8859-1 (with the matching encoding
   declaration) yields byte-identical WBXML.
"""
import glob
import json
import os
import xml.parsers.expat as expat
from concurrent.futures import ProcessPoolExecutor

from vlib import common, gen, c06_gen, c06_oracle, c06_spec_oracle, c07_lib, strictdec
from vlib import convcases as cc
from vlib import xmlgen

PID = "C07"
RL_TIMEOUT = 1200        # per shard of one run_lines call; the sizing below keeps every call far inside it
TUPLES = c06_gen.OPTION_TUPLES            # (version, strtbl, keep, anon)


def _decode(args):
    wb, lid = args
    tj = _decode.tj
    try:
        doc, can = c07_lib.decode_canon(wb, tj, lid, c06_oracle.sub_lang_guess(tj))
        return ("ok", doc.version, doc.pubid_num, doc.pubid_index, doc.pubid_str, can, bytes(doc.strtbl), tuple(doc.refs))
    except strictdec.Strict as e:
        return ("strict", str(e))
    except RecursionError:
        return ("strict", "recursion limit of the oracle")


def _entry_offsets(tbl, s):
    """offsets of the string-table entries equal to s"""
    out, p = [], 0
    while p < len(tbl):
        e = tbl.find(b"\0", p)
        if e < 0:
            break
        if tbl[p:e] == s:
            out.append(p)
        p = e + 1
    return out


def _content_has(can, s):
    """does a text / attribute value of the canonical infoset (nested tuples of str / bytes) contain s"""
    if isinstance(can, str):
        return s in can
    if isinstance(can, (bytes, bytearray)):
        return s.encode() in can
    if isinstance(can, (tuple, list)):
        return any(_content_has(c, s) for c in can)
    return False


def _anonymous_id_string(lang, o, tbl, refs, can, nonanon, nonanon_kind):
    """Does the HEADER of an anonymous document carry a public-identifier string?  o = (version, strtbl, keep, anon).
    - string table disabled: the only thing wbxml_fill_header could put into the table is the identifier, so the table
      must be empty (C07_wbxml_anonymous_header with strtbl_len = 0);
    - string table enabled: the table is the body's (anonymous_changes_header_only).  An entry equal to the identifier is
      the header's, not the body's, when the body never references it and the decoded content does not contain it; and
      against the non-anonymous output of the same options the table is the same (numeric identifier) or the same up to
      the identifier appended by the non-anonymous header (string identifier)."""
    pid = lang["pub_text"].encode() if lang["pub_text"] else None
    if o[1] == 0:
        return "string table of %d octets although the table is disabled" % len(tbl) if tbl else None
    if pid:
        for k in _entry_offsets(tbl, pid):
            if k not in refs and not _content_has(can, lang["pub_text"]):
                return "table entry at %d is the identifier; the body never references it and the content does not contain it" % k
    if nonanon is not None and nonanon[0] == "ok":
        ntbl = nonanon[6]
        if nonanon_kind == "num":
            if ntbl != tbl:
                return "table differs from the non-anonymous output's (numeric identifier)"
        elif pid and ntbl not in (tbl, tbl + pid + b"\0"):
            return "table is not the non-anonymous output's minus the appended identifier"
    return None


def _init(tj):
    _decode.tj = tj


def _spec_canon(args):
    ans, lid = args
    inf = c06_spec_oracle.events_infoset(ans, _decode.tj, lid)
    return None if inf is None else json.dumps(inf, sort_keys=True)


def _xinfo(x):
    try:
        return ("ok",) + c07_lib.xml_infoset(x)
    except expat.ExpatError as e:
        return ("unparsable", str(e))


def sources(ctx, tj, quick):
    out = []
    files = sorted(glob.glob(os.path.join(common.REPO, "test", "tools", "**", "*.xml"), recursive=True))
    if quick:
        # a third of the corpus per run, plus every document with an embedded sub-document (anonymous must not reach them)
        files = [f for i, f in enumerate(files) if i % 3 == ctx.seed % 3 or "/ddf/" in f or b"<DevInf" in open(f, "rb").read()]
    for f in files:
        out.append(("corpus:" + os.path.relpath(f, os.path.join(common.REPO, "test", "tools")), 0, open(f, "rb").read()))
    docs = c06_gen.documents(tj, common.Rng(ctx.seed, 7), quick)
    if quick:
        # every text / attribute document, every third tag document
        docs = [d for i, d in enumerate(docs) if (d[1] != "tags" and i % 2 == ctx.seed % 2) or i % 5 == ctx.seed % 5 or d[1] == "embedded"
                or (d[0] in (1301, 1701, 1901) and d[1] == "attrs")]      # typed (opaque) attribute values: every run, all versions
    for lid, kind, x, _ in docs:
        if kind != "boundary":           # 16 k-octet payloads: C06's subject, slow under the leak-checking harness
            out.append((kind, lid, x))
    return out


def run(ctx):
    ctx.level = "proof"
    ctx.assumptions = [
        "WBXML half: the infoset of an output is the one denoted by the strict decoder vlib/strictdec.py with the language forced (needed for anonymous documents)",
        "XML half: corresponded only on the C (no model theorem in this file); 'white space between markup' = text runs inside elements that have element children are compared trimmed, blank runs dropped; elements without element children are compared exactly",
        "canonical generation treats white space as significant and ignores the trim option (Canonical XML); it is compared with the keep-ws outputs exactly and with the trimmed outputs modulo trimming of every text",
        "transcoding is Expat's work; checked bytewise on the C for sources without embedded sub-documents (the embedded-document hack re-parses raw input bytes) — partial",
        "a source whose conversion fails for some option tuple (literal names with the string table disabled, WBXML_ERROR_STRTBL_DISABLED) is compared over the tuples that succeed",
    ]
    bad = common.forbidden_scan()
    tj = gen.gen_tables()
    cres = common.coq_property(PID)
    common.proof_coverage(ctx, cres)
    proof_broken = (not cres["ok"]) or bool(bad)

    h01 = common.build_harness("c01_harness", tag="-vfmem", libs=("-lexpat", "-lpthread"))
    h06 = common.build_harness("c06_harness")
    quick = ctx.tier == "quick"
    WL = 8 if quick else 2
    srcs = sources(ctx, tj, quick)
    if getattr(ctx, "replay", None):
        rp = json.load(open(ctx.replay))
        if "source_xml_hex" in rp:
            srcs = [("replay", rp.get("lang", 0), bytes.fromhex(rp["source_xml_hex"]))]

    violations = []          # concrete
    stats = {}

    def bump(k, n=1):
        stats[k] = stats.get(k, 0) + n

    # ---- language of each source and the tree-API bytes ------------------------------------------------
    l6 = ["%s %d %d %d %d" % ((x.hex(),) + o) for _, _, x in srcs for o in TUPLES]
    a6, cr6 = common.run_lines(h06, l6, timeout=RL_TIMEOUT)
    # ---- A: the public entry points, all 32 tuples -------------------------------------------------------
    lA = [cc.x2w_line(x, api="run", version=o[0], strtbl=o[1], keep=o[2], anon=o[3], dump=1) for _, _, x in srcs for o in TUPLES]
    aA, crA = common.run_lines(h01, lA, timeout=RL_TIMEOUT)
    lW = [cc.x2w_line(x, api="withlen", version=o[0], strtbl=o[1], keep=o[2], anon=o[3], dump=1) for _, _, x in srcs[::WL] for o in TUPLES]
    aW, crW = common.run_lines(h01, lW, timeout=RL_TIMEOUT)
    for cr in cr6 + crA + crW:
        violations.append({"what": "crash-or-sanitizer-report", **cr})
    outs = {}                # (si, tuple) -> bytes or ("err", st)
    langs = {}
    jobs, jkeys = [], []
    for si, (kind, lid, x) in enumerate(srcs):
        for ti, o in enumerate(TUPLES):
            k = si * len(TUPLES) + ti
            t6 = a6[k] or ""
            if t6.startswith("T OK"):
                langs[si] = int(t6.split()[2])
            d = cc.parse_answer(aA[k])
            if d is None:
                continue
            if d["st"] != 0 or "out" not in d:
                outs[(si, o)] = ("err", d["st"])
                bump("conversion refused (st=%d)" % d["st"])
                continue
            wb = bytes.fromhex(d["out"]) if d["out"] != "-" else b""
            outs[(si, o)] = wb
            # the three APIs agree bytewise
            w6 = t6.partition(" | W OK ")[2]
            if w6 and bytes.fromhex(w6) != wb:
                violations.append({"what": "api-bytes-differ", "source_xml_hex": x.hex(), "lang": langs.get(si), "options": o,
                                   "conv_object": wb.hex(), "tree_api": w6})
            if si in langs:
                jobs.append((wb, langs[si]))
                jkeys.append((si, o))
    for j, (si, x3) in enumerate([(i, s) for i, s in enumerate(srcs)][::WL]):
        for ti, o in enumerate(TUPLES):
            d = cc.parse_answer(aW[j * len(TUPLES) + ti])
            r = outs.get((si, o))
            if d is None or r is None:
                continue
            w = bytes.fromhex(d["out"]) if d["st"] == 0 and d.get("out", "-") != "-" else ("err", d["st"])
            if w != r:
                violations.append({"what": "api-bytes-differ", "source_xml_hex": x3[2].hex(), "lang": langs.get(si), "options": o,
                                   "conv_object": r.hex() if isinstance(r, bytes) else r, "withlen": w.hex() if isinstance(w, bytes) else w})
            bump("withlen compared")
    # the proved strict decoder (Spec.decode_lang, driver C04) as a second, independent decoder
    d04 = common.build_driver("C04")
    sa, _ = common.run_lines(d04, ["strict %d %s" % (L, wb.hex() if wb else "-") for wb, L in jobs], timeout=RL_TIMEOUT)
    with ProcessPoolExecutor(common.NPROC, initializer=_init, initargs=(tj,)) as ex:
        decs = dict(zip(jkeys, ex.map(_decode, jobs, chunksize=64)))
        spec = dict(zip(jkeys, ex.map(_spec_canon, [(a, L) for a, (wb, L) in zip(sa, jobs)], chunksize=64)))
    groups_equal = 0
    groups16 = 0
    nontrivial = set()
    for si, (kind, lid, x) in enumerate(srcs):
        L = langs.get(si)
        if L is None:
            bump("front end refuses the source")
            continue
        lang = [l for l in tj["langs"] if l["id"] == L][0]
        for keep in (0, 1):
            ref = None
            sref = None
            n_ok = 0
            agree = True
            for o in TUPLES:
                if o[2] != keep:
                    continue
                r = decs.get((si, o))
                if r is None:
                    # refused: must not depend on version / anonymous
                    continue
                if r[0] != "ok":
                    violations.append({"what": "output-not-strict-wbxml", "source_xml_hex": x.hex(), "lang": L, "options": o, "why": r[1]})
                    agree = False
                    continue
                _, ver, pnum, pidx, pstr, can, tbl, refs = r
                n_ok += 1
                nontrivial.add((L, outs[(si, o)]))
                if ver != o[0]:
                    violations.append({"what": "version-byte", "source_xml_hex": x.hex(), "lang": L, "options": o, "got": ver})
                if o[3]:
                    if pnum != 1 or pidx is not None:
                        violations.append({"what": "anonymous-header", "source_xml_hex": x.hex(), "lang": L, "options": o,
                                           "public_id": pnum, "public_id_string": pstr})
                    # "no public-identifier string": decided on the PARSED header (C07_wbxml_anonymous_header: version, 0x01,
                    # charset, table length, table), never on a textual search of the output — the identifier is legitimate
                    # CONTENT (c06_gen.pubid_docs writes it as element text, inline or through the table).
                    why = _anonymous_id_string(lang, o, tbl, refs, can, decs.get((si, (o[0], o[1], o[2], 0))),
                                               c06_oracle.expected_header(tj, L, o[0], False)[0])
                    if why:
                        violations.append({"what": "anonymous-header-has-id-string", "source_xml_hex": x.hex(), "lang": L, "options": o,
                                           "why": why, "string_table": tbl.hex()})
                    bump("anonymous headers examined (string table %s)" % ("on" if o[1] else "off"))
                    if lang["pub_text"] and _entry_offsets(tbl, lang["pub_text"].encode()):
                        bump("anonymous documents whose table has an entry equal to the identifier (content)")
                else:
                    kind_, val = c06_oracle.expected_header(tj, L, o[0], False)
                    if (kind_ == "num" and pnum != val) or (kind_ == "str" and pstr != val):
                        violations.append({"what": "public-id", "source_xml_hex": x.hex(), "lang": L, "options": o,
                                           "public_id": pnum, "public_id_string": pstr, "expected": val})
                sc = spec.get((si, o))
                if sc is None:
                    violations.append({"what": "output-refused-by-coq-strict-decoder", "source_xml_hex": x.hex(), "lang": L, "options": o,
                                       "wbxml": outs[(si, o)].hex()})
                elif sref is None:
                    sref = (o, sc)
                elif sc != sref[1]:
                    agree = False
                    violations.append({"what": "options-change-meaning-coq-strict-decoder", "source_xml_hex": x.hex(), "lang": L, "keep_ws": keep,
                                       "options_a": sref[0], "options_b": o, "wbxml_a": outs[(si, sref[0])].hex(), "wbxml_b": outs[(si, o)].hex()})
                if ref is None:
                    ref = (o, can)
                elif can != ref[1]:
                    agree = False
                    violations.append({"what": "options-change-meaning", "source_xml_hex": x.hex(), "lang": L, "keep_ws": keep,
                                       "options_a": ref[0], "options_b": o, "difference": c07_lib.first_diff(ref[1], can),
                                       "wbxml_a": outs[(si, ref[0])].hex(), "wbxml_b": outs[(si, o)].hex()})
            # success must not depend on version / anonymous
            for st in (0, 1):
                ss = {isinstance(outs.get((si, (v, st, keep, an))), bytes) for v in (0, 1, 2, 3) for an in (0, 1) if (si, (v, st, keep, an)) in outs}
                if len(ss) > 1:
                    violations.append({"what": "success-depends-on-version-or-anonymous", "source_xml_hex": x.hex(), "lang": L, "strtbl": st, "keep_ws": keep})
            if n_ok and agree:
                groups_equal += 1
                if n_ok == 16:
                    groups16 += 1

    # ---- A': every tuple is also decoded WITH THE LIBRARY (wbxml2xml, compact, same keep-ws; the language is forced where
    #      the document does not identify it): all must decode, to the same pyexpat infoset ------------------------------
    lL, kL = [], []
    for (si, o), w in outs.items():
        if isinstance(w, bytes) and si in langs:
            L = langs[si]
            force = L if (o[3] or not [l for l in tj["langs"] if l["id"] == L][0]["pub_text"]) else 0
            lL.append(cc.w2x_line(w, api="run", lang=force, gen=0, indent=0, keep=o[2], dump=1))
            kL.append((si, o))
    aL, crL = common.run_lines(h01, lL, timeout=RL_TIMEOUT)
    for cr in crL:
        violations.append({"what": "crash-or-sanitizer-report", **cr})
    lib = {}
    xj, xkk = [], []
    for key, a in zip(kL, aL):
        d = cc.parse_answer(a)
        if d is None:
            continue
        if d["st"] != 0 or "out" not in d:
            lib[key] = ("err", d["st"])
        else:
            xj.append(bytes.fromhex(d["out"]))
            xkk.append(key)
    with ProcessPoolExecutor(common.NPROC) as ex:
        for key, r in zip(xkk, ex.map(_xinfo, xj, chunksize=64)):
            lib[key] = r
    lib_equal = 0
    for si, (kind, lid, x) in enumerate(srcs):
        for keep in (0, 1):
            rs = [(o, lib[(si, o)]) for o in TUPLES if o[2] == keep and (si, o) in lib]
            if not rs:
                continue
            okr = [(o, r) for o, r in rs if r[0] == "ok"]
            bad = [(o, r) for o, r in rs if r[0] == "err"]
            if bad and okr:
                violations.append({"what": "library-decodes-only-some-option-tuples", "source_xml_hex": x.hex(), "lang": langs.get(si), "keep_ws": keep,
                                   "refused": [(o, r[1]) for o, r in bad][:6], "decoded": [o for o, _ in okr][:6],
                                   "wbxml_refused": outs[(si, bad[0][0])].hex()})
                continue
            if bad:
                violations.append({"what": "library-refuses-its-own-output", "source_xml_hex": x.hex(), "lang": langs.get(si), "keep_ws": keep,
                                   "status": bad[0][1][1], "options": bad[0][0], "wbxml": outs[(si, bad[0][0])].hex()})
                continue
            if not okr:
                bump("library output not parsed by pyexpat in every tuple (C05)")
                continue
            if len(okr) != len(rs):
                violations.append({"what": "library-output-well-formed-for-some-tuples-only", "source_xml_hex": x.hex(), "lang": langs.get(si), "keep_ws": keep})
                continue
            ref = okr[0]
            diff = [(o, r) for o, r in okr[1:] if r != ref[1]]
            if diff:
                violations.append({"what": "options-change-meaning-library-decoding", "source_xml_hex": x.hex(), "lang": langs.get(si), "keep_ws": keep,
                                   "options_a": ref[0], "options_b": diff[0][0], "difference": c07_lib.first_diff(ref[1], diff[0][1])})
            else:
                lib_equal += 1

    # ---- B: XML generation modes ---------------------------------------------------------------------------
    wdocs = []
    seen = set()
    for si in range(len(srcs)):
        for o in ((3, 1, 0, 0), (3, 1, 1, 0), (1, 0, 1, 0), (2, 1, 0, 1)):
            w = outs.get((si, o))
            if isinstance(w, bytes) and w not in seen and len(w) < 20000:
                seen.add(w)
                wdocs.append((si, o, w))
    # sizing (leak-checking harness, ~25 ms CPU per line): quick = a quarter of the documents, the boundary set of indents on
    # one in eight and four indents on the rest; thorough = every second document with the boundary set, ALL 256 indents on
    # a sample of 40 documents (the 8-bit arithmetic is per document, not per content)
    step = 4 if quick else 2
    wdocs = wdocs[ctx.seed % step::step]
    # XML-half-only documents (every run, full set of modes): raw CR / TAB / LF in text, attribute values and CDATA payloads,
    # and CDATA payloads containing the characters that are markup outside a section (& < > ]]> and entity text).  They are
    # converted here and do not take part in the WBXML half (parts A, A', C).
    xsrcs = list(srcs)
    xlangs = dict(langs)
    extra = [] if getattr(ctx, "replay", None) else xmlgen.c07_cr_sources() + xmlgen.c07_cdata_sources()
    lX = [cc.x2w_line(x, api="run", version=3, strtbl=1, keep=1, anon=0, dump=1) for _, _, x in extra]
    aX, crX = common.run_lines(h01, lX, timeout=RL_TIMEOUT)
    for cr in crX:
        violations.append({"what": "crash-or-sanitizer-report", **cr})
    n_extra = 0
    for (kind, lid, x), a in zip(extra, aX):
        d = cc.parse_answer(a)
        if d is None or d["st"] != 0 or "out" not in d or d["out"] == "-":
            bump("xml-half extra source refused by xml2wbxml")
            continue
        xsrcs.append((kind, lid, x))
        xlangs[len(xsrcs) - 1] = lid
        wdocs.append((len(xsrcs) - 1, (3, 1, 1, 0), bytes.fromhex(d["out"])))
        n_extra += 1
    first_extra = len(wdocs) - n_extra
    indents = [0, 1, 2, 3, 4, 8, 127, 128, 255] if quick else [0, 1, 2, 3, 4, 7, 8, 15, 16, 31, 32, 63, 64, 127, 128, 129, 254, 255]
    base_modes = [(0, 0, 0), (0, 0, 1), (2, 0, 0), (2, 0, 1), (0, 7, 1), (2, 9, 0)]
    modes = base_modes + [(1, i, k) for i in indents for k in (0, 1)]
    all_modes = base_modes + [(1, i, k) for i in range(256) for k in (0, 1)]
    full_every = max(1, len(wdocs) // 40)
    lB, kB = [], []
    for wi, (si, o, w) in enumerate(wdocs):
        if quick:
            ms = modes if (wi % 8 == 0 or wi >= first_extra) else base_modes + [(1, i, k) for i in (0, 1, 2, 255) for k in (0, 1)]
        else:
            ms = all_modes if (wi % full_every == 0 and len(w) < 4000) else modes
        for g, i, k in ms:
            # the language is forced where the document does not identify it (anonymous, or no public id at all)
            L = xlangs.get(si, 0)
            force = L if (o[3] or not [l for l in tj["langs"] if l["id"] == L][0]["pub_text"]) else 0
            lB.append(cc.w2x_line(w, api="run", lang=force, gen=g, indent=i, keep=k, dump=1))
            kB.append((wi, (g, i, k)))
    aB, crB = common.run_lines(h01, lB, timeout=RL_TIMEOUT)
    for cr in crB:
        violations.append({"what": "crash-or-sanitizer-report", **cr})
    xjobs, xk = [], []
    for key, a in zip(kB, aB):
        d = cc.parse_answer(a)
        if d is None:
            continue
        if d["st"] != 0 or "out" not in d:
            xk.append((key, ("err", d["st"])))
        else:
            xjobs.append(bytes.fromhex(d["out"]))
            xk.append((key, None))
    with ProcessPoolExecutor(common.NPROC) as ex:
        xin = list(ex.map(_xinfo, xjobs, chunksize=64))
    it = iter(xin)
    byw = {}
    for key, r in xk:
        byw.setdefault(key[0], {})[key[1]] = r if r is not None else next(it)
    xml_equal = 0
    for wi, res in byw.items():
        si, o, w = wdocs[wi]
        kinds = {r[0] for r in res.values()}
        if kinds != {"ok"}:
            if len(kinds) > 1:
                violations.append({"what": "xml-modes-differ-in-status", "wbxml_hex": w.hex(), "source_xml_hex": xsrcs[si][2].hex(),
                                   "status_by_mode": {str(m): r[:2] for m, r in res.items()}})
            else:
                bump("wbxml whose XML is refused / not parsed in every mode (C05)")
            continue
        base1, base0 = res[(0, 0, 1)], res[(0, 0, 0)]
        okw = True
        for m, r in res.items():
            g, i, k = m
            want = base1 if (k == 1 or g == 2) else base0
            if g == 2:
                # canonical generation preserves CR / LF / TAB exactly (character references); compact generation leaves them
                # to XML's line-end and attribute-value normalisation: compact = that normalisation applied to the canonical
                # reading (theorem C07_xml_compact_equals_canonical_mod_eol); identity for documents without raw CR / TAB / LF
                r = (r[0], r[1], xmlgen.c07_eol_norm(r[2]))
            if r != want:
                okw = False
                violations.append({"what": "xml-generation-mode-changes-meaning", "wbxml_hex": w.hex(), "source_xml_hex": xsrcs[si][2].hex(),
                                   "mode": {"gen": g, "indent": i, "keep_ws": k}, "compared_with": "compact keep-ws" if want is base1 else "compact trim",
                                   "difference": c07_lib.first_diff(want, r)})
                break
        if okw:
            xml_equal += 1

    # ---- C: transcoding ---------------------------------------------------------------------------------------
    lC, kC = [], []
    for si, (kind, lid, x) in enumerate(srcs):
        if b"DevInf" in x[200:] and b"<DevInf" in x or b"<MgmtTree" in x and not x.lstrip().startswith(b"<MgmtTree") and b"SyncML" in x[:400]:
            bump("transcoding skipped: embedded sub-document")
            continue
        base = outs.get((si, (3, 1, 0, 0)))
        if not isinstance(base, bytes):
            continue
        for enc in ("utf-16", "iso-8859-1", "utf-8"):
            t = c07_lib.transcode(x, enc)
            if t is None:
                bump("transcoding skipped: not representable / declared otherwise")
                continue
            lC.append(cc.x2w_line(t, version=3, strtbl=1, keep=0, anon=0, dump=1))
            kC.append((si, enc, t))
    aC, crC = common.run_lines(h01, lC, timeout=RL_TIMEOUT)
    for cr in crC:
        violations.append({"what": "crash-or-sanitizer-report", **cr})
    trans_equal = 0
    for (si, enc, t), a in zip(kC, aC):
        d = cc.parse_answer(a)
        if d is None:
            continue
        got = bytes.fromhex(d["out"]) if d["st"] == 0 and d.get("out", "-") != "-" else ("err", d["st"])
        if got != outs[(si, (3, 1, 0, 0))]:
            violations.append({"what": "transcoded-source-gives-other-wbxml", "encoding": enc, "source_xml_hex": srcs[si][2].hex(),
                               "transcoded_hex": t.hex(), "utf8_result": outs[(si, (3, 1, 0, 0))].hex(),
                               "result": got.hex() if isinstance(got, bytes) else got})
        else:
            trans_equal += 1

    evals = len(lA) + len(lW) + len(lL) + len(lB) + len(lC)
    ctx.coverage.update({
        "evaluations": evals,
        "distinct_nontrivial": len(nontrivial),
        "rule": "WBXML half: (source, option tuple) through the public entry points; non-trivial = strictly decodable output, distinct by (language, bytes). "
                "Sources = project corpus + documents synthesised from every language's tables (vlib/c06_gen.py, stream 7 of VERIF_SEED). "
                "XML half: (WBXML document, generation mode, indent, keep-ws). Transcoding: (source, encoding).",
        "input_distribution": {"sources": len(srcs), "x2w_conv_object": len(lA), "x2w_withlen": len(lW), "w2x": len(lB), "transcoded": len(lC),
                               "wbxml_documents_for_xml_half": len(wdocs), "xml_half_extra_documents_raw_cr_and_cdata_markup": n_extra, "indent_values": indents, "documents_with_all_256_indents": 0 if quick else sum(1 for wi, d in enumerate(wdocs) if wi % full_every == 0 and len(d[2]) < 4000), **stats},
        "samples": [{"source": srcs[si][2][:200].decode("utf-8", "replace"), "options": o, "wbxml": (outs[(si, o)].hex()[:120] if isinstance(outs.get((si, o)), bytes) else outs.get((si, o)))}
                    for si in range(0, len(srcs), max(1, len(srcs) // 8)) for o in ((3, 1, 0, 0), (0, 0, 1, 1))][:12],
        "traces_validated_against_impl": evals,
        "wbxml_groups_all_tuples_equal": groups_equal,
        "wbxml_groups_with_all_16_tuples": groups16,
        "library_decoded_groups_all_tuples_equal": lib_equal,
        "xml_documents_all_modes_equal": xml_equal,
        "transcodings_byte_identical": trans_equal,
        "violations_found": len(violations),
    })
    for v in violations[:6]:
        ctx.violation(v.pop("what"), {"replay_cmd": "bin/check C07 --replay <this file>", **v})
    if not violations and proof_broken:
        ctx.violation("proof-broken", {"broken": "Properties_C07.v no longer checks", "failed_theorems": cres["failed"],
                                       "broken_at": cres.get("broken_at"), "forbidden": bad, "log_tail": cres["log"][-3000:],
                                       "search": "the C satisfied the C07 oracle on %d evaluations" % evals}, found_input=False)
