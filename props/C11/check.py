"""C11 — multi-byte integers, base64, hex and character entities are exact inverses.

1. proof: coq/Properties/Properties_C11.v (theorems over Model/Codec.v) rebuilt and re-checked;
2. tie: the extracted model and the C (ASan+UBSan build of the current tree) run on the same cases;
3. oracle (independent of the model): python's own base64 / utf-8 / hex and a direct integer codec.
"""
import base64
import binascii
import os
import subprocess

from vlib import common
from vlib.common import Rng

PID = "C11"


def mb_oracle(v):
    out = [v & 0x7F]
    v >>= 7
    while v:
        out.insert(0, 0x80 | (v & 0x7F))
        v >>= 7
    return bytes(out)


def hx(b):
    return b.hex() if b else "-"


def utf8_oracle(c):
    if c >= 0x80000000:
        return "err INVALID_UNICODE"
    if 0xD800 <= c <= 0xDFFF or c > 0x10FFFF:
        return None            # not a scalar value: the property does not speak about it
    return "ok " + hx(chr(c).encode("utf-8"))


def gen_cases(ctx, nrand):
    """returns list of (line, oracle_answer_or_None, kind)"""
    cases = []
    rng = Rng(ctx.seed, 11)
    # ---- integers: boundaries of the proof's case split, then random
    ints = set()
    for k in range(0, 33, 7):
        for d in (-2, -1, 0, 1, 2):
            x = (1 << k) + d
            if 0 <= x < (1 << 32):
                ints.add(x)
    ints |= {0, 1, 127, 128, 255, 256, (1 << 32) - 1, (1 << 31), (1 << 31) - 1}
    for _ in range(nrand):
        bits = rng.range(1, 32)
        ints.add(rng.below(1 << bits))
    for v in sorted(ints):
        enc = mb_oracle(v)
        cases.append(("mbw %d" % v, hx(enc), "mb_write"))
        tail = rng.bytes(rng.below(3))
        cases.append(("mbr %s" % hx(enc + tail), "ok %d %d" % (v, len(enc)), "mb_read"))
    # malformed integers: truncated, six bytes, overlong
    for _ in range(max(200, nrand // 10)):
        n = rng.range(0, 7)
        bs = bytes(0x80 | rng.below(128) for _ in range(n))
        exp = "err UNVALID_MBUINT32" if n >= 5 else "err END_OF_BUFFER"
        cases.append(("mbr %s" % hx(bs + (rng.bytes(2) if n >= 5 else b"")), exp, "mb_bad"))
    # ---- entities
    codes = set()
    for b in (0, 1, 0x7F, 0x80, 0x7FF, 0x800, 0xFFF, 0x1000, 0xD7FF, 0xD800, 0xDFFF, 0xE000, 0xFFFF, 0x10000, 0x3FFFF,
              0x40000, 0x10FFFF, 0x110000, 0x1FFFFF, 0x200000, 0x3FFFFFF, 0x4000000, 0x7FFFFFFF, 0x80000000, 0xFFFFFFFF):
        for d in (-1, 0, 1):
            if 0 <= b + d < (1 << 32):
                codes.add(b + d)
    for _ in range(nrand):
        r = rng.below(10)
        if r < 6:
            codes.add(rng.below(0x110000))
        elif r < 8:
            codes.add(rng.below(1 << rng.range(1, 32)))
        else:
            codes.add(rng.range(0x800, 0x3FFFF))
    for c in sorted(codes):
        cases.append(("ent %s" % hx(b"\x02" + mb_oracle(c)), utf8_oracle(c), "entity"))
    # ---- base64 / hex: all strings of length 0..2 over a boundary alphabet, random longer ones
    strs = [b""]
    alpha = [0, 1, 0x3F, 0x40, 0x7F, 0x80, 0xFB, 0xFC, 0xFF, 0x20, 0x0A, 0x3D, 0x41]
    for a in alpha:
        strs.append(bytes([a]))
        for b in alpha:
            strs.append(bytes([a, b]))
    for _ in range(nrand):
        strs.append(rng.bytes(rng.range(1, 40) if rng.chance(9, 10) else rng.range(40, 400)))
    for s in strs:
        if s:
            e = base64.b64encode(s)
            cases.append(("b64e %s" % hx(s), "ok " + hx(e), "b64_enc"))
            # decoding with white space sprinkled in (the buffer function strips it)
            e2 = bytearray()
            for ch in e:
                e2.append(ch)
                if rng.chance(1, 12):
                    e2 += rng.choice([b" ", b"\n", b"\r\n", b"\t"])
            cases.append(("b64d %s" % hx(bytes(e2)), "ok " + hx(s), "b64_dec"))
        else:
            cases.append(("b64e -", "none", "b64_enc"))
        up = rng.chance(1, 2)
        h = binascii.hexlify(s)
        h = h.upper() if up else h
        cases.append(("b2h%s %s" % ("U" if up else "L", hx(s)), "ok " + hx(h), "bin_to_hex"))
        cases.append(("h2b %s" % hx(h), "ok " + hx(s), "hex_to_bin"))
    # malformed base64 / hex: no oracle (model correspondence only)
    for _ in range(max(200, nrand // 5)):
        s = bytes(rng.choice(b"ABCDabcd0189+/=  \n-_*") if rng.chance(4, 5) else rng.below(256) for _ in range(rng.range(0, 12)))
        cases.append(("b64d %s" % hx(s), None, "b64_malformed"))
        s = bytes(rng.choice(b"0123456789abcdefABCDEFgG xz") for _ in range(rng.range(0, 9)))
        cases.append(("h2b %s" % hx(s), None, "hex_malformed"))
    return cases


SWEEP_C = r"""
#include "vh.h"
#include "wbxml_parser.c"
/* exhaustive write->read sweep of [lo, hi) on the C: value, length and leading byte */
static unsigned vf_mblen(unsigned long long v){ return v < 128 ? 1 : v < 16384 ? 2 : v < 2097152 ? 3 : v < 268435456 ? 4 : 5; }
int main(int argc, char **argv) {
    unsigned long long lo = strtoull(argv[1], 0, 10), hi = strtoull(argv[2], 0, 10), v, bad = 0;
    WBXMLParser *p = wbxml_parser_create();
    WBXMLBuffer *b = wbxml_buffer_create((const WB_UTINY *) "x", 1, 16);
    p->wbxml = b;
    for (v = lo; v < hi; v++) {
        WB_ULONG r = 0;
        wbxml_buffer_delete(b, 0, wbxml_buffer_len(b));
        if (!wbxml_buffer_append_mb_uint_32(b, (WB_ULONG) v)) { bad++; printf("FAIL append %llu\n", v); continue; }
        p->pos = 0;
        if (parse_mb_uint32(p, &r) != WBXML_OK || r != (WB_ULONG) v || p->pos != wbxml_buffer_len(b) ||
            wbxml_buffer_len(b) != vf_mblen(v) || (vf_mblen(v) > 1 && wbxml_buffer_get_cstr(b)[0] == 0x80)) {
            bad++; if (bad < 20) printf("FAIL %llu\n", v);
        }
    }
    printf("DONE %llu %llu %llu\n", lo, hi, bad);
    p->wbxml = NULL; wbxml_buffer_destroy(b); wbxml_parser_destroy(p);
    return 0;
}
"""


def thorough_sweeps(ctx, harness, driver):
    """exhaustive parts of the thorough tier. Returns (evaluations, failures[list of dict])"""
    fails = []
    n = 0
    # (a) all 2^32 integers on the C (plain -O2 build: the sanitizer build would take ~10x longer)
    src = os.path.join(common.BUILD, "c11_sweep.c")
    common.write_if_changed(src, SWEEP_C)
    exe = common.build_harness("c11_sweep", flavor="plain", sources=[src])
    shards = 64
    step = (1 << 32) // shards
    from concurrent.futures import ThreadPoolExecutor

    def run(i):
        return common.sh([exe, str(i * step), str((i + 1) * step)], timeout=3600)
    with ThreadPoolExecutor(common.NPROC) as ex:
        for rc, out, err in ex.map(run, range(shards)):
            done = [l for l in out.split("\n") if l.startswith("DONE")]
            if rc != 0 or not done:
                fails.append({"kind": "sweep-crash", "rc": rc, "stderr": err[-2000:]})
                continue
            for l in out.split("\n"):
                if l.startswith("FAIL"):
                    fails.append({"kind": "mb_roundtrip", "input": l})
            n += int(done[0].split()[2]) - int(done[0].split()[1])
    # (b) all code points 0..0x10FFFF (scalars against python's UTF-8; surrogates model-vs-C only)
    lines = ["ent %s" % hx(b"\x02" + mb_oracle(c)) for c in range(0, 0x110000)]
    ca, crashes = common.run_lines(harness, lines)
    ma, _ = common.run_lines(driver, lines)
    for c in range(0x110000):
        o = utf8_oracle(c)
        if o is not None and ca[c] != o and c != 0:
            fails.append({"kind": "entity", "input": lines[c], "code": c, "c": ca[c], "oracle": o})
        if ca[c] != ma[c]:
            fails.append({"kind": "entity-corr", "input": lines[c], "code": c, "c": ca[c], "model": ma[c]})
    for cr in crashes:
        fails.append({"kind": "crash", **cr})
    n += 0x110000
    # (c) all byte strings of length 0..2 and a 3-byte lattice (every value of each byte with the others on a grid)
    strs = [b""] + [bytes([a]) for a in range(256)] + [bytes([a, b]) for a in range(256) for b in range(256)]
    grid = [0, 1, 2, 3, 15, 16, 63, 64, 127, 128, 191, 192, 251, 252, 253, 254, 255]
    for a in range(256):
        for g in grid:
            for h in grid:
                strs += [bytes([a, g, h]), bytes([g, a, h]), bytes([g, h, a])]
    lines, oracle = [], []
    for s in strs:
        if s:
            lines.append("b64e " + hx(s)); oracle.append("ok " + hx(base64.b64encode(s)))
            lines.append("b64d " + hx(base64.b64encode(s))); oracle.append("ok " + hx(s))
        lines.append("b2hU " + hx(s)); oracle.append("ok " + hx(binascii.hexlify(s).upper()))
        lines.append("h2b " + hx(binascii.hexlify(s))); oracle.append("ok " + hx(s))
    ca, crashes = common.run_lines(harness, lines)
    ma, _ = common.run_lines(driver, lines)
    for i, l in enumerate(lines):
        if ca[i] != oracle[i]:
            fails.append({"kind": "codec", "input": l, "c": ca[i], "oracle": oracle[i]})
        if ca[i] != ma[i]:
            fails.append({"kind": "codec-corr", "input": l, "c": ca[i], "model": ma[i]})
    for cr in crashes:
        fails.append({"kind": "crash", **cr})
    n += len(lines)
    return n, fails


def run(ctx):
    ctx.level = "proof"
    ctx.assumptions = [
        "bytes are modelled as N < 256, 32-bit values as N with explicit mod 2^32 (WB_ULONG is unsigned int on this platform)",
        "the base64 / hex loops over an index are modelled as structural recursion over groups of 3 / 4 / 2 elements",
        "entity code 0: delivered as the empty string (C string transport) — known finding D11, theorem stated for c <> 0",
        "empty input: wbxml_base64_encode/decode refuse it (error), theorem C11_base64_total is stated for bs <> []",
    ]
    bad = common.forbidden_scan()
    cres = common.coq_property(PID)
    common.proof_coverage(ctx, cres)
    proof_broken = (not cres["ok"]) or bool(bad)

    harness = common.build_harness("c11_harness")
    driver = common.build_driver("C11")
    nrand = 20000 if ctx.tier == "quick" else 200000
    cases = gen_cases(ctx, nrand)
    # corpus of minimised failures first
    corpus = os.path.join(common.VERIF, "corpus", "C11.txt")
    pre = []
    if os.path.exists(corpus):
        for l in open(corpus):
            l = l.rstrip("\n")
            if l and not l.startswith("#"):
                line, _, exp = l.partition(" => ")
                pre.append((line, exp or None, "corpus"))
    cases = pre + cases
    if getattr(ctx, "replay", None):
        import json
        rp = json.load(open(ctx.replay))
        cases = [(rp["input"], rp.get("oracle"), rp.get("kind", "replay"))] if "input" in rp else cases
    lines = [c[0] for c in cases]
    ca, crashes = common.run_lines(harness, lines)
    ma, mcr = common.run_lines(driver, lines)

    concrete = []      # the C violates the property on a concrete input
    corr = []          # model and C disagree (tie broken)
    kinds = {}
    nontrivial = set()
    for (line, exp, kind), c, m in zip(cases, ca, ma):
        kinds[kind] = kinds.get(kind, 0) + 1
        if c is not None and c.startswith("ok ") and c != "ok -":
            nontrivial.add(line)
        if exp is not None and c != exp:
            if line == "ent 0200" and c == "ok -":
                ctx.report_known("entity-0")
                if not ctx.known("entity-0"):
                    concrete.append({"input": line, "c": c, "oracle": exp, "kind": kind})
            else:
                concrete.append({"input": line, "c": c, "oracle": exp, "kind": kind})
        if c != m:
            corr.append({"input": line, "c": c, "model": m, "kind": kind})
    for cr in crashes:
        concrete.append({"kind": "crash-or-sanitizer-report", **cr})
    # specification side vs python (validates utf8_spec / rfc4648 / mb_len themselves)
    rng = Rng(ctx.seed, 12)
    slines, sexp = [], []
    for _ in range(2000):
        c = rng.below(0x110000)
        if 0xD800 <= c <= 0xDFFF:
            continue
        slines.append("spec_utf8 %d" % c); sexp.append(hx(chr(c).encode("utf-8")))
        s = rng.bytes(rng.range(1, 30))
        slines.append("spec_b64 " + hx(s)); sexp.append(hx(base64.b64encode(s)))
        v = rng.below(1 << rng.range(1, 32))
        slines.append("spec_mblen %d" % v); sexp.append(str(len(mb_oracle(v))))
    sa, _ = common.run_lines(driver, slines, shards=4)
    spec_bad = [{"input": l, "spec": a, "python": e} for l, a, e in zip(slines, sa, sexp) if a != e]

    evals = len(cases) + len(slines)
    if ctx.tier == "thorough":
        n, fails = thorough_sweeps(ctx, harness, driver)
        evals += n
        for f in fails:
            (corr if f["kind"].endswith("-corr") else concrete).append(f)
        ctx.coverage["exhaustive_parts"] = "all 2^32 integers write->read on the C; all code points 0..0x10FFFF; all byte strings of length 0..2 and a 3-byte lattice for base64/hex"

    ctx.coverage.update({
        "evaluations": evals,
        "distinct_nontrivial": len(nontrivial),
        "rule": "cases = boundary values of the proofs' case splits + random (splitmix64 from VERIF_SEED) + malformed stream; "
                "non-trivial = the C produced a non-empty successful result; distinct by input line",
        "input_distribution": kinds,
        "samples": [{"input": c[0], "oracle": c[1], "c": a, "model": m} for c, a, m in list(zip(cases, ca, ma))[:: max(1, len(cases) // 12)]][:14],
        "traces_validated_against_impl": len(cases),
        "correspondence_disagreements": len(corr),
        "spec_vs_python_disagreements": len(spec_bad),
    })

    # ---- verdict -----------------------------------------------------------------------
    for v in concrete[:5]:
        ctx.violation("c-violates-oracle-" + v.get("kind", "x"), {"replay_cmd": "echo '%s' | <c11_harness>" % v.get("input"), **v})
    if spec_bad:
        ctx.violation("spec-vs-python", {"broken": "specification functions disagree with python's codecs", "cases": spec_bad[:5]}, found_input=False)
    if not concrete:
        if proof_broken:
            ctx.violation("proof-broken", {"broken": "Properties_C11.v no longer checks", "failed_theorems": cres["failed"],
                                           "broken_at": cres.get("broken_at"), "forbidden": bad, "log_tail": cres["log"][-3000:],
                                           "search": "oracle run on %d cases found no failing input" % evals}, found_input=False)
        if corr:
            ctx.violation("correspondence-broken", {"broken": "model Codec.v and the C disagree; the C still satisfies the oracle on every generated case",
                                                    "first_cases": corr[:5]}, found_input=False)
    elif corr:
        ctx.coverage["note"] = "model/C disagreements also present: %d" % len(corr)
