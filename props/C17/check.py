"""C17 — flow-mode encoding always equals batch encoding of the nodes that remain.

1. proof: coq/Properties/Properties_C17.v (Model/Flow.v, parametric in the per-node encoder) rebuilt and re-checked;
2. oracle (the property, literally, on the C): every history is run in flow mode on the real encoder and after EVERY
   operation wbxml_encoder_get_output is compared with what a FRESH encoder gives for the fragments that remain
   (python computes what remains; the harness replays them without any deletion), and with the literal BATCH encoding
   (flow mode off, string table disabled) of a tree whose root-level chain is the remaining nodes;
3. tie: the extracted concrete instance of the model (token tags, SWITCH_PAGE, inline strings) runs the histories of
   the subset it covers and must give the C's bytes and code pages after every operation;
4. the check runs the D16 witnesses first and selects: unrepaired C -> model `step`, and exactly the history shape
   "a deletion that crosses a change of encoder context" is a pending finding; repaired C -> model `step_fixed`, any
   disagreement is a violation.
"""
import json
import os

from vlib import common, gen, c17lib, c18lib, flowtree_run
from vlib.common import Rng

PID = "C17"

PENDING = {
    "delete-last-keeps-code-page": "wbxml_encoder_delete_last_node truncates the output but does not restore the encoder's context (tagCodePage/"
                                   "attrCodePage, current_tag): after deleting a node that switched the code page, the next node on that page is emitted "
                                   "without SWITCH_PAGE (SyncML 1.2: Add, Type, delete, Format -> 05 47 .. instead of 05 00 01 47 ..) [D16]",
    "delete-last-keeps-xml-state": "wbxml_encoder_delete_last_node does not restore the XML generator's indent / in_content / current_tag either: in "
                                   "indented XML output, after deleting a text node (or a raw element start deleted together with the node before it) "
                                   "the following elements get an extra new line, a wrong indentation, or text is base64-encoded [D16, XML side]",
}


def known(ctx, key):
    if ctx.known(key):
        ctx.report_known(key)
        return True
    if os.environ.get("C17_STRICT") or any(k.get("property") == PID and k.get("status") == "fixed" and k.get("defect") == "D16"
                                           for k in common.known_findings()):
        return False                 # registered as repaired (or strict run): the unrepaired behaviour is a regression, not a finding
    if key in PENDING:
        if key not in ctx.known_hits:
            ctx.known_hits.append(key)
            print("KNOWN-FINDING: property=%s %s" % (PID, PENDING[key]), flush=True)
        return True
    return False


XDRIVER, X_MODEL_FIXED = None, True
POOLS = None


def parse_flow(a):
    """'err:h:hex:tp.ap.indent.inc|...' -> list of (err, h, body, context)"""
    if a is None or a in ("nolang", "bad", "skip"):
        return None
    out = []
    for part in a.split(" ")[0].split("|"):
        f = part.split(":")
        if len(f) != 4:
            return None
        out.append((f[0], f[1], f[2], f[3]))
    return out


def witness_lines(pools):
    L = pools.langs[2201]["tags"]

    def idx(name, page):
        return next(i for i, r in enumerate(L) if r[0] == name and r[1] == page)
    pool = "e%d.(.)/e%d.(.x%s.)/e%d.(.x%s.)" % (idx("Add", 0), idx("Type", 1), b"zq".hex(), idx("Format", 1), b"b64".hex())
    xpool = "x%s/e%d.(.e%d.(.).)" % (b"zq".hex(), idx("Add", 0), idx("Type", 1))
    return {"pool": pool, "w_flow": "flow 2201 W 0 %s N0;N1;D;N2" % pool, "w_fresh": "flow 2201 W 0 %s N0;N2" % pool,
            "x_flow": "flow 2201 X 1 %s N0;D;N1" % xpool, "x_fresh": "flow 2201 X 1 %s N1" % xpool}


def gen_histories(ctx, pools, n, chunk_no):
    rng = Rng(ctx.seed, 17 + 1000 * chunk_no)
    hs = []
    for k in range(n):
        r = rng.below(100)
        covered = r < 45                     # the concrete Coq instance covers these (WBXML, token tags, plain text)
        mode = "W" if (covered or r < 75) else "X"
        lid = rng.choice(c17lib.MULTI) if rng.chance(5, 6) else rng.choice(c17lib.LANGS)
        if covered and lid not in c17lib.COVERED_LANGS:
            lid = rng.choice(c17lib.COVERED_LANGS)   # (WV encodes the text of typed elements as opaque integers / dates: C-only stream)
        xmlgen = rng.choice([0, 1, 2]) if mode == "X" else 0
        if not covered and rng.chance(1, 3):
            xmlgen += 10                     # ignore_empty_text + remove_text_blanks: blank text nodes encode to nothing
        nodes_only = rng.chance(2, 5)          # nodes only, each at most once: the literal batch exists for every remainder
        pool, infos = pools.pool(rng, lid, covered, mode == "X", big=nodes_only)
        ops = c17lib.history(rng, infos, rng.range(3, 40), raw=not nodes_only, drate=rng.choice([5, 10, 20, 30]))
        doc = False
        if covered and rng.chance(1, 3):
            # document-shaped: raw start of a root element, nodes and deletions, raw end: the final output is a complete
            # WBXML document, which the proved strict decoder (Spec.decode_lang, C04) must read back as exactly the
            # remaining nodes
            roots = [i for i, inf in enumerate(infos) if not inf["text"] and inf["has_kids"]]
            elts = [i for i, inf in enumerate(infos) if not inf["text"]]
            if roots and elts:
                r0 = rng.choice(roots)
                body = ["N%d" % rng.choice(elts)]
                for _ in range(rng.range(0, 14)):
                    body.append("D" if rng.chance(1, 4) else "N%d" % rng.choice(elts))
                ops = ["S%d,1" % r0] + body + ["F%d,1" % r0]
                doc = True
        hs.append({"lang": lid, "mode": mode, "xmlgen": xmlgen, "pool": pool, "ops": ops, "covered": covered, "doc": doc,
                   "line": "flow %d %s %d %s %s" % (lid, mode, xmlgen, pool, ";".join(ops))})
    return hs


def run(ctx):
    ctx.level = "proof"
    ctx.assumptions = [
        "the per-node encoder is a function of (encoder context, node): the only assumption of the parametric theorems. For the transcribed encoders it is PROVED (Model/EncWbxml.v: context = tagCodePage, attrCodePage, current_tag - frame over the string table, CDATA balance; Model/EncXml.v: context = indent, in_content, current_tag - CDATA balance); that the transcriptions are wbxml_encoder.c is tied by the harness after every operation of every history, not proved",
        "where the API is silent: delete_last_node removes the last node encoded with encode_node AND every raw start/end fragment encoded after it; before any node it removes everything; twice in a row the second is a no-op",
        "histories use detached nodes (encode_node on a node with a next sibling also encodes the siblings); nodes are encodable (token tags; a failing encode leaves partial output and is outside the property's domain: such histories are counted and skipped)",
        "batch = wbxml_encoder_encode_tree_to_wbxml/_to_xml of a tree whose root-level sibling chain is the remaining nodes, flow mode off, string table disabled, same charset; computed when the remaining fragments are pairwise distinct nodes and brackets 'raw start ; ONE detached text node ; raw end', a bracket standing for that element with the text as its only child (the text right after a start tag is judged by current_tag in flow mode and in a tree alike; later children are not comparable: a detached node has no parent pointer); not for indented XML",
    ]
    bad = common.forbidden_scan()
    cres = common.coq_property(PID)
    common.proof_coverage(ctx, cres)
    proof_broken = (not cres["ok"]) or bool(bad)

    tables = gen.tables_json()
    pools = c17lib.Pools(tables)
    global POOLS
    POOLS = pools
    vocab = c18lib.Vocab(tables)
    tfile = os.path.join(common.BUILD, "c18_tables-%s.txt" % common.repo_hash())
    common.write_if_changed(tfile, vocab.tables_file())
    harness = common.build_harness("c17_harness")
    driver = common.build_driver("C17")
    denv = common.run_env({"C18_TABLES": tfile})
    gen.gen_tables()
    global XDRIVER, X_MODEL_FIXED
    XDRIVER = common.build_driver("C17x")               # the XML instance (Model/FlowEncXml.v over Model/EncXml.v)
    strict_driver = common.build_driver("C04")          # `strict <lang> <hex>` = Spec.decode_lang (proved round trip, C04)
    hl = ["header %d W 0" % l for l in c17lib.COVERED_LANGS]
    ha, _ = common.run_lines(harness, hl, shards=1)
    wheaders = {l: a.split(":")[1] for l, a in zip(c17lib.COVERED_LANGS, ha) if a and a.startswith("0:")}

    # ---- which behaviour does the C have?  (the D16 witnesses: code page in WBXML, in_content in indented XML)
    w = witness_lines(pools)
    wa, wcr = common.run_lines(harness, [w["w_flow"], w["w_fresh"], w["x_flow"], w["x_fresh"]], shards=1)
    pf = [parse_flow(a) for a in wa]
    fixed = {"W": bool(pf[0] and pf[1] and pf[0][-1][1:] == pf[1][-1][1:]),
             "X": bool(pf[2] and pf[3] and pf[2][-1][1:] == pf[3][-1][1:])}
    ctx.coverage["c_behaviour"] = {"wbxml": "repaired (delete_last_node restores the code pages)" if fixed["W"] else "unrepaired (D16 present)",
                                   "xml": "repaired (delete_last_node restores indent / in_content)" if fixed["X"] else "unrepaired (D16, XML side, present)"}
    ctx.coverage["witness"] = {"wbxml": {"flow": w["w_flow"], "flow_answer": wa[0], "fresh_answer": wa[1]},
                               "xml": {"flow": w["x_flow"], "flow_answer": wa[2], "fresh_answer": wa[3]}}
    tolerated = {"W": (not fixed["W"]) and known(ctx, "delete-last-keeps-code-page"),
                 "X": (not fixed["X"]) and known(ctx, "delete-last-keeps-xml-state")}
    ctx.coverage["pending_finding_tolerated"] = tolerated
    fixed = {m: not tolerated[m] for m in "WX"}      # from here on: "judge strictly" per output mode
    model_fixed = bool(pf[0] and pf[1] and pf[0][-1][1:] == pf[1][-1][1:])
    X_MODEL_FIXED = bool(pf[2] and pf[3] and pf[2][-1][1:] == pf[3][-1][1:])

    nh = 50000 if ctx.tier == "quick" else 1000000
    if os.environ.get("C17_NSEQ"):
        nh = int(os.environ["C17_NSEQ"])
    total = {"evaluations": 0, "ops": 0, "prefixes_judged": 0, "batch_compared": 0, "model_compared": 0, "d16_histories": 0,
             "histories_with_delete": 0, "error_histories": 0, "xml_histories": 0, "replay_runs": 0}
    kinds, nontrivial, concrete, corr, samples = {}, set(), [], [], []
    pre = [{"lang": 2201, "mode": "W", "xmlgen": 0, "pool": w["pool"], "ops": ["N0", "N1", "D", "N2", "G"], "covered": True,
            "line": w["w_flow"] + ";G"},
           {"lang": 2201, "mode": "X", "xmlgen": 1, "pool": w["x_flow"].split(" ")[4], "ops": ["N0", "D", "N1"], "covered": False,
            "line": w["x_flow"]}]
    L12 = pools.langs[2201]["tags"]
    D12 = pools.langs[2202]["tags"]

    def ti(tags, name):
        return next(i for i, r in enumerate(tags) if r[0] == name)
    # a node that encodes to nothing followed by a deletion (seeded C17_1), an embedded document (seeded C17_2)
    zpool = "e%d.(.)/e%d.(.x%s.)/x-/c.(.)" % (ti(L12, "Add"), ti(L12, "Cmd"), b"zq".hex())
    epool = "e%d.(.)/e%d.(.t2202.(.e%d.(.e%d.(.x%s.).).).)" % (ti(L12, "Add"), ti(L12, "Data"), ti(D12, "DevInf"), ti(D12, "VerDTD"), b"1.2".hex())
    for mode, gen_ in (("W", 0), ("X", 0)):
        pre.append({"lang": 2201, "mode": mode, "xmlgen": gen_, "pool": zpool, "ops": ["N0", "N1", "N2", "D", "N3", "D", "G"], "covered": False,
                    "line": "flow 2201 %s %d %s N0;N1;N2;D;N3;D;G" % (mode, gen_, zpool)})
        pre.append({"lang": 2201, "mode": mode, "xmlgen": gen_, "pool": epool, "ops": ["N0", "N1", "G"], "covered": False,
                    "line": "flow 2201 %s %d %s N0;N1;G" % (mode, gen_, epool)})
    if getattr(ctx, "replay", None):
        rp = json.load(open(ctx.replay))
        if rp.get("input") and rp["input"].startswith("flow "):
            f = rp["input"].split(" ")
            pre = [{"lang": int(f[1]), "mode": f[2], "xmlgen": int(f[3]), "pool": f[4], "ops": f[5].split(";") if len(f) > 5 else [],
                    "covered": f[2] == "W", "line": rp["input"]}]
            nh = 0
        elif rp.get("history"):
            f = rp["history"].split(" ")
            pre = [{"lang": int(f[1]), "mode": f[2], "xmlgen": int(f[3]), "pool": f[4], "ops": f[5].split(";") if len(f) > 5 else [],
                    "covered": f[2] == "W", "line": rp["history"]}]
            nh = 0
    chunk, done, first = 10000, 0, True
    while first or done < nh:
        first = False
        n = min(chunk, nh - done)
        batch = (pre if done == 0 else []) + (gen_histories(ctx, pools, n, done // chunk) if n > 0 else [])
        done += n
        if not batch:
            break
        process(ctx, batch, harness, driver, denv, fixed, model_fixed, total, kinds, nontrivial, concrete, corr, samples,
                strict_driver, wheaders, pools)
        if len(concrete) > 50:
            break

    ctx.coverage.update({
        "evaluations": total["evaluations"],
        "distinct_nontrivial": len(nontrivial),
        "rule": "one evaluation = one history (flow run + the fresh-encoder runs of what remains + batch); every prefix of every history is judged; "
                "non-trivial = the history contains a deletion and ends with a non-empty output; distinct by line hash",
        "input_distribution": dict(kinds, **{k: v for k, v in total.items() if k != "evaluations"}),
        "samples": samples[:12],
        "traces_validated_against_impl": total["evaluations"],
        "correspondence_disagreements": len(corr),
    })
    byk = {}
    for v in concrete:
        byk[v.get("kind", "x")] = byk.get(v.get("kind", "x"), 0) + 1
    ctx.coverage["oracle_failures_by_kind"] = byk
    picked, seenk = [], set()
    for v in concrete:
        if v["kind"] not in seenk:
            picked.append(v)
            seenk.add(v["kind"])
    for v in concrete:
        if len(picked) >= 5:
            break
        if v not in picked:
            picked.append(v)
    for v in picked[:5]:
        ctx.violation("c-violates-oracle-" + v["kind"], {"replay_cmd": "bin/check C17 --replay <this file>", **v})
    if not concrete:
        if proof_broken:
            ctx.violation("proof-broken", {"broken": "Properties_C17.v no longer checks", "failed_theorems": cres["failed"],
                                           "broken_at": cres.get("broken_at"), "forbidden": bad, "log_tail": cres["log"][-3000:],
                                           "search": "oracle run on %d histories found no failing input" % total["evaluations"]},
                          found_input=False)
        if corr:
            ctx.violation("correspondence-broken", {"broken": "the concrete instance of Model/Flow.v (%s) and the C disagree; the C satisfies the fresh-encoder and batch oracles on every generated history" % ("step_fixed" if model_fixed else "step"),
                                                    "first_cases": corr[:5]}, found_input=False)
    elif corr:
        ctx.coverage["note"] = "model/C disagreements also present: %d" % len(corr)


def expected_events(pools, lang, pool, frags):
    """what the remaining fragments denote, as the strict decoder prints events (token tags, plain text only)"""
    tags = pools.langs[lang]["tags"]
    specs = pool.split("/")

    first = {}
    for r in tags:
        first.setdefault((r[1], r[2]), r[0])      # a token with two names (AirSync page 14 token 0x10) decodes to the first

    def tname(i):
        r = tags[i]
        return "T.%d.%d.%s" % (r[1], r[2], first[(r[1], r[2])].encode().hex())

    def node_events(toks, pos):
        t = toks[pos]
        if t[0] == "x":
            return ["CH:" + t[1:]], pos + 1
        if t[0] != "e":
            raise ValueError(t)
        name = tname(int(t[1:]))
        ev = ["SE:" + name]
        pos += 1
        if pos < len(toks) and toks[pos] == "(":
            pos += 1
            while toks[pos] != ")":
                e2, pos = node_events(toks, pos)
                ev += e2
            pos += 1
        return ev + ["EE:" + name], pos
    out = []
    for f in frags:
        i = int(f[1:].split(",")[0])
        toks = specs[i].split(".")
        if f[0] == "N":
            out += node_events(toks, 0)[0]
        elif f[0] == "S":
            out.append("SE:" + tname(int(toks[0][1:])))
        elif f[0] == "F":
            out.append("EE:" + tname(int(toks[0][1:])))
    return out


def batch_plan(l, h):
    """the tree whose batch encoding the live fragments l must equal: (pool spec, root indices, uses brackets) or None.
    Nodes stand for themselves (pairwise distinct objects).  A bracket  S<i>,1 ; N<j> ; F<i>,1  with pool[j] a text node
    stands for the element pool[i] (tag and attributes) with that text as its ONLY child - the one shape for which a
    detached node encoded after a raw start must come out exactly as in a tree: the text right after the start tag is
    judged by current_tag in both (later children are not: a detached node has no parent pointer, the tree's has).
    Not for indented XML (the layout looks at the children of the node given to the raw start)."""
    specs = h["pool"].split("/")
    extra, idx, k, used = [], [], 0, False
    while k < len(l):
        o = l[k]
        if o[0] == "N":
            idx.append(o[1:])
            k += 1
        elif o[0] == "S" and o.endswith(",1") and k + 2 < len(l) and l[k + 1][0] == "N" and l[k + 2] == "F" + o[1:]:
            i, j = int(o[1:].split(",")[0]), int(l[k + 1][1:])
            if i >= len(specs) or j >= len(specs) or not specs[j].startswith("x") or specs[j] == "x-" or specs[i][0] != "e":
                return None
            if h["mode"] == "X" and h["xmlgen"] % 10 == 1:
                return None
            if h["mode"] == "W" and POOLS is not None:
                # WBXML output looks at the text node's PARENT element for one thing: the content of a SyncML MetInf <Type>
                # (page 1, token 0x13) is rewritten '+xml' -> '+wbxml' (current_text_parent = node->parent); a detached
                # text node has no parent, so flow mode and the tree legitimately differ there: not comparable
                row = POOLS.langs[h["lang"]]["tags"][int(specs[i].split(".")[0][1:])]
                if h["lang"] in (2001, 2101, 2201) and row[1] == 1 and row[2] == 0x13:
                    return None
            head = []
            for t in specs[i].split("."):
                if t == "(":
                    break
                head.append(t)
            extra.append(".".join(head + ["(", specs[j], ")"]))
            idx.append(str(len(specs) + len(extra) - 1))
            used = True
            k += 3
        else:
            return None
    plain = [x for x in idx if int(x) < len(specs)]
    if len(set(plain)) != len(plain):
        return None
    return "/".join(specs + extra), idx, used


def process(ctx, batch, harness, driver, denv, fixed, model_fixed, total, kinds, nontrivial, concrete, corr, samples,
            strict_driver=None, wheaders=None, pools=None):
    lines, owner = [], []            # owner: (history index, kind, payload)
    for hi, h in enumerate(batch):
        h["lives"] = c17lib.live_prefixes(h["ops"])
        h["branches"] = [b for b in c17lib.branches(h["lives"]) if b]
        lines.append(h["line"])
        owner.append((hi, "flow", None))
        base = "flow %d %s %d %s " % (h["lang"], h["mode"], h["xmlgen"], h["pool"])
        for b in h["branches"]:
            lines.append(base + ";".join(b))
            owner.append((hi, "fresh", b))
        # the BATCH encoding: of the final remainder, and of the remainder just before the last deletion
        cands = [h["lives"][-1][0]] if h["lives"] else []
        dels = [k for k, o in enumerate(h["ops"]) if o == "D" and k > 0]
        if dels:
            cands.append(h["lives"][dels[-1] - 1][0])
        # ... and right after the first completed bracket  raw start ; text node ; raw end
        for k, o in enumerate(h["ops"]):
            lv = h["lives"][k][0]
            if o[0] == "F" and len(lv) >= 3 and lv[-3][0] == "S" and lv[-2][0] == "N" and lv[-1] == "F" + lv[-3][1:]:
                cands.append(lv)
                break
        h["batches"] = []
        for l in cands:
            plan = batch_plan(l, h)
            if l and plan is not None and l not in h["batches"]:
                h["batches"].append(l)
                lines.append("batch %d %s %d %s %s" % (h["lang"], h["mode"], h["xmlgen"], plan[0], ",".join(plan[1])))
                owner.append((hi, "batch", l))
                if plan[2]:
                    total["bracket_batches"] = total.get("bracket_batches", 0) + 1
    ans, culprits = flowtree_run.run_robust(harness, lines)
    for cu in culprits:
        concrete.append({"kind": "crash-or-sanitizer-report", "input": cu["input"], "rc": cu["rc"], "stderr": cu["stderr"], "note": cu.get("note")})
    # model
    mlines, mown = [], []
    for hi, h in enumerate(batch):
        if h["covered"] and h["mode"] == "W":
            mlines.append(("flowfixed" if model_fixed else "flow") + h["line"][4:])
            mown.append(hi)
    mans, _ = common.run_lines(driver, mlines, env=denv) if mlines else ([], [])
    mof = dict(zip(mown, mans))
    # the instance with the REAL per-node encoding (Model/FlowEnc.v over Model/EncWbxml.v): every WBXML history
    elines, eown = [], []
    for hi, h in enumerate(batch):
        if h["mode"] == "W":
            elines.append(("flowencfixed" if model_fixed else "flowenc") + h["line"][4:])
            eown.append(hi)
    eans, _ = common.run_lines(driver, elines, env=denv) if elines else ([], [])
    eof = dict(zip(eown, eans))
    # ... and the XML instance (Model/FlowEncXml.v over Model/EncXml.v): every XML history
    xlines, xown = [], []
    for hi, h in enumerate(batch):
        if h["mode"] == "X" and XDRIVER:
            xlines.append(("flowencfixed" if X_MODEL_FIXED else "flowenc") + h["line"][4:])
            xown.append(hi)
    xans, _ = common.run_lines(XDRIVER, xlines) if xlines else ([], [])
    eof.update(dict(zip(xown, xans)))
    per = {}
    for (hi, kind, payload), a in zip(owner, ans):
        per.setdefault(hi, {"fresh": {}, "batch": {}})
        if kind == "flow":
            per[hi]["flow"] = a
        else:
            per[hi][kind][payload] = a
    strict_jobs = []
    for hi, h in enumerate(batch):
        total["evaluations"] += 1
        key = "lang %d %s" % (h["lang"], h["mode"])
        kinds[key] = kinds.get(key, 0) + 1
        p = per.get(hi, {})
        flow = parse_flow(p.get("flow"))
        if flow is None or len(flow) != len(h["ops"]):
            continue
        total["ops"] += len(h["ops"])
        if h["mode"] == "X":
            total["xml_histories"] += 1
        if "D" in h["ops"]:
            total["histories_with_delete"] += 1
        fresh = {b: parse_flow(a) for b, a in p["fresh"].items()}
        total["replay_runs"] += len(fresh)
        if any(f is None for f in fresh.values()):
            continue
        if any(e[0] != "0" for e in flow) or any(e[0] != "0" for f in fresh.values() for e in f):
            total["error_histories"] += 1        # an encode failed: outside the domain (partial output)
            continue

        def expected(lv):
            """(body, context) a fresh encoder has after the fragments lv"""
            if not lv:
                return "-", "0.0.0.0.-1"
            for b, f in fresh.items():
                if b[:len(lv)] == lv:
                    return f[len(lv) - 1][2], f[len(lv) - 1][3]
            return None, None
        failed, d16 = None, False
        isfixed = fixed[h["mode"]]
        for k, (e, hflag, body, cx) in enumerate(flow):
            lv, seen = h["lives"][k]
            xb, xc = expected(lv)
            if xb is None:
                break
            total["prefixes_judged"] += 1
            if d16 and not isfixed:
                total["prefixes_after_pending_shape"] = total.get("prefixes_after_pending_shape", 0) + 1
            if h["ops"][k] == "D" and cx != xc:
                d16 = True                        # a deletion that crossed a change of encoder context: context not restored
            # judged: the bytes, the header, and (WBXML) the code-page state the property names; indent / in_content /
            # current_tag are looked at only to recognise the cause above
            if body != xb or (hflag == "1") != seen or (h["mode"] == "W" and cx.split(".")[:2] != xc.split(".")[:2]):
                if d16 and not isfixed:
                    continue                      # the pending finding, judged by its cause (the history shape), not by the symptom
                failed = {"kind": "flow-vs-fresh-encoder", "input": h["line"], "op_index": k, "op": h["ops"][k],
                          "remaining": ";".join(lv), "flow": {"header": hflag, "body": body, "context": cx},
                          "fresh": {"header": "1" if seen else "0", "body": xb, "context": xc},
                          "what": "get_output (or, for WBXML, the code-page state) after this operation differs from what a fresh encoder has after the fragments that remain; context = tagCP.attrCP.indent.in_content.current_tag"}
                break
        if d16:
            total["d16_histories"] += 1
            if not isfixed:
                known(ctx, "delete-last-keeps-code-page" if h["mode"] == "W" else "delete-last-keeps-xml-state")
        # second oracle: the proved strict decoder reads the final output of a document-shaped history
        if h.get("doc") and strict_driver and h["lang"] in (wheaders or {}) and flow[-1][1] == "1" and (isfixed or not d16):
            strict_jobs.append((h, "strict %d %s%s" % (h["lang"], wheaders[h["lang"]], flow[-1][2])))
        if failed:
            concrete.append(failed)
            continue
        # the BATCH encoding
        for l, a in p["batch"].items():
            if a is None:
                continue
            f = a.split(":")
            xb, _ = expected(l)
            if xb is None:
                continue
            total["batch_compared"] += 1
            if f[0] != "0" or len(f) != 3 or f[1] != "1" or f[2] != xb:
                bp = batch_plan(l, h)
                concrete.append({"kind": "fresh-encoder-vs-batch", "input": "batch %d %s %d %s %s" % (h["lang"], h["mode"], h["xmlgen"], bp[0], ",".join(bp[1])),
                                 "history": h["line"], "batch": a, "fresh_body": xb,
                                 "what": "the batch encoding of the remaining nodes differs from the flow encoding of the same nodes by a fresh encoder"})
                break
        # model tie
        m = mof.get(hi)
        if m is not None and m != "skip":
            mf = parse_flow(m)
            total["model_compared"] += 1
            def tie(x):
                return (x[1], x[2], ".".join(x[3].split(".")[:2]))      # header flag, body, tagCP.attrCP
            if mf is None or [tie(x) for x in mf] != [tie(x) for x in flow]:
                k = next((i for i in range(min(len(mf or []), len(flow))) if tie(mf[i]) != tie(flow[i])), None)
                corr.append({"input": h["line"], "first_differing_op": k, "c": flow[k] if k is not None else None,
                             "model": mf[k] if (mf and k is not None) else m[:200]})
            else:
                # specification side of the model vs the C's fresh encoder (validates `live` / `batch_from` themselves)
                sb = m.split(" S=")[1].split(" ")[0] if " S=" in m else None
                xb, _ = expected(h["lives"][-1][0])
                if sb is not None and xb is not None and sb != xb:
                    corr.append({"input": h["line"], "spec_body": sb, "fresh_encoder_body": xb, "kind": "spec-vs-fresh"})
        # tie of the real-encoder instance: error code, header flag, body, both code pages after EVERY operation,
        # and its specification side (w_spec_output) against the C's fresh encoder
        m = eof.get(hi)
        if m is not None:
            if m == "skip" or m is None:
                total["encwbxml_skipped"] = total.get("encwbxml_skipped", 0) + 1
            else:
                mf = parse_flow(m.split(" S=")[0])
                ck = "encwbxml_compared" if h["mode"] == "W" else "encxml_compared"
                total[ck] = total.get(ck, 0) + 1
                def tie2(x):
                    # WBXML: the two code pages; XML: indent and in_content
                    return (x[0], x[1], x[2], ".".join(x[3].split(".")[:2] if h["mode"] == "W" else x[3].split(".")[2:4]))
                if mf is None or [tie2(x) for x in mf] != [tie2(x) for x in flow]:
                    k = next((i for i in range(min(len(mf or []), len(flow))) if tie2(mf[i]) != tie2(flow[i])), None)
                    corr.append({"input": h["line"], "kind": "encwbxml-instance-vs-c" if h["mode"] == "W" else "encxml-instance-vs-c", "first_differing_op": k,
                                 "c": flow[k] if k is not None else None, "model": mf[k] if (mf and k is not None) else m[:200]})
                else:
                    sb = m.split(" S=")[1].split(" ")[0] if " S=" in m else None
                    xb, _ = expected(h["lives"][-1][0])
                    if sb is not None and xb is not None and (sb or "-") != xb:
                        corr.append({"input": h["line"], "spec_body": sb, "fresh_encoder_body": xb,
                                     "kind": "encwbxml-spec-vs-fresh" if h["mode"] == "W" else "encxml-spec-vs-fresh"})
        if "D" in h["ops"] and flow[-1][2] != "-":
            nontrivial.add(hash(h["line"]))
        if len(samples) < 12 and hash(h["line"]) % 11 == 0 and "D" in h["ops"]:
            samples.append({"input": h["line"][:500], "last_output_body": flow[-1][2][:120], "remaining": ";".join(h["lives"][-1][0])})
    if strict_jobs:
        sa, _ = common.run_lines(strict_driver, [l for _, l in strict_jobs])
        for (h, l), a in zip(strict_jobs, sa):
            total["strict_decoded"] = total.get("strict_decoded", 0) + 1
            want = "ok SD:106:%d %s ED" % (h["lang"], " ".join(expected_events(pools, h["lang"], h["pool"], h["lives"][-1][0])))
            if a != want:
                concrete.append({"kind": "strict-decoder", "input": h["line"], "strict_input": l, "decoded": a, "expected": want,
                                 "what": "the final flow output, read by the proved strict decoder (Spec.decode_lang), does not denote exactly the nodes that remain"})
