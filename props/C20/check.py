"""C20 — the command-line tools report the library's verdict and nothing else.

1. proof: coq/Properties/Properties_C20.v (theorems over Model/Cli.v) rebuilt and re-checked;
2. tie: wbxml2xml / xml2wbxml are built from tools/*.c of the current tree (twice: with tools/attgetopt.c,
   which the model transcribes, and with glibc's getopt, which CMake selects on this platform) and run in
   scratch directories; exit status, stdout, stderr and the files they leave are compared with the
   extracted model, which is fed the result of calling the library in-process (harness/c20_lib.c);
3. oracle (independent of the model): python's getopt module decides what the arguments mean, the
   in-process library call says what the bytes and the code must be, and the property's sentences are
   checked directly on what the executable did.
"""
import glob
import json
import os
import shutil
from concurrent.futures import ThreadPoolExecutor

from vlib import common, cli
from vlib.cli import hx, unhx
from vlib.common import Rng

PID = "C20"

WML_HEAD = (b'<?xml version="1.0"?>\n<!DOCTYPE wml PUBLIC "-//WAPFORUM//DTD WML 1.1//EN" '
            b'"http://www.wapforum.org/DTD/wml_1.1.xml">\n')


def wml_doc(text, tail=b""):
    return WML_HEAD + b"<wml>\n  <card id=\"a\">\n    <p>" + text + b"</p>\n    <p> </p>\n  </card>\n</wml>\n" + tail


class Lib:
    """the in-process library (harness/c20_lib.c), memoised"""

    def __init__(self, exe):
        self.exe = exe
        self.memo = {}

    def many(self, lines):
        todo = [l for l in dict.fromkeys(lines) if l not in self.memo]
        if todo:
            ans, crashes = common.run_lines(self.exe, todo)
            for l, a in zip(todo, ans):
                self.memo[l] = a
            self.crashes = crashes
        return [self.memo[l] for l in lines]

    def conv(self, opts, data):
        a = self.many([cli.lib_line(opts, data)])[0]
        return parse_lib(a)

    def name(self, kind, text):
        return int(self.many(["%s %s" % (kind, hx(text.encode("latin-1")))])[0])


def parse_lib(a):
    if a is None:
        return None
    f = a.split()
    return int(f[0]), unhx(f[1]), unhx(f[2])


# ----------------------------------------------------------------------------------------------
# documents
# ----------------------------------------------------------------------------------------------

def build_pools(ctx, lib):
    rng = Rng(ctx.seed, 200)
    files = sorted(glob.glob(os.path.join(common.REPO, "test", "tools", "**", "*.xml"), recursive=True))
    small = [f for f in files if os.path.getsize(f) < 1000]
    big = [f for f in files if 1000 <= os.path.getsize(f) < 40000]
    npick = 6 if ctx.tier == "quick" else 40
    chosen = [rng.choice(small) for _ in range(npick)] + [rng.choice(big) for _ in range(npick)]
    xml = {"valid": [], "invalid": [], "empty": [b""], "large": []}
    for f in dict.fromkeys(chosen):
        data = open(f, "rb").read()
        (xml["large"] if len(data) > 1000 else xml["valid"]).append(data)
    xml["valid"].append(wml_doc(b"  hello   world  "))
    # exact sizes around the 1000-byte read block
    for size in (999, 1000, 1001, 1999, 2000, 2001, 3000, 5321):
        base = wml_doc(b"x")
        xml["large" if size > 1000 else "valid"].append(wml_doc(b"x" * (size - len(base) + 1)))
        assert len(xml["large" if size > 1000 else "valid"][-1]) == size
    xml["invalid"] += [b"<a>", b"not xml at all", b"<?xml version=\"1.0\"?><unknownroot/>", b"\x00\x01\x02",
                       wml_doc(b"x" * 1500)[:-9],                        # error after the first block
                       wml_doc(b"y" * 2100).replace(b"</card>", b"</crad>")]
    # WBXML side: converted in-process
    wb = {"valid": [], "invalid": [], "empty": [b""], "large": []}
    srcs = xml["valid"] + xml["large"]
    res = lib.many([cli.lib_line("x:3:%d:1:0" % k, d) for d in srcs for k in (0, 1)])
    for r in res:
        code, _, out = parse_lib(r) or (1, b"", b"")
        if code == 0 and out:
            (wb["large"] if len(out) > 1000 else wb["valid"]).append(out)
    for size in (999, 1000, 1001, 2000, 2001, 4000):
        n = size
        for _ in range(6):
            code, _, out = lib.conv("x:3:0:0:0", wml_doc(b"z" * n)) or (1, b"", b"")
            if code != 0 or len(out) == size:
                break
            n += size - len(out)
        if code == 0 and len(out) == size:
            wb["large" if size > 1000 else "valid"].append(out)
    for k in wb:
        wb[k] = list(dict.fromkeys(wb[k]))
    v0 = wb["valid"][0] if wb["valid"] else b"\x03\x0a\x6a\x00"
    big0 = wb["large"][0] if wb["large"] else v0
    wb["invalid"] += [v0[:len(v0) // 2], v0[:3], b"\x03", b"\xff" * 7, rng.bytes(40), big0[:1100], big0[:-3] + b"\x83\x7f\x7f",
                      b"\x03\x0a\x6a\x00\x7f\xc3\x05"]
    for f in sorted(glob.glob(os.path.join(common.REPO, "test", "fuzz", "*.fuzz"))):
        wb["invalid"].append(open(f, "rb").read())
    if not wb["large"]:
        wb["large"] = [v0]
    return {"w2x": wb, "x2w": xml}


# ----------------------------------------------------------------------------------------------
# cases
# ----------------------------------------------------------------------------------------------

LANGS = ["WML10", "WML11", "WML12", "WML13", "WTA10", "WTAWML12", "CHANNEL11", "CHANNEL12", "SI10", "SL10", "CO10",
         "PROV10", "EMN10", "DRMREL10", "OTA", "SYNCML10", "DEVINF10", "SYNCML11", "DEVINF11", "METINF11", "SYNCML12",
         "DEVINF12", "METINF12", "DMDDF12", "CSP11", "CSP12", "AIRSYNC", "ACTIVESYNC", "CONML"]
CHARSETS = ["ASCII", "ISO-8859-1", "ISO-8859-2", "ISO-8859-3", "ISO-8859-4", "ISO-8859-5", "ISO-8859-6", "ISO-8859-7",
            "ISO-8859-8", "ISO-8859-9", "ISO-10646-UCS-2", "SHIFT_JIS", "BIG5", "UTF-8", "UTF-16"]
JUNK_NAMES = ["", "wml13", "WML", "WML130", "XX", "UTF8", "utf-8", "METINF10", "1.3", "-", "--", " WML13"]
INTS = ["0", "1", "2", "3", "4", "8", "-1", "-2", "255", "256", "257", "258", "x", "", "1x", " 2", "\t1", "+1", "+2", "-0",
        "00", "02", "2147483648", "4294967296", "4294967297", "4294967298", "99999999999999999999",
        "-99999999999999999999", "0x10", "1.5", "- 1", "--1"]
VERSIONS = ["1.0", "1.1", "1.2", "1.3", "1.4", "", "1", "1.30", "2.0", "x", " 1.1"]
OUTS = [b"out", b"out", b"out", b"-", b"-", b"nodir/out", b"adir", b"ro.out", b"old.out", b"adir/out", b"in/out", b"",
        b"in", b"out put", b"-o", b"--"]
INS = [b"in", b"in", b"in", b"in", b"-", b"-", b"missing.file", b"adir", b"", b"in2", b"old.out"]


def base_env(doc, doc2=b""):
    return {"files": {b"in": doc, b"in2": doc2, b"ro.out": b"OLD-RO", b"old.out": b"OLD-CONTENT"},
            "dirs": [b"adir"], "ro": [b"ro.out"]}


def mk(tool, fl, args, doc, kind, stdin=None, argv0=None):
    c = {"tool": tool, "fl": fl, "argv0": argv0 if argv0 is not None else cli.TOOLS[tool].encode(),
         "args": [a if isinstance(a, bytes) else a.encode("latin-1") for a in args], "kind": kind}
    c.update(base_env(doc))
    c["stdin"] = doc if stdin is None else stdin
    return c


def rand_opt(rng, tool):
    """one option (one or two words)"""
    if tool == "w2x":
        r = rng.below(16)
        if r < 3:
            return ["-k"]
        if r < 6:
            o, v = "-m", rng.choice(INTS)
        elif r < 9:
            o, v = "-i", rng.choice(INTS)
        elif r < 11:
            o, v = "-l", rng.choice(LANGS) if rng.chance(3, 4) else rng.choice(JUNK_NAMES)
        elif r < 13:
            o, v = "-c", rng.choice(CHARSETS) if rng.chance(3, 4) else rng.choice(JUNK_NAMES)
        elif r < 14:
            return [rng.choice(["-h", "-?", "-z", "-kz", "-K", "--", "---", "-:", "-;", "-kh", "--help", "-k-"])]
        else:
            o, v = "-o", rng.choice(OUTS).decode("latin-1")
    else:
        r = rng.below(14)
        if r < 2:
            return ["-k"]
        if r < 4:
            return ["-n"]
        if r < 6:
            return ["-a"]
        if r < 7:
            return [rng.choice(["-nk", "-ka", "-nka", "-an", "-kk"])]
        if r < 10:
            o, v = "-v", rng.choice(VERSIONS)
        elif r < 11:
            return [rng.choice(["-h", "-?", "-z", "-nz", "-m", "--", "---", "-:", "-nh", "--help", "-i"])]
        else:
            o, v = "-o", rng.choice(OUTS).decode("latin-1")
    if v != "" and rng.chance(1, 3):
        return [o + v]                    # attached value
    if rng.chance(1, 8):
        return ["-k" + o[1:], v] if v != "" or True else [o]
    return [o, v]


def gen_cases(ctx, pools, nrand):
    rng = Rng(ctx.seed, 20)
    cases = []
    for tool in ("w2x", "x2w"):
        P = pools[tool]
        V, I, L = P["valid"], P["invalid"], P["large"]
        for fl in ("att", "posix"):
            v, i, big = rng.choice(V), rng.choice(I), rng.choice(L)
            S = []                      # systematic part
            for doc, kd in [(v, "valid"), (i, "invalid"), (b"", "empty"), (big, "large")]:
                S += [(["in"], doc, kd + "/no-o"), (["-o", "out", "in"], doc, kd + "/file-file"),
                      (["-o", "-", "in"], doc, kd + "/file-stdout"), (["-o", "out", "-"], doc, kd + "/stdin-file"),
                      (["-o", "-", "-"], doc, kd + "/stdin-stdout"), (["-o", "old.out", "in"], doc, kd + "/overwrite"),
                      (["-o", "nodir/out", "in"], doc, kd + "/out-nodir"), (["-o", "adir", "in"], doc, kd + "/out-isdir"),
                      (["-o", "ro.out", "in"], doc, kd + "/out-readonly"), (["-o", "", "in"], doc, kd + "/out-emptyname"),
                      (["-o", "in/out", "in"], doc, kd + "/out-notdir"), (["-oout", "in"], doc, kd + "/attached-o"),
                      (["in", "-o", "out"], doc, kd + "/options-after-file"), (["-o", "in", "in"], doc, kd + "/out-is-input")]
            for doc in [d for d in V + L if len(d) in (999, 1000, 1001, 1999, 2000, 2001)]:
                S += [(["-o", "out", "in"], doc, "blocksize-%d/file" % len(doc)), (["-o", "-", "-"], doc, "blocksize-%d/stdin" % len(doc))]
            S += [([], v, "noargs"), (["-o", "out"], v, "missing-file"), (["-o"], v, "missing-optarg"), (["in", "-o"], v, "missing-optarg-after-file"),
                  (["-o", "out", "missing.file"], v, "in-nonexistent"), (["-o", "out", "adir"], v, "in-isdir"), (["-o", "out", ""], v, "in-emptyname"),
                  (["-h"], v, "help"), (["-?"], v, "help"), (["-h", "-o", "out", "in"], v, "help-first"), (["-o", "out", "-h", "in"], v, "help-middle"),
                  (["-o", "out", "in", "-h"], v, "help-after-file"), (["-z"], v, "unknown"), (["-z", "-o", "out", "in"], v, "unknown"),
                  (["-kz", "-o", "out", "in"], v, "unknown-in-cluster"), (["-zk", "-o", "out", "in"], v, "unknown-in-cluster"),
                  (["--"], v, "dashdash"), (["--", "in"], v, "dashdash"), (["-o", "out", "--", "in"], v, "dashdash"), (["-o", "out", "--", "-"], v, "dashdash"),
                  (["in", "--", "-o", "out"], v, "dashdash"), (["---"], v, "dashdash"), (["--help"], v, "dashdash"), (["-:", "in"], v, "colon"), (["-k:", "in"], v, "colon"),
                  (["-o", "out", "in", "in2"], v, "two-files"), (["-o", "a", "-o", "out", "in"], v, "repeat-o"), (["-o", "out", "-o", "-", "in"], v, "repeat-o"),
                  (["-k", "-k", "-o", "out", "in"], v, "repeat-k"), (["-ko", "out", "in"], v, "cluster"), (["-kout", "in"], v, "cluster"),
                  (["-ok", "in"], v, "cluster"), (["-o-", "in"], v, "attached-dash"), (["-o", "--", "in"], v, "optarg-dashdash"), (["-o", "-k", "in"], v, "optarg-looks-like-option")]
            S += [(["-o", "out", "-"], v, "stdin-is-dir"), (["-"], v, "stdin-is-dir")]
            # read error in mid-stream: non-blocking pipe holding n bytes (0 / less than a block / exactly one block / one and a
            # half / several stdio buffers), write end open -> the error flag is raised after 0, 1, 2 ... stored blocks
            for n in (0, 300, 1000, 1500, 2000, 4096, 5000, 9999):
                S += [(["-o", "out", "-"], (big * (n // max(1, len(big)) + 1))[:n], "stdin-read-error-after-%d-bytes" % n),
                      (["-"], (v * (n // max(1, len(v)) + 1))[:n], "stdin-read-error-after-%d-bytes" % n)]
            S += [(["-k", "-o", "old.out", "-"], (big * 3)[:2500], "stdin-read-error-after-2500-bytes")]
            if tool == "w2x":
                ws = V[-1] if V else v
                for doc, kd in [(v, "valid"), (big, "large")]:
                    for m in ("0", "1", "2"):
                        for ind in ("0", "3"):
                            S += [(["-m", m, "-i", ind, "-o", "out", "in"], doc, kd + "/mode-indent"), (["-k", "-m", m, "-i", ind, "-o", "-", "in"], doc, kd + "/mode-indent-k")]
                S += [(["-m", x, "-i", "2", "-o", "out", "in"], v, "m-values") for x in INTS]
                S += [(["-i", x, "-o", "out", "in"], v, "i-values") for x in INTS]
                S += [(["-l", x, "-o", "out", "in"], v, "l-names") for x in LANGS + JUNK_NAMES]
                S += [(["-c", x, "-o", "out", "in"], v, "c-names") for x in CHARSETS + JUNK_NAMES[:6]]
                S += [(["-m", "0", "-m", "2", "-o", "out", "in"], v, "repeat-m"), (["-i", "4", "-i", "0", "-o", "out", "in"], v, "repeat-i"),
                      (["-km1", "-i2", "-o", "out", "in"], v, "cluster"), (["-lWML13", "-cUTF-8", "-o", "out", "in"], v, "attached"),
                      (["-n", "-o", "out", "in"], v, "other-tools-option"), (["-v", "1.1", "-o", "out", "in"], v, "other-tools-option")]
            else:
                for doc, kd in [(v, "valid"), (big, "large"), (V[-1], "ws")]:
                    for combo in ([], ["-k"], ["-n"], ["-a"], ["-k", "-n"], ["-n", "-a"], ["-k", "-a"], ["-k", "-n", "-a"], ["-nka"]):
                        S += [(combo + ["-o", "out", "in"], doc, kd + "/flags")]
                S += [(["-v", x, "-o", "out", "in"], v, "v-values") for x in VERSIONS]
                S += [(["-v", "1.1", "-v", "1.2", "-o", "out", "in"], v, "repeat-v"), (["-kv1.0", "-o", "out", "in"], v, "cluster"),
                      (["-m", "1", "-o", "out", "in"], v, "other-tools-option"), (["-i", "1", "-o", "out", "in"], v, "other-tools-option"),
                      (["-l", "WML13", "-o", "out", "in"], v, "other-tools-option")]
            if ctx.tier == "quick":
                # both flavours run the structural cases; the value sweeps alternate
                S = [s for k, s in enumerate(S) if not s[2].endswith("-values") and not s[2].endswith("-names") or (k % 2 == (fl == "att"))]
            for args, doc, kd in S:
                c = mk(tool, fl, args, doc, kd)
                if kd == "stdin-is-dir":
                    c["stdin"] = "DIR"
                elif kd.startswith("stdin-read-error-after-"):
                    c["stdin"] = ("NBPIPE", doc)
                cases.append(c)
    # random part
    for n in range(nrand):
        tool = "w2x" if rng.chance(1, 2) else "x2w"
        fl = "att" if rng.chance(1, 2) else "posix"
        P = pools[tool]
        cls = rng.choice(["valid", "valid", "valid", "large", "large", "invalid", "invalid", "empty"])
        doc = rng.choice(P[cls])
        words = []
        nopt = rng.choice([0, 1, 1, 2, 2, 3, 3, 4, 5, 7])
        for _ in range(nopt):
            words.append(rand_opt(rng, tool))
        if rng.chance(3, 4) and not any(w[0] == "-o" or w[0].startswith("-o") for w in words):
            words.append(["-o", rng.choice(OUTS).decode("latin-1")])
            if rng.chance(1, 2):
                rng_i = rng.below(len(words))
                words[rng_i], words[-1] = words[-1], words[rng_i]
        fname = rng.choice(INS).decode("latin-1")
        r = rng.below(20)
        flat = [w for ws_ in words for w in ws_]
        if r < 13:
            args = flat + [fname]
        elif r < 15:
            k = rng.below(len(words) + 1)
            args = [w for ws_ in words[:k] for w in ws_] + [fname] + [w for ws_ in words[k:] for w in ws_]
        elif r < 16:
            args = flat
        elif r < 17:
            args = flat + [fname, rng.choice(INS).decode("latin-1")]
        elif r < 18:
            args = flat + ["--", fname]
        elif r < 19 and flat:
            k = rng.below(len(flat))
            args = flat[:k] + flat[k + 1:] + [fname]       # drop one word: values become options and vice versa
        else:
            args = flat + [fname] + rand_opt(rng, tool)
        argv0 = rng.choice([None, None, None, b"./" + cli.TOOLS[tool].encode(), b"x", b"a b", b""])
        c = mk(tool, fl, args, doc, "random/" + cls, argv0=argv0)
        c["files"][b"in2"] = rng.choice(P["valid"])
        if rng.chance(1, 25):
            c["stdin"] = "DIR"
        elif rng.chance(1, 12):
            c["stdin"] = ("NBPIPE", (doc * 40)[:rng.choice([0, 1, 999, 1000, 1001, 1500, 2000, 3000, 4095, 4096, 4097, 8192, 12000])])
        elif rng.chance(1, 6):
            c["stdin"] = rng.choice(P[rng.choice(["valid", "invalid", "empty", "large"])])
        cases.append(c)
    return cases


# ----------------------------------------------------------------------------------------------
# expectations
# ----------------------------------------------------------------------------------------------

def parse_model_parse(line):
    """'help [..]' | 'stuck' | 'args <opts> out=<hex|none> file=<hex|none>'"""
    f = line.split()
    if f[0] != "args":
        return f[0]
    return {"opts": f[1], "out": None if f[2] == "out=none" else unhx(f[2][4:]), "file": None if f[3] == "file=none" else unhx(f[3][5:])}


def selected_input(case, fname):
    """what the environment delivers for the input name: 'FAIL' | 'ERR' | bytes"""
    if fname == b"-":
        return "ERR" if (case["stdin"] == "DIR" or isinstance(case["stdin"], tuple)) else case["stdin"]
    return cli.in_result(case, fname)


def expected_changed(case, name, data):
    if case.get("files", {}).get(name) == data:
        return {}
    return {os.fsdecode(os.path.normpath(name)): data}


def model_expectation(case, mline, libres):
    """model's obs line -> (rc, stdout bytes, stderr classes, changed files)"""
    if mline == "stuck" or mline is None:
        return None
    f = dict(x.split("=", 1) for x in mline.split(" "))
    def msgs(s):
        return [m for m in s[1:-1].split(";") if m]
    err = []
    for m in msgs(f["stderr"]):
        if m.startswith("failed:"):
            m = "failed:" + hx(libres[1]) if libres else m
        err.append(m)
    out = b""
    for m in msgs(f["stdout"]):          # the model prints no message line on stdout (since /repo 1510f5b)
        out += b"<model stdout line " + m.encode() + b">\n"
    changed = {}
    if f["sink"].startswith("stdout:"):
        out += unhx(f["sink"][7:])
    elif f["sink"].startswith("file:"):
        _, n, b = f["sink"].split(":")
        changed = expected_changed(case, unhx(n), unhx(b))
    return int(f["exit"]), out, err, changed


def judge(ctx, case, obs, orc, libres, helptext):
    """the property's sentences, checked on what the executable did; returns list of complaint strings"""
    bad = []
    tool = case["tool"]
    if obs["timeout"]:
        return ["did not terminate within 120 s"]
    if obs["rc"] < 0:
        bad.append("killed by signal %d" % -obs["rc"])
    if cli.SAN_RE.search(obs["stderr"]) or obs["rc"] in (98, 99):
        bad.append("sanitizer report")
    if bad or orc is None:
        return bad
    cls = cli.classify(tool, obs["stderr"], helptext)
    conv_lines = [c for c in cls if c == "succeeded" or c.startswith("failed:")]
    if orc == "help":
        if obs["rc"] != 0 or obs["stdout"] or obs["changed"] or "help" not in cls or conv_lines:
            bad.append("help/usage expected: exit 0, usage on stderr, nothing written")
        return bad
    if orc["file"] is None:
        if obs["rc"] != 0 or obs["stdout"] or obs["changed"] or "missing" not in cls or conv_lines:
            bad.append("missing file name must be reported on stderr, nothing written")
        return bad
    inp = selected_input(case, orc["file"])
    if inp in ("FAIL", "ERR"):
        if obs["changed"] or conv_lines or obs["rc"] != 0:
            bad.append("unreadable input: no conversion, nothing written, status 0 expected")
        if not obs["stderr"]:
            bad.append("unreadable input is not reported on standard error")
        if obs["stdout"]:
            bad.append("unexpected bytes on stdout")
        return bad
    code, errstr, outb = libres
    if obs["rc"] != code % 256:
        bad.append("exit status %d, library result code %d" % (obs["rc"], code))
    failed = [c for c in cls if c.startswith("failed:")]
    if code != 0:
        if failed != ["failed:" + hx(errstr)]:
            bad.append("conversion failed but the '<tool> failed: <reason>' line is %r" % failed)
        if "succeeded" in cls:
            bad.append("'succeeded' printed for a failed conversion")
        if obs["stdout"] or obs["changed"]:
            bad.append("output written although the conversion failed: stdout %d bytes, files %r" % (len(obs["stdout"]), sorted(obs["changed"])))
        return bad
    if failed:
        bad.append("'failed:' line although the library succeeded")
    if "succeeded" not in cls:
        bad.append("no 'succeeded' line")
    out = orc["out"]
    if out is None:
        want_stdout, want_changed = b"", {}
    elif out == b"-":
        want_stdout, want_changed = outb, {}
    elif cli.out_ok(case, out):
        want_stdout, want_changed = b"", expected_changed(case, out, outb)
    else:
        want_stdout, want_changed = b"", {}
        if not any(c.startswith("openout:") for c in cls):
            bad.append("unwritable output is not reported on stderr")
    if obs["stdout"] != want_stdout:
        bad.append("stdout differs from the library's bytes (%d vs %d bytes)" % (len(obs["stdout"]), len(want_stdout)))
    if obs["changed"] != want_changed:
        bad.append("files written %r, expected %r" % ({k: (len(v) if isinstance(v, bytes) else v) for k, v in obs["changed"].items()},
                                                     {k: len(v) for k, v in want_changed.items()}))
    return bad


# ----------------------------------------------------------------------------------------------

def run(ctx):
    ctx.level = "proof"
    ctx.assumptions = [
        "a C string is modelled as the list of its non-zero bytes; argv words contain no NUL",
        "fopen / fread / the library call are inputs of the model (record `world`); fwrite and fclose are assumed to succeed once the stream is open (real stdio, signals, full disks: partial)",
        "exit status: the parent sees `ret` mod 256; every code of wbxml_errors.h is below 256 (checked on each run against the compiled library)",
        "realloc(NULL, 0) returns a block (glibc): an empty input reaches the library, which answers WBXML_ERROR_BAD_PARAMETER",
        "atoi is modelled as glibc implements it: (int) strtol(s, 0, 10) with saturation to long, then truncation to int",
        "the Posix flavour describes glibc's getopt (permutation, POSIXLY_CORRECT unset) and is not a transcription of repository code",
        "inputs shorter than 2^31 bytes (the tools count in WB_LONG)",
    ]
    bad = common.forbidden_scan()
    cres = common.coq_property(PID)
    common.proof_coverage(ctx, cres, extra_tb=[
        "the file system, stdio and process exit (modelled as inputs / assumed)",
        "python's getopt module and a python re-implementation of atoi as the independent oracle for what the arguments mean",
        "glibc getopt (Posix flavour) is described, not transcribed"])
    proof_broken = (not cres["ok"]) or bool(bad)

    exes = {"att": cli.build_tools("att"), "posix": cli.build_tools("posix")}
    lib = Lib(cli.build_lib_harness())
    driver = common.build_driver(PID)
    shutil.rmtree(cli.RUNROOT, ignore_errors=True)

    # self-test of the two builds: on `tool in -o out` the AT&T getopt stops at "in" (nothing is written), glibc's
    # permutes and writes `out`.  Guards against an include path that silently turns both builds into one flavour.
    probe_doc = b"<?xml version=\"1.0\"?><!DOCTYPE sl PUBLIC \"-//WAPFORUM//DTD SL 1.0//EN\" \"http://www.wapforum.org/DTD/sl.dtd\"><sl href=\"http://a/\"/>"
    wrote = {fl: "out" in cli.run_case(exes, mk("x2w", fl, ["in", "-o", "out"], probe_doc, "probe"), 0)["changed"] for fl in ("att", "posix")}
    ctx.coverage["getopt_flavour_selftest"] = {"probe": "xml2wbxml in -o out", "wrote_out": wrote}
    if wrote != {"att": False, "posix": True}:
        raise common.BuildError("the two getopt builds are not the two flavours (probe `xml2wbxml in -o out` wrote out: %r); "
                                "check the include order of tools/config.h in vlib/cli.build_tools" % wrote)

    # usage texts
    helptext = {}
    for fl in exes:
        for t in exes[fl]:
            o = cli.run_case(exes, mk(t, fl, ["-h"], b"", "help"), 0)
            helptext[(fl, t)] = o["stderr"]

    if getattr(ctx, "replay", None):
        rp = json.load(open(ctx.replay))
        cases = [cli.case_from_json(rp["case"])] if "case" in rp else []
    else:
        pools = build_pools(ctx, lib)
        cases = gen_cases(ctx, pools, 250 if ctx.tier == "quick" else 4200)

    # ---- run the executables
    with ThreadPoolExecutor(common.NPROC) as ex:
        obs = list(ex.map(lambda ic: cli.run_case(exes, ic[1], ic[0] + 1), enumerate(cases)))

    # ---- model, phase 1: what do the arguments mean
    def av(c):
        return ",".join(hx(w) for w in [c["argv0"]] + c["args"])
    p1, _ = common.run_lines(driver, ["parse %s %s %s" % (c["tool"], c["fl"], av(c)) for c in cases])
    sp, _ = common.run_lines(driver, ["spec %s %s" % (c["tool"], av(c)) for c in cases])
    parsed = [parse_model_parse(l) if l else "stuck" for l in p1]
    orcs = [cli.oracle_parse(c, lib.name) for c in cases]

    # ---- the library in-process, with the model's options and with the oracle's options
    need = []
    for c, pm, orc in zip(cases, parsed, orcs):
        for pr in (pm, orc):
            if isinstance(pr, dict) and pr["file"] is not None:
                inp = selected_input(c, pr["file"])
                if isinstance(inp, bytes):
                    need.append(cli.lib_line(pr["opts"], inp))
    lib.many(need)

    # ---- model, phase 2 and comparison
    mlines, mlib = [], []
    for c, pm in zip(cases, parsed):
        sin = "ERR" if (c["stdin"] == "DIR" or isinstance(c["stdin"], tuple)) else hx(c["stdin"])
        inp, lr, ook = "FAIL", None, "0"
        if isinstance(pm, dict):
            if pm["file"] is not None:
                r = selected_input(c, pm["file"])
                inp = r if isinstance(r, str) else hx(r)
                if isinstance(r, bytes):
                    lr = parse_lib(lib.memo.get(cli.lib_line(pm["opts"], r)))
            if pm["out"] is not None:
                ook = "1" if cli.out_ok(c, pm["out"]) else "0"
        mlib.append(lr)
        mlines.append("main %s %s %s %s %s %d %s %s" % (c["tool"], c["fl"], av(c), sin, inp, lr[0] if lr else 0, hx(lr[2]) if lr else "-", ook))
    p2, _ = common.run_lines(driver, mlines)

    concrete, corr, soft, pending = [], [], [], set()
    lib_unavailable = 0
    kinds, nontrivial, outcomes = {}, set(), {}
    spec_bad = []
    for c, o, pm, orc, ml, lr, sl in zip(cases, obs, parsed, orcs, p2, mlib, sp):
        kinds[c["kind"]] = kinds.get(c["kind"], 0) + 1
        ht = helptext[(c["fl"], c["tool"])]
        # oracle
        olr = None
        if isinstance(orc, dict) and orc["file"] is not None:
            r = selected_input(c, orc["file"])
            if isinstance(r, bytes):
                olr = parse_lib(lib.memo.get(cli.lib_line(orc["opts"], r)))
        cj = cli.case_json(c)
        need_lib = isinstance(orc, dict) and orc["file"] is not None and isinstance(selected_input(c, orc["file"]), bytes)
        need_mlib = isinstance(pm, dict) and pm["file"] is not None and isinstance(selected_input(c, pm["file"]), bytes)
        if (need_lib and olr is None) or (need_mlib and lr is None):
            # the in-process library call itself died (a matter for C01/C02): only the crash checks apply to the tool
            lib_unavailable += 1
            for b in judge(ctx, c, o, None, None, ht):
                concrete.append({"what": b, "case": cj, "rc": o["rc"], "stderr": o["stderr"][-1500:].decode("latin-1"), "note": "the in-process library call crashed as well"})
            continue
        for b in judge(ctx, c, o, orc, olr, ht):
            if True:
                concrete.append({"what": b, "case": cj, "rc": o["rc"], "stdout": o["stdout"][:400], "stderr": o["stderr"][-1500:].decode("latin-1"),
                                 "files_changed": {k: (hx(v[:200]) if isinstance(v, bytes) else v) for k, v in o["changed"].items()},
                                 "library_in_process": {"code": olr[0], "bytes": len(olr[2])} if olr else None})
        # correspondence
        exp = model_expectation(c, ml, lr)
        act = (o["rc"], o["stdout"], cli.classify(c["tool"], o["stderr"], ht), o["changed"])
        if exp is None:
            corr.append({"case": cj, "model": ml, "c": repr(act)[:600]})
        elif exp != act:
            which = [n for n, a, b in zip(("exit", "stdout", "stderr", "files"), exp, act) if a != b]
            corr.append({"case": cj, "differs_in": which, "model": ml[:600], "c_exit": o["rc"], "c_stderr_classes": act[2],
                         "c_stdout": hx(o["stdout"][:200]), "c_files": sorted(o["changed"])})
        # specification grammar (Coq) vs python's getopt (att flavour = plain getopt)
        if c["fl"] == "att" and orc is not None:
            s = parse_model_parse(sl)
            a = "help" if orc == "help" else orc
            if (s if isinstance(s, str) else (s["opts"], s["out"], s["file"])) != (a if isinstance(a, str) else (a["opts"], a["out"], a["file"])):
                spec_bad.append({"case": cj, "spec": sl, "python_getopt": repr(a)})
        oc = act[2][-1].split(":")[0] if act[2] else "silent"
        outcomes[oc] = outcomes.get(oc, 0) + 1
        if "succeeded" in act[2] and (o["stdout"] or o["changed"]):
            nontrivial.add(cli.case_key(c))

    # ---- name tables and atoi: model vs the C's own functions
    tl = []
    for x in LANGS + JUNK_NAMES:
        tl.append("lang " + hx(x.encode()))
    for x in CHARSETS + JUNK_NAMES:
        tl.append("charset " + hx(x.encode()))
    for x in VERSIONS + JUNK_NAMES:
        tl.append("version " + hx(x.encode()))
    rng = Rng(ctx.seed, 21)
    ints = list(INTS)
    for _ in range(300):
        s = rng.choice(["", " ", "\t", "-", "+", "  -"]) + "".join(rng.choice("0123456789") for _ in range(rng.range(0, 22))) + rng.choice(["", "x", " 1", ".5"])
        ints.append(s)
    for x in ints:
        tl.append("atoi " + hx(x.encode()))
    ta = lib.many(tl)
    tm, _ = common.run_lines(driver, tl, shards=2)
    for l, a, m in zip(tl, ta, tm):
        if a != m:
            corr.append({"table": l, "c": a, "model": m})
    maxerr = int(lib.many(["maxerr"])[0])

    ctx.coverage.update({
        "evaluations": len(cases) + len(tl),
        "distinct_nontrivial": len(nontrivial),
        "rule": "one evaluation = one run of a built executable (exit status, stdout, stderr, directory before/after) compared with the "
                "extracted model and judged by the oracle, or one name-table/atoi line compared between model and C; non-trivial = the "
                "conversion succeeded and its bytes were written to a file or to stdout; distinct by (tool, getopt flavour, argv, files, stdin)",
        "input_distribution": {"by_kind": kinds, "last_stderr_class": outcomes,
                               "tools": {t: sum(1 for c in cases if c["tool"] == t) for t in ("w2x", "x2w")},
                               "getopt": {f: sum(1 for c in cases if c["fl"] == f) for f in ("att", "posix")},
                               "oracle_applicable": sum(1 for o in orcs if o is not None),
                               "input_bytes_over_one_block": sum(1 for c in cases if len(c["files"][b"in"]) > 1000)},
        "samples": [{"case": {k: v for k, v in cli.case_json(c).items() if k in ("tool", "fl", "args_text", "kind")}, "exit": o["rc"], "model": (m or "")[:160]}
                    for c, o, m in list(zip(cases, obs, p2))[:: max(1, len(cases) // 12)]][:14],
        "traces_validated_against_impl": len(cases),
        "correspondence_disagreements": len(corr),
        "spec_vs_python_getopt_disagreements": len(spec_bad),
        "max_library_error_code": maxerr,
        "in_process_library_call_unavailable": lib_unavailable,
        "partial": "real stdio after a successful fopen (short writes, fclose errors, full disk), signals, allocation failure inside the tools",
    })

    if maxerr >= 256:
        ctx.violation("error-code-above-255", {"broken": "theorem C20_exit_status assumes every library code < 256", "max_code": maxerr}, found_input=False)
    seen = set()
    for v in concrete:
        if v["what"] in seen or len(seen) >= 5:
            continue
        seen.add(v["what"])
        ctx.violation("tool-violates-property", {"replay_cmd": "bin/check C20 --replay <this file>", **v})
    if spec_bad:
        ctx.violation("spec-vs-python-getopt", {"broken": "the specification grammar of Cli.v disagrees with python's getopt", "cases": spec_bad[:5]}, found_input=False)
    if not concrete:
        if proof_broken:
            ctx.violation("proof-broken", {"broken": "Properties_C20.v no longer checks", "failed_theorems": cres["failed"], "broken_at": cres.get("broken_at"),
                                           "forbidden": bad, "log_tail": cres["log"][-3000:], "search": "oracle run on %d invocations found no failing input" % len(cases)}, found_input=False)
        if corr:
            ctx.violation("correspondence-broken", {"broken": "model Cli.v and the executables disagree; the executables still satisfy the oracle on every generated case",
                                                    "first_cases": corr[:5], "count": len(corr)}, found_input=False)
    elif corr:
        ctx.coverage["note"] = "model/C disagreements also present: %d" % len(corr)
    shutil.rmtree(cli.RUNROOT, ignore_errors=True)
