"""C19 — the byte-buffer and list containers behave as plain sequences.

1. proof: coq/Properties/Properties_C19.v (theorems over Model/BufferModel.v, Model/ListModel.v against the
   plain-sequence specification Model/BufferSpec.v) rebuilt and re-checked;
2. tie: the extracted model and the C (ASan+UBSan build of the current tree) are driven in lock-step on the same
   random operation sequences, compared after every operation (return value, len, contents, byte at data[len],
   static flag; for lists: len field, items reachable from head, tail designating the last item);
3. oracle (independent of the transcription): python plain-sequence semantics (vlib/c19.py) applied to the C's
   own previous contents; the extracted Coq specification side (spec_step) is cross-checked against the same
   observations on a sample.
"""
import json
import os
from concurrent.futures import ProcessPoolExecutor

from vlib import common
from vlib import c19

PID = "C19"

# pending findings (defects of the unchanged library reported in props/C19/DEFECTS.md, not yet fixed or
# registered): keyed by the exact failing operation pattern.  Empty: none found.
PENDING = []


def corpus_seqs():
    p = os.path.join(common.VERIF, "corpus", "C19.txt")
    seqs = []
    if os.path.exists(p):
        cur = []
        for l in open(p):
            l = l.rstrip("\n")
            if l.startswith("#"):
                continue
            if not l:
                if cur:
                    seqs.append(cur)
                cur = []
            else:
                cur.append(l)
        if cur:
            seqs.append(cur)
    return seqs


# boundary sequences aimed at the case splits of the proofs (always run first)
def boundary_seqs():
    out = []
    for run in range(0, 5):
        for where in ("start", "middle", "end", "all"):
            for ws in (" ", "\t", "\n", "\r\n\x0b\x0c "):
                blank = (ws * run)[:run] if len(ws) == 1 else (ws * 2)[:run]
                s = {"start": blank + "ab", "middle": "a" + blank + "b", "end": "ab" + blank, "all": blank}[where]
                for op in ("shrink", "strip", "nosp", "words", "onlyws"):
                    out.append(["new %s 3" % c19.hx(s.encode("latin-1")), op, "len"])
    for n in range(0, 5):
        s = bytes(range(0x61, 0x61 + n))
        for p in sorted(set([0, max(n - 1, 0), n, n + 1, 0xFFFFFFFF])):
            out.append(["new %s 0" % c19.hx(s), "ins 5a5a %d" % p, "insc 59 %d" % p, "set %d 33" % p, "get %d" % p,
                        "schr 97 %d" % p, "del %d 1" % p if p + 1 <= n or p >= n else "len", "del %d 0" % p, "srch 6162 %d" % p])
            out.append(["sta %s" % c19.hx(s), "ins 5a5a %d" % p, "set %d 33" % p, "get %d" % p, "del %d 0" % p, "appch 1",
                        "shrink", "strip", "nosp", "h2b", "b2h U", "b64d", "b64e", "rtz", "appmb 5", "dup", "appch 65"])
    for n in (1, 2, 3, 19, 20, 21, 39, 40, 41, 100):
        out.append(["new %s %d" % (c19.hx(b"x" * n), blk) for blk in (0, n - 1, n, n + 1)] + ["appd " + c19.hx(b"y" * n), "b2h L", "h2b", "b64e", "b64d", "dup", "appch 0", "rtz"])
    # the 32-bit size computation of create (d7df267): a wrapped size is refused, the previous buffer stays
    out.append(["new 6162 3", "new 6364 4294967295", "len", "new - 4294967295", "appch 65", "new 41 4294967295", "new 6162636465 4294967295",
                "dup", "new 7a 0", "get 0"])
    out.append(["sta 6162", "new 6364 4294967295", "get 1", "new 63 1", "new 6465 4294967295", "appch 66"])
    out.append(["new - 0", "h2b", "b2h U", "b64e", "b64d", "shrink", "strip", "nosp", "rtz", "words", "dup", "appch 7", "del 0 1", "appc 00"])
    for blk in (0, 1, 100):
        out.append(["new 6162 %d" % blk, "F1 appch 99", "A1 appd 6364", "F1 ins 7878 1", "F1 insc 7900 0", "F1 app 7a", "F1 appc 7a00", "F1 appmb 300",
                    "F1 b2h U", "A1 b2h L", "F1 b64e", "F2 b64e", "A1 b64e", "F1 b64d", "F2 b64d", "F1 words", "F2 words", "F3 words", "F4 words", "F5 words",
                    "F1 dup", "F2 dup", "F1 new 61 0", "F2 new 61 0", "F1 new - 0", "F1 sta 6162", "len", "appch 32", "appch 100", "F7 words", "A6 words", "words"])
    out.append(["lnew", "F1 lapp 1", "lapp 1", "F1 lins 2 0", "A1 lins 2 5", "lins 2 0", "F1 lnew", "llen", "F2 lapp 3", "lext", "lext", "F1 lapp 4", "lapp 5"])
    out.append(["lnew", "lext", "lget 0", "lins 1 5", "lins 2 0", "lins 3 1", "lins 4 2", "lins 5 3", "lins 6 4294967295", "lapp 7",
                "lext", "lext", "lext", "lext", "lext", "lext", "lext", "lext", "lapp 8", "lins 9 1", "llen"])
    return out


def run(ctx):
    ctx.level = "proof"
    ctx.assumptions = [
        "octets are modelled as N, len as nat; the model assumes len + growth < 2^32 (no wrap of buffer->len + size); create's size computation is mod 2^32 as in the C and a wrapped size is refused (NULL), as d7df267 does",
        "allocation never fails in the model (allocation failure is C16's subject)",
        "isspace() in the \"C\" locale = {32, 9..13}",
        "freshly allocated cells hold 170 in the model, so the NUL after the contents exists only where the code stores it",
        "out of contract and not generated: delete with pos < len and pos + n > len; inserting/appending a buffer into itself",
        "reads outside the storage are not tracked by the model's fault flag (stores, memcpy and memmove are); ASan/UBSan watch them on the C side",
        "allocation refusal: Model/BufferAlloc.v answers every malloc/realloc request of an operation from an oracle; tied to the C by refusing the k-th request (harness built against the -vfmem library variant); leaks after a refusal are C16's subject",
    ]
    bad = common.forbidden_scan()
    cres = common.coq_properties([PID, "X_buffers"])
    common.proof_coverage(ctx, cres)
    proof_broken = (not cres["ok"]) or bool(bad)

    harness = common.build_harness("c19_harness")
    # the same harness against the library variant whose allocator is the harness' (k-th request refused)
    harness_vf = common.build_harness("c19_harness", tag="-vfmem", extra=("-DC19_VFMEM",))
    driver = common.build_driver("C19")

    fixed = corpus_seqs() + boundary_seqs()
    replaying = False
    if getattr(ctx, "replay", None):
        rp = json.load(open(ctx.replay))
        if "lines" in rp:
            fixed = [rp["lines"]]
            replaying = True
    nseq = 0 if replaying else (20000 if ctx.tier == "quick" else 1000000)
    per = 500 if ctx.tier == "quick" else 2500
    jobs = [(harness, driver, ctx.seed, 1900 + i, min(per, nseq - i * per), 12) for i in range((nseq + per - 1) // per)]
    # allocation refusal: sequences in which allocating operations carry a refusal plan, on the -vfmem build
    nseq_a = 0 if replaying else (6000 if ctx.tier == "quick" else 300000)
    jobs += [(harness_vf, driver, ctx.seed, 190000 + i, min(per, nseq_a - i * per), 15, True) for i in range((nseq_a + per - 1) // per)]

    def is_list(s):
        t0 = c19.split_prefix(s[0])[1][0]
        return t0.startswith("l") and t0 != "len"
    uses_plan = any(c19.split_prefix(l)[0] for s in fixed for l in s)
    results = [c19.judge_block(harness_vf if uses_plan else harness, driver, fixed, [is_list(s) for s in fixed], stream=-1)]
    if jobs:
        with ProcessPoolExecutor(common.NPROC) as ex:
            results += list(ex.map(c19.work_chunk, jobs, chunksize=1))

    concrete, corr, opcount = [], [], {}
    nseqs = nops = nontrivial = 0
    samples, spec_pairs, model_crashes = [], [], []
    n_plans = n_inj_seqs = n_refused = n_partial = 0
    for res in results:
        n_plans += res.get("refusal_plans", 0)
        n_refused += res.get("refused", 0)
        n_partial += res.get("partial", 0)
        if res.get("injected"):
            n_inj_seqs += res["sequences"]
        nseqs += res["sequences"]; nops += res["ops"]; nontrivial += res["nontrivial"]
        concrete += res["oracle_failures"]; corr += res["corr_failures"]
        for k, v in res["opcount"].items():
            opcount[k] = opcount.get(k, 0) + v
        if len(samples) < 6:
            samples += res["samples"][:2]
        if len(spec_pairs) < 40000:
            spec_pairs += res["spec_pairs"]
        if res["model_crash"]:
            model_crashes.append(res["model_crash"])

    # extracted specification side against what the C did (same observations), on a sample
    spec_bad = []
    if spec_pairs:
        sa, _ = common.run_lines(driver, [p[0] for p in spec_pairs])
        for (q, a), s in zip(spec_pairs, sa):
            pa = c19.parse_answer(a)
            ok = False
            if s and " | " in s and pa:
                ret, _, st = s.partition(" | ")
                f = st.split(" ")
                ok = (ret == pa["ret"] and int(f[0]) == pa["len"] and f[1] == pa["hex"] and f[2] == pa["static"])
            if not ok:
                spec_bad.append({"query": q, "spec": s, "c": a})

    ctx.coverage.update({
        "evaluations": nops,
        "sequences": nseqs,
        "distinct_nontrivial": nontrivial,
        "rule": "one evaluation = one operation executed on the C, on the extracted model and on the python oracle and compared; "
                "non-trivial = sequences in which at least one operation changed the contents / the item list "
                "(sequences are generated independently from splitmix64 streams, so they are distinct up to collisions of short ones)",
        "input_distribution": {"operations": opcount, "sequence_length": "uniform 1..60", "generators":
                               "byte alphabet biased to NUL, the six C blanks, hex digits, base64 alphabet, a..d; positions biased to len-1, len, len+1, 2^32-1, 2^31; "
                               "blank runs of length 0..4 at start/middle/end (boundary stream); 12% list sequences"},
        "samples": samples[:6],
        "traces_validated_against_impl": nseqs,
        "correspondence_disagreements": len(corr),
        "allocation_refusal": {"sequences": n_inj_seqs, "operations_with_a_refusal_plan": n_plans,
                               "refusals_that_took_effect_on_the_C": n_refused, "of_which_partial_application_base64": n_partial,
                               "how": "-vfmem library variant; F<k> = k-th request of the operation refused, A<k> = k-th and later"},
        "spec_side_queries": len(spec_pairs),
        "spec_side_disagreements": len(spec_bad),
    })

    # ---- verdict -----------------------------------------------------------------------
    pend = [v for v in concrete if any(p(v) for p in PENDING)]
    concrete = [v for v in concrete if not any(p(v) for p in PENDING)]
    for v in pend[:1]:
        print("KNOWN-FINDING: property=C19 pending finding (props/C19/DEFECTS.md): %s" % v.get("op"), flush=True)
    for v in concrete[:3]:
        is_list = v["kind"] == "list"
        hv = harness_vf if any(c19.split_prefix(l)[0] for l in v["lines"]) else harness
        try:
            small = c19.shrink(hv, v["lines"], is_list, lambda cand: c19.c_fails(hv, cand, is_list))
            if small != v["lines"]:
                res, crash = c19.run_block(hv, [small])
                o, _, _ = (c19.judge_list_seq if is_list else c19.judge_buffer_seq)(small, res[0], res[0])
                if o:
                    v = {"kind": v["kind"], "lines": small, "original_lines": v["lines"], **o}
                    if crash:
                        v["sanitizer_or_crash"] = crash["stderr"]
        except Exception as e:          # shrinking is best effort
            v["shrink_error"] = str(e)
        ctx.violation("c-violates-plain-sequence-" + v["kind"], {"replay_cmd": "bin/check C19 --replay <this file>", **v})
    if spec_bad and not concrete:
        ctx.violation("spec-side-vs-c", {"broken": "extracted specification (spec_step) disagrees with the C although the python oracle accepts it",
                                         "cases": spec_bad[:5]}, found_input=False)
    if not concrete:
        if proof_broken:
            ctx.violation("proof-broken", {"broken": "Properties_C19.v no longer checks", "failed_theorems": cres["failed"],
                                           "broken_at": cres.get("broken_at"), "forbidden": bad, "log_tail": cres["log"][-3000:],
                                           "search": "oracle run on %d operations in %d sequences found no failing input" % (nops, nseqs)},
                          found_input=False)
        if corr or model_crashes:
            ctx.violation("correspondence-broken", {"broken": "model (BufferModel.v / ListModel.v) and the C disagree; the C still satisfies the plain-sequence oracle on every generated sequence",
                                                    "first_cases": corr[:3], "model_crashes": model_crashes[:2]}, found_input=False)
    elif corr:
        ctx.coverage["note"] = "model/C disagreements also present: %d" % len(corr)
