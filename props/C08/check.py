"""C08 — every language's token tables form a consistent, self-inverse code.

1. translators: Gen/TablesData.v (tables) and Gen/HardWired.v (behavioural probe of the typed
   elements) are regenerated from the library compiled from the current tree;
2. proof: coq/Properties/Properties_C08.v (vm_compute over the regenerated data + generic lemmas);
3. tie: every language x 256 code pages x 256 bytes in the three token spaces through the parser's own
   scans, every extension value, every row (and names outside the tables) through wbxml_tables_*,
   real C (ASan/UBSan) vs extracted model, exhaustively;
4. oracle (independent of the model): the round trips of the property recomputed from the C's own
   answers, and a python re-implementation of the checkers over the dump, which also names the
   offending rows when a vm_compute obligation fails.
"""
import json

from vlib import common, gen, tables

PID = "C08"


def run(ctx):
    ctx.level = "proof"
    ctx.assumptions = [
        "table strings are ASCII and compared as byte strings (strcmp/strncmp/strstr modelled on Coq strings)",
        "code pages and tokens are WB_UTINY (checked: every row has page < 256, token < 256)",
        "the attribute-value 'encode' direction is the first row found by the encoder's substring search in table order (val_first_in)",
        "pinned exceptions, stated in the theorems: one tag alias (AirSync/ActiveSync page 14 token 0x10) and two Wireless-Village extension strings with two tokens each (SMS 0x43/0x75, IM 0x12/0x68, as in the OMA specification)",
    ]
    cur = gen.gen_tables()
    hw = None
    try:
        from vlib import gen_hardwired
        hw = gen_hardwired.gen_hardwired()
    except ImportError:
        pass
    bad = common.forbidden_scan()
    cres = common.coq_properties([PID, "X_tables"])
    common.proof_coverage(ctx, cres, extra_tb=["table translator: harness/dump_tables.c + vlib/gen.py (Gen/TablesData.v regenerated on this run)"] +
                          (["hard-wired probe: harness/c08_probe.c + vlib/gen_hardwired.py (Gen/HardWired.v regenerated on this run); registry/typed_elements.json (pinned intended names)"] if hw else []))
    proof_broken = (not cres["ok"]) or bool(bad)

    # python counterpart of the checkers: offending rows
    offending = tables.tables_check(cur)
    if hw is not None:
        offending += gen_hardwired.hardwired_check(cur, hw)

    harness = common.build_harness("c08_lookup")
    driver = common.build_driver("C08")
    rng = common.Rng(ctx.seed, 8)
    cases = tables.lookup_cases(cur, rng)
    if getattr(ctx, "replay", None):
        rp = json.load(open(ctx.replay))
        want = set()
        for o in [rp] + list(rp.get("offending_rows", [])) + list(rp.get("first_cases", [])):
            for k in ("input", "decode_input", "encode_input"):
                if o.get(k):
                    want.add(o[k])
        sel = [c for c in cases if c[0] in want]
        extra = [(w, "replay") for w in want if w not in set(c[0] for c in sel)]
        cases = (sel + extra) or cases
    lines = [c[0] for c in cases]
    ca, crashes = common.run_lines(harness, lines)
    ma, _ = common.run_lines(driver, lines)
    corr = [{"input": l, "c": (c or "")[:400], "model": (m or "")[:400]} for l, c, m in zip(lines, ca, ma) if c != m]
    c_bad = tables.c_roundtrip_oracle(cur, cases, ca)
    for cr in crashes:
        c_bad.append({"kind": "crash-or-sanitizer-report", **cr})

    kinds = {}
    lookups = 0
    nontrivial = 0
    for (line, kind), a in zip(cases, ca):
        kinds[kind] = kinds.get(kind, 0) + 1
        if line[0] in "TAV":
            lookups += 256
            nontrivial += sum(1 for x in (a or "").split(" ") if x not in ("?", "!", "notable"))
        else:
            lookups += 1
            nontrivial += 1 if a not in (None, "none", "?", "0", "nolang") else 0
    samples = []
    for _ in range(10):
        i = rng.below(len(cases))
        samples.append({"input": lines[i], "c": (ca[i] or "")[:100], "model_agrees": ca[i] == ma[i]})
    nrows = sum(len(tables.rows(cur, l, k) or []) for l in cur["langs"] for k in tables.KINDS)
    ctx.coverage.update({
        "evaluations": lookups,
        "distinct_nontrivial": nontrivial,
        "rule": "one evaluation = one lookup on the real C and on the extracted model (a T/A/V line is 256 lookups); "
                "non-trivial = the C found a row; exhaustive over languages x pages x bytes and over all rows; the seed only varies the names that are not in the tables",
        "input_distribution": kinds,
        "samples": samples,
        "traces_validated_against_impl": len(lines),
        "correspondence_disagreements": len(corr),
        "languages": len(cur["langs"]), "rows": nrows,
        "python_checker_offending_rows": len(offending),
        "c_roundtrip_offending": len(c_bad),
    })
    if hw is not None:
        ctx.coverage["hardwired"] = gen_hardwired.summary(hw)

    # ---- verdict
    if c_bad or offending:
        rows_ = (c_bad[:15] + offending[:15])
        ctx.violation("table-not-self-inverse", {
            "broken": "the tables of the current tree are not a consistent self-inverse code (or a hard-wired typed element has no matching row)",
            "input": (c_bad[0].get("input") if c_bad else None),
            "replay_cmd": "echo '<input>' | <c08_lookup harness built from the current tree>  (or bin/check C08 --replay <this file>)",
            "offending_rows": rows_, "offending_total": len(c_bad) + len(offending),
            "theorems": sorted(set(o.get("theorem", "") for o in offending)), "failed_theorems": cres["failed"]})
    else:
        if proof_broken:
            ctx.violation("proof-broken", {"broken": "Properties_C08.v no longer checks", "failed_theorems": cres["failed"],
                                           "broken_at": cres.get("broken_at"), "forbidden": bad, "log_tail": cres["log"][-3000:],
                                           "search": "python checkers over the dump and the C round trips found no offending row"}, found_input=False)
        if corr:
            ctx.violation("correspondence-broken", {"broken": "Model/Tables.v and the C lookups disagree; the C's own round trips still hold",
                                                    "first_cases": corr[:5], "total": len(corr)}, found_input=False)
