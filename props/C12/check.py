"""C12 — typed content survives encoding and decoding unchanged in value.

1. proof: coq/Properties/Properties_C12.v (theorems over Model/Typed.v + Model/Codec.v) rebuilt and re-checked;
2. tie: the extracted model and the C (ASan+UBSan build of the current tree; static routines reached by
   including wbxml_parser.c / wbxml_encoder.c into two harness programs) run on the same cases; whole documents
   of SI, EMN, WV CSP 1.1/1.2, OTA, DRMREL, SyncML, AirSync/ActiveSync go through the public API so that the
   dispatch on (language, code page, token) is exercised;
3. oracle (independent of the model): python's own int / string formatting, bit-field packing written from the
   WV specification, BCD from the SI specification, the base64 module; the element *names* that carry typed
   content are looked up in the library's own tables.
"""
import base64
import datetime
import json
import os
import re

from vlib import common
from vlib.common import Rng

PID = "C12"

L_SI, L_EMN, L_DRMREL, L_OTA = 1301, 1701, 1801, 1901
L_SYNCML = (2001, 2101, 2201)
L_WV11, L_WV12 = 2301, 2302
L_AIRSYNC, L_ACTIVESYNC = 2401, 2402
ALL_LANGS = [1101, 1102, 1103, 1104, 1201, 1202, 1203, 1204, 1301, 1401, 1501, 1601, 1701, 1801, 1901,
             2001, 2002, 2003, 2101, 2102, 2103, 2201, 2202, 2203, 2204, 2301, 2302, 2401, 2402, 2501]

# typed elements, by the names the specifications use (the tokens are found in the library's own tables)
WV_INT_NAMES = {"Code", "ContentSize", "MessageCount", "Validity", "KeepAliveTime", "SearchFindings", "SearchID",
                "SearchIndex", "SearchLimit", "TimeToLive", "AcceptedCharset", "AcceptedContentLength",
                "MultiTrans", "ParserSize", "ServerPollMin", "TCPPort", "UDPPort", "HistoryPeriod", "MaxWatcherList"}
WV_INT_NAMES_PARSER_ONLY = {"Altitude", "Accuracy", "Cpriority"}      # typed by the parser, not by the encoder
WV_DT_NAMES = {"DateTime", "DeliveryTime"}

PROBE = bytes([0, 0, 1, 2, 3, 0x41])      # 6 octets: a different answer for plain / integer / date-time / base64


def hx(b):
    return bytes(b).hex() if b else "-"


def mb(v):
    out = [v & 0x7F]
    v >>= 7
    while v:
        out.insert(0, 0x80 | (v & 0x7F))
        v >>= 7
    return bytes(out)


def opaque(payload):
    return b"\xc3" + mb(len(payload)) + bytes(payload)


class Case:
    __slots__ = ("exe", "line", "oracle", "kind", "model", "meta")

    def __init__(self, exe, line, oracle, kind, model=True, meta=None):
        self.exe, self.line, self.oracle, self.kind, self.model, self.meta = exe, line, oracle, kind, model, meta


# ------------------------------------------------------------------------------------------
# oracles (written from the specifications, not from the C)

def be_min(n):
    return n.to_bytes((n.bit_length() + 7) // 8, "big")


def canon(Y, M, D, h, m, s):
    return ("%04d-%02d-%02dT%02d:%02d:%02dZ" % (Y, M, D, h, m, s)).encode()


def bcd7(Y, M, D, h, m, s):
    return bytes.fromhex("%04d%02d%02d%02d%02d%02d" % (Y, M, D, h, m, s))


def render_si(t, Y, M, D, h, m, s):
    base = "%04d-%02d-%02d" % (Y, M, D)
    if t == 0:
        return (base + "T%02d:%02d:%02dZ" % (h, m, s)).encode()
    if t == 1:
        return (base + "T%02d:%02dZ" % (h, m)).encode()
    if t == 2:
        return (base + "T%02dZ" % h).encode()
    return (base + "Z").encode()


def wv_pack(Y, M, D, h, m, s, z):
    """[WV CSP data types] 2 reserved bits, year 12, month 4, day 5, hour 5, minute 6, second 6, zone octet"""
    v = (Y << 26) | (M << 22) | (D << 17) | (h << 12) | (m << 6) | s
    return v.to_bytes(5, "big") + bytes([z])


def wv_text(Y, M, D, h, m, s, z, with_sec=True):
    t = "%04d%02d%02dT%02d%02d" % (Y, M, D, h, m)
    if with_sec:
        t += "%02d" % s
    return t.encode() + (bytes([z]) if z else b"")


def wv_value(txt):
    """the instant + zone a WV basic-format text denotes (seconds may be absent = 0)"""
    m = re.fullmatch(rb"(\d{4})(\d\d)(\d\d)T(\d\d)(\d\d)(\d\d)?([A-Z]?)", txt)
    if not m:
        return None
    g = m.groups()
    return tuple(int(x) for x in g[:5]) + (int(g[5] or b"0"), g[6])


# ------------------------------------------------------------------------------------------
# generators

def gen_ints(ctx, rng, nrand):
    cs = []
    ints = set()
    for k in range(0, 33, 8):
        for d in (-2, -1, 0, 1, 2):
            x = (1 << k) + d
            if 0 <= x < (1 << 32):
                ints.add(x)
    ints |= {0, 1, 9, 10, 99, 100, 255, 256, 65535, 65536, (1 << 24) - 1, 1 << 24, (1 << 31) - 1, 1 << 31, (1 << 32) - 1,
             999999999, 1000000000, 4294967290}
    for _ in range(nrand):
        ints.add(rng.below(1 << rng.range(1, 32)))
    for n in sorted(ints):
        txt = str(n).encode()
        p = be_min(n)
        cs.append(Case("E", "eint " + hx(txt), "emit " + hx(opaque(p)), "wv_int_enc"))
        cs.append(Case("P", "dint " + hx(p), "ok " + hx(txt), "wv_int_dec"))
    # the same integers written with leading zeros denote the same values (decimal, never octal)
    for n in (0, 7, 8, 9, 10, 64, 200, 255, 256, 777, 65535, 65536, 4294967295):
        for pad in (1, 2, 6):
            txt = ("0" * pad + str(n)).encode()
            cs.append(Case("E", "eint " + hx(txt), "emit " + hx(opaque(be_min(n))), "wv_int_enc_leading_zeros"))
    # opaque integers of 0..8 octets, with and without leading zeros, around the 32-bit limit
    ops = set()
    for n in range(0, 9):
        ops.add(bytes(n))
        ops.add(bytes([0xFF] * n))
        if n:
            ops.add(bytes(n - 1) + b"\x01")
            ops.add(b"\x01" + bytes(n - 1))
    for lead in range(0, 5):
        for v in (0xFFFFFFFF, 0x100000000, 0x100000001, 0xFFFFFFFE, 0x01000000, 0x00FFFFFF, 0x1FFFFFFFF, 0xFFFFFFFFFF, 0x80000000):
            b = be_min(v)
            if lead + len(b) <= 8:
                ops.add(bytes(lead) + b)
    for _ in range(nrand // 2):
        n = rng.range(0, 8)
        b = bytearray(rng.bytes(n))
        for i in range(rng.below(n + 1)):
            if rng.chance(2, 3):
                b[i] = 0
        ops.add(bytes(b))
    for b in sorted(ops):
        v = int.from_bytes(b, "big")
        exp = ("ok " + hx(str(v).encode())) if v < (1 << 32) else "err WV_INTEGER_OVERFLOW"
        cs.append(Case("P", "dint " + hx(b), exp, "wv_int_opaque"))
    # texts outside the property's domain: model/C correspondence of the libc model only
    odd = [b"007", b"+5", b"-1", b" 42", b"\t\n 7x", b"4294967296", b"4294967297", b"99999999999999999999", b"9223372036854775807",
           b"9223372036854775808", b"-9223372036854775808", b"-9223372036854775809", b"0x10", b"0X1f", b"0xffffffff", b"0x100000000",
           b"0xg", b"0x", b"1x2", b"ax", b" x", b"-0x10", b"+0x7", b"12abc", b"abc", b"1", b"x", b"00x5", b"0xFFFFFFFFFFFFFFFFFF", b"1e3"]
    for _ in range(max(50, nrand // 20)):
        odd.append(bytes(rng.choice(b"0123456789 +-xXabfg") for _ in range(rng.range(1, 12))))
    for t in odd:
        cs.append(Case("E", "eint " + hx(t), None, "wv_int_text_outside_domain"))
    return cs


YEARS = [0, 1, 9, 10, 99, 100, 999, 1000, 1999, 2000, 2001, 2010, 2038, 4095, 4096, 9999]


def rand_dt(rng, years=None):
    Y = rng.choice(years or YEARS) if rng.chance(1, 3) else rng.range(0, 9999)
    M = rng.choice([1, 9, 10, 12]) if rng.chance(1, 4) else rng.range(1, 12)
    D = rng.choice([1, 9, 10, 20, 30, 31]) if rng.chance(1, 4) else rng.range(1, 31)
    h = rng.choice([0, 9, 10, 16, 20, 23]) if rng.chance(1, 3) else rng.range(0, 23)
    m = rng.choice([0, 3, 4, 10, 59]) if rng.chance(1, 3) else rng.range(0, 59)
    s = rng.choice([0, 10, 59]) if rng.chance(1, 3) else rng.range(0, 59)
    return Y, M, D, h, m, s


def si_cases(Y, M, D, h, m, s, kinds=("enc", "dec")):
    cs = []
    full = bcd7(Y, M, D, h, m, s)
    stripped = full.rstrip(b"\0")
    c = canon(Y, M, D, h, m, s)
    tz = 3 if (h, m, s) == (0, 0, 0) else 2 if (m, s) == (0, 0) else 1 if s == 0 else 0
    if "enc" in kinds:
        for t in range(0, tz + 1):
            cs.append(Case("E", "edt " + hx(render_si(t, Y, M, D, h, m, s)), "emit " + hx(opaque(stripped)), "si_dt_enc"))
    if "dec" in kinds:
        for k in range(len(stripped), 8):       # every legal truncation: 4..7 octets, dropped octets zero
            cs.append(Case("P", "ddt " + hx(full[:k]), "ok " + hx(c), "si_dt_dec"))
    return cs


def gen_si(ctx, rng, nrand):
    cs = []
    seen = set()
    todo = []
    for Y in YEARS:
        for (M, D) in ((1, 1), (12, 31), (10, 10), (2, 29)):
            for hms in ((0, 0, 0), (23, 59, 59), (10, 0, 0), (0, 10, 0), (0, 0, 10), (1, 1, 0), (20, 0, 1)):
                todo.append((Y, M, D) + hms)
    for _ in range(nrand):
        Y, M, D, h, m, s = rand_dt(rng)
        r = rng.below(8)
        if r == 0:
            h = m = s = 0
        elif r == 1:
            m = s = 0
        elif r == 2:
            s = 0
        todo.append((Y, M, D, h, m, s))
    # real calendar instants from the datetime module
    for _ in range(nrand // 4):
        d = datetime.datetime(1, 1, 1) + datetime.timedelta(seconds=rng.below(3155 * 10**8))
        todo.append((d.year, d.month, d.day, d.hour, d.minute, d.second))
    for t in todo:
        if t not in seen:
            seen.add(t)
            cs += si_cases(*t)
    # malformed opaques: wrong lengths; non-BCD nibbles are outside the property (model/C correspondence only)
    for n in (0, 1, 2, 3, 8, 9, 12):
        cs.append(Case("P", "ddt " + hx(bytes([0x19] * n)), "err BAD_DATETIME", "si_dt_badlen"))
    for _ in range(max(100, nrand // 20)):
        cs.append(Case("P", "ddt " + hx(rng.bytes(rng.range(0, 9))), None, "si_dt_random_octets"))
    # texts outside the domain (other characters are refused; odd digit counts ...)
    for t in (b"1999-04-30T06:40:00+01:00", b"1999-04-30 06:40:00Z", b"1999/04/30", b"T", b"Z", b"1", b"19990430", b"199904300", b"1999-04-30t06:40:00z",
              b"0000-00-00T00:00:00Z", b"1999-04-30T06:40:00.5Z"):
        cs.append(Case("E", "edt " + hx(t), None, "si_dt_text_outside_domain"))
    return cs


ZONES = [z for z in range(ord("A"), ord("Z") + 1) if z != ord("J")]


def wv_cases(Y, M, D, h, m, s, z):
    """z: zone letter (never J)."""
    cs = []
    full = wv_text(Y, M, D, h, m, s, z)
    if z == ord("Z"):
        cs.append(Case("E", "ewvdt " + hx(full), "emit " + hx(b"\x03" + full + b"\0"), "wv_dt_inline"))
        return cs
    octs = wv_pack(Y % 4096, M, D, h, m, s, z)
    judged = Y <= 4095      # the 12-bit year field of the WV specification
    cs.append(Case("E", "ewvdt " + hx(full), ("emit " + hx(opaque(octs))) if judged else None,
                   "wv_dt_enc" if judged else "wv_dt_year_over_4095"))
    if s == 0:
        cs.append(Case("E", "ewvdt " + hx(wv_text(Y, M, D, h, m, s, z, with_sec=False)),
                       ("emit " + hx(opaque(octs))) if judged else None, "wv_dt_enc_noseconds" if judged else "wv_dt_year_over_4095"))
    if judged:
        # decoding: the text must denote the same value (seconds may be left out when 0)
        cs.append(Case("P", "dwvdt " + hx(octs), ("value", wv_value(full)), "wv_dt_dec"))
    return cs


def gen_wv_dt(ctx, rng, nrand):
    cs = []
    # every zone letter, on boundary date-times
    for z in ZONES:
        for t in ((2001, 10, 19, 9, 50, 31), (0, 1, 1, 0, 0, 0), (4095, 12, 31, 23, 59, 59), (999, 3, 4, 16, 4, 0), (1000, 8, 16, 15, 3, 1)):
            cs += wv_cases(*t, z)
    for Y in YEARS:
        for (M, D, h, m, s) in ((1, 1, 0, 0, 0), (12, 31, 23, 59, 59), (4, 16, 16, 4, 0), (3, 15, 15, 63 % 60, 1)):
            cs += wv_cases(Y, M, D, h, m, s, rng.choice(ZONES))
    for _ in range(nrand):
        Y, M, D, h, m, s = rand_dt(rng, years=[0, 1, 999, 1000, 4095, 4096, 9999, 2001])
        if rng.chance(2, 3):
            Y = Y % 4096
        cs += wv_cases(Y, M, D, h, m, s, rng.choice(ZONES))
    # zone octets on the decoding side: all 256 values (letters judged above; the others: correspondence only)
    for z in range(256):
        octs = wv_pack(2001, 10, 19, 9, 50, 31, z)
        if z in ZONES:
            cs.append(Case("P", "dwvdt " + hx(octs), ("value", (2001, 10, 19, 9, 50, 31, bytes([z]))), "wv_dt_dec_zone"))
        elif z == 0:
            cs.append(Case("P", "dwvdt " + hx(octs), None, "wv_dt_dec_zone_octet_0"))     # the C's choice: 'Z' (correspondence only)
        else:
            # an octet that is no zone designator ('J' included) must not appear as one in the text
            cs.append(Case("P", "dwvdt " + hx(octs), ("value", (2001, 10, 19, 9, 50, 31, b"")), "wv_dt_dec_invalid_zone"))
        cs.append(Case("P", "dwvdt " + hx(wv_pack(2001, 10, 19, 9, 50, 0, z)),
                       ("value", (2001, 10, 19, 9, 50, 0, bytes([z]) if z in ZONES else b"")) if z else None, "wv_dt_dec_zone_noseconds"))
    # texts outside the domain: zone J, no zone, wrong shapes (correspondence only; J must be refused)
    base = b"20011019T095031"
    cs.append(Case("E", "ewvdt " + hx(base + b"J"), "err WV_DATETIME_FORMAT", "wv_dt_zone_J"))
    for t in (base, b"20011019T0950", base + b"a", base + b"@", base + b"[", b"20011019X095031A", b"2001101T0950311A", b"20011019T09503A", b"20011019T095031AB",
              b"2001-10-19T09:50:31A", b"20011019T095031+01", b"2001a019T095031A", b"20011019T0950 1A", b"T", b"A", b"20011019T", b"20011019T09A", b"20011019T0950A"):
        cs.append(Case("E", "ewvdt " + hx(t), None, "wv_dt_text_outside_domain"))
    for n in (0, 1, 5, 7, 12):
        cs.append(Case("P", "dwvdt " + hx(bytes([0x1f] * n)), "err WV_DATETIME_FORMAT", "wv_dt_badlen"))
    for _ in range(max(100, nrand // 10)):
        cs.append(Case("P", "dwvdt " + hx(rng.bytes(6)), None, "wv_dt_random_octets"))
    return cs


def rand_bytes(rng):
    r = rng.below(10)
    if r < 6:
        return rng.bytes(rng.range(1, 24))
    if r < 8:
        return rng.bytes(rng.range(120, 135))      # around the 1-/2-octet length boundary of OPAQUE
    if r < 9:
        return bytes(rng.choice([0, 0xFF, 0x3C, 0x26, 0x5D, 0x0A]) for _ in range(rng.range(1, 9)))   # NUL, markup
    return rng.bytes(rng.range(200, 600))


def gen_bin(ctx, rng, nrand):
    cs = []
    strs = [bytes([a]) for a in (0, 1, 0x3F, 0x40, 0xFB, 0xFC, 0xFF)] + [b"\0\0", b"\0\0\0", b"foob", b"\xff\xfe\xfd", bytes(range(256))]
    for _ in range(nrand):
        strs.append(rand_bytes(rng))
    for s in strs:
        t = base64.b64encode(s)
        cs.append(Case("P", "db64 " + hx(s), "ok " + hx(t), "b64_dec_value"))
        cs.append(Case("E", "edrm 0 12 " + hx(t), "emit " + hx(opaque(s)), "drmrel_keyvalue_enc"))
        cs.append(Case(None, "ebin " + hx(t), "emit " + hx(opaque(s)), "binary_tag_model"))
    cs.append(Case("P", "db64 -", None, "b64_empty"))
    # white space / garbage inside the base64 text: outside the property (correspondence only)
    for t in (b"Zm9v YmFy", b"Zm9v\nYmFy", b"Zm9vYg", b"Zm9vYg=", b"!!", b"=", b"Z", b"Zm9v====", b" Zm9v"):
        cs.append(Case("E", "edrm 0 12 " + hx(t), None, "drmrel_text_outside_domain"))
        cs.append(Case(None, "ebin " + hx(t), None, "binary_tag_model"))
    return cs


def gen_dispatch(ctx, rng, pages):
    cs = []
    pay = hx(PROBE)
    for lang in ALL_LANGS:
        for page in pages:
            for tok in range(5, 64):
                cs.append(Case("P", "doc %d %d %d %s" % (lang, page, tok, pay), None, "dispatch_opaque_content", meta=(lang, page, tok)))
        cs.append(Case("P", "doa %d %s" % (lang, pay), None, "dispatch_opaque_attr", meta=(lang,)))
    # WV encoder side
    txt_int, txt_dt = hx(b"66051"), hx(b"20011019T095031A")
    for lang in (L_WV11, L_WV12):
        for page in pages:
            for tok in range(5, 64):
                cs.append(Case("E", "ewv %d %d %d %s" % (lang, page, tok, txt_dt), None, "dispatch_wv_enc", meta=(lang, page, tok)))
    for page in pages:
        for tok in range(5, 64):
            cs.append(Case("E", "edrm %d %d %s" % (page, tok, hx(b"Zm9v")), None, "dispatch_drmrel_enc", meta=(L_DRMREL, page, tok)))
    # attribute side: SI / EMN and every other language except OTA (its VALUE attribute needs a whole node: end-to-end below)
    dt = hx(b"1999-04-30T06:40:00Z")
    for lang in ALL_LANGS:
        if lang == L_OTA:
            continue
        for page in (0, 1):
            for tok in range(5, 128):
                cs.append(Case("E", "eattr %d %d %d %s" % (lang, page, tok, dt), None, "dispatch_attr_enc", meta=(lang, page, tok)))
    return cs


def names_lines(pages):
    ls = []
    for lang in (L_WV11, L_WV12, L_DRMREL) + L_SYNCML:
        for page in pages:
            for tok in range(5, 64):
                ls.append(("name %d %d %d 00" % (lang, page, tok), (lang, page, tok)))
    for lang in (L_SI, L_EMN):
        for tok in range(5, 128):
            ls.append(("aname %d 0 %d 00" % (lang, tok), (lang, 0, tok)))
    return ls


# ---- whole documents -----------------------------------------------------------------------

def cstr_bytes(s):
    return s.encode() + b"\0"


HDR = {
    L_WV11: bytes.fromhex("03106a00"),
    L_WV12: bytes.fromhex("0300006a1b") + cstr_bytes("-//OMA//DTD WV-CSP 1.2//EN"),
    L_SI: bytes.fromhex("03056a00"),
    L_EMN: bytes.fromhex("030d6a00"),
    L_OTA: bytes.fromhex("03016a00"),
    L_DRMREL: bytes.fromhex("030e6a00"),
    2001: bytes.fromhex("039f516a00"), 2101: bytes.fromhex("039f536a00"), 2201: bytes.fromhex("03a4016a00"),
    L_ACTIVESYNC: bytes.fromhex("0300006a21") + cstr_bytes("-//MICROSOFT//DTD ActiveSync//EN"),
    L_AIRSYNC: bytes.fromhex("0300006a1c") + cstr_bytes("-//AIRSYNC//DTD AirSync//EN"),
}
DOCTYPE = {
    L_WV11: '<!DOCTYPE WV-CSP-Message PUBLIC "-//OMA//DTD WV-CSP 1.1//EN" "http://www.openmobilealliance.org/DTD/WV-CSP.XML">',
    L_WV12: '<!DOCTYPE WV-CSP-Message PUBLIC "-//OMA//DTD WV-CSP 1.2//EN" "http://www.openmobilealliance.org/DTD/WV-CSP.XML">',
    L_SI: '<!DOCTYPE si PUBLIC "-//WAPFORUM//DTD SI 1.0//EN" "http://www.wapforum.org/DTD/si.dtd">',
    L_EMN: '<!DOCTYPE emn PUBLIC "-//WAPFORUM//DTD EMN 1.0//EN" "http://www.wapforum.org/DTD/emn.dtd">',
    L_OTA: '<!DOCTYPE CHARACTERISTIC-LIST SYSTEM "characteristic-list.dtd">',
    L_ACTIVESYNC: '<!DOCTYPE ActiveSync PUBLIC "-//MICROSOFT//DTD ActiveSync//EN" "http://www.microsoft.com/">',
    L_AIRSYNC: '<!DOCTYPE AirSync PUBLIC "-//AIRSYNC//DTD AirSync//EN" "http://www.microsoft.com/">',
}
WV_INT_TAGS = [(0, 0x0B, "Code"), (0, 0x0F, "ContentSize"), (0, 0x1A, "MessageCount"), (0, 0x3C, "Validity"), (1, 0x1C, "KeepAliveTime"),
               (1, 0x25, "SearchFindings"), (1, 0x26, "SearchID"), (1, 0x27, "SearchIndex"), (1, 0x28, "SearchLimit"), (1, 0x32, "TimeToLive"),
               (3, 0x05, "AcceptedCharset"), (3, 0x06, "AcceptedContentLength"), (3, 0x0C, "MultiTrans"), (3, 0x0D, "ParserSize"),
               (3, 0x0E, "ServerPollMin"), (3, 0x12, "TCPPort"), (3, 0x13, "UDPPort"), (9, 0x08, "HistoryPeriod"), (9, 0x0A, "MaxWatcherList")]
WV_DT_TAGS = [(0, 0x11, "DateTime"), (6, 0x1A, "DeliveryTime")]
BIN_TAGS = [(L_ACTIVESYNC, 0x15, 0x05, "SendMail", "ComposeMail:", 0x15, 0x10, "MIME", None),
            (L_AIRSYNC, 0x00, 0x05, "Sync", "http://synce.org/formats/airsync_wm5/airsync", 0x16, 0x09, "ConversationId", "http://synce.org/formats/airsync_wm5/email2"),
            (L_AIRSYNC, 0x00, 0x05, "Sync", "http://synce.org/formats/airsync_wm5/airsync", 0x16, 0x0A, "ConversationIndex", "http://synce.org/formats/airsync_wm5/email2")]


def xml_doc(lang, body):
    return ('<?xml version="1.0"?>' + DOCTYPE[lang] + body).encode()


def wv_elem(page, tok, content):
    return (bytes([0, page]) if page else b"") + bytes([tok | 0x40]) + content + b"\x01"


def doc_cases(exp_xml_tail, lang, wbxml, xml=None, force=0, w2w=True, kind="doc", x2w_bytes=True):
    """the three directions of one minimal document; expectations are suffixes (the XML prologue and the WBXML header
    — version, public id, charset, string table — are not C12's business)"""
    o = exp_xml_tail if isinstance(exp_xml_tail, tuple) else ("xml_tail", exp_xml_tail)
    body = wbxml[len(HDR[lang]):]
    cs = [Case("P", "w2x %d %s" % (force, hx(wbxml)), o, kind + "_w2x", model=False)]
    if xml is not None:
        # meta: the second pass feeds the C's own WBXML back through w2x and applies this XML oracle again
        cs.append(Case("P", "x2w " + hx(xml), ("bytes_tail", body) if x2w_bytes else ("ok",), kind + "_x2w", model=False, meta=("back", force, o)))
    if w2w:
        cs.append(Case("P", "w2w %d %s" % (force, hx(wbxml)), ("bytes_tail", body), kind + "_w2w", model=False))
    return cs


def gen_docs(ctx, rng, n):
    cs = []
    ints = [0, 1, 255, 256, 65535, 65536, 16777215, 16777216, 4294967295] + [rng.below(1 << rng.range(1, 32)) for _ in range(n)]
    k = 0
    for v in ints:
        for lang in (L_WV11, L_WV12):
            page, tok, name = WV_INT_TAGS[k % len(WV_INT_TAGS)]
            k += 1
            w = HDR[lang] + wv_elem(page, tok, opaque(be_min(v)))
            tail = "<%s>%d</%s>" % (name, v, name)
            cs += doc_cases(tail.encode(), lang, w, xml_doc(lang, tail), kind="doc_wv_int")
    # an over-wide integer inside a document must make the whole conversion fail
    for b in (bytes.fromhex("0100000000"), bytes.fromhex("ffffffffffffffff"), bytes.fromhex("0001000000ff")):
        cs.append(Case("P", "w2x 0 " + hx(HDR[L_WV11] + wv_elem(0, 0x0B, opaque(b))), ("error",), "doc_wv_int_overflow", model=False))
    for i in range(n + len(ZONES)):
        Y, M, D, h, m, s = rand_dt(rng, years=[0, 1, 999, 1000, 4095, 2001])
        Y %= 4096
        z = ZONES[i % len(ZONES)]
        lang = (L_WV11, L_WV12)[i % 2]
        page, tok, name = WV_DT_TAGS[(i // 2) % 2]
        txt = wv_text(Y, M, D, h, m, s, z)
        if z == ord("Z"):
            w = HDR[lang] + wv_elem(page, tok, b"\x03" + txt + b"\0")
            tail = b"<%s>%s</%s>" % (name.encode(), txt, name.encode())
            cs += doc_cases(tail, lang, w, xml_doc(lang, tail.decode()), kind="doc_wv_dt_inline")
        else:
            w = HDR[lang] + wv_elem(page, tok, opaque(wv_pack(Y, M, D, h, m, s, z)))
            shown = wv_text(Y, M, D, h, m, s, z, with_sec=(s != 0))
            tail = b"<%s>%s</%s>" % (name.encode(), shown, name.encode())
            cs += doc_cases(("wv_value", name, wv_value(txt)), lang, w, xml_doc(lang, "<%s>%s</%s>" % (name, txt.decode(), name)), kind="doc_wv_dt")
    for i in range(n):
        a = rand_dt(rng)
        b = rand_dt(rng)
        if i % 3 == 0:
            b = b[:3] + (0, 0, 0)
        if i % 5 == 0:
            a = a[:4] + (0, 0)
        pa, pb = bcd7(*a).rstrip(b"\0"), bcd7(*b).rstrip(b"\0")
        w = HDR[L_SI] + bytes([0x45, 0xC6, 0x0A]) + opaque(pa) + bytes([0x10]) + opaque(pb) + bytes([0x01, 0x03, 0x78, 0x00, 0x01, 0x01])
        tail = '<si><indication created="%s" si-expires="%s">x</indication></si>' % (canon(*a).decode(), canon(*b).decode())
        cs += doc_cases(tail.encode(), L_SI, w, xml_doc(L_SI, tail), kind="doc_si")
        w = HDR[L_EMN] + bytes([0x85, 0x05]) + opaque(pa) + bytes([0x01])
        tail = '<emn timestamp="%s"/>' % canon(*a).decode()
        cs += doc_cases(tail.encode(), L_EMN, w, xml_doc(L_EMN, tail), kind="doc_emn")
        # a legal longer truncation in the document (zero octets not dropped) decodes to the same canonical text
        if len(pa) < 7:
            w = HDR[L_EMN] + bytes([0x85, 0x05]) + opaque(bcd7(*a)[:len(pa) + 1]) + bytes([0x01])
            cs.append(Case("P", "w2x 0 " + hx(w), ("xml_tail", tail.encode()), "doc_emn_untruncated", model=False))
    for i in range(n):
        s = rand_bytes(rng)
        t = base64.b64encode(s).decode()
        # OTA: PARM NAME="ICON" VALUE=...
        w = HDR[L_OTA] + bytes.fromhex("45c67f018710034943" "4f4e0011") + opaque(s) + bytes([1, 1, 1])
        tail = '<CHARACTERISTIC-LIST><CHARACTERISTIC TYPE="BOOKMARK"><PARM NAME="ICON" VALUE="%s"/></CHARACTERISTIC></CHARACTERISTIC-LIST>' % t
        cs += doc_cases(tail.encode(), L_OTA, w, xml_doc(L_OTA, tail), force=L_OTA, kind="doc_ota_icon")
        if i % 3 == 0:
            tail = '<CHARACTERISTIC-LIST><CHARACTERISTIC TYPE="BOOKMARK"><PARM NAME="URL" VALUE="%s"/></CHARACTERISTIC></CHARACTERISTIC-LIST>' % t.rstrip("=")
            cs.append(Case("P", "x2w " + hx(xml_doc(L_OTA, tail)), ("ok",), "doc_ota_not_icon_x2w", model=False, meta=("back", L_OTA, ("xml_tail", tail.encode()))))
            v = rng.below(1 << rng.range(1, 32))
            page, tok, name = [(5, 0x05, "Accuracy"), (5, 0x09, "Altitude"), (5, 0x32, "Cpriority")][i % 9 // 3]
            tail = "<%s>%d</%s>" % (name, v, name)
            cs.append(Case("P", "w2x 0 " + hx(HDR[L_WV12] + wv_elem(page, tok, opaque(be_min(v)))), ("xml_tail", tail.encode()), "doc_wv_int_page5_w2x", model=False))
            cs.append(Case("P", "x2w " + hx(xml_doc(L_WV12, tail)), ("ok",), "doc_wv_int_page5_x2w", model=False, meta=("back", 0, ("xml_tail", tail.encode()))))
        # DRMREL ds:KeyValue (XML side of DRMREL documents loses the prefixes at the public API: tree round trip instead)
        w = HDR[L_DRMREL] + bytes([0x45, 0x4C]) + opaque(s) + bytes([1, 1])
        tail = "<o-ex:rights><ds:KeyValue>%s</ds:KeyValue></o-ex:rights>" % t
        cs += doc_cases(tail.encode(), L_DRMREL, w, None, kind="doc_drmrel_keyvalue")
        # SyncML NextNonce: rendered as base64; nothing is claimed about re-encoding
        lang = L_SYNCML[i % 3]
        w = HDR[lang] + bytes.fromhex("6d495a000150") + opaque(s) + bytes([1, 1, 1, 1])
        tail = '<NextNonce xmlns="syncml:metinf">%s</NextNonce></Meta></Chal></SyncML>' % t
        SYNC_DT = {2001: '<!DOCTYPE SyncML PUBLIC "-//SYNCML//DTD SyncML 1.0//EN" "http://www.syncml.org/docs/syncml_represent_v10_20001207.dtd">',
                   2101: '<!DOCTYPE SyncML PUBLIC "-//SYNCML//DTD SyncML 1.1//EN" "http://www.syncml.org/docs/syncml_represent_v11_20020213.dtd">',
                   2201: '<!DOCTYPE SyncML PUBLIC "-//SYNCML//DTD SyncML 1.2//EN" "http://www.openmobilealliance.org/tech/DTD/OMA-TS-SyncML_RepPro_DTD-V1_2.dtd">'}
        sx = ('<?xml version="1.0"?>' + SYNC_DT[lang] + '<SyncML xmlns="SYNCML:SYNCML1.%d"><Chal><Meta>' % (L_SYNCML.index(lang)) + tail).encode()
        cs += doc_cases(tail.encode(), lang, w, sx, w2w=False, kind="doc_syncml_nextnonce", x2w_bytes=False)
        # binary-flagged elements
        lang, rp, rt, root, rns, page, tok, name, ns = BIN_TAGS[i % len(BIN_TAGS)]
        w = HDR[lang] + (bytes([0, rp]) if rp else b"") + bytes([rt | 0x40]) + (bytes([0, page]) if page != rp else b"") + bytes([tok | 0x40]) + opaque(s) + bytes([1, 1])
        inner = "<%s%s>%s</%s>" % (name, (' xmlns="%s"' % ns) if ns else "", t, name)
        tail = '<%s xmlns="%s">%s</%s>' % (root, rns, inner, root)
        cs += doc_cases(tail.encode(), lang, w, xml_doc(lang, tail), kind="doc_binary_tag")
        # several content items in a binary-flagged element (/repo 093ad9f: every item is binary, not only the first)
        if i % 3 == 1:
            a, b2 = rand_bytes(rng)[:40], rand_bytes(rng)[:40]
            if i % 2:
                a = a[:(len(a) // 3) * 3] or b"abc"          # first item without '=' padding
            pre = HDR[lang] + (bytes([0, rp]) if rp else b"") + bytes([rt | 0x40]) + (bytes([0, page]) if page != rp else b"") + bytes([tok | 0x40])
            # (i) two adjacent OPAQUE items: the tree holds one text, XML shows the base64 of the concatenation
            w2 = pre + opaque(a) + opaque(b2) + bytes([1, 1])
            alt = (pre + opaque(a + b2) + bytes([1, 1]))[len(HDR[lang]):]
            cs.append(Case("P", "w2x 0 " + hx(w2), ("bin_texts", name, [a + b2]), "doc_binary_items_adjacent_w2x", model=False,
                           meta=("xback", ("bytes_tail_any", [alt, w2[len(HDR[lang]):]]))))
            cs.append(Case("P", "w2w 0 " + hx(w2), ("bytes_tail_any", [alt, w2[len(HDR[lang]):]]), "doc_binary_items_adjacent_w2w", model=False))
            # (ii) text, child element, text (ActiveSync MIME with an empty SmartReply child): each item its own base64
            pre3 = HDR[L_ACTIVESYNC] + bytes([0, 0x15, 0x45, 0x50])
            w3 = pre3 + opaque(a) + bytes([0x07]) + opaque(b2) + bytes([1, 1])
            cs.append(Case("P", "w2x 0 " + hx(w3), ("bin_texts", "MIME", [a, b2]), "doc_binary_items_mixed_w2x", model=False,
                           meta=("xback", ("bytes_tail", w3[len(HDR[L_ACTIVESYNC]):]))))
            cs.append(Case("P", "w2w 0 " + hx(w3), ("bytes_tail", w3[len(HDR[L_ACTIVESYNC]):]), "doc_binary_items_mixed_w2w", model=False))
        # the same text folded over lines, as the project's own sample does, must give the same opaque
        if i % 4 == 0 and len(t) > 8:
            folded = "\n  " + t[:5] + "\n  " + t[5:] + "\n"
            tail2 = '<%s xmlns="%s"><%s%s>%s</%s></%s>' % (root, rns, name, (' xmlns="%s"' % ns) if ns else "", folded, name, root)
            cs.append(Case("P", "x2w " + hx(xml_doc(lang, tail2)), ("bytes_tail", w[len(HDR[lang]):]), "doc_binary_tag_folded", model=False))
    return cs


# ------------------------------------------------------------------------------------------
# judging

def jn(x):
    """JSON form of an oracle (bytes -> "hex:..", tuples -> lists)"""
    if isinstance(x, (tuple, list)):
        return [jn(y) for y in x]
    if isinstance(x, bytes):
        return "hex:" + x.hex()
    return x


def judge(c, ans):
    """None = fine; str = why the C's answer violates the oracle"""
    o = c.oracle
    if o is None:
        return None
    if isinstance(o, str):
        if o.startswith("err "):
            return None if (ans or "").startswith("err") else "expected an error"
        return None if ans == o else "expected " + o[:200]
    tag = o[0]
    if ans is None:
        return "no answer"
    if tag == "error":
        return None if ans.startswith("err") else "expected an error"
    if tag == "ok":
        return None if ans.startswith("ok ") else "expected success"
    if not ans.startswith("ok "):
        return "expected success"
    try:
        body = bytes.fromhex(ans[3:]) if ans[3:] != "-" else b""
    except ValueError:
        return "the reply is not a well-formed answer line (corrupted output): %r" % ans[:120]
    if tag == "value":          # WV date-time text denoting the same value
        return None if wv_value(body) == o[1] else "date-time text denotes %r, expected %r" % (wv_value(body), o[1])
    if tag == "xml_tail":
        return None if body.endswith(o[1]) else "XML does not end with " + o[1].decode("latin-1")[:200]
    if tag == "wv_value":
        m = re.search(rb"<%s>([^<]*)</%s>$" % (o[1].encode(), o[1].encode()), body)
        return None if m and wv_value(m.group(1)) == o[2] else "XML date-time does not denote %r" % (o[2],)
    if tag == "bytes":
        return None if body == o[1] else "expected wbxml " + o[1].hex()[:200]
    if tag == "bytes_tail_any":
        return None if any(body.endswith(x) and len(body) > len(x) for x in o[1]) else "expected wbxml ending in " + o[1][0].hex()[:200]
    if tag == "bin_texts":      # the text items directly inside <name>..</name> are the base64 of these byte strings, in order
        m = re.search(rb"<%s(?: [^>]*)?>(.*)</%s>" % (o[1].encode(), o[1].encode()), body, re.S)
        if not m:
            return "element %s not found in the XML" % o[1]
        texts = [x for x in re.split(rb"<[^>]*>", m.group(1)) if x != b""]
        try:
            got = [base64.b64decode(x, validate=True) for x in texts]
        except Exception:
            return "text of %s is not base64: %r" % (o[1], texts[:3])
        return None if got == list(o[2]) else "binary items %r, expected %r" % ([g.hex() for g in got][:3], [g.hex() for g in o[2]][:3])
    if tag == "bytes_tail":
        return None if body.endswith(o[1]) and len(body) > len(o[1]) else "expected wbxml ending in " + o[1].hex()[:200]
    return "bad oracle"


SWEEP_C = r"""
#include "vh.h"
#include "%s"
/* exhaustive sweep of [lo, hi) on the C: MODE E: decimal text -> wbxml_encode_wv_integer -> minimal big-endian OPAQUE;
   MODE D: minimal big-endian octets -> decode_wv_integer -> decimal text */
int main(int argc, char **argv) {
    unsigned long long lo = strtoull(argv[1], 0, 10), hi = strtoull(argv[2], 0, 10), v, bad = 0;
#if MODE_E
    WBXMLEncoder *enc = wbxml_encoder_create();
    enc->output = wbxml_buffer_create((const WB_UTINY *) "x", 1, 32);
#endif
    for (v = lo; v < hi; v++) {
        unsigned char be[4], exp[8]; int n = 0, i; char txt[16];
        unsigned long long t = v;
        while (t) { n++; t >>= 8; }
        for (i = 0; i < n; i++) be[i] = (unsigned char) (v >> (8 * (n - 1 - i)));
        sprintf(txt, "%%llu", v);
#if MODE_E
        wbxml_buffer_delete(enc->output, 0, wbxml_buffer_len(enc->output));
        exp[0] = 0xC3; exp[1] = (unsigned char) n; memcpy(exp + 2, be, n);
        if (wbxml_encode_wv_integer(enc, (WB_UTINY *) txt) != WBXML_OK || wbxml_buffer_len(enc->output) != (WB_ULONG) n + 2 ||
            memcmp(wbxml_buffer_get_cstr(enc->output), exp, n + 2) != 0) { bad++; if (bad < 20) printf("FAIL %%llu\n", v); }
#else
        {
            WBXMLBuffer *b = wbxml_buffer_create(be, n, 16);
            if (decode_wv_integer(&b) != WBXML_OK || strcmp((char *) wbxml_buffer_get_cstr(b), txt) != 0) { bad++; if (bad < 20) printf("FAIL %%llu\n", v); }
            wbxml_buffer_destroy(b);
        }
#endif
    }
    printf("DONE %%llu %%llu %%llu\n", lo, hi, bad);
    return 0;
}
"""


def int_sweep(ctx):
    """all 2^32 integers through the C encoder and through the C decoder (plain -O2 build, 64 shards each)"""
    from concurrent.futures import ThreadPoolExecutor
    fails, n = [], 0
    for mode, inc in (("E", "wbxml_encoder.c"), ("D", "wbxml_parser.c")):
        src = os.path.join(common.BUILD, "c12_sweep_%s.c" % mode)
        common.write_if_changed(src, SWEEP_C % inc)
        exe = common.build_harness("c12_sweep_" + mode, flavor="plain", sources=[src], extra=("-DMODE_E=%d" % (mode == "E"),))
        shards = 64
        step = (1 << 32) // shards

        def run(i):
            return common.sh([exe, str(i * step), str((i + 1) * step)], timeout=3600)
        with ThreadPoolExecutor(common.NPROC) as ex:
            for rc, out, err in ex.map(run, range(shards)):
                done = [l for l in out.split("\n") if l.startswith("DONE")]
                if rc != 0 or not done:
                    fails.append({"kind": "sweep-crash", "mode": mode, "rc": rc, "stderr": err[-2000:]})
                    continue
                for l in out.split("\n"):
                    if l.startswith("FAIL"):
                        v = int(l.split()[1])
                        fails.append({"kind": "wv_int_sweep_" + mode, "input": ("eint " + hx(str(v).encode())) if mode == "E" else ("dint " + hx(be_min(v))),
                                      "value": v})
                n += int(done[0].split()[2]) - int(done[0].split()[1])
    return n, fails


def thorough_cases(ctx, rng):
    cs = []
    # all month x day x hour x minute combinations with sampled year / second, every truncation of each
    for M in range(1, 13):
        for D in range(1, 32):
            for h in range(24):
                for m in range(60):
                    Y = rng.choice(YEARS) if rng.chance(1, 8) else rng.range(0, 9999)
                    s = 0 if rng.chance(1, 4) else rng.range(0, 59)
                    cs += si_cases(Y, M, D, h, m, s)
                    if rng.chance(1, 4):
                        cs += wv_cases(Y % 4096, M, D, h, m, s, rng.choice(ZONES))
    # the zero-suffix shapes on every (M, D)
    for M in range(1, 13):
        for D in range(1, 32):
            for hms in ((0, 0, 0), (rng.range(1, 23), 0, 0), (rng.range(0, 23), rng.range(1, 59), 0)):
                cs += si_cases(rng.range(0, 9999), M, D, *hms)
    # every zone x every second x sampled rest, every year of the 12-bit field
    for z in ZONES:
        for s in range(60):
            Y, M, D, h, m, _ = rand_dt(rng)
            cs += wv_cases(Y % 4096, M, D, h, m, s, z)
    for Y in range(4096):
        _, M, D, h, m, s = rand_dt(rng)
        cs += wv_cases(Y, M, D, h, m, s, rng.choice(ZONES))
    return cs


# pending findings (none): list of (kind, input line) the check would report as KNOWN-FINDING instead of a violation
PENDING = []
# (the former pending finding binary-tag-mixed-content-xml2wbxml, see DEFECTS.md, is repaired in /repo c0648d3: its shape
# `doc_binary_items_mixed_w2x_and_back` is an ordinary case again and a recurrence is a violation)
PENDING_KINDS = {}


def run(ctx):
    ctx.level = "proof"
    ctx.assumptions = [
        "bytes are N < 256, 8-/32-bit C variables are N with explicit mod 2^8 / mod 2^32; strings are byte lists without the NUL",
        "libc is modelled, not verified: sprintf %u/%02u/%04u = decimal digits (zero padded), atol/strtol(16)/strtoul(10) = "
        "white-space skip, sign, digit loop, saturation at LONG_MIN/LONG_MAX of a 64-bit long, cast to 32 bits; isdigit = ASCII digits "
        "(\"C\" locale); the correspondence runs these on boundary and malformed texts",
        "SI/EMN: day >= 1 (BCD octet non-zero) is what keeps at least 4 octets; month/day are not checked against the calendar by the C, "
        "the theorem covers 1..12 / 1..31",
        "WV date-time: the theorem covers the 12-bit year field 0..4095; the encoder silently reduces years 4096..9999 mod 4096 "
        "(shown as C12_wv_datetime_year_wraps; outside the WV specification's range, correspondence only)",
        "WV date-time without zone designator is sent with zone octet 0 and comes back with 'Z' (C12_wv_datetime_nozone_becomes_Z): "
        "the property speaks of zone-designated date-times only",
        "base64-carried content: stated for non-empty byte strings (wbxml_base64_encode refuses length 0: an empty OPAQUE in "
        "ds:KeyValue / NextNonce / an OTA attribute is error 18) and for canonical RFC 4648 text; on the DRMREL/OTA path white space "
        "inside the text ends the decoding (model and C agree; binary-flagged elements strip white space first)",
        "DRMREL documents cannot be read back from XML through wbxml_conv_xml2wbxml_run (prefixes are lost by the XML callbacks: "
        "outside C12); ds:KeyValue is exercised WBXML->XML and WBXML->tree->WBXML",
    ]
    bad = common.forbidden_scan()
    cres = common.coq_properties([PID, "X_typed"])
    common.proof_coverage(ctx, cres, extra_tb=["python 3 stdlib (int/str formatting, base64, datetime, re) as oracle"])
    proof_broken = (not cres["ok"]) or bool(bad)

    hp = common.build_harness("c12_harness")
    he = common.build_harness("c12_enc_harness")
    driver = common.build_driver("C12")

    quick = ctx.tier == "quick"
    nrand = 6000 if quick else 20000
    rng = Rng(ctx.seed, 12)
    cases = []
    corpus = os.path.join(common.VERIF, "corpus", "C12.txt")
    if os.path.exists(corpus):
        for l in open(corpus):
            l = l.rstrip("\n")
            if l and not l.startswith("#"):
                exe, _, rest = l.partition(" ")
                line, _, exp = rest.partition(" => ")
                cases.append(Case(exe, line, exp or None, "corpus", model=not line.startswith(("w2x", "x2w", "w2w"))))
    cases += gen_ints(ctx, Rng(ctx.seed, 121), nrand)
    cases += gen_si(ctx, Rng(ctx.seed, 122), nrand)
    cases += gen_wv_dt(ctx, Rng(ctx.seed, 123), nrand)
    cases += gen_bin(ctx, Rng(ctx.seed, 124), nrand // 3)
    pages = (list(range(0, 12)) + [0x0F, 0x10, 0x15, 0x16, 0xFF]) if quick else list(range(256))
    cases += gen_dispatch(ctx, Rng(ctx.seed, 125), pages)
    cases += gen_docs(ctx, Rng(ctx.seed, 126), 150 if quick else 1500)
    if not quick:
        cases += thorough_cases(ctx, Rng(ctx.seed, 127))
    if getattr(ctx, "replay", None):
        rp = json.load(open(ctx.replay))
        if "input" in rp and "exe" in rp:
            def unj(x):
                if isinstance(x, list):
                    return tuple(unj(y) for y in x)
                if isinstance(x, str) and x.startswith("hex:"):
                    return bytes.fromhex(x[4:])
                return x
            o = rp.get("oracle")
            o = unj(o) if isinstance(o, list) else o
            cases = [Case(rp["exe"], rp["input"], o, rp.get("kind", "replay"), model=rp.get("model", True), meta=unj(rp.get("meta")))]

    # ---- run: C (two programs) and model -------------------------------------------------------
    idx = {"P": [i for i, c in enumerate(cases) if c.exe == "P"], "E": [i for i, c in enumerate(cases) if c.exe == "E"]}
    cans = [None] * len(cases)
    crashes = []
    for key, exe in (("P", hp), ("E", he)):
        a, cr = common.run_lines(exe, [cases[i].line for i in idx[key]])
        for i, x in zip(idx[key], a):
            cans[i] = x
        for c in cr:
            c["harness"] = key
        crashes += cr
    # second pass: every WBXML the C produced from XML goes back through WBXML->XML and must show the same value
    back = [(i, c) for i, c in enumerate(cases) if isinstance(c.meta, tuple) and c.meta and c.meta[0] == "back" and (cans[i] or "").startswith("ok ")]
    bcases = [Case("P", "w2x %d %s" % (c.meta[1], cans[i][3:]), c.meta[2], c.kind + "_and_back", model=False) for i, c in back]
    ba, cr = common.run_lines(hp, [c.line for c in bcases])
    for c in cr:
        c["harness"] = "P"
    crashes += cr
    cases += bcases
    cans += ba
    # ... and every XML the C produced for the multi-item binary documents goes back through XML->WBXML
    xback = [(i, c) for i, c in enumerate(cases) if isinstance(c.meta, tuple) and c.meta and c.meta[0] == "xback" and (cans[i] or "").startswith("ok ")]
    xcases = [Case("P", "x2w " + cans[i][3:], c.meta[1], c.kind + "_and_back", model=False) for i, c in xback]
    xa, cr = common.run_lines(hp, [c.line for c in xcases])
    for c in cr:
        c["harness"] = "P"
    crashes += cr
    cases += xcases
    cans += xa
    midx = [i for i, c in enumerate(cases) if c.model]
    mans = [None] * len(cases)
    a, mcr = common.run_lines(driver, [cases[i].line for i in midx])
    for i, x in zip(midx, a):
        mans[i] = x

    concrete, corr, kinds, nontrivial = [], [], {}, set()
    for i, c in enumerate(cases):
        kinds[c.kind] = kinds.get(c.kind, 0) + 1
        ca, ma = cans[i], mans[i]
        if c.exe is None:
            # model-only line (binary tag path): the oracle judges the model; the C side is the document cases
            if c.oracle is not None and ma != c.oracle:
                corr.append({"input": c.line, "model": ma, "oracle": c.oracle, "kind": c.kind})
            continue
        if ca == "nolang":
            continue
        if ca and (ca.startswith("ok ") or ca.startswith("emit ")) and ca not in ("ok -",):
            nontrivial.add(c.line)
        why = judge(c, ca)
        if why:
            concrete.append({"exe": c.exe, "input": c.line, "c": ca, "why": why, "kind": c.kind, "model": c.model,
                             "oracle": jn(c.oracle), "meta": jn(c.meta)})
        if c.model and ca != ma:
            soft = (ca or "").startswith("err") and (ma or "").startswith("err")
            if not soft:
                corr.append({"exe": c.exe, "input": c.line, "c": ca, "model": ma, "kind": c.kind})
    for cr in crashes:
        concrete.append({"kind": "crash-or-sanitizer-report", **cr})

    # ---- dispatch oracle: the typed (language, page, token) triples are exactly the named elements of the tables ----
    nl = names_lines(pages)
    na, _ = common.run_lines(hp, [l for l, _ in nl])
    names = {k: (a or "-") for (_, k), a in zip(nl, na)}
    disp_bad = []
    plain_ans = "ok " + hx(PROBE)
    for i, c in enumerate(cases):
        if not c.kind.startswith("dispatch") or cans[i] in (None, "nolang"):
            continue
        typed = cans[i] != (plain_ans if c.exe == "P" else "notenc")
        if c.kind == "dispatch_opaque_content":
            lang, page, tok = c.meta
            nm = names.get(c.meta, "-").split(" ")[0]
            want = (lang in (L_WV11, L_WV12) and nm in (WV_INT_NAMES | WV_INT_NAMES_PARSER_ONLY | WV_DT_NAMES)) or \
                   (lang == L_DRMREL and nm == "ds:KeyValue") or (lang in L_SYNCML and nm == "NextNonce")
        elif c.kind == "dispatch_opaque_attr":
            want = c.meta[0] == L_OTA
        elif c.kind == "dispatch_wv_enc":
            nm = names.get(c.meta, "-").split(" ")[0]
            want = nm in (WV_INT_NAMES | WV_DT_NAMES)
        elif c.kind == "dispatch_drmrel_enc":
            want = names.get(c.meta, "-") == "ds:KeyValue"
        else:
            lang, page, tok = c.meta
            nm = names.get(c.meta, "-")
            want = (lang == L_SI and page == 0 and nm in ("created", "si-expires")) or (lang == L_EMN and page == 0 and nm == "timestamp")
        if typed != want:
            disp_bad.append({"exe": c.exe, "input": c.line, "c": cans[i], "kind": c.kind, "model": True, "meta": jn(c.meta),
                             "why": "typed handling %s for table name %r" % ("applied" if typed else "missing", names.get(c.meta)), "oracle": None})
    concrete += disp_bad

    # ---- specification side vs python (validates canonical / render / bcd7 / wv_octets / be_value / sprintf_u / rfc4648) ----
    srng = Rng(ctx.seed, 128)
    slines, sexp = [], []
    for _ in range(1500):
        Y, M, D, h, m, s = rand_dt(srng)
        a = "%d %d %d %d %d %d" % (Y, M, D, h, m, s)
        slines.append("spec_canon " + a); sexp.append(hx(canon(Y, M, D, h, m, s)))
        t = srng.below(4)
        slines.append("spec_render %d %s" % (t, a)); sexp.append(hx(render_si(t, Y, M, D, h, m, s)))
        slines.append("spec_bcd7 " + a); sexp.append(hx(bcd7(Y, M, D, h, m, s)))
        z = srng.choice(ZONES + [0])
        Yw = Y % 4096
        a = "%d %d %d %d %d %d %d" % (Yw, M, D, h, m, s, z)
        ws = srng.below(2)
        slines.append("spec_wvrender %d %s" % (ws, a)); sexp.append(hx(wv_text(Yw, M, D, h, m, s, z, with_sec=bool(ws))))
        slines.append("spec_wvoctets " + a); sexp.append(hx(wv_pack(Yw, M, D, h, m, s, z)))
        b = srng.bytes(srng.range(0, 8))
        slines.append("spec_be " + hx(b)); sexp.append(hx(str(int.from_bytes(b, "big")).encode()))
        v = srng.below(1 << srng.range(1, 32))
        slines.append("spec_dec %d" % v); sexp.append(hx(str(v).encode()))
        b = srng.bytes(srng.range(1, 30))
        slines.append("spec_b64 " + hx(b)); sexp.append(hx(base64.b64encode(b)))
    sa, _ = common.run_lines(driver, slines, shards=4)
    spec_bad = [{"input": l, "spec": a, "python": e} for l, a, e in zip(slines, sa, sexp) if a != e]

    evals = len(cases) + len(slines) + len(nl)
    if not quick:
        n, fails = int_sweep(ctx)
        evals += n
        concrete += fails
        ctx.coverage["exhaustive_parts"] = ("all 2^32 integers through wbxml_encode_wv_integer and through decode_wv_integer on the C; "
                                            "all 12x31x24x60 (month, day, hour, minute) with sampled year/second and every truncation; "
                                            "every zone x every second; every year 0..4095; all 256 code pages in the dispatch probe")

    # pending findings
    pend = [v for v in concrete if (v.get("kind"), v.get("input")) in PENDING or v.get("kind") in PENDING_KINDS]
    seen_keys = set()
    for v in pend:
        key = PENDING_KINDS.get(v.get("kind"), v.get("kind"))
        if key in seen_keys:
            continue
        seen_keys.add(key)
        if not ctx.report_known(key):       # not (yet) registered in known_findings.json: print it ourselves
            print("KNOWN-FINDING: property=C12 pending %s: %s (first input %s)" % (key, v.get("why", "")[:120], str(v.get("input"))[:120]), flush=True)
    ctx.coverage["pending_findings"] = {k: sum(1 for v in pend if PENDING_KINDS.get(v.get("kind"), v.get("kind")) == k) for k in seen_keys}
    concrete = [v for v in concrete if v not in pend]

    step = max(1, len(cases) // 14)
    ctx.coverage.update({
        "evaluations": evals,
        "distinct_nontrivial": len(nontrivial),
        "rule": "cases = boundary values of the proofs' case splits + random (splitmix64 from VERIF_SEED) + texts/octets outside the "
                "domain (correspondence only) + whole documents of 11 languages + the (language, page, token) dispatch probe; "
                "non-trivial = the C produced a non-empty successful result; distinct by input line",
        "input_distribution": kinds,
        "samples": [{"input": cases[i].line[:300], "c": (cans[i] or "")[:300], "model": (mans[i] or "")[:300] if cases[i].model else None,
                     "kind": cases[i].kind} for i in range(0, len(cases), step)][:16],
        "traces_validated_against_impl": sum(1 for c in cases if c.model and c.exe),
        "documents_through_public_api": sum(1 for c in cases if c.kind.startswith("doc")),
        "correspondence_disagreements": len(corr),
        "spec_vs_python_disagreements": len(spec_bad),
        "dispatch_triples_probed": sum(1 for c in cases if c.kind.startswith("dispatch")),
    })

    # ---- verdict -----------------------------------------------------------------------
    for v in concrete[:5]:
        ctx.violation("c-violates-oracle-" + str(v.get("kind", "x")),
                      {"replay_cmd": "echo '%s' | <%s>" % (v.get("input"), "c12_harness" if v.get("exe") == "P" else "c12_enc_harness"), **v})
    if spec_bad:
        ctx.violation("spec-vs-python", {"broken": "specification functions of Model/Typed.v disagree with python", "cases": spec_bad[:5]}, found_input=False)
    if not concrete:
        if proof_broken:
            ctx.violation("proof-broken", {"broken": "Properties_C12.v no longer checks", "failed_theorems": cres["failed"],
                                           "broken_at": cres.get("broken_at"), "forbidden": bad, "log_tail": cres["log"][-3000:],
                                           "search": "oracle run on %d cases found no failing input" % evals}, found_input=False)
        if corr:
            ctx.violation("correspondence-broken", {"broken": "model Typed.v and the C disagree; the C still satisfies the oracle on every generated case",
                                                    "first_cases": corr[:5]}, found_input=False)
    elif corr:
        ctx.coverage["note"] = "model/C disagreements also present: %d" % len(corr)
