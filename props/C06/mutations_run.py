import subprocess, sys, os, json, re
import os
W=os.environ.get('MUT_WORKTREE','/tmp/rw-wbxmlenc-1'); V=os.path.dirname(os.path.dirname(os.path.dirname(os.path.abspath(__file__))))
muts = [
 ("M1-strtbl-len-without-NUL", "    encoder->strstbl_len += wbxml_buffer_len(elt->string) + 1;", "    encoder->strstbl_len += wbxml_buffer_len(elt->string);"),
 ("M2-switch-page-only-upwards", "    if (encoder->tagCodePage != page)\n    {\n        if ((!wbxml_buffer_append_char(encoder->output, WBXML_SWITCH_PAGE))", "    if (encoder->tagCodePage < page)\n    {\n        if ((!wbxml_buffer_append_char(encoder->output, WBXML_SWITCH_PAGE))"),
 ("M3-attr-prefix-not-stripped", "                    *value = wbxml_buffer_get_cstr(attribute->value) + WBXML_STRLEN(attribute->name->u.token->xmlValue);", "                    *value = wbxml_buffer_get_cstr(attribute->value);"),
 ("M4-content-bit-ignores-dropped-blank-text", "            ret = parse_element(encoder, node, node->children != NULL);", "            ret = parse_element(encoder, node, node->children != NULL && !(encoder->ignore_empty_text && node->children->next == NULL && node->children->type == WBXML_TREE_TEXT_NODE && wbxml_buffer_contains_only_whitespaces(node->children->content)));"),
 ("M5-version-byte-constant", "    if (!wbxml_buffer_append_char(header, (WB_UTINY) encoder->wbxml_version))", "    if (!wbxml_buffer_append_char(header, (WB_UTINY) WBXML_VERSION_13))"),
 ("M6-offset-taken-after-length-update", "    elt->offset = encoder->strstbl_len;\n\n    if (!wbxml_list_append(encoder->strstbl, (void *) elt))\n        return FALSE;\n\n    /* Index in String Table */\n    if (index != NULL)\n        *index = encoder->strstbl_len;\n\n    /* New String Table length */\n    encoder->strstbl_len += wbxml_buffer_len(elt->string) + 1;",
  "    if (!wbxml_list_append(encoder->strstbl, (void *) elt))\n        return FALSE;\n\n    /* New String Table length */\n    encoder->strstbl_len += wbxml_buffer_len(elt->string) + 1;\n\n    elt->offset = encoder->strstbl_len;\n\n    /* Index in String Table */\n    if (index != NULL)\n        *index = encoder->strstbl_len;"),
 ("M7-attr-page-state-not-updated", "        encoder->attrCodePage = page;\n", "        /* encoder->attrCodePage = page; */\n"),
 ("M8-value-token-remainder-dropped", "                        if (index + WBXML_STRLEN(encoder->lang->attrValueTable[j].xmlName) < wbxml_buffer_len(elt->u.str)) {", "                        if (index + WBXML_STRLEN(encoder->lang->attrValueTable[j].xmlName) + 1 < wbxml_buffer_len(elt->u.str)) {"),
 ("M9-tableref-remainder-dropped", "                    if (index + wbxml_buffer_len(strtbl_elt->string) < wbxml_buffer_len(elt->u.str)) {", "                    if (index + wbxml_buffer_len(strtbl_elt->string) + 1 < wbxml_buffer_len(elt->u.str)) {"),
 ("M10-literal-dedupe-by-length-only", "        if ((wbxml_buffer_len(elt_tmp->string) == wbxml_buffer_len(elt->string)) &&\n            (wbxml_buffer_compare(elt_tmp->string, elt->string) == 0))", "        if ((wbxml_buffer_len(elt_tmp->string) == wbxml_buffer_len(elt->string)))"),
]
only = sys.argv[1:] 
res = {}
for name, old, new in muts:
    if only and name.split('-')[0] not in only: continue
    subprocess.run(['git','checkout','-q','src/wbxml_encoder.c'],cwd=W)
    p=W+'/src/wbxml_encoder.c'; s=open(p).read()
    assert s.count(old)==1, (name, s.count(old))
    open(p,'w').write(s.replace(old,new))
    diff=subprocess.run(['git','diff'],cwd=W,capture_output=True,text=True).stdout
    b=subprocess.run('cmake --build _b >/dev/null 2>&1 && ctest --test-dir _b -j8 2>&1 | tail -3',shell=True,cwd=W,capture_output=True,text=True).stdout
    env=dict(os.environ, VERIF_REPO=W, VERIF_SEED='1')
    r=subprocess.run(['bin/check','C06'],cwd=V,env=env,capture_output=True,text=True)
    viol=[l for l in r.stdout.split('\n') if l.startswith('VIOLATION')]
    first=None
    if viol:
        f=viol[0].split('replay=')[1].split()[0]
        j=json.load(open(f))
        first={'what':j.get('what'),'found':j.get('failing_input_found'),'oracle':j.get('oracle'),'options':j.get('options'),'lang':j.get('lang'),'kind':j.get('kind'),'input_head':(j.get('input') or '')[:80]}
        os.makedirs(V+'/build/mut/replays',exist_ok=True)
        json.dump(j,open(V+'/build/mut/replays/%s.json'%name,'w'))
    ev=json.load(open(V+'/evidence/C06.json'))['coverage']
    res[name]={'diff':diff,'ctest':b.strip().split('\n')[0] if b.strip() else b,'exit':r.returncode,'nviol':len(viol),'first':first,
               'oracle_failures':ev.get('oracle_failures'),'corr':ev.get('correspondence_disagreements')}
    print(name, res[name]['ctest'], 'exit', r.returncode, 'oracle_failures', ev.get('oracle_failures'), 'corr', ev.get('correspondence_disagreements'), first and first['oracle'], flush=True)
subprocess.run(['git','checkout','-q','src/wbxml_encoder.c'],cwd=W)
json.dump(res,open(V+'/build/mut/results.json','w'),indent=1)
