"""C06 — generated WBXML is grammatical and denotes exactly the source XML (and the WBXML half of C07).

1. proof: coq/Properties/Properties_C06.v (theorems over Model/EncWbxml.v) rebuilt and re-checked;
2. tie: harness/c06_harness.c runs wbxml_tree_from_xml + wbxml_tree_to_wbxml of the current tree (ASan+UBSan) and
   dumps the library's own tree; driver/C06_driver.ml runs the extracted enc_wbxml on that tree; bytes are compared;
3. oracle (independent of the model and of the library's parser): vlib/strictdec.py, a strict WBXML decoder written
   from the specification over the regenerated tables, run on the C's bytes; its infoset must equal the pyexpat
   infoset of the source under the documented normalisations (vlib/c06_oracle.py);
4. C07 (WBXML half): for one source, all option tuples that agree on keep-ws must denote the same infoset (they are
   each compared with the same source infoset), and the header must carry the requested version / public id form.
"""
import glob
import json
import os
from concurrent.futures import ProcessPoolExecutor

from vlib import common, gen, c06_gen, c06_oracle, c06_tree, c06_spec_oracle

PID = "C06"

# D7 (string-table entry trimmed in place) was repaired in /repo by 6829a7f; vlib/c06_tree.d7_shape only counts how many
# cases of the former failing shape a run contains (they are ordinary cases now).


def _judge(args):
    xml, wb, lid, v, an, kw, tp = args
    try:
        return c06_oracle.judge(xml, wb, _judge.tj, lid, v, an, kw, tp)
    except RecursionError:
        return ["oracle: recursion limit"]


def _init(tj):
    _judge.tj = tj


def _judge3(args):
    xml, ans, lid, kw = args
    try:
        src = c06_oracle.source_infoset(xml, kw)
        return c06_spec_oracle.judge(src, ans, _judge.tj, lid, kw)
    except RecursionError:
        return ["oracle: recursion limit"]
    except Exception as e:          # pyexpat on the source
        return ["source not parsed by pyexpat: %s" % e]


def corpus_docs():
    out = []
    for f in sorted(glob.glob(os.path.join(common.REPO, "test", "tools", "**", "*.xml"), recursive=True)):
        out.append((0, "corpus:" + os.path.relpath(f, os.path.join(common.REPO, "test", "tools")), open(f, "rb").read(), False))
    extra = os.path.join(common.VERIF, "corpus", "C06.txt")
    if os.path.exists(extra):
        for l in open(extra):
            l = l.strip()
            if l and not l.startswith("#"):
                out.append((0, "kept", bytes.fromhex(l), False))
    return out


def run(ctx):
    ctx.level = "proof"
    ctx.assumptions = [
        "the tree handed to the encoder is the one the library's Expat front end builds (wbxml_tree_from_xml); Expat's lexing, "
        "entity expansion and namespace processing are an oracle, the harness dumps the resulting tree and the model starts there",
        "bytes are N < 256, WB_ULONG values N with explicit mod 2^32; the write-only output buffer is modelled as returned bytes",
        "isspace / isdigit / strcasecmp / atol / strtol / strtoul are the C-locale ASCII functions (glibc semantics for saturation)",
        "attribute lists: node->attrs == NULL iff the element has no attribute (true for trees built from XML; the driver refuses an empty non-NULL list)",
        "documents are small (the recursion over children of parse_node is bounded by the front end's nesting limit)",
        "DRMREL element names carry a namespace prefix that the namespace-aware front end strips, so they are encoded as literals (observed, not a failure of C06)",
        "languages without attribute table (SyncML family, ConML): parse_attribute drops attributes; generated documents carry none for them",
    ]
    bad = common.forbidden_scan()
    tj = gen.gen_tables()
    cres = common.coq_property(PID)
    common.proof_coverage(ctx, cres)
    proof_broken = (not cres["ok"]) or bool(bad)

    harness = common.build_harness("c06_harness")
    driver = common.build_driver(PID)

    quick = ctx.tier == "quick"
    rng = common.Rng(ctx.seed, 6)
    docs = corpus_docs() + c06_gen.documents(tj, rng, quick)
    if not quick:
        for s in range(1, 6):
            docs += c06_gen.documents(tj, common.Rng(ctx.seed * 1000 + s, 6), quick)
    corpus_opts = [(3, 1, 0, 0), (3, 0, 0, 0), (1, 1, 1, 1), (2, 0, 1, 0), (0, 1, 0, 1), (3, 1, 1, 0)] if quick else c06_gen.OPTION_TUPLES
    cases = []          # (line, lang, kind, xml, opts)
    # wbxml_encoder_set_text_public_id(TRUE) (fifth option, only through the encoder API): a few tuples per document
    TEXT_PID_TUPLES = [(3, 1, 0, 0, 1), (3, 0, 0, 0, 1), (1, 1, 1, 0, 1), (2, 1, 0, 1, 1)]
    for lid, kind, xml, _ in docs:
        for o in (corpus_opts if kind.startswith("corpus") or kind == "kept" else c06_gen.OPTION_TUPLES):
            cases.append(("%s %d %d %d %d" % ((xml.hex(),) + o), lid, kind, xml, o))
        for o in TEXT_PID_TUPLES:
            cases.append(("%s %d %d %d %d %d" % ((xml.hex(),) + o), lid, kind + ":text-public-id", xml, o))
    if getattr(ctx, "replay", None):
        rp = json.load(open(ctx.replay))
        if "input" in rp:
            f = rp["input"].split()
            cases = [(rp["input"], rp.get("lang", 0), "replay", bytes.fromhex(f[0]), tuple(int(t) for t in f[1:]))]

    ca, crashes = common.run_lines(harness, [c[0] for c in cases], timeout=1200)
    # model on the C's tree
    mlines, midx = [], []
    for i, a in enumerate(ca):
        if a and a.startswith("T OK"):
            tree = a.partition(" | ")[0][5:]
            o = cases[i][4]
            mlines.append(("tp " if len(o) > 4 and o[4] else "") + "%d %d %d %d %s" % (o[:4] + (tree,)))
            midx.append(i)
    ma, mcr = common.run_lines(driver, mlines, timeout=1200)
    model = dict(zip(midx, ma))

    concrete, corr = [], []
    former_d7 = 0
    kinds, enc_status = {}, {}
    nontrivial = set()
    tags_seen, attrs_seen = {}, {}
    jobs, jidx = [], []
    for i, (line, lid, kind, xml, o) in enumerate(cases):
        a = ca[i]
        k = kind.split(":")[0]
        kinds[k] = kinds.get(k, 0) + 1
        if a is None:
            continue
        if not a.startswith("T OK"):
            enc_status["front-end refuses"] = enc_status.get("front-end refuses", 0) + 1
            continue
        tree, _, cw = a.partition(" | ")
        real_lid = int(tree.split()[2])
        if lid and real_lid != lid:
            corr.append({"input": line, "kind": "language", "c": real_lid, "expected": lid})
        m = model.get(i)
        if cw != m:
            if cw.startswith("W ERR") and m and m.startswith("W ERR"):
                enc_status["soft (error code differs)"] = enc_status.get("soft (error code differs)", 0) + 1
            else:
                corr.append({"input": line, "lang": real_lid, "kind": kind, "c": cw[:2000], "model": (m or "")[:2000]})
        if cw.startswith("W OK"):
            enc_status["encoded"] = enc_status.get("encoded", 0) + 1
            wb = bytes.fromhex(cw[5:]) if cw[5:] != "-" else b""
            jobs.append((xml, wb, real_lid, o[0], bool(o[3]), bool(o[2]), len(o) > 4 and bool(o[4])))
            jidx.append(i)
            nontrivial.add((real_lid, cw[5:]))
        else:
            enc_status[cw] = enc_status.get(cw, 0) + 1
    # third oracle: the proved strict decoder of the parser development (Spec.decode_lang, driver C04) on the C's bytes
    d04 = common.build_driver("C04")
    sa, scr = common.run_lines(d04, ["strict %d %s" % (j[2], j[1].hex() if j[1] else "-") for j in jobs], timeout=1200)
    with ProcessPoolExecutor(common.NPROC, initializer=_init, initargs=(tj,)) as ex:
        verdicts = list(ex.map(_judge, jobs, chunksize=64))
        verdicts3 = list(ex.map(_judge3, [(j[0], a, j[2], j[5]) for j, a in zip(jobs, sa)], chunksize=64))
    spec_fail = 0
    for k, v3 in enumerate(verdicts3):
        if v3:
            spec_fail += 1
            verdicts[k] = list(verdicts[k]) + ["Spec.decode_lang (Coq strict decoder): " + v3[0]]
    ok_by_src = {}
    for i, v in zip(jidx, verdicts):
        line, lid, kind, xml, o = cases[i]
        tree = ca[i].partition(" | ")[0][5:]
        try:
            real_lid, nodes = c06_tree.parse_dump(tree)
        except Exception:
            real_lid, nodes = 0, []
        tg, at = c06_tree.tokens_used(nodes)
        tags_seen.setdefault(real_lid, set()).update(tg)
        attrs_seen.setdefault(real_lid, set()).update(at)
        if o[1] == 1 and o[2] == 0 and c06_tree.d7_shape(nodes):
            former_d7 += 1
        if v:
            concrete.append({"input": line, "lang": real_lid, "kind": kind, "options": {"version": o[0], "use_strtbl": o[1], "keep_ws": o[2], "anonymous": o[3], "text_public_id": int(len(o) > 4 and o[4])},
                             "oracle": v[:4], "c": ca[i].partition(" | ")[2][:4000]})
        else:
            if len(o) == 4:
                ok_by_src.setdefault((xml, o[2]), set()).add(o)
    for cr in crashes:
        concrete.append({"kind": "crash-or-sanitizer-report", "input": cr.get("first_unanswered"), **{k: v for k, v in cr.items() if k != "first_unanswered"}})

    # coverage of the tables by the trees actually encoded
    tagcov = {}
    for l in tj["langs"]:
        rows = tj["tables"][str(l["tags"])]["rows"]
        allt = {(r[1], r[2]) for r in rows}
        arows = tj["tables"][str(l["attrs"])]["rows"] if l["attrs"] >= 0 else []
        alla = {(r[2], r[3]) for r in arows if ":" not in r[0]}
        tagcov[str(l["id"])] = "tags %d/%d attr-starts %d/%d" % (len(tags_seen.get(l["id"], set()) & allt), len(allt),
                                                                 len(attrs_seen.get(l["id"], set()) & alla), len(alla))
    full_cross = sum(1 for s in ok_by_src.values() if len(s) >= 16)
    ctx.coverage.update({
        "evaluations": len(cases),
        "distinct_nontrivial": len(nontrivial),
        "rule": "case = (XML document, version, use_strtbl, keep_ws, anonymous); documents = project corpus test/tools/**/*.xml + documents "
                "synthesised from every language's tables (vlib/c06_gen.py, splitmix64 from VERIF_SEED); generated documents run under all 32 "
                "option tuples; non-trivial = conversion succeeded, counted distinct by (language, output bytes)",
        "input_distribution": {"by_kind": kinds, "encoder_result": enc_status},
        "table_coverage_by_language": tagcov,
        "samples": [{"input_xml": cases[i][3][:300].decode("utf-8", "replace"), "options": cases[i][4], "c": (ca[i] or "")[-200:]}
                    for i in range(0, len(cases), max(1, len(cases) // 10))][:10],
        "traces_validated_against_impl": len(midx),
        "correspondence_disagreements": len(corr),
        "oracle_judged": len(jobs),
        "oracle_failures": len(concrete),
        "spec_decoder_judged": len(jobs),
        "spec_decoder_failures": spec_fail,
        "cases_of_the_former_D7_shape": former_d7,
        "c07_sources_with_all_16_option_tuples_equal": full_cross,
    })

    # ---- verdict -----------------------------------------------------------------------------
    for v in concrete[:5]:
        ctx.violation("c-violates-oracle", {"replay_cmd": "bin/check C06 --replay <this file>", **v})
    if not concrete:
        if proof_broken:
            ctx.violation("proof-broken", {"broken": "Properties_C06.v no longer checks", "failed_theorems": cres["failed"],
                                           "broken_at": cres.get("broken_at"), "forbidden": bad, "log_tail": cres["log"][-3000:],
                                           "search": "oracle run on %d encoded cases found no failing input" % len(jobs)}, found_input=False)
        if corr:
            ctx.violation("correspondence-broken", {"broken": "model EncWbxml.v and the C disagree; the C still satisfies the oracle on every generated case",
                                                    "first_cases": corr[:5]}, found_input=False)
    elif corr:
        ctx.coverage["note"] = "model/C disagreements also present: %d" % len(corr)
