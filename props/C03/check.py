"""C03 — XML -> WBXML -> XML round trip preserves the document and is idempotent.

1. proof: coq/Properties/Properties_C03.v (the normalisation `norm` on the encoder's tree type is idempotent, the identity under
   keep-ws, and the encoder's text policy sees only normalised text) — the composition with the parser / XML generator models is
   not available here: the round trip itself is CORRESPONDED ONLY;
2. on the C (public entry points, harness/c01_harness.c): source --xml2wbxml(opts)--> W1 --wbxml2xml(compact, same keep-ws)--> X1;
   pyexpat infoset(source) must equal infoset(X1) modulo the documented normalisations (vlib/c03_lib.py, c06_oracle.source_infoset);
   X1 --xml2wbxml--> W2 --wbxml2xml--> X2 must equal X1 byte for byte (and W2 = W1' is reported when W2 differs from W1 only
   as an observation: the property speaks of the XML).
"""
import glob
import json
import os
import xml.parsers.expat as expat
from concurrent.futures import ProcessPoolExecutor

from vlib import common, gen, c06_gen, c06_oracle, c06_tree, c03_lib
from vlib import convcases as cc

PID = "C03"

# fallback texts for findings recognised by their exact shape (the registered entries of known_findings.json take over;
# the former D8 / D28-D29 shapes are repaired in /repo and are ordinary violations again)
PENDING = {
    "ddf-in-vobject-data-keepws":
        "test/tools/ddf/syncml_with_ddf-001.xml with keep-ws: a DM DDF sub-document inside a <Data> whose Meta Type says text/x-vcard "
        "is embedded by element name on the way in but treated as vObject text on the way back: raw WBXML octets inside CDATA",
}


def _cmp(args):
    src, x1, lid, keep = args
    tj = _cmp.tj
    try:
        s = c06_oracle.source_infoset(src, keep)
    except expat.ExpatError as e:
        return ["source not parsed by pyexpat: %s" % e]
    try:
        r = c06_oracle.source_infoset(x1, True)
    except expat.ExpatError as e:
        return ["result is not well-formed XML: %s" % e]
    try:
        return c03_lib.compare(c03_lib.Aliases(tj, lid), s, r, keep)
    except RecursionError:
        return ["oracle: recursion limit"]


def _init(tj):
    _cmp.tj = tj


def nested_cdata(x):
    """`<![CDATA[` inside an open CDATA section"""
    i = 0
    while True:
        a = x.find(b"<![CDATA[", i)
        if a < 0:
            return False
        e = x.find(b"]]>", a)
        n = x.find(b"<![CDATA[", a + 9)
        if n >= 0 and (e < 0 or n < e):
            return True
        if e < 0:
            return False
        i = e + 3


def literal_above_token(nodes, has_ns):
    if not has_ns:
        return False

    def has_tok(ns):
        return any(n[0] == "E" and (n[1][0] == "t" or has_tok(n[3])) for n in ns)
    for n in c06_tree.walk(nodes):
        if n[0] == "E" and n[1][0] == "l" and has_tok(n[3]):
            return True
    return False


def run(ctx):
    ctx.level = "proof"
    ctx.assumptions = [
        "the round trip is observed at the public conversion entry points; both directions of Expat's work (source and result parsing) are an oracle",
        "normalisations allowed (and nothing else): trimming / dropping of blank text unless keep-ws (applied again to every merged text run on the way back, so a CDATA "
        "section is trimmed like text), alias names, regenerated xmlns declarations (local names compared), typed values by value (SI/EMN date-time digits, WV integers and "
        "date-times — a WV time without zone designator comes back with 'Z' —, base64 of binary-flagged tags / OTA icon / DRMREL key), SyncML media type +xml <-> +wbxml, "
        "LF -> CRLF and blank text inside vObject <Data>, attributes of languages without attribute table are not carried",
        "XML generation for the way back: compact, same keep-ws as the way in; the language is forced for documents without public id (OTA settings)",
        "model level: only the normalisation and the encoder's text policy have theorems; parser and XML generator models are other agents' files (partial)",
    ]
    bad = common.forbidden_scan()
    tj = gen.gen_tables()
    cres = common.coq_properties([PID, "C03_build", "C03_conv"])
    common.proof_coverage(ctx, cres)
    proof_broken = (not cres["ok"]) or bool(bad)
    h01 = common.build_harness("c01_harness", tag="-vfmem", libs=("-lexpat", "-lpthread"))
    h06 = common.build_harness("c06_harness")
    quick = ctx.tier == "quick"

    srcs = []
    files = sorted(glob.glob(os.path.join(common.REPO, "test", "tools", "**", "*.xml"), recursive=True))
    for f in files:
        srcs.append(("corpus:" + os.path.relpath(f, os.path.join(common.REPO, "test", "tools")), open(f, "rb").read()))
    docs = c06_gen.documents(tj, common.Rng(ctx.seed, 3), quick, token_root=True)
    if quick:
        docs = [d for i, d in enumerate(docs) if d[1] != "tags" or i % 2 == ctx.seed % 2]
    srcs += [("%s:%d" % (k, l), x) for l, k, x, _ in docs]
    # a few documents with the language's nominal (literal) root: the shape of finding D27
    lit = [d for d in c06_gen.documents(tj, common.Rng(ctx.seed, 4), quick) if d[0] in (2401, 2402) and d[1] in ("tags", "text")][:6]
    srcs += [("literal-root:%d" % l, x) for l, k, x, _ in lit]
    # typed values at their field boundaries, on corpus documents: Wireless-Village integers around every octet-count
    # boundary (0, 2^8, 2^16, 2^20, 2^24, 2^32-1), and binary-flagged ActiveSync content whose bytes are all white space
    # (must survive with keep-ws off): the text of the element is replaced in place
    import re as _re
    tv = []
    INTS = [0, 1, 255, 256, 65535, 65536, 100000, 1048575, 1048576, 16777215, 16777216, 2147483648, 4294967295]
    for f in files:
        x = open(f, "rb").read()
        rel = os.path.relpath(f, os.path.join(common.REPO, "test", "tools"))
        if b"WV-CSP" in x and len([t for t in tv if t[0].startswith("wv-int")]) < (26 if quick else 130):
            ms = list(_re.finditer(rb"<(Code|ContentSize|Validity|TimeToLive|KeepAliveTime|SearchID|MessageCount|SearchLimit|SearchIndex|SearchFindings)>(\d+)</\1>", x))[:2]
            for m in ms:
                for v in INTS:
                    tv.append(("wv-int:%s:%s=%d" % (rel, m.group(1).decode(), v), x[:m.start(2)] + str(v).encode() + x[m.end(2):]))
        if b"AirSync" in x or b"ActiveSync" in x:
            ms = list(_re.finditer(rb"<(MIME|ConversationId|ConversationIndex)>([A-Za-z0-9+/=\s]+)</\1>", x))[:1]
            for m in ms:
                for pl in (b"IA==", b"DQo=", b"CSAK", b"Cgo=", b"ICBhICA=", b"DQphDQo="):
                    tv.append(("binary-ws:%s:%s=%s" % (rel, m.group(1).decode(), pl.decode()), x[:m.start(2)] + pl + x[m.end(2):]))
    srcs += tv
    # explicit carriage returns in vFormat / clear-text <Data> (D39, repaired in /repo: "&#13;&#10;" came back as CR CR LF)
    for ty in ("text/x-vcard", "text/x-vcalendar", "text/clear"):
        for body in ("BEGIN:VCARD&#13;&#10;N:a&#13;&#10;END:VCARD&#13;&#10;", "a&#13;&#10;&#13;&#10;b", "a&#13;b&#10;c&#13;"):
            srcs.append(("crlf:%s" % ty, ('<?xml version="1.0"?><!DOCTYPE SyncML PUBLIC "-//SYNCML//DTD SyncML 1.1//EN" "http://www.syncml.org/docs/syncml_represent_v11_20020213.dtd">'
                         '<SyncML><SyncHdr><VerDTD>1.1</VerDTD></SyncHdr><SyncBody><Add><CmdID>1</CmdID><Meta><Type xmlns="syncml:metinf">%s</Type></Meta>'
                         '<Item><Data>%s</Data></Item></Add></SyncBody></SyncML>' % (ty, body)).encode()))
    if getattr(ctx, "replay", None):
        rp = json.load(open(ctx.replay))
        if "source_xml_hex" in rp:
            srcs = [("replay", bytes.fromhex(rp["source_xml_hex"]))]
    opts = [(3, 1, 0), (3, 0, 0), (3, 1, 1), (3, 0, 1)]           # (version, strtbl, keep)
    more = [(v, st, kw) for v in (0, 1, 2) for st in (0, 1) for kw in (0, 1)]

    a6, _ = common.run_lines(h06, ["%s 3 1 1 0" % x.hex() for _, x in srcs], timeout=1200)
    info = []
    for a in a6:
        if a and a.startswith("T OK"):
            lid, nodes = c06_tree.parse_dump(a.partition(" | ")[0][5:])
            info.append((lid, nodes))
        else:
            info.append((None, None))
    cases = []
    for si, (name, x) in enumerate(srcs):
        if info[si][0] is None:
            continue
        os_ = opts + (more if not quick else [more[(si + ctx.seed + j * 5) % len(more)] for j in range(2)])
        for o in os_:
            cases.append((si, o))

    def force(si):
        L = info[si][0]
        return L if not [l for l in tj["langs"] if l["id"] == L][0]["pub_text"] else 0

    def x2w(items):          # [(doc, (v, st, kw))]
        a, cr = common.run_lines(h01, [cc.x2w_line(d, version=o[0], strtbl=o[1], keep=o[2], dump=1) for d, o in items], timeout=1200)
        out = []
        for r in a:
            p = cc.parse_answer(r)
            out.append(None if p is None else (bytes.fromhex(p["out"]) if p["st"] == 0 and p.get("out", "-") != "-" else ("err", p["st"])))
        return out, cr

    def w2x(items, gen=0, indent=0):          # [(wbxml, keep, lang)]
        a, cr = common.run_lines(h01, [cc.w2x_line(w, lang=L, gen=gen, indent=indent, keep=k, dump=1) for w, k, L in items], timeout=1200)
        out = []
        for r in a:
            p = cc.parse_answer(r)
            out.append(None if p is None else (bytes.fromhex(p["out"]) if p["st"] == 0 and p.get("out", "-") != "-" else ("err", p["st"])))
        return out, cr

    crashes = []
    W1, cr = x2w([(srcs[si][1], o) for si, o in cases]); crashes += cr
    ok1 = [i for i, w in enumerate(W1) if isinstance(w, bytes)]
    X1l, cr = w2x([(W1[i], cases[i][1][2], force(cases[i][0])) for i in ok1]); crashes += cr
    X1 = dict(zip(ok1, X1l))
    ok2 = [i for i in ok1 if isinstance(X1[i], bytes)]
    W2l, cr = x2w([(X1[i], cases[i][1]) for i in ok2]); crashes += cr
    W2 = dict(zip(ok2, W2l))
    ok3 = [i for i in ok2 if isinstance(W2[i], bytes)]
    X2l, cr = w2x([(W2[i], cases[i][1][2], force(cases[i][0])) for i in ok3]); crashes += cr
    X2 = dict(zip(ok3, X2l))
    with ProcessPoolExecutor(common.NPROC, initializer=_init, initargs=(tj,)) as ex:
        diffs = dict(zip(ok2, ex.map(_cmp, [(srcs[cases[i][0]][1], X1[i], info[cases[i][0]][0], bool(cases[i][1][2])) for i in ok2], chunksize=32)))

    violations, known = [], {}
    stats = {}

    def bump(k):
        stats[k] = stats.get(k, 0) + 1
    nontrivial = set()
    for i, (si, o) in enumerate(cases):
        name, x = srcs[si]
        lid, nodes = info[si]
        has_ns = [l for l in tj["langs"] if l["id"] == lid][0]["ns"] >= 0
        pay = {"source_xml_hex": x.hex(), "source": name, "lang": lid, "options": {"version": o[0], "use_strtbl": o[1], "keep_ws": o[2]}}

        def report(what, extra):
            # pending findings, by shape
            x1 = X1.get(i) if isinstance(X1.get(i), bytes) else b""
            # D8 (nested CDATA) and the xmlns-below-literal defect were repaired in /repo (3c772f6, 32930ca): ordinary violations now
            if name == "corpus:ddf/syncml_with_ddf-001.xml" and o[2] == 1:
                known.setdefault("ddf-in-vobject-data-keepws", []).append(pay)
            else:
                violations.append({"what": what, **pay, **extra})
        w1 = W1[i]
        if not isinstance(w1, bytes):
            bump("source refused by xml2wbxml (st=%s)" % (w1[1] if w1 else "?"))
            continue
        x1 = X1[i]
        if not isinstance(x1, bytes):
            report("wbxml2xml-refuses-own-output", {"status": x1, "wbxml": w1.hex()})
            continue
        nontrivial.add((lid, x1))
        d = diffs[i]
        if d:
            report("round-trip-changes-document", {"differences": d[:4], "wbxml": w1.hex(), "result_xml": x1.decode("utf-8", "replace")[:3000]})
            continue
        bump("document preserved")
        w2 = W2[i]
        if not isinstance(w2, bytes):
            report("second-iteration-refused", {"status": w2, "first_result_xml": x1.decode("utf-8", "replace")[:3000]})
            continue
        x2 = X2[i]
        if x2 != x1 and isinstance(x2, bytes) and b"\r" in x1 and c03_lib._eol(x1.decode("latin-1")) == c03_lib._eol(x2.decode("latin-1")):
            # D40: the generator writes a CR of the character data raw (outside canonical generation), the reader of the next
            # trip applies XML's line-end normalisation to it: equal modulo that normalisation, not byte for byte
            known.setdefault("raw-cr-renormalised-on-second-trip", []).append(pay)
            continue
        if x2 != x1:
            report("second-iteration-differs", {"first_result_xml": x1.decode("utf-8", "replace")[:3000],
                                                "second_result_xml": x2.decode("utf-8", "replace")[:3000] if isinstance(x2, bytes) else x2})
            continue
        bump("second iteration byte-identical")
        if w2 != w1:
            bump("(observation) second WBXML differs from the first although the XML is identical")
    # ---- the way back in INDENT generation (the tools' default), on a sample of the cases.  keep-ws off: as strict as above.
    #      keep-ws on: the indentation the generator inserts is character data for a white-space-preserving reader, so the
    #      output grows at every trip (found by the second-iteration theorem, D38): registered known finding
    #      `indent-generation-with-keep-ws`, recognised by its exact shape (indent + keep-ws, and the two results are equal
    #      once white-space-only text and surrounding white space are ignored); anything else is a violation.
    _init(tj)
    step = max(1, len(ok1) // (160 if quick else 1600))
    samp = [i for i in ok1[ctx.seed % step::step]]
    for ind in (1, 2, 4):
        sub = samp[ind % 3::3]
        Xa, cr = w2x([(W1[i], cases[i][1][2], force(cases[i][0])) for i in sub], gen=1, indent=ind); crashes += cr
        okA = [i for i, x in zip(sub, Xa) if isinstance(x, bytes)]
        XA = dict(zip(sub, Xa))
        Wb, cr = x2w([(XA[i], cases[i][1]) for i in okA]); crashes += cr
        WB = dict(zip(okA, Wb))
        okB = [i for i in okA if isinstance(WB[i], bytes)]
        Xb, cr = w2x([(WB[i], cases[i][1][2], force(cases[i][0])) for i in okB], gen=1, indent=ind); crashes += cr
        XB = dict(zip(okB, Xb))
        for i in sub:
            si, o = cases[i]
            name, x = srcs[si]
            lid = info[si][0]
            pay = {"source_xml_hex": x.hex(), "source": name, "lang": lid, "options": {"version": o[0], "use_strtbl": o[1], "keep_ws": o[2], "gen": "indent", "indent": ind}}
            if name == "corpus:ddf/syncml_with_ddf-001.xml" and o[2] == 1:
                continue
            xa = XA.get(i)
            if not isinstance(xa, bytes):
                if isinstance(X1.get(i), bytes):
                    violations.append({"what": "wbxml2xml-refuses-own-output", **pay, "status": xa, "wbxml": W1[i].hex()})
                continue
            bump("indent way back: converted")
            d = _cmp((x, xa, lid, False))         # white-space-insensitive comparison with the source
            if d:
                violations.append({"what": "round-trip-changes-document", **pay, "differences": d[:4], "result_xml": xa.decode("utf-8", "replace")[:3000]})
                continue
            xb = XB.get(i)
            if xb == xa:
                bump("indent way back: second iteration byte-identical")
                continue
            if isinstance(xb, bytes) and b"\r" in xa and c03_lib._eol(xa.decode("latin-1")) == c03_lib._eol(xb.decode("latin-1")):
                known.setdefault("raw-cr-renormalised-on-second-trip", []).append(pay)
                continue
            same_mod_blank = isinstance(xb, bytes) and not _cmp((xa, xb, lid, False))
            if o[2] == 1 and same_mod_blank:
                known.setdefault("indent-generation-with-keep-ws", []).append(pay)
                continue
            if not isinstance(WB.get(i), bytes):
                violations.append({"what": "second-iteration-refused", **pay, "status": WB.get(i), "first_result_xml": xa.decode("utf-8", "replace")[:3000]})
            else:
                violations.append({"what": "second-iteration-differs", **pay, "first_result_xml": xa.decode("utf-8", "replace")[:3000],
                                   "second_result_xml": xb.decode("utf-8", "replace")[:3000] if isinstance(xb, bytes) else xb})
    for cr in crashes:
        violations.append({"what": "crash-or-sanitizer-report", **cr})

    # ---- tie of the two conversion MODELS run back to back (ConvXml2Wbxml then ConvConcrete, extracted) to the C's own
    #      xml -> wbxml -> xml (and the second iteration), stage by stage: status and bytes
    rt = None
    if not getattr(ctx, "replay", None):
        try:
            from vlib import convmodel
            if hasattr(convmodel, "roundtrip"):
                rt = convmodel.roundtrip(ctx.seed, quick, sources=[(n, x) for n, x in srcs if not n.startswith("literal-root")])
        except common.BuildError:
            raise
        except ImportError:
            pass
    if rt is not None:
        ctx.coverage["conversion_models_roundtrip_tie"] = {k: rt[k] for k in ("evaluations", "stages", "cases", "sources", "second_iteration_xml_identical",
                                                                                "second_iteration_xml_differs", "second_wbxml_equals_first", "second_wbxml_differs_from_first") if k in rt}
        ctx.coverage["conversion_models_roundtrip_tie"]["disagreements"] = len(rt.get("disagreements", []))
        for cr in (rt.get("crashes") or [])[:3]:
            violations.append({"what": "crash-or-sanitizer-report", "where": "round-trip model tie", **(cr if isinstance(cr, dict) else {"crash": str(cr)})})
    ctx.coverage.update({
        "evaluations": len(cases) + (rt["evaluations"] if rt else 0),
        "distinct_nontrivial": len(nontrivial),
        "rule": "case = (source, version, use_strtbl, keep_ws); sources = project corpus + documents synthesised from every language's tables (c06_gen stream 3, "
                "tokenised root) + 6 literal-root AirSync documents; non-trivial = a first result XML was produced, distinct by (language, bytes)",
        "input_distribution": {"sources": len(srcs), "cases": len(cases), **stats},
        "samples": [{"source": srcs[cases[i][0]][0], "options": cases[i][1], "result_head": (X1.get(i)[:160].decode("utf-8", "replace") if isinstance(X1.get(i), bytes) else str(X1.get(i)))}
                    for i in range(0, len(cases), max(1, len(cases) // 10))][:10],
        "traces_validated_against_impl": len(cases),
        "pending_findings": {k: len(v) for k, v in known.items()},
        "violations_found": len(violations),
    })
    for key, lst in known.items():
        if not ctx.report_known(key):
            print("KNOWN-FINDING: property=%s %s [pending registration; %d cases, e.g. %s %s]" % (PID, PENDING.get(key, key), len(lst), lst[0]["source"], lst[0]["options"]), flush=True)
            ctx.known_hits.append(key)
    for v in violations[:6]:
        ctx.violation(v.pop("what"), {"replay_cmd": "bin/check C03 --replay <this file>", **v})
    if not violations and rt is not None and rt.get("disagreements"):
        ctx.violation("conversion-models-correspondence-broken", {"broken": "the extracted conversion models (ConvXml2Wbxml.v, ConvConcrete.v) and the C disagree on a stage of xml -> wbxml -> xml; the C satisfied the C03 oracle on every case",
                                                                  "first_cases": [{k: str(v)[:1500] for k, v in d.items()} for d in rt["disagreements"][:3]]}, found_input=False)
    if not violations and proof_broken:
        ctx.violation("proof-broken", {"broken": "Properties_C03.v / Properties_C03_build.v / Properties_C03_conv.v no longer check", "failed_theorems": cres["failed"],
                                       "broken_at": cres.get("broken_at"), "forbidden": bad, "log_tail": cres["log"][-3000:],
                                       "search": "the C satisfied the C03 oracle on %d cases" % len(cases)}, found_input=False)
