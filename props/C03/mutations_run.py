"""re-runs the C03 mutation campaign: needs a scratch worktree of /repo at W (git -C /repo worktree add W HEAD; cmake -S . -B _b -G Ninja)"""
import subprocess, sys, os, json
W = os.environ.get("MUT_WORKTREE", "/tmp/rw-wbxmlenc-2"); V = os.path.dirname(os.path.dirname(os.path.dirname(os.path.abspath(__file__))))
PID = "C03"
muts = [
 ("M1-less-than-not-escaped", "src/wbxml_encoder.c", "        case '<':\n            /* Write \"&lt;\" */\n            if (!wbxml_buffer_append_cstr(encoder->output, (WB_UTINY *) xml_lt))", "        case '<':\n            /* Write \"&lt;\" */\n            if (!wbxml_buffer_append_char(encoder->output, ch))"),
 ("M2-attributes-stored-in-reverse-order", "src/wbxml_tree.c", "    if (!wbxml_list_append(node->attrs, attr)) {", "    if (!wbxml_list_insert(node->attrs, attr, 0)) {"),
 ("M3-trimming-removes-one-leading-blank-only", "src/wbxml_buffers.c", "    while (wbxml_buffer_get_char(buffer, start, &ch) && \n           isspace(ch) && \n           start <= wbxml_buffer_len(buffer))\n    {\n        start ++;\n    }", "    if (wbxml_buffer_get_char(buffer, start, &ch) && \n           isspace(ch) && \n           start <= wbxml_buffer_len(buffer))\n    {\n        start ++;\n    }"),
 ("M4-datetime-loses-last-octet", "src/wbxml_encoder.c", "    /* Remove trailing zero */\n    wbxml_buffer_remove_trailing_zeros(tmp);", "    /* Remove trailing zero */\n    wbxml_buffer_remove_trailing_zeros(tmp);\n    if (wbxml_buffer_len(tmp) > 4) wbxml_buffer_delete(tmp, wbxml_buffer_len(tmp) - 1, 1);"),
 ("M10-opaque-length-wrong-below-version-1.2", "src/wbxml_encoder.c", "    /* Add Length */\n    if (!wbxml_buffer_append_mb_uint_32(encoder->output, data_len))\n        return WBXML_ERROR_ENCODER_APPEND_DATA;\n\n    /* Add Buffer */", "    /* Add Length */\n    if (!wbxml_buffer_append_mb_uint_32(encoder->output, data_len + (encoder->wbxml_version < WBXML_VERSION_12 ? 1 : 0)))\n        return WBXML_ERROR_ENCODER_APPEND_DATA;\n\n    /* Add Buffer */"),
 ("M6-quote-not-escaped", "src/wbxml_encoder.c", "        case '\"':\n            /* Write \"&quot;\" */\n            if (!wbxml_buffer_append_cstr(encoder->output, (WB_UTINY *) xml_quot))", "        case '\"':\n            /* Write \"&quot;\" */\n            if (!wbxml_buffer_append_char(encoder->output, ch))"),
 ("M7-table-reference-written-as-one-octet", "src/wbxml_encoder.c", "    /* Add String */\n    if (!wbxml_buffer_append_mb_uint_32(encoder->output, offset))", "    /* Add String */\n    if (!wbxml_buffer_append_char(encoder->output, (WB_UTINY) offset))"),
 ("M8-wv-integer-at-most-three-octets", "src/wbxml_encoder.c", "    for (i = 3; the_int > 0 && i >= 0; i--) {", "    for (i = 3; the_int > 0 && i >= 1; i--) {"),
 ("M9-xml-generator-drops-blank-text-even-with-keep-ws", "src/wbxml_tree.c", "        if (params->keep_ignorable_ws) {\n            wbxml_encoder_set_ignore_empty_text(wbxml_encoder, FALSE);", "        if (params->keep_ignorable_ws) {\n            wbxml_encoder_set_ignore_empty_text(wbxml_encoder, TRUE);"),
]
only = sys.argv[1:]
res = {}
for name, f, old, new in muts:
    if old is None: continue
    if only and name.split('-')[0] not in only: continue
    subprocess.run(['git','checkout','-q','src'],cwd=W)
    p=W+'/'+f; s=open(p).read()
    assert s.count(old)==1, (name, s.count(old))
    open(p,'w').write(s.replace(old,new))
    diff=subprocess.run(['git','diff'],cwd=W,capture_output=True,text=True).stdout
    b=subprocess.run('cmake --build _b >/dev/null 2>&1 && ctest --test-dir _b -j8 2>&1 | tail -3',shell=True,cwd=W,capture_output=True,text=True).stdout
    env=dict(os.environ, VERIF_REPO=W, VERIF_SEED='1')
    r=subprocess.run(['bin/check',PID],cwd=V,env=env,capture_output=True,text=True)
    viol=[l for l in r.stdout.split('\n') if l.startswith('VIOLATION')]
    whats=[]
    for v in viol:
        j=json.load(open(v.split('replay=')[1].split()[0])); whats.append(j.get('what'))
    first=None
    if viol:
        j=json.load(open(viol[0].split('replay=')[1].split()[0]))
        first={k:(str(v)[:300]) for k,v in j.items() if k not in ('source_xml_hex','wbxml_a','wbxml_b','wbxml_hex','transcoded_hex','utf8_result','result','conv_object','tree_api','withlen','stderr')}
    ev=json.load(open(V+'/evidence/%s.json'%PID))['coverage']
    res[name]={'diff':diff,'ctest':b.strip().split('\n')[0] if b.strip() else b,'exit':r.returncode,'nviol':len(viol),'whats':whats,'first':first,'violations_found':ev.get('violations_found'),'pending':ev.get('pending_findings')}
    print(name, res[name]['ctest'], 'exit', r.returncode, ev.get('violations_found'), whats, flush=True)
subprocess.run(['git','checkout','-q','src'],cwd=W)
os.makedirs(V+'/build/mut',exist_ok=True)
old={}
try: old=json.load(open(V+'/build/mut/results_%s.json'%PID))
except Exception: pass
old.update(res)
json.dump(old,open(V+'/build/mut/results_%s.json'%PID,'w'),indent=1)
