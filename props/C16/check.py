"""C16 — running out of memory yields a clean error, never a crash or a leak.

1. translator: vlib/gen_allocsites.py -> coq/Gen/AllocSites.v (every allocation call site of src/*.c, clang AST);
2. proof: coq/Properties/Properties_C16.v (heap model Model/Alloc.v: the allocation choke points, every failure
   oracle; `…_refuted` where the code violates the property; trace_ok sound and complete; every call site is
   modelled or in the enumerated class);
3. FAULT ENUMERATION (support, not a theorem): harness/c16_harness.c, library built with malloc/free/realloc/strdup
   of wbxml_mem.c routed through a wrapper with a "fail the k-th request" counter; for every corpus document and
   option set: N = requests of a clean run, then every k in 1..N (pairs in the thorough tier): error code or the clean
   result, output NULL on error, no sanitizer report, nothing leaked, nothing freed twice; the recorded traces go
   through the extracted verified trace_ok.  Findings are keyed by the ALLOCATION SITE (call chain of the refused
   request); a site listed in PENDING is a pending finding (KNOWN-FINDING line), any other is a VIOLATION.
"""
import glob
import json
import os
import re
import subprocess

from vlib import common, gen_allocsites
from vlib.common import Rng

PID = "C16"
OOM_DEFS = ["-Dmalloc=vf_malloc", "-Dfree=vf_free", "-Drealloc=vf_realloc", "-Dstrdup=vf_strdup"]

# frames that are not call sites of the library proper
SKIP = {"refuse", "vf_malloc", "vf_realloc", "vf_strdup", "vf_free", "add", "backtrace", "??", "wbxml_malloc", "wbxml_realloc",
        "wbxml_strdup", "__interceptor_backtrace", "___interceptor_backtrace"}
# allocation wrappers whose own unwinding is proved in Alloc.v: the site is named by their caller as well
WRAPPERS = {"wbxml_buffer_create_real", "wbxml_buffer_duplicate", "wbxml_list_create_real", "wbxml_elt_create_real",
            "wbxml_list_append", "wbxml_list_insert", "wbxml_tag_create", "wbxml_attribute_create", "wbxml_attribute_name_create",
            "insert_data", "wbxml_buffer_append", "wbxml_buffer_append_data_real", "wbxml_buffer_append_cstr_real",
            "wbxml_buffer_append_char", "wbxml_buffer_append_mb_uint_32", "wbxml_buffer_insert", "wbxml_buffer_insert_cstr",
            "wbxml_tag_create_literal", "wbxml_tag_create_token", "wbxml_attribute_name_create_literal",
            "wbxml_attribute_name_create_token", "wbxml_strtbl_element_create", "wbxml_tree_node_create"}

# pending findings, keyed by "<kind>@<allocation site>" (see props/C16/DEFECTS.md).  Filled from the thorough run on
# the tree as it is; a site that gets repaired simply stops appearing.
PENDING = {}
_p = os.path.join(os.path.dirname(os.path.abspath(__file__)), "pending_sites.json")
if os.path.exists(_p):
    PENDING = json.load(open(_p))


MUST_HAVE = ["activesync/activesync-031-sendmail-request.xml", "activesync/activesync-030-sendmail-request.xml",
             "activesync/activesync-032-formatted-base64.xml", "syncml/syncml-011.xml", "syncml/syncml-003.xml",
             "ddf/syncml_with_ddf-001.xml"]

HAND_WBXML = [
    "03056a0478797a00" "c5" "0400" "037600" "01" "01",                 # SI: <si xyz="v"></si>  (LITERAL attribute name)
    "03056a0478797a00" "4400" "01",                                     # SI: literal tag <xyz> with content
    "03056a0478797a00" "45" "c60b03687474703a2f2f6100" "0a" "c3041999123101" "01" "8300" "02a020" "01" "01",
    "01046a00" "7f" "e7" "550378005a03793d7a0001" "60" "43" "0400" "0376" "0001" "01" "01" "01",   # WML 1.1 card/p, pi
    "030e6a00" "4c" "c303010203" "01",                 # DRMREL <ds:KeyValue> opaque: decode_base64_value (content)
    "029f536a00" "0001" "50" "c303010203" "01",        # SyncML 1.1 MetInf <NextNonce> opaque: decode_base64_value (content)
]


def hx(b):
    return b.hex() if b else "-"


class Docs:
    def __init__(self):
        self.items = []
        self.path = os.path.join(common.BUILD, "c16-docs-%d.txt" % os.getpid())

    def add(self, kind, data, label):
        self.items.append((kind, data, label))
        return len(self.items) - 1

    def write(self):
        os.makedirs(common.BUILD, exist_ok=True)
        with open(self.path, "w") as f:
            for k, d, _ in self.items:
                f.write("%s %s\n" % (k, hx(d)))

    def env(self):
        return common.run_env({"C16_DOCS": self.path, "ASAN_OPTIONS": common.ASAN_ENV["ASAN_OPTIONS"] + ":detect_leaks=1"})


def run_robust(exe, lines, env, shards=None):
    """common.run_lines, but a crash of a shard only costs the crashing line (see props/C15/check.py)"""
    ans, crashes = common.run_lines(exe, lines, env=env, shards=shards)
    culprits, pending, rounds = [], list(crashes), 0
    while pending and rounds < 500:
        rounds += 1
        nxt = []
        for c in pending:
            i0, i1 = c["range"]
            known = set(x["index"] for x in culprits)
            bad = next((i for i in range(i0, i1) if ans[i] is None and i not in known), None)
            if bad is None:
                continue
            culprits.append({"index": bad, "line": lines[bad], "rc": c["rc"], "stderr": c["stderr"]})
            rest = list(range(bad + 1, i1))
            if rest:
                a2, c2 = common.run_lines(exe, [lines[i] for i in rest], env=env, shards=1)
                for i, a in zip(rest, a2):
                    ans[i] = a
                for cc in c2:
                    nxt.append({"rc": cc["rc"], "stderr": cc["stderr"], "range": [rest[0] + cc["range"][0], rest[0] + cc["range"][1]]})
        pending = nxt
    return ans, culprits


def corpus(ctx):
    """deterministic choice (independent of the seed): small documents of every directory of test/tools"""
    xs = sorted(glob.glob(os.path.join(common.REPO, "test", "tools", "**", "*.xml"), recursive=True))
    by = {}
    for p in xs:
        if os.path.basename(p) == "testsuite.xml":
            continue
        by.setdefault(os.path.dirname(p), []).append(p)
    per = 2 if ctx.tier == "quick" else 6
    pick = []
    for d in sorted(by):
        pick += sorted(by[d], key=lambda p: (os.path.getsize(p), p))[:per]
    limit = 3000 if ctx.tier == "quick" else 12000
    pick = [p for p in pick if os.path.getsize(p) <= limit]
    # always there, in both tiers, every k, both directions: documents that reach code no small document reaches —
    # binary-flagged ActiveSync elements whose text starts right after the start tag (MIME, ConversationId), base64-formatted
    # content, and SyncML documents carrying an EMBEDDED DevInf / DDF document (parsed into a tree of its own)
    for rel in MUST_HAVE:
        q = os.path.join(common.REPO, "test", "tools", rel)
        if os.path.exists(q) and q not in pick:
            pick.append(q)
    return pick


_names = {}


def resolve(exe, addrs):
    todo = sorted(a for a in set(addrs) if a and (exe, a) not in _names)
    for i in range(0, len(todo), 400):
        chunk = todo[i:i + 400]
        out = subprocess.run(["addr2line", "-f", "-e", exe] + ["0x" + a for a in chunk], stdout=subprocess.PIPE, text=True).stdout.split("\n")
        for k, a in enumerate(chunk):
            _names[(exe, a)] = out[2 * k] if 2 * k < len(out) else "??"


def chain(exe, s):
    fr = [_names.get((exe, a), "??") for a in s.split(",") if a]
    fr = [f for f in fr if f not in SKIP and not f.startswith("__")]
    out = []
    for f in fr:
        out.append(f)
        if f == "grow_buff" or f not in WRAPPERS:
            break
        if len(out) >= 4:
            break
    return "<".join(out) if out else "?"


def parse_answer(a):
    m = {}
    for t in a.split(" "):
        if "=" in t:
            k, v = t.split("=", 1)
            m[k] = v
    return m


def run(ctx):
    ctx.level = "proof"
    ctx.assumptions = [
        "heap model: blocks numbered in allocation order, contents not modelled; an object of the C is the set of its blocks",
        "Expat's own allocations (XML_ParserCreateNS and the parse) are NOT routed through the failing wrapper: only the library's "
        "requests (wbxml_malloc / wbxml_realloc / wbxml_strdup, i.e. everything in src/) are refused",
        "the enumeration is fault-enumeration support for the unmodelled unwinding code, not a theorem; its verdict per run comes from "
        "the harness' own live-block accounting, ASan/UBSan/LSan, and the extracted verified trace_ok on the recorded traces",
        "the result block handed to the caller is released by the harness through wbxml_free and is part of the accounting",
    ]
    bad = common.forbidden_scan()
    gen_err = None
    try:
        sites = gen_allocsites.gen_allocsites()
    except common.BuildError as e:
        sites, gen_err = [], str(e)
    cres = common.coq_property(PID)
    common.proof_coverage(ctx, cres, extra_tb=[
        "translator vlib/gen_allocsites.py: clang 14 -ast-dump=json of every src/*.c (CallExpr -> DeclRefExpr) -> coq/Gen/AllocSites.v",
        "fault injection: the library compiled with -Dmalloc=vf_malloc -Dfree=vf_free -Drealloc=vf_realloc -Dstrdup=vf_strdup (only "
        "wbxml_mem.c uses them), harness/c16_harness.c (wrapper, live-block table, glibc backtrace()), addr2line"])
    proof_broken = (not cres["ok"]) or bool(bad) or gen_err is not None

    common.build_lib("asan", extra_defs=OOM_DEFS, tag="-oom")
    harness = common.build_harness("c16_harness", tag="-oom", extra=("-no-pie",))
    driver = common.build_driver("C16")
    rng = Rng(ctx.seed, 161)

    docs = Docs()
    if getattr(ctx, "replay", None):
        rp = json.load(open(ctx.replay))
        if "line" in rp:
            for d in rp["docs"]:
                while len(docs.items) < d[0]:
                    docs.add("w", b"", "unused")
                docs.add(d[1], bytes.fromhex(d[2]), d[3])
            docs.write()
            ans, cul = run_robust(harness, [rp["line"]], docs.env(), shards=1)
            print("replay:", rp["line"], "->", ans[0] if ans[0] else (cul[0]["stderr"][-1500:] if cul else None))
            ctx.coverage.update({"evaluations": 1, "distinct_nontrivial": 2, "rule": "replay of one run", "samples": [rp["line"]],
                                 "traces_validated_against_impl": 0})
            if cul or (ans[0] and not clean_answer(parse_answer(ans[0]), rp.get("clean"))):
                ctx.violation("replay-" + rp.get("key", "run")[:50], rp)
        return

    xml_paths = corpus(ctx)
    x_ids = [docs.add("x", open(p, "rb").read(), os.path.relpath(p, common.REPO)) for p in xml_paths]
    docs.write()
    ans, _ = common.run_lines(harness, ["mk %d" % i for i in x_ids], env=docs.env())
    cases = []        # (doc, optset)
    for i, a in zip(x_ids, ans):
        cases += [(i, 2), (i, 3)]
        if a and a not in ("none", "bad"):
            w = docs.add("w", bytes.fromhex(a), "wbxml(%s)" % docs.items[i][2])
            cases += [(w, 0), (w, 1)]
    # hand-made WBXML exercising branches the corpus does not reach: LITERAL attribute name (parse_attr_start), literal tag,
    # processing instruction, entity, opaque, string-table reference
    for k, h in enumerate(HAND_WBXML):
        w = docs.add("w", bytes.fromhex(h), "hand-made %d" % k)
        cases += [(w, 0), (w, 1)]
    docs.write()
    env = docs.env()

    # ---- clean runs: N, status, result -----------------------------------------------------------------------
    cl, cul = run_robust(harness, ["run %d %d 0 t" % c for c in cases], env)
    clean = {}
    problems = []          # dicts: key, kind, site, line, detail
    tr_lines, tr_expect = [], []
    for c, a in zip(cases, cl):
        if a is None:
            continue
        m = parse_answer(a)
        clean[c] = {"reqs": int(m["reqs"]), "st": m["st"], "hash": m["hash"], "len": m["len"]}
        if int(m["leaked"]) or int(m["dfree"]) or int(m["ufree"]):
            problems.append({"kind": "clean-run-not-clean", "site": "-", "line": "run %d %d 0" % c, "detail": a[:300]})
        tr_lines.append("t " + m.get("trace", "")); tr_expect.append(("run %d %d 0" % c, True))
    for c in cul:
        problems.append({"kind": "crash-in-clean-run", "site": "-", "line": c["line"], "detail": c["stderr"][-1500:]})

    # ---- every single failure --------------------------------------------------------------------------------
    lines, meta = [], []
    trace_docs = set(sorted(set(d for d, _ in cases), key=lambda d: len(docs.items[d][1]))[:8])
    for c in cases:
        if c not in clean:
            continue
        for k in range(1, clean[c]["reqs"] + 1):
            tflag = c[0] in trace_docs or rng.chance(1, 9)
            lines.append("run %d %d %d %s" % (c[0], c[1], k, "to" if tflag else "o"))
            meta.append((c, k, tflag))
    # ---- pairs (thorough) -------------------------------------------------------------------------------------
    pair_lines = []
    if ctx.tier == "thorough":
        small = sorted((c for c in cases if c in clean), key=lambda c: clean[c]["reqs"])[:6]
        for c in small:
            n = clean[c]["reqs"]
            for k1 in range(1, n + 1):
                for k2 in range(k1 + 1, min(n, k1 + 40) + 1):
                    pair_lines.append("pair %d %d %d %d" % (c[0], c[1], k1, k2))
    all_lines = lines + pair_lines
    ans, culprits = run_robust(harness, all_lines, env, shards=common.NPROC * 4)
    crashed = {c["index"]: c for c in culprits}

    # sites of crashing runs: ask for the call chain of request k in a process of its own
    site_q = []
    for idx, c in crashed.items():
        t = all_lines[idx].split()
        site_q.append((idx, "site %s %s %s" % (t[1], t[2], t[3])))
    site_ans = {}
    if site_q:
        sa, _ = common.run_lines(harness, [ql for _, ql in site_q], shards=len(site_q), env=env)   # one process per query: the harness exits at request k
        for (idx, _), a in zip(site_q, sa):
            site_ans[idx] = (a or "").replace("site=", "")

    addrs = []
    parsed = [None] * len(all_lines)
    for i, a in enumerate(ans):
        if a is None:
            continue
        m = parse_answer(a)
        parsed[i] = m
        addrs += m.get("fail", "").split(",") + m.get("leak", "").split(",")
    for v in site_ans.values():
        addrs += v.split(",")
    resolve(harness, addrs)

    reached = 0
    diff_ok = []           # (index, clean hex unknown, outhex) candidates "OK but different"
    stats = {"error": 0, "same-result": 0, "different-result": 0, "not-reached": 0}
    for i, l in enumerate(all_lines):
        t = l.split()
        c = (int(t[1]), int(t[2]))
        if i in crashed:
            cr = crashed[i]
            summ = re.findall(r"SUMMARY: \w+: (\S+) \S+ in (\w+)", cr["stderr"])
            kind = "crash:%s in %s" % (summ[0] if summ else ("rc=%s" % cr["rc"], "?"))
            problems.append({"kind": kind, "site": chain(harness, site_ans.get(i, "")), "line": l, "detail": cr["stderr"][-1800:]})
            reached += 1
            continue
        m = parsed[i]
        if m is None:
            problems.append({"kind": "no-answer", "site": "?", "line": l, "detail": ""})
            continue
        if int(m["failed"]) == 0:
            stats["not-reached"] += 1
        else:
            reached += 1
        site = chain(harness, m.get("fail", ""))
        if int(m["leaked"]):
            problems.append({"kind": "leak", "site": site, "line": l, "leaked_from": chain(harness, m.get("leak", "")),
                             "detail": "leaked=%s first leaked block allocated at %s" % (m["leaked"], chain(harness, m.get("leak", "")))})
        if int(m["dfree"]):
            problems.append({"kind": "double-free", "site": site, "line": l, "detail": a_short(m)})
        if int(m["ufree"]):
            problems.append({"kind": "free-of-unknown-block", "site": site, "line": l, "detail": a_short(m)})
        if m["st"] != "0":
            stats["error"] += 1
            if m["out"] != "0" or m["len"] != "0":
                problems.append({"kind": "output-not-null-on-error", "site": site, "line": l, "detail": a_short(m)})
        else:
            if m["hash"] == clean[c]["hash"]:
                stats["same-result"] += 1
            else:
                stats["different-result"] += 1
                diff_ok.append((i, site, m))
        if t[0] == "run" and "trace" in m:
            tr_lines.append("t " + m["trace"])
            tr_expect.append((l, int(m["leaked"]) == 0 and int(m["dfree"]) == 0 and int(m["ufree"]) == 0))

    # "success with another result": acceptable only if it denotes the same document (the allocation was inessential)
    if diff_ok:
        need = sorted(set(parsed_c for parsed_c in ((int(all_lines[i].split()[1]), int(all_lines[i].split()[2])) for i, _, _ in diff_ok)))
        ch, _ = common.run_lines(harness, ["run %d %d 0 o" % c for c in need], env=env)
        clean_hex = {c: parse_answer(a).get("outhex") for c, a in zip(need, ch) if a}
        eq_lines, eq_idx = [], []
        for i, site, m in diff_ok:
            t = all_lines[i].split()
            c = (int(t[1]), int(t[2]))
            if docs.items[c[0]][0] == "x" and m.get("outhex") and clean_hex.get(c):
                eq_lines.append("eq %s %s" % (clean_hex[c], m["outhex"])); eq_idx.append((i, site))
            else:
                problems.append({"kind": "success-with-wrong-result", "site": site, "line": all_lines[i], "detail": "XML output differs from the clean run"})
        ea, _ = common.run_lines(harness, eq_lines, env=env)
        for (i, site), v in zip(eq_idx, ea):
            if v != "same":
                problems.append({"kind": "success-with-wrong-result", "site": site, "line": all_lines[i], "detail": "WBXML output denotes another document (%s)" % v})
            else:
                stats["different-result-same-document"] = stats.get("different-result-same-document", 0) + 1

    # ---- the verified trace checker on the recorded traces ------------------------------------------------------
    ta, _ = common.run_lines(driver, tr_lines, shards=common.NPROC)
    trace_disagree = []
    for (l, exp), v in zip(tr_expect, ta):
        got = (v == "ok")
        if got != exp:
            trace_disagree.append({"line": l, "trace_ok": v, "harness_accounting_clean": exp})

    # ---- verdict --------------------------------------------------------------------------------------------------
    # key = kind @ allocation site, tightened by WHAT went wrong on that failure branch: for a leak the call chain that
    # had allocated the first leaked block, for a crash the sanitizer's verdict and function.  (The plain
    # "<kind>@<site>" form is still honoured for entries registered before the keys were tightened.)
    by_key, legacy = {}, {}
    for p in problems:
        base = "%s@%s" % (p["kind"].split(":")[0] if p["kind"].startswith("crash") else p["kind"], p["site"])
        k = base
        if p["kind"] == "leak" and p.get("leaked_from"):
            k = "leak(%s)@%s" % (p["leaked_from"], p["site"])
        elif p["kind"].startswith("crash:"):
            k = "crash(%s)@%s" % (p["kind"][6:].replace(" ", "_"), p["site"])
        by_key.setdefault(k, []).append(p)
        legacy[k] = base
    pend, viol = {}, {}
    for k, ps in by_key.items():
        known = k in PENDING or ctx.known(k) or ctx.known(legacy[k]) or legacy[k] in PENDING
        (pend if known else viol)[k] = ps

    ctx.coverage.update({
        "evaluations": len(all_lines) + len(cases),
        "distinct_nontrivial": reached,
        "rule": "FAULT ENUMERATION SUPPORT (not a theorem): for each of %d (document, option set) pairs the number N of allocation requests of a clean "
                "run is counted, then the run is repeated with request k refused for every k in 1..N (thorough: also pairs k1<k2<=k1+40 on the 6 "
                "smallest); a run is non-trivial when the refused request was reached (always, for single failures); distinct by (document, option set, k)" % len(cases),
        "exhaustive": True,
        "input_distribution": {"documents": len(x_ids), "cases (document, option set)": len(cases), "single-failure runs": len(lines), "pair runs": len(pair_lines),
                               "requests per clean run (min/median/max)": minmedmax([clean[c]["reqs"] for c in clean]),
                               "outcomes": stats, "crashed runs": len(crashed)},
        "samples": [{"line": all_lines[i], "answer": (ans[i] or "")[:200]} for i in range(0, len(all_lines), max(1, len(all_lines) // 8))][:8],
        "traces_validated_against_impl": len(tr_lines),
        "trace_checker_disagreements": len(trace_disagree),
        "alloc_sites": len(sites),
        "alloc_site_classes": site_classes(sites),
        "finding_keys": {k: len(v) for k, v in sorted(by_key.items())},
        "pending_keys_listed": len(PENDING),
    })

    def payload(k, ps):
        p = ps[0]
        t = p["line"].split()
        d = int(t[1]) if len(t) > 1 and t[1].isdigit() else 0
        c = (d, int(t[2])) if len(t) > 2 else None
        return {"key": k, "line": p["line"], "docs": [[d, docs.items[d][0], hx(docs.items[d][1]), docs.items[d][2]]],
                "kind": p["kind"], "allocation_site": p["site"], "detail": p["detail"], "occurrences": len(ps),
                "clean": clean.get(c), "replay_cmd": "bin/check C16 --replay <this file>"}

    for k in sorted(pend):
        kk = k if ctx.known(k) else (legacy[k] if ctx.known(legacy[k]) else None)
        if kk:
            ctx.report_known(kk)
        else:
            print("KNOWN-FINDING: property=%s %s — %s [%d runs, e.g. '%s' on %s]" % (
                PID, k, PENDING.get(k) or PENDING.get(legacy[k]), len(pend[k]), pend[k][0]["line"], docs.items[int(pend[k][0]["line"].split()[1])][2]), flush=True)
            ctx.known_hits.append(k)
    ctx.coverage["pending_findings"] = {k: payload(k, v) for k, v in list(pend.items())[:60]}
    for k in sorted(viol)[:12]:
        ctx.violation("site-" + k, payload(k, viol[k]))
    if not viol:
        if proof_broken:
            ctx.violation("proof-broken", {"broken": "Properties_C16.v / Gen/AllocSites.v no longer check against the current tree",
                                           "failed_theorems": cres["failed"], "broken_at": cres.get("broken_at"), "forbidden": bad,
                                           "translator_error": gen_err, "log_tail": cres["log"][-3000:],
                                           "search": "%d fault-injected runs: no finding outside the pending sites" % len(all_lines)}, found_input=False)
        if trace_disagree:
            ctx.violation("trace-checker-vs-harness", {"broken": "the verified trace_ok and the harness' own accounting disagree",
                                                       "first_cases": trace_disagree[:5]}, found_input=False)


def site_classes(sites):
    """how many allocation call sites (Gen/AllocSites.v) lie in functions transcribed in the heap model and how many are
    covered by enumeration only (coq/Model/AllocClasses.v)"""
    txt = open(os.path.join(common.COQ, "Model", "AllocClasses.v")).read()

    def block(name):
        m = re.search(r"Definition %s .*?:= \[(.*?)\n\]\." % name, txt, re.S)
        return set(re.findall(r'\("([^"]+)", "([^"]+)", \d+\)', m.group(1))) if m else set()
    mod, enum = block("modelled_sites"), block("enumerated_sites")
    nm = sum(1 for f, fn, _, _ in sites if (f, fn) in mod)
    ne = sum(1 for f, fn, _, _ in sites if (f, fn) in enum and (f, fn) not in mod)
    return {"modelled_functions": len(mod), "enumerated_functions": len(enum - mod), "call_sites_in_modelled_functions": nm,
            "call_sites_enumerated_only": ne, "call_sites_unclassified": len(sites) - nm - ne}


def a_short(m):
    return " ".join("%s=%s" % (k, m[k]) for k in ("st", "out", "len", "reqs", "leaked", "dfree", "ufree") if k in m)


def minmedmax(xs):
    xs = sorted(xs)
    return [xs[0], xs[len(xs) // 2], xs[-1]] if xs else []


def clean_answer(m, clean):
    if int(m.get("leaked", 0)) or int(m.get("dfree", 0)) or int(m.get("ufree", 0)):
        return False
    if m.get("st") != "0":
        return m.get("out") == "0"
    return clean is None or m.get("hash") == clean.get("hash")
