"""C13 — truncated documents and dangling references are rejected, never guessed.

1. proof: coq/Properties/Properties_C13.v (rejection theorems over Model/Parser.v, tolerated irregularities);
2. tie: extracted model `parse_with` vs the C parser on every case;
3. oracle (the property itself, independent of the model): for every valid document (corpus, grammar, strict
   grammar, systematic) EVERY proper prefix that ends inside header / string table / root element, and every
   length / index field replaced by each value exceeding what is available, and inline strings without
   terminator, must be refused by wbxml_parser_parse AND by wbxml_conv_wbxml2xml_run with *xml == NULL and
   length 0 (ASan+UBSan build); the documented irregularities must be accepted;
4. object reuse: the same on ONE WBXMLParser object: (valid document with a string table, then a truncated / dangling one) and
   the header case splits of vlib/parser_streams.reuse_sequences: the dangling document must be refused and every document
   judged as on a fresh parser.
"""
import collections
import hashlib
import json
import os

from vlib import common, gen
from vlib import parser_build, parser_gen as pg, parser_streams as ps

PID = "C13"


def run(ctx):
    ctx.level = "proof"
    ctx.assumptions = [
        "model assumptions of C04 (bytes as N, suffix representation of the cursor, charsets of this build)",
        "a 'valid document' for the oracle is one the unchanged parser accepts in full; prefixes are judged only when "
        "they end before the end of the root element (trailing PIs are outside the property)",
        "the global prefix statement is explored exhaustively per generated document, not proved as one theorem",
        "a dangling public-identifier index is only required to fail when no language is forced (the identifier is "
        "not consulted then)",
    ]
    bad = common.forbidden_scan()
    T = pg.Tables(gen.gen_tables())
    cres = common.coq_property(PID)
    common.proof_coverage(ctx, cres)
    proof_broken = (not cres["ok"]) or bool(bad)

    harness = common.build_harness("c04_harness")
    driver = common.build_driver("C04")
    quick = ctx.tier == "quick"
    seed = ctx.seed

    rp = None
    if getattr(ctx, "replay", None):
        rp = json.load(open(ctx.replay))
        base, cases = [], []
        if "wbxml" in rp:
            cases = [ps.raw_case(bytes.fromhex(rp["wbxml"]) if rp["wbxml"] != "-" else b"", rp.get("kind", "replay"),
                                 int(rp.get("forced", 0)), int(rp.get("meta", 0)), must_fail=rp.get("must_fail"),
                                 expect_ok=rp.get("expect_ok"))]
        nfiles = 0
    else:
        corp, nfiles, _ = ps.corpus_wbxml(harness)
        base = []
        for nm, bs in corp[:: 4 if quick else 1]:
            base.append(ps.raw_case(bs, "corpus", forced=1901 if nm.startswith("ota/") else 0, name=nm, root_end=len(bs)))
        base += [ps.doc_case(x, "grammar") for x in ps.grammar_docs(seed, T, 12 if quick else 60, stream=50)]
        base += [ps.doc_case(x, "grammar-strict") for x in ps.grammar_docs(seed, T, 4 if quick else 20, stream=51, strict=True)]
        base += [ps.doc_case(x, "systematic") for x in pg.systematic_docs(T)][:: 6 if quick else 1]
        base += ps.nested_cases(T, depths=(3, 30))
        # only documents the parser accepts are "valid documents"
        ba, _ = common.run_lines(harness, [c["line"] for c in base])
        base = [c for c, a in zip(base, ba) if a and a.startswith("ok ")]
        cases = list(base)
        # EVERY proper prefix of EVERY base document (exhaustive), all field replacements, unterminated strings
        cases += ps.malformed_cases(seed, base, len(base) + 1, 500 if quick else 5000, T)
        cases += ps.tolerance_cases(T)
        cases += ps.nested_cases(T, depths=(999, 1000, 1001))[:3]

    plines = [c["line"] for c in cases]
    clines = ["c" + c["line"][1:] for c in cases]
    pa, pcr = common.run_lines(harness, plines)
    cva, ccr = common.run_lines(harness, clines)
    ma, _ = common.run_lines(driver, plines)

    concrete, corr = [], []
    kinds = collections.Counter()
    judged = collections.Counter()
    errs = collections.Counter()
    nontrivial = set()
    for c, a, v, m in zip(cases, pa, cva, ma):
        kinds[c["kind"]] += 1
        rec = {"kind": c["kind"], "forced": c["forced"], "meta": c["meta"], "wbxml": c["bytes"].hex() or "-",
               "desc": c.get("desc"), "parser": (a or "")[:300], "conv": (v or "")[:300], "model": (m or "")[:300]}
        if a and a.startswith("err"):
            errs[a.split()[1]] += 1
        # tie
        if a is None or m is None or (a != m and not (a.startswith("err") and m.startswith("err"))):
            corr.append(rec)
        # conversion contract on every refusal: null output, zero length
        if v is not None and v.startswith("err") and not v.endswith("xml=null len=0"):
            concrete.append(dict(rec, what="conversion failed but left an output pointer or a length"))
        # the parser and the converter agree on acceptance for refused documents
        if c.get("must_fail"):
            judged[c["kind"]] += 1
            nontrivial.add(hashlib.sha256(c["bytes"]).digest()[:10])
            if a is None or not a.startswith("err"):
                concrete.append(dict(rec, must_fail=True, what="wbxml_parser_parse accepted a truncated / dangling document"))
            elif v is None or not v.startswith("err"):
                concrete.append(dict(rec, must_fail=True, what="wbxml_conv_wbxml2xml_run accepted a truncated / dangling document"))
        if c.get("expect_ok") is True:
            judged["tolerated"] += 1
            if a is None or not a.startswith("ok"):
                concrete.append(dict(rec, expect_ok=True, what="a documented irregularity was refused"))
        if c.get("expect_ok") is False:
            judged["tolerance-boundary"] += 1
            if a is None or not a.startswith("err"):
                concrete.append(dict(rec, must_fail=True, what="beyond the documented irregularity, yet accepted"))
    # ---- object reuse: a truncated / dangling document must be refused whatever the parser object parsed before ----
    if getattr(ctx, "replay", None):
        seqs = [ps.replay_sequence(rp)] if "sequence" in rp else []
    else:
        rng = common.Rng(seed, 79)
        seqs = ps.reuse_sequences(seed, T, cases, 0)
        mf = [c for c in cases if c.get("must_fail")]
        withtbl = [c for c in base if c["bytes"][:1] and len(c["bytes"]) > 8]
        for k in range(300 if quick else 4000):
            if not mf or not withtbl:
                break
            a, b = withtbl[rng.below(len(withtbl))], mf[rng.below(len(mf))]
            seqs.append([a, b] if k % 3 else [a, b, a, mf[rng.below(len(mf))]])
    reuse = ps.run_reuse(harness, driver, seqs) if seqs else {"documents": 0, "sequences": 0, "history_dependent": [], "model_disagreements": [],
                                                              "accepted_must_fail": [], "crashes": [], "kinds": {}}
    for v in reuse["accepted_must_fail"][:3]:
        concrete.append(dict(v, what="on a reused WBXMLParser a truncated / dangling document was accepted"))
    if not reuse["accepted_must_fail"]:
        for v in reuse["history_dependent"][:3]:
            concrete.append(dict(v, what="on a reused WBXMLParser the document is judged differently from the same document on a fresh parser"))
    for cr in pcr + ccr + reuse["crashes"]:
        concrete.append({"kind": "crash-or-sanitizer-report", **cr})

    idx = list(range(0, len(cases), max(1, len(cases) // 12)))[:12]
    ctx.coverage.update({
        "evaluations": 3 * len(cases),
        "distinct_nontrivial": len(nontrivial),
        "rule": "non-trivial = a mutated document (proper prefix inside header/table/root, replaced field, lost terminator) "
                "of a document the parser accepts; distinct by SHA-256; every proper prefix of every base document is included",
        "base_documents": len(base),
        "input_distribution": dict(kinds),
        "judged_by_oracle": dict(judged),
        "error_codes_seen": dict(errs),
        "corpus_xml_files": nfiles,
        "samples": [{"kind": cases[i]["kind"], "input": plines[i][:300], "parser": (pa[i] or "")[:200], "conv": (cva[i] or "")[:200],
                     "model": (ma[i] or "")[:200]} for i in idx],
        "traces_validated_against_impl": len(cases),
        "correspondence_disagreements_hard": len(corr),
        "reuse_sequences": reuse["sequences"],
        "reuse_documents": reuse["documents"],
        "reuse_must_fail_documents": sum(1 for q in seqs for c in q if c.get("must_fail")),
        "reuse_accepted_must_fail": len(reuse["accepted_must_fail"]),
        "reuse_history_dependent": len(reuse["history_dependent"]),
        "reuse_model_disagreements": len(reuse["model_disagreements"]),
    })

    for v in concrete[:5]:
        ctx.violation("c-violates-oracle-" + v["kind"], {"replay_cmd": "bin/check C13 --replay <this file>", **v})
    if not concrete:
        if proof_broken:
            ctx.violation("proof-broken", {"broken": "Properties_C13.v no longer checks", "failed_theorems": cres["failed"],
                                           "broken_at": cres.get("broken_at"), "forbidden": bad, "log_tail": cres["log"][-3000:],
                                           "search": "oracle judged %d mutated documents, no failing input" % sum(judged.values())}, found_input=False)
        if corr:
            ctx.violation("correspondence-broken", {"broken": "model Parser.v and the C disagree on acceptance; the C satisfies the "
                                                              "property on every judged document", "first_cases": corr[:5]}, found_input=False)
