"""C18 — a tree built through the API equals the tree parsed from the same XML.

1. proof: coq/Properties/Properties_C18.v (theorems over Model/TreeGraph.v) rebuilt and re-checked;
2. tie: operation sequences run on the real API (ASan+LSan build of the current tree) and on the extracted model;
   after EVERY operation both dump the whole node graph (tree + detached sub-trees) with every link;
3. oracles independent of the model: (a) python link-consistency / merged-text / expected-shape check of every
   C dump against a rose-forest specification kept by the generator; (b) the C's own other path: the XML text of
   the final shape goes through wbxml_tree_from_xml / wbxml_conv_xml2wbxml_run and its tree, WBXML and XML
   must equal those of the API-built tree; (c) ASan/LSan exit status (leaks, double free).
"""
import json
import os

from vlib import common, gen, c18lib, flowtree_run
from vlib.common import Rng

PID = "C18"

# pending finding (until registered in known_findings.json or fixed in the library): D17
PENDING = {
    "extract-between-texts": "wbxml_tree_extract_node of a node whose previous and next siblings are both text nodes "
                             "leaves two adjacent text siblings (two STR_I are then emitted instead of one) [D17]",
    "empty-text-node": "wbxml_tree_add_text with length 0 and no text sibling in front creates an empty text node; the element then "
                       "'has content' for the encoders (WBXML content bit + END, XML <x></x>) while the equivalent XML text is parsed "
                       "into an element without that child: API-built and parsed documents differ [D22]",
}
DEFECT_OF = {"extract-between-texts": "D17", "empty-text-node": "D41"}


def known(ctx, key):
    """prints the KNOWN-FINDING line once; True if the finding is to be tolerated"""
    if key in os.environ.get("C18_STRICT", "").split(","):
        return False                 # C18_STRICT=<key>[,<key>]: judge the pending finding as a violation (to obtain its replay)
    if ctx.known(key):
        ctx.report_known(key)
        return True
    if any(k.get("property") == PID and k.get("status") == "fixed" and k.get("defect") == DEFECT_OF.get(key) for k in common.known_findings()):
        return False                 # registered as repaired: the behaviour is a regression, not a finding
    if key in PENDING:
        if key not in ctx.known_hits:
            ctx.known_hits.append(key)
            print("KNOWN-FINDING: property=%s %s" % (PID, PENDING[key]), flush=True)
        return True
    return False


def d17_shape(before, op):
    """is `op` an extraction of a node that sits between two text siblings in the dump `before`?"""
    f = op.split(",")
    if f[0] != "X" or before is None:
        return False
    i = int(f[1])
    if not (0 <= i < len(before)):
        return False
    x = before[i]
    return (x["prev"] is not None and x["next"] is not None and
            before[x["prev"]]["kind"] == "x" and before[x["next"]]["kind"] == "x")


def gen_cases(ctx, vocab, nseq, maxops, chunk_no=0):
    # one PRNG stream per chunk (streams, unlike neighbouring seeds, do not overlap)
    rng = Rng(ctx.seed, 18 + 1000 * chunk_no)
    g = c18lib.Gen(vocab, rng)
    langs = sorted(vocab.langs)
    cases = []
    for k in range(nseq):
        lid = langs[k % len(langs)] if k < 4 * len(langs) else rng.choice(langs)
        if rng.chance(1, 3):
            lid = rng.choice([2201, 2101, 2402, 2401, 2302, 1104])     # multi-page / namespace languages more often
        nops = rng.range(3, maxops)
        xmlgen = rng.choice([0, 1, 2])
        ops, exp, sigs, tree, det, xmlcmp = g.sequence(lid, nops)
        order = 10 if rng.chance(1, 2) else 0      # 10: at the end the tree is destroyed before the detached sub-trees
        cases.append({"lang": lid, "xmlgen": xmlgen, "ops": ops, "exp": exp, "sigs": sigs, "tree": tree, "xmlcmp": xmlcmp,
                      "det_left": len(det), "tree_first": bool(order),
                      "line": "seq %d %d %s" % (lid, xmlgen + order, ";".join(ops))})
    return cases


CORPUS = [
    # D17: <p>aa<b/>bb</p>, extract <b/>
    (1104, ["E,-1,776d6c", "E,0,63617264", "E,1,70", "T,2,6161", "E,2,62", "T,2,6262", "X,4"]),
    # merge after re-insertion of a text node, destruction of a detached sub-tree
    (1104, ["E,-1,776d6c", "E,0,63617264", "T,1,6161", "X,2", "T,1,6262", "I,1,3", "X,1", "K,1"]),
    # root extracted and put back
    (2201, ["E,-1,53796e634d4c", "E,0,53796e63426f6479", "X,0", "I,-1,0", "E,-1,53796e634d4c"]),
    # refused operations: a second root (add_tree / add_text / add_elt with a NULL parent on a rooted tree) and tree == NULL;
    # the caller destroys the tree it offered (seeded C18_2: a library that took it over releases it twice)
    (2201, ["E,-1,53796e634d4c", "R,-1,2202,73796e636d6c3a646576696e667c446576496e66,312e32", "T,-1,6161",
            "ZR,0,2202,73796e636d6c3a646576696e667c446576496e66,312e32", "ZT,0,6161", "ZC,0", "ZL,0,78797a",
            "R,0,2202,73796e636d6c3a646576696e667c446576496e66,312e32"]),
]


def split_answer(a):
    """'d1|d2|... W=.. X=..' -> (list of per-op 'st#dump', trailer dict)"""
    if a is None:
        return None, {}
    head, *tr = a.split(" ")
    trailer = {}
    for t in tr:
        k, _, v = t.partition("=")
        trailer[k] = v
    return (head.split("|") if head else []), trailer


def run(ctx):
    ctx.level = "proof"
    ctx.assumptions = [
        "node pointers are ids, NULL is None, the heap is a finite map; allocation failure is not modelled",
        "the caller's contract: node arguments are live, a parent is never a text node, only detached sub-trees are re-inserted / destroyed and never below themselves, only nodes that are not detached roots are extracted (sequences outside it are not generated; the model refuses them)",
        "a TREE node carries only its language in the model; the nested tree's own nodes are checked on the C by LSan only",
        "XML comparison domain: no text directly under SyncML <Data> (the XML front end inserts CDATA there), no children under binary-flagged tags (base64 in XML), no names with ':' (unbound prefixes), no empty text nodes, no '\\r'",
    ]
    bad = common.forbidden_scan()
    cres = common.coq_property(PID)
    common.proof_coverage(ctx, cres)
    proof_broken = (not cres["ok"]) or bool(bad)

    tables = gen.tables_json()
    vocab = c18lib.Vocab(tables)
    tfile = os.path.join(common.BUILD, "c18_tables-%s.txt" % common.repo_hash())
    common.write_if_changed(tfile, vocab.tables_file())
    harness = common.build_harness("c18_harness")
    driver = common.build_driver("C18")

    # thorough: 500,000 sequences (about 17 minutes on 16 cores; 10^6 would exceed the 20-minute budget)
    nseq, maxops = (50000, 40) if ctx.tier == "quick" else (500000, 40)
    if os.environ.get("C18_NSEQ"):
        nseq = int(os.environ["C18_NSEQ"])
    cases = []
    for lid, ops in CORPUS:
        cases.append({"lang": lid, "xmlgen": 1, "ops": ops, "exp": None, "sigs": None, "tree": None, "xmlcmp": False,
                      "line": "seq %d 1 %s" % (lid, ";".join(ops))})
    if getattr(ctx, "replay", None):
        rp = json.load(open(ctx.replay))
        if rp.get("input"):
            cases = [{"lang": int(rp["input"].split()[1]), "xmlgen": int(rp["input"].split()[2]) % 10,
                      "ops": rp["input"].split(" ", 3)[3].split(";") if len(rp["input"].split(" ", 3)) > 3 else [],
                      "exp": None, "sigs": None, "tree": None, "xmlcmp": False, "line": rp["input"]}]
            if rp.get("xml_input"):
                # an XML-path violation: the document is part of the replay
                cases[0]["xml_line"] = rp["xml_input"]
                cases[0]["ntree"] = len(rp["api"]["tree"].split(","))
            nseq = 0
    total = {"evaluations": 0, "ops": 0, "nodes_checked": 0, "xml_compared": 0, "d17_hits": 0, "merges": 0,
             "extractions": 0, "reinsertions": 0, "xml_skipped_lang": 0}
    kinds = {}
    nontrivial = set()
    concrete, corr, soft = [], [], []
    samples = []
    chunk = 10000
    done = 0
    first = True
    while first or done < nseq:
        first = False
        n = min(chunk, nseq - done)
        batch = cases if done == 0 else []
        if n > 0:
            batch = batch + gen_cases(ctx, vocab, n, maxops, chunk_no=done // chunk)
        done += n
        if not batch:
            break
        process(ctx, batch, harness, driver, tfile, vocab, total, kinds, nontrivial, concrete, corr, soft, samples)
        if len(concrete) > 20:
            break

    ctx.coverage.update({
        "evaluations": total["evaluations"],
        "distinct_nontrivial": len(nontrivial),
        "rule": "one evaluation = one operation sequence (every dump after every op compared model vs C and judged by the python oracle) "
                "or one XML document through the front end; non-trivial = the sequence built a tree of >= 3 nodes; distinct by op list hash",
        "input_distribution": dict(kinds, **{k: v for k, v in total.items() if k != "evaluations"}),
        "samples": samples[:12],
        "traces_validated_against_impl": total["evaluations"],
        "correspondence_disagreements": len(corr),
        "soft_disagreements": len(soft),
    })
    byk = {}
    for v in concrete:
        byk[v.get("kind", "x")] = byk.get(v.get("kind", "x"), 0) + 1
    ctx.coverage["oracle_failures_by_kind"] = byk
    # one replay per kind first (the most specific oracles before the sanitizer reports), at most 6 in all
    order = ["links", "adjacent-text", "shape", "status", "xml-path", "crash-or-sanitizer-report", "crash-or-sanitizer-report-xml"]
    picked, seen = [], set()
    for k in order:
        for v in concrete:
            if v.get("kind") == k and k not in seen:
                picked.append(v)
                seen.add(k)
    for v in concrete:
        if len(picked) >= 6:
            break
        if v not in picked:
            picked.append(v)
    for v in picked[:6]:
        ctx.violation("c-violates-oracle-" + v.get("kind", "x"), {"replay_cmd": "bin/check C18 --replay <this file>", **v})
    if not concrete:
        if proof_broken:
            ctx.violation("proof-broken", {"broken": "Properties_C18.v no longer checks", "failed_theorems": cres["failed"],
                                           "broken_at": cres.get("broken_at"), "forbidden": bad, "log_tail": cres["log"][-3000:],
                                           "search": "oracles run on %d sequences found no failing input" % total["evaluations"]},
                          found_input=False)
        if corr:
            ctx.violation("correspondence-broken", {"broken": "model TreeGraph.v and the C disagree; the C satisfies the python oracle and the XML-path oracle on every generated sequence",
                                                    "first_cases": corr[:5]}, found_input=False)
    elif corr:
        ctx.coverage["note"] = "model/C disagreements also present: %d" % len(corr)


def process(ctx, batch, harness, driver, tfile, vocab, total, kinds, nontrivial, concrete, corr, soft, samples):
    lines = [c["line"] for c in batch]
    ca, culprits = flowtree_run.run_robust(harness, lines)
    ma, mcr = common.run_lines(driver, lines, env=common.run_env({"C18_TABLES": tfile}))
    for cu in culprits:
        concrete.append({"kind": "crash-or-sanitizer-report", "input": cu["input"], "rc": cu["rc"], "stderr": cu["stderr"],
                         "note": cu.get("note")})
    xml_lines, xml_case = [], []
    for c, a, m in zip(batch, ca, ma):
        total["evaluations"] += 1
        kinds["lang %d" % c["lang"]] = kinds.get("lang %d" % c["lang"], 0) + 1
        if a is None:
            continue
        parts, tr = split_answer(a)
        mparts, mtr = split_answer(m)
        ops = c["ops"]
        total["ops"] += len(ops)
        # ownership shapes (LSan/ASan judge them): a nested tree whose parent chain is then cut, and the destroy order
        adds = [k for k, o in enumerate(ops) if o.startswith("R,")]
        if adds:
            total["nested_tree_histories"] = total.get("nested_tree_histories", 0) + 1
            if any(k + 1 < len(ops) and ops[k + 1].startswith("X,") for k in adds):
                total["nested_tree_then_chain_extracted"] = total.get("nested_tree_then_chain_extracted", 0) + 1
                if any(k + 2 < len(ops) and ops[k + 1].startswith("X,") and ops[k + 2].startswith("K,") for k in adds):
                    total["...destroyed_before_the_tree"] = total.get("...destroyed_before_the_tree", 0) + 1
                elif c.get("det_left"):
                    key = "...left_to_the_end_tree_destroyed_first" if c.get("tree_first") else "...left_to_the_end_tree_destroyed_last"
                    total[key] = total.get(key, 0) + 1
        if c.get("tree_first"):
            total["tree_destroyed_before_detached"] = total.get("tree_destroyed_before_detached", 0) + 1
        # ---- tie: model vs C, every dump
        if mparts is None or parts != mparts:
            k = next((i for i in range(min(len(parts), len(mparts or []))) if parts[i] != mparts[i]), None)
            corr.append({"kind": "dump", "input": c["line"], "first_differing_op": k,
                         "c": parts[k] if k is not None else str(len(parts)), "model": (mparts[k] if k is not None else str(len(mparts or [])))})
        # ---- python oracle on every C dump
        before = []
        d17 = False
        failed = None
        for k, part in enumerate(parts):
            st, _, d = part.partition("#")
            nodes = c18lib.parse_dump(d)
            err = c18lib.links_ok(nodes)
            if err:
                failed = {"kind": "links", "input": c["line"], "op_index": k, "op": ops[k], "what": err, "dump": d}
                break
            total["nodes_checked"] += len(nodes)
            adj = c18lib.adjacent_text(nodes)
            if adj is not None and not d17:
                if d17_shape(before, ops[k]):
                    d17 = True
                    total["d17_hits"] += 1
                    if not known(ctx, "extract-between-texts"):
                        failed = {"kind": "adjacent-text", "input": c["line"], "op_index": k, "op": ops[k], "dump": d}
                        break
                else:
                    failed = {"kind": "adjacent-text", "input": c["line"], "op_index": k, "op": ops[k],
                              "what": "adjacent text siblings after an operation that is not the known extraction shape", "dump": d}
                    break
            if c["exp"] is not None:
                est, eidx = c["exp"][k]
                want = est + ("" if eidx is None else str(eidx))
                if st != want:
                    failed = {"kind": "status", "input": c["line"], "op_index": k, "op": ops[k], "c": st, "oracle": want}
                    break
                roots, kids = c18lib.build_forest(nodes)
                sig = tuple(c18lib.dump_sig(nodes, r, kids) for r in roots)
                if sig != c["sigs"][k]:
                    failed = {"kind": "shape", "input": c["line"], "op_index": k, "op": ops[k], "dump": d,
                              "what": "the node graph does not denote the forest the specification (append with text merge / removal of exactly the sub-tree) gives"}
                    break
            if ops[k][0] == "X":
                total["extractions"] += 1
            elif ops[k][0] == "I":
                total["reinsertions"] += 1
            before = nodes
        if failed:
            concrete.append(failed)
            continue
        if before is not None and len(before) >= 3:
            nontrivial.add(hash(c["line"]))
        # model's destruction count: every node released exactly once
        if "F" in mtr and before is not None:
            f = mtr["F"].split("/")
            if f[0] != "STUCK" and not (f[0] == f[1] == f[2] == str(len(before)) and f[3] == "clean"):
                corr.append({"kind": "model-destroy", "input": c["line"], "model": mtr["F"], "nodes": len(before)})
            elif f[0] == "STUCK":
                corr.append({"kind": "model-destroy-stuck", "input": c["line"]})
        if len(samples) < 12 and len(ops) > 4 and hash(c["line"]) % 7 == 0:
            samples.append({"input": c["line"][:600], "last_dump": parts[-1][:400] if parts else "", "W": tr.get("W", "")[:80]})
        # ---- XML path
        for o in ops:
            if o.startswith("T,") and o.endswith(",-"):
                total["add_text_len0"] = total.get("add_text_len0", 0) + 1
            elif o.startswith("Y,") and o.endswith((",-", ",~")):
                total["wrapper_text_empty_or_null"] = total.get("wrapper_text_empty_or_null", 0) + 1
        empty_final = bool(c.get("tree")) and any(n.kind == "x" and n.text == b"" for n, _ in c18lib.preorder([c["tree"][0]]))
        if empty_final:
            total["final_tree_has_empty_text_node"] = total.get("final_tree_has_empty_text_node", 0) + 1
        if empty_final and not c.get("xml_line") and known(ctx, "empty-text-node"):
            pass          # the pending finding, recognised by its cause (an empty text node in the final tree): XML path not judged
        elif c.get("xml_line"):
            xml_lines.append(c["xml_line"])
            xml_case.append((c, parts[-1].partition("#")[2], tr, bytes.fromhex(c["xml_line"].split()[2])))
        elif c["xmlcmp"] and c["tree"] and tr.get("W", "").startswith(("0", "1", "2", "3")) and not d17:
            lang = vocab.langs[c["lang"]]
            root = c["tree"][0]
            if lang["pub"] is None and root.name.split(b"|")[-1].decode("latin-1") != lang["root"]:
                total["xml_skipped_lang"] += 1
                continue
            if any(n.kind == "e" and p is not None and n.name.split(b"|")[-1] in (b"DevInf", b"MgmtTree")
                   for n, p in c18lib.preorder([root])):
                # a former root re-inserted below a new one: the XML front end would take it for an embedded document
                total["xml_skipped_lang"] += 1
                continue
            doc = c18lib.xml_of(lang, root)
            xml_lines.append("xml %d %s" % (c["xmlgen"], doc.hex()))
            # the tree part of the last dump
            xml_case.append((c, parts[-1].partition("#")[2], tr, doc))
        elif d17 and c["tree"] and c["xmlcmp"]:
            pass
    if xml_lines:
        xa, xcu = flowtree_run.run_robust(harness, xml_lines)
        # tie of the front-end model (Model/TreeGraph.v fe_doc, theorem C18_front_end_builds_the_denotation): on the
        # documents it covers (elements, attributes, text) it must build the tree the real front end builds
        fel, feown = [], []
        for k, (c, lastdump, tr, doc) in enumerate(xml_case):
            sp = c18lib.fe_spec(c["tree"][0]) if c.get("tree") else None
            if sp is not None:
                fel.append("fe %d %s" % (c["lang"], sp))
                feown.append(k)
        fea, _ = common.run_lines(driver, fel, env=common.run_env({"C18_TABLES": tfile})) if fel else ([], [])
        for k, a in zip(feown, fea):
            x = xa[k]
            if x is None or a is None:
                continue
            head = x.split(" ")[0]
            if not head.startswith("ok%d#" % xml_case[k][0]["lang"]):
                continue
            total["front_end_model_compared"] = total.get("front_end_model_compared", 0) + 1
            if a != head:
                corr.append({"kind": "front-end-model", "input": fel[feown.index(k)], "xml": xml_case[k][3].decode("utf-8", "replace"),
                             "c_parsed_tree": head[:600], "model": a[:600]})
        for cu in xcu:
            concrete.append({"kind": "crash-or-sanitizer-report-xml", "input": cu["input"], "rc": cu["rc"], "stderr": cu["stderr"],
                             "note": cu.get("note")})
        for (c, lastdump, tr, doc), xl, a in zip(xml_case, xml_lines, xa):
            if a is None:
                continue
            total["evaluations"] += 1
            head, *rest = a.split(" ")
            xt = {}
            for t in rest:
                k, _, v = t.partition("=")
                xt[k] = v
            st, _, pd = head.partition("#")
            if st != "ok%d" % c["lang"]:
                # the front end did not pick this language (or refused the text): not a matter of the tree API
                total["xml_skipped_lang"] += 1
                soft.append({"input": c["line"], "xml": doc.decode("utf-8", "replace"), "front_end": st})
                continue
            total["xml_compared"] += 1
            nodes = c18lib.parse_dump(lastdump)
            roots, kids = c18lib.build_forest(nodes)
            # the tree part = the first root's sub-tree (the tree's root comes first in the traversal)
            ntree = c["ntree"] if c.get("ntree") else len(c18lib.preorder([c["tree"][0]]))
            api_tree = ",".join(lastdump.split(",")[:ntree])
            what = None
            if api_tree != pd:
                what = "the tree built through the API differs from the tree parsed from the XML text of the same shape"
            elif tr.get("W") != xt.get("W") or tr.get("W") != xt.get("CW"):
                what = "WBXML of the API-built tree differs from wbxml_conv_xml2wbxml_run on the XML text of the same shape"
            elif tr.get("X") != xt.get("X"):
                what = "XML of the API-built tree differs from the XML of the tree parsed from the XML text of the same shape"
            if what:
                concrete.append({"kind": "xml-path", "input": c["line"], "xml_input": "xml %d %s" % (c["xmlgen"], doc.hex()),
                                 "xml_text": doc.decode("utf-8", "replace"), "what": what,
                                 "api": {"tree": api_tree, "W": tr.get("W"), "X": tr.get("X")},
                                 "parsed": {"tree": pd, "W": xt.get("W"), "CW": xt.get("CW"), "X": xt.get("X")}})
            elif xt.get("CX") is not None and xt.get("CX") != tr.get("X"):
                # wbxml2xml(xml2wbxml(text)) vs the API tree's XML: a WBXML round-trip matter (C03), only counted
                total["roundtrip_xml_differs"] = total.get("roundtrip_xml_differs", 0) + 1
