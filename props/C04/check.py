"""C04 — the event parser reports exactly what the WBXML bytes denote.

1. proof: coq/Properties/Properties_C04.v (theorems over Model/Parser.v and Model/Spec.v) rebuilt and re-checked;
2b. object reuse: sequences of documents on ONE WBXMLParser (numeric id -> string-table id, table -> no table, forced language ->
   none, charset given -> absent, error -> good document, left-over code pages / nesting / current element, random pairs and
   triples): every document must be reported as on a fresh parser, i.e. as the model (a pure function of the document) says;
2. tie: the extracted model `parse_with` and the C (ASan+UBSan build of the current tree, content handlers
   registered through the public API) run on the same documents: the project's test corpus (turned into WBXML by
   the library's own converter), the three fuzz files, systematic documents (every table row of every language),
   grammar documents, charset variants, nesting, and a malformed stream (every proper prefix, field
   replacements, byte flips);
3. oracle (independent of Parser.v): the extracted specification `denote` applied to the *generating* abstract
   document (`wdoc`), whose bytes are produced by the extracted `serialize`; and the strict decoder `Spec.decode`
   as a second opinion on strict documents.
"""
import collections
import hashlib
import json
import os

from vlib import common, gen
from vlib import parser_build, parser_gen as pg, parser_streams as ps

PID = "C04"
HAVE_SPEC = os.path.exists(os.path.join(common.COQ, "Model", "Spec.v"))


def classify(c_ans, m_ans):
    """'same' | 'soft' (both refuse, codes differ) | 'hard'"""
    if c_ans is None or m_ans is None:
        return "hard"
    if c_ans == m_ans:
        return "same"
    if c_ans.startswith("err") and m_ans.startswith("err"):
        return "soft"
    return "hard"


def build_cases(ctx, T, harness):
    quick = ctx.tier == "quick"
    seed = ctx.seed
    cases = []
    corp, nfiles, crashes = ps.corpus_wbxml(harness)
    for nm, bs in corp:
        forced = 1901 if nm.startswith("ota/") else 0
        cases.append(ps.raw_case(bs, "corpus", forced=forced, name=nm, root_end=len(bs)))
    for nm, bs in ps.fuzz_files():
        cases.append(ps.raw_case(bs, "fuzzfile", name=nm))
    # minimised failures kept from earlier runs always run first
    cfile = os.path.join(common.VERIF, "corpus", "C04.txt")
    if os.path.exists(cfile):
        for l in open(cfile):
            l = l.strip()
            if l and not l.startswith("#"):
                f, m, h = l.split()[:3]
                cases.append(ps.raw_case(bytes.fromhex(h) if h != "-" else b"", "kept", int(f), int(m)))
    sysd = [ps.doc_case(x, "systematic") for x in pg.systematic_docs(T)]
    gd = [ps.doc_case(x, "grammar") for x in ps.grammar_docs(seed, T, 40 if quick else 400)]
    sd = [ps.doc_case(x, "grammar-strict") for x in ps.grammar_docs(seed, T, 10 if quick else 100, stream=42, strict=True)]
    nw = [ps.doc_case(x, "grammar-nonwf") for x in ps.grammar_docs(seed, T, 12 if quick else 120, stream=41, wf=False)]
    cases += sysd + gd + sd + nw
    cases += ps.charset_cases(seed, T, [c["doc"] for c in gd], 200 if quick else 2000)
    cases += ps.padded_cases(seed, sysd[:: 5 if quick else 1] + gd + sd, 1500 if quick else 20000)
    cases += ps.tolerance_cases(T)
    cases += ps.nested_cases(T)
    cases += ps.nested_cases(T, depths=(999, 1000, 1001, 1500))[:4]
    base = gd + sd + [c for c in cases if c["kind"] == "corpus"][:: 8 if quick else 1]
    cases += ps.malformed_cases(seed, base, 150 if quick else 2500, 4000 if quick else 60000, T)
    return cases, nfiles, crashes


def run(ctx):
    ctx.level = "proof"
    ctx.assumptions = [
        "bytes are N < 256; 32-bit values are N reduced mod 2^32 where the C truncates; documents are shorter than 2^32 - 2 bytes",
        "the model keeps the unread suffix of the document instead of (buffer, pos): every read of the C is at pos, pos+2 or "
        "'from pos on' and lengths are compared with len - pos",
        "only US-ASCII (3) and UTF-8 (106) strings are converted in this build (no iconv): other charsets are refused at the "
        "first string, UTF-16 / UCS-2 with the two-NUL termination rule of wbxml_charset_conv_term",
        "attribute values are compared without the terminating NUL the parser appends to a non-empty value buffer; "
        "PI data and literal names travel as C strings",
        "allocation failure is not modelled (C16)",
        "the model carries the nesting limit WBXML_MAX_NESTING_DEPTH = 1000 that parse_content checks (elements deeper than 1000 "
        "below the root are refused with NESTING_TOO_DEEP); generated nesting goes to 1500",
    ]
    bad = common.forbidden_scan()
    T = pg.Tables(gen.gen_tables())
    cres = common.coq_property(PID)
    common.proof_coverage(ctx, cres)
    proof_broken = (not cres["ok"]) or bool(bad)

    harness = common.build_harness("c04_harness")
    driver = common.build_driver("C04")

    if getattr(ctx, "replay", None):
        rp = json.load(open(ctx.replay))
        cases = [ps.raw_case(bytes.fromhex(rp["wbxml"]) if rp.get("wbxml") not in (None, "-") else b"", rp.get("kind", "replay"),
                             int(rp.get("forced", 0)), int(rp.get("meta", 0)))] if "wbxml" in rp else []
        nfiles, crashes0 = 0, []
    else:
        cases, nfiles, crashes0 = build_cases(ctx, T, harness)
    lines = [c["line"] for c in cases]
    ca, ccr = common.run_lines(harness, lines)
    ma, mcr = common.run_lines(driver, lines)

    hard, soft = [], collections.Counter()
    kinds, okc = collections.Counter(), collections.Counter()
    nontrivial = set()
    errkinds = collections.Counter()
    for c, a, m in zip(cases, ca, ma):
        kinds[c["kind"]] += 1
        if a and a.startswith("ok "):
            okc[c["kind"]] += 1
            if a.count(" ") >= 3:
                nontrivial.add(hashlib.sha256(c["bytes"]).digest()[:10])
        elif a:
            errkinds[a.split()[1] if " " in a else a] += 1
        k = classify(a, m)
        if k == "soft":
            soft["C=%s model=%s" % (a, m)] += 1
        elif k == "hard":
            hard.append({"kind": c["kind"], "forced": c["forced"], "meta": c["meta"], "wbxml": c["bytes"].hex() or "-",
                         "c": (a or "")[:2000], "model": (m or "")[:2000]})

    # ---- oracle: denote of the generating document (Spec.v), independent of Parser.v ---------------------
    concrete = []
    oracle_n = oracle_wf = 0
    spec_bad = []
    strict_n = strict_ok = 0
    if HAVE_SPEC and not getattr(ctx, "replay", None):
        docs = [(i, c) for i, c in enumerate(cases)
                if "doc" in c and c["doc"]["meta"] == 0 and (c["kind"] in ("systematic", "grammar", "grammar-strict") or c["kind"].startswith("nested")
                                                            or c.get("padded"))]
        dl = ["den %d %d %s" % (c["doc"]["forced"], c["doc"]["meta"], pg.wdoc_text(c["doc"])) for _, c in docs]
        sl = ["ser " + pg.wdoc_text(c["doc"]) for _, c in docs]
        da, _ = common.run_lines(driver, dl)
        sa, _ = common.run_lines(driver, sl)
        for (i, c), den, ser in zip(docs, da, sa):
            oracle_n += 1
            if not c.get("padded") and ser != (c["bytes"].hex() or "-"):
                spec_bad.append({"what": "Coq serialize differs from the python serializer", "wdoc": pg.wdoc_text(c["doc"]),
                                 "coq": ser, "python": c["bytes"].hex()})
                continue
            if den is None or not den.startswith("ok "):
                continue          # not wf by the specification (e.g. a typed opaque of the wrong size): no claim
            oracle_wf += 1
            if ca[i] != den:
                concrete.append({"kind": "denote-" + c["kind"], "forced": c["forced"], "meta": c["meta"], "wbxml": c["bytes"].hex(),
                                 "wdoc": pg.wdoc_text(c["doc"]), "c": (ca[i] or "")[:3000], "oracle": den[:3000],
                                 **({"note": "mb_u_int32 fields of the generating document written with leading 0x80 groups (at most five "
                                             "octets, WBXML 5.1): the bytes denote what the document denotes"} if c.get("padded") else {})})
        # strict decoder as a second opinion
        sdocs = [(i, c) for i, c in docs if c["kind"] in ("grammar-strict", "systematic")]
        tl = ["strict %d %s" % (c["doc"]["lang"], c["bytes"].hex()) for _, c in sdocs]
        ta, _ = common.run_lines(driver, tl)
        for (i, c), st in zip(sdocs, ta):
            strict_n += 1
            if st is not None and st.startswith("ok "):
                strict_ok += 1
                if ca[i] != st:
                    concrete.append({"kind": "strict-decoder", "forced": c["forced"], "meta": c["meta"], "wbxml": c["bytes"].hex(),
                                     "c": (ca[i] or "")[:3000], "oracle": st[:3000]})
    # ---- oracle for the charset clause alone ("the charset ... announced at document start [is what] the header selects"),
    #      from the generating document's header fields, independent of the Coq development: an explicit charset field wins;
    #      a missing (WBXML 1.0) or zero field leaves the choice to the transport's meta charset, else UTF-8 (106)
    charset_n = 0
    for i, c in enumerate(cases):
        d = c.get("doc")
        a = ca[i] or ""
        if not d or not a.startswith("ok SD:"):
            continue
        try:
            got = int(a.split(" ")[1].split(":")[1])
        except (IndexError, ValueError):
            continue
        field = d.get("charset", 0) if d.get("ver", 3) != 0 else 0
        want = field if field else (d.get("meta", 0) or 106)
        charset_n += 1
        if got != want:
            concrete.append({"kind": "charset-announced", "forced": c["forced"], "meta": c["meta"], "wbxml": c["bytes"].hex(),
                             "c": a[:300], "oracle": "start_document charset %d (header field %d, meta %d)" % (want, field, d.get("meta", 0))})
    # ---- tree builder (Model/TreeBuild.v vs wbxml_tree_from_wbxml): same documents plus SyncML-shaped ones ----
    tree_hard, tree_soft, tree_n, tree_feats = [], 0, 0, collections.Counter()
    tcr = []
    if not getattr(ctx, "replay", None):
        tcases = ps.syncml_tree_docs(ctx.seed, T, 300 if ctx.tier == "quick" else 3000)
        tcases += [c for c in cases if c["kind"] in ("corpus", "fuzzfile", "systematic", "grammar", "grammar-strict", "grammar-nonwf",
                                                     "charset-other", "charset-meta", "typed-reset", "tol-content-switch")
                   or c["kind"].startswith("nested")]
        tcases += [c for c in cases if c["kind"] in ("byteflip", "random-body")][:: 4]
        tcases += ps.embedded_cases(ctx.seed, 3 if ctx.tier == "quick" else 5)   # chains deeper than WBXML_MAX_EMBEDDED_DEPTH, string-table references
        tl = [ps.tline(c) for c in tcases]
        tca, tcr = common.run_lines(harness, tl)
        tma, _ = common.run_lines(driver, tl)
        for c, a, m in zip(tcases, tca, tma):
            tree_n += 1
            if a and a.startswith("ok "):
                tree_feats["built"] += 1
                if " C " in a:
                    tree_feats["with_cdata"] += 1
                if a.count(" R ") > 1:
                    tree_feats["with_embedded_document"] += 1
                if c["kind"].startswith("embedded"):
                    tree_feats["embedded_depth_cases"] += 1
                if " T " in a:
                    tree_feats["with_text"] += 1
            k = classify(a, m)
            if k == "soft":
                tree_soft += 1
            elif k == "hard":
                tree_hard.append({"kind": c["kind"], "forced": c["forced"], "meta": c["meta"], "wbxml": c["bytes"].hex() or "-",
                                  "c_tree": (a or "")[:2000], "model_tree": (m or "")[:2000]})
    # ---- object reuse: one WBXMLParser, several documents; the property is stated per document, whatever was parsed before ----
    if getattr(ctx, "replay", None):
        rp = json.load(open(ctx.replay))
        seqs = [ps.replay_sequence(rp)] if "sequence" in rp else []
    else:
        seqs = ps.reuse_sequences(ctx.seed, T, cases, 400 if ctx.tier == "quick" else 6000)
    reuse = ps.run_reuse(harness, driver, seqs) if seqs else {"documents": 0, "sequences": 0, "history_dependent": [], "model_disagreements": [],
                                                              "accepted_must_fail": [], "crashes": [], "kinds": {}}
    for v in reuse["history_dependent"][:3]:
        concrete.append(dict(v, what="on a reused WBXMLParser the document is reported differently from the same document on a fresh "
                                     "parser (and from the model's events for the document alone)"))
    for cr in ccr + crashes0 + tcr + reuse["crashes"]:
        concrete.append({"kind": "crash-or-sanitizer-report", **cr})

    sample_idx = list(range(0, len(cases), max(1, len(cases) // 12)))[:12]
    ctx.coverage.update({
        "evaluations": len(cases) + oracle_n + strict_n,
        "distinct_nontrivial": len(nontrivial),
        "rule": "non-trivial = the C delivered at least start-document, one element and end-document; distinct by SHA-256 of the document",
        "input_distribution": dict(kinds),
        "accepted_by_kind": dict(okc),
        "error_codes_seen": dict(errkinds),
        "corpus_xml_files": nfiles,
        "samples": [{"kind": cases[i]["kind"], "input": lines[i][:400], "c": (ca[i] or "")[:400], "model": (ma[i] or "")[:400]} for i in sample_idx],
        "traces_validated_against_impl": len(cases),
        "correspondence_disagreements_hard": len(hard),
        "correspondence_disagreements_soft": sum(soft.values()),
        "soft_examples": dict(list(soft.items())[:5]),
        "oracle_documents": oracle_n,
        "oracle_charset_clause_documents": charset_n,
        "oracle_padded_mb_u_int32": {k: v for k, v in kinds.items() if k.startswith("padded-") or k.startswith("tol-mb5")},
        "oracle_documents_wf": oracle_wf,
        "strict_decoder_documents": strict_n,
        "strict_decoder_accepted": strict_ok,
        "spec_serializer_disagreements": len(spec_bad),
        "tree_builder_documents": tree_n,
        "tree_builder_features": dict(tree_feats),
        "tree_builder_disagreements_hard": len(tree_hard),
        "tree_builder_disagreements_soft": tree_soft,
        "reuse_sequences": reuse["sequences"],
        "reuse_documents": reuse["documents"],
        "reuse_history_dependent": len(reuse["history_dependent"]),
        "reuse_model_disagreements": len(reuse["model_disagreements"]),
        "reuse_input_distribution": dict(sorted(reuse["kinds"].items(), key=lambda kv: -kv[1])[:40]),
    })

    # ---- verdict ----------------------------------------------------------------------------------------
    for v in concrete[:5]:
        ctx.violation("c-violates-oracle-" + v["kind"], {"replay_cmd": "bin/check C04 --replay <this file>", **v})
    if spec_bad:
        ctx.violation("spec-serializer", {"broken": "python serializer and Coq Spec.serialize disagree", "cases": spec_bad[:3]}, found_input=False)
    if not concrete:
        if proof_broken:
            ctx.violation("proof-broken", {"broken": "Properties_C04.v no longer checks", "failed_theorems": cres["failed"],
                                           "broken_at": cres.get("broken_at"), "forbidden": bad, "log_tail": cres["log"][-3000:],
                                           "search": "oracle run on %d documents found no failing input" % oracle_wf}, found_input=False)
        if hard:
            ctx.violation("correspondence-broken", {"broken": "model Parser.v and the C disagree (events or OK/ERR); the C agrees with the "
                                                              "specification oracle on every generated well-formed document",
                                                    "first_cases": hard[:5], **{k: hard[0][k] for k in ("wbxml", "forced", "meta")}},
                          found_input=False)
        if reuse["model_disagreements"]:
            ctx.violation("reuse-correspondence-broken", {"broken": "a document of a sequence on one parser object: the C (reused and fresh alike) "
                                                                    "and the model disagree", "first_cases": reuse["model_disagreements"][:5]},
                          found_input=False)
        if tree_hard:
            ctx.violation("treebuild-correspondence-broken",
                          {"broken": "model TreeBuild.v and wbxml_tree_from_wbxml disagree on the tree built from a document",
                           "first_cases": tree_hard[:5], **{k: tree_hard[0][k] for k in ("wbxml", "forced", "meta")}}, found_input=False)
    elif hard:
        ctx.coverage["note"] = "model/C disagreements also present: %d" % len(hard)
