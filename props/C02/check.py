"""C02 — XML-to-WBXML conversion is total, memory-safe and bounded on arbitrary bytes.

proved (coq/Properties/Properties_C02.v): result contract of the conversion model for all inputs and option tuples;
partial: memory safety, leaks, heap/stack of the compiled C and Expat itself — sanitizer-backed exploration
  (same harness as C01: read-only input at a guard page, heap accounting, painted 8 MiB stack, per-case leak check).
oracle independent of the library: pyexpat (same libexpat) decides well-formedness and measures the document after
  entity expansion; the tables dump decides whether any identification route could determine the language.
"""
import json
import os
import xml.parsers.expat as expat

from vlib import common, convcases as cc, gen
from vlib.common import Rng

PID = "C02"
HEAP_LIN = 512          # bytes of library heap per byte of (input + expanded character data + attributes)
HEAP_C0 = 1 << 16
STACK_MAX = 4 << 20


def expat_info(doc):
    """(wellformed, expanded_size, pubid, sysid, root) as pyexpat (namespace mode, like the library) sees the document"""
    info = {"size": 0, "pubid": None, "sysid": None, "root": None, "elts": 0}
    p = expat.ParserCreate(namespace_separator="|")

    def sd(name, sysid, pubid, has_internal):
        info["pubid"], info["sysid"] = pubid, sysid

    def se(name, attrs):
        if info["root"] is None:
            info["root"] = name
        info["elts"] += 1
        info["size"] += len(name) + sum(len(k) + len(v) for k, v in attrs.items())

    def cd(data):
        info["size"] += len(data.encode("utf-8", "replace"))
    p.StartDoctypeDeclHandler = sd
    p.StartElementHandler = se
    p.CharacterDataHandler = cd
    p.ProcessingInstructionHandler = lambda t, d: None
    try:
        p.Parse(doc, True)
        return True, info
    except expat.ExpatError:
        return False, info
    except Exception:
        return None, info      # python-side limitation (e.g. embedded NUL handling): no verdict


def language_possible(tables, info):
    """could ANY identification route (public id, system id, root element, root namespace) select a language?"""
    pub, sysid, root = info["pubid"], info["sysid"], info["root"]
    for l in tables["langs"]:
        if pub is not None and l["pub_text"] and l["pub_text"].lower() == pub.lower():
            return True
        if sysid is not None and l["dtd"] and l["dtd"] == sysid:
            return True
        if root is not None:
            local = root.split("|")[-1]
            # root element: exact name, or equal local names (the table spells DRMREL's root with a prefix, "o-ex:rights";
            # a namespace-aware parser delivers "namespace|local")
            if l["root"] and (l["root"] == root or l["root"] == local or l["root"].split(":")[-1] == local):
                return True
            if "|" in root and l["ns"] >= 0:
                ns0 = tables["tables"][str(l["ns"])]["rows"][0][0]
                if root.lower().startswith(ns0.lower()):
                    return True
    return False


def gen_cases(ctx, quick):
    rng = Rng(ctx.seed, 202)
    docs = [open(f, "rb").read() for f in cc.corpus_xml()]
    cases = []

    def opts():
        return dict(api=rng.choice(["run", "withlen", "noparams"]), version=rng.below(4), keep=rng.below(2),
                    strtbl=rng.below(2), anon=rng.below(2))
    for d in docs:
        for _ in range(2 if quick else 16):
            cases.append((cc.x2w_line(d, **opts()), "corpus", d))
    for _ in range(3000 if quick else 30000):
        d = rng.choice(docs)
        for _ in range(rng.range(1, 3)):
            d = cc.xml_mutate(rng, d)
        if len(d) < 200000:
            cases.append((cc.x2w_line(d, **opts()), "mutated", d))
    for d in [rng.choice(docs) for _ in range(2 if quick else 30)]:
        step = max(1, len(d) // (150 if quick else 2000))
        for k in range(0, len(d), step):
            cases.append((cc.x2w_line(d[:k], **opts()), "prefix", d[:k]))
    for _ in range(500 if quick else 8000):
        d = rng.bytes(rng.range(0, 80)) if rng.chance(1, 2) else b"<" + bytes(rng.choice(b"abc<>/&;\"'= !-[]?xml") for _ in range(rng.range(0, 80)))
        cases.append((cc.x2w_line(d, **opts()), "random", d))
    # string-table stress: texts and attribute values from a small vocabulary, repeated whole and as words inside longer strings
    vocab = [b"hello", b"world", b"there", b"string", b"table", b"entry", b"wxyz", b"abc", b"alpha beta", b"  padded  "]
    for _ in range(300 if quick else 6000):
        ps = []
        for _ in range(rng.range(2, 12)):
            t = b" ".join(rng.choice(vocab) for _ in range(rng.range(1, 3)))
            if rng.chance(1, 4):
                ps.append(b'<p title="%s">%s</p>' % (b" ".join(rng.choice(vocab) for _ in range(rng.range(1, 3))), t))
            elif rng.chance(1, 6):
                nm = rng.choice([b"zz", b"zzyy", b"yy"])          # unknown element: literal name in the string table
                ps.append(b"<" + nm + b">" + t + b"</" + nm + b">")
            else:
                ps.append(b"<p>" + t + b"</p>")
        d = cc.WML_DOCTYPE + b"<wml><card>" + b"".join(ps) + b"</card></wml>"
        cases.append((cc.x2w_line(d, strtbl=1, keep=rng.below(2), version=rng.below(4), anon=rng.below(2)), "strtbl-words", d))
    # documents whose length is an exact multiple of 64 KiB (and +-1): complete ones must convert, truncated ones must be
    # refused — a chunked feed of Expat that forgets the final call shows exactly there
    base = cc.WML_DOCTYPE + b"<wml><card>"
    tail = b"</card></wml>"
    for size in (65536, 131072, 65536 * 3 if quick else 65536 * 8):
        for delta in (-1, 0, 1):
            n = size + delta
            body = b"<p>" + b"x" * 50 + b"</p>"
            k = (n - len(base) - len(tail)) // len(body)
            pad = n - len(base) - len(tail) - k * len(body)
            good = base + body * k + b" " * pad + tail
            trunc = (base + body * (k + 2000))[:n]            # same length, nothing closed: ill-formed
            for d in (good, trunc):
                assert len(d) == n
                cases.append((cc.x2w_line(d, strtbl=0, version=rng.below(4)), "exact-64k", d))
    L = 1000
    for n in (L - 10, L - 3, L - 2, L - 1, L, L + 1, 5000, 100000):
        d = cc.deep_xml(n)
        cases.append((cc.x2w_line(d, **opts()), "deep", d))
    for n in (50, L - 5, L + 5, 3000, 200000):
        d = cc.deep_embedded_xml(n)
        cases.append((cc.x2w_line(d, strtbl=rng.below(2)), "deep", d))
    for n in (1000, 20000 if quick else 60000):
        for st in (0, 1):
            d = cc.wide_xml(n)
            cases.append((cc.x2w_line(d, strtbl=st), "wide", d))
    for n in (100, 3000):
        d = cc.attrs_xml(n)
        cases.append((cc.x2w_line(d), "attrs", d))
    for lv, fan in ((3, 10), (5, 8) if quick else (6, 9)):
        d = cc.entity_xml(lv, fan)
        cases.append((cc.x2w_line(d), "entities", d))
    inner = b'<DevInf xmlns="syncml:devinf"><VerDTD>1.2</VerDTD><Man>x</Man></DevInf>'
    for d in (cc.devinf_xml(inner), cc.devinf_xml(inner * 3), cc.devinf_xml(inner[:-9]), cc.devinf_xml(b"<![CDATA[" + inner + b"]]>"),
              cc.devinf_xml(b'<DevInf xmlns="syncml:devinf">' * 50 + b"</DevInf>" * 50)):
        for st in (0, 1):
            cases.append((cc.x2w_line(d, strtbl=st), "embedded", d))
    return cases


def run(ctx):
    ctx.level = "proof"
    ctx.assumptions = [
        "Expat is an oracle of the model (its verdict and events are inputs); pyexpat in the check is the same libexpat 2.5 in namespace mode",
        "memory safety, leaks, heap and stack use are explored on the sanitizer build, not proved — labelled partial; Expat's own allocations are not counted",
        "heap bound checked: library peak <= %d*(input + expanded character data and attributes)+%d" % (HEAP_LIN, HEAP_C0),
    ]
    bad = common.forbidden_scan()
    cres = common.coq_properties([PID, "C02_front", "C02_front3", "C02_front4", "C02_front5", "C02_conv"])
    common.proof_coverage(ctx, cres)
    proof_broken = (not cres["ok"]) or bool(bad)
    tables = gen.tables_json()
    harness = common.build_harness("c01_harness", tag="-vfmem", libs=("-lexpat", "-lpthread"))
    quick = ctx.tier == "quick"
    if getattr(ctx, "replay", None):
        rp = json.load(open(ctx.replay))
        cases = [(rp["input"], "replay", bytes.fromhex(rp["input"].rsplit(" ", 1)[1].replace("-", "")))] if "input" in rp else []
    else:
        cases = gen_cases(ctx, quick)
    lines = [c[0] for c in cases]
    heavy = [i for i, c in enumerate(cases) if c[1] in ("deep", "wide", "attrs", "entities", "replay", "exact-64k")]
    hs = set(heavy)
    light = [i for i in range(len(cases)) if i not in hs]
    answers = [None] * len(cases)
    la, lcr = common.run_lines(harness, [lines[i] for i in light], timeout=(900 if quick else 3000))
    for i, a in zip(light, la):
        answers[i] = a
    ha, hcr = common.run_lines(harness, [lines[i] for i in heavy], shards=max(1, len(heavy)), timeout=300)
    for i, a in zip(heavy, ha):
        answers[i] = a

    kinds, viol, nontrivial = {}, [], set()
    stats = {"ok": 0, "err": 0, "illformed": 0, "illformed_rejected": 0, "no_language": 0, "max_stack": 0}
    for (line, kind, doc), a in zip(cases, answers):
        kinds[kind] = kinds.get(kind, 0) + 1
        d = cc.parse_answer(a)
        clauses = []
        if d is None:
            clauses.append("no answer (crash / sanitizer abort / timeout)")
        else:
            wf, info = expat_info(doc)
            stats["ok" if d["st"] == 0 else "err"] += 1
            stats["max_stack"] = max(stats["max_stack"], d["stack"])
            if d["st"] == 0:
                if d["null_out"] or d["untouched_out"]:
                    clauses.append("success without output")
                if wf is False:
                    clauses.append("ill-formed XML accepted")
                if wf is True and not language_possible(tables, info):
                    clauses.append("document of undeterminable language accepted")
                if info["elts"] > 0:
                    nontrivial.add(line.rsplit(" ", 1)[1])
            else:
                if not d["null_out"]:
                    clauses.append("error code %d but output pointer not null" % d["st"])
                if d["len"] != 0:
                    clauses.append("error code %d but length %d" % (d["st"], d["len"]))
            if wf is False:
                stats["illformed"] += 1
                stats["illformed_rejected"] += d["st"] != 0
            if wf is True and not language_possible(tables, info):
                stats["no_language"] += 1
            if d["peak"] > HEAP_LIN * (len(doc) + info["size"]) + HEAP_C0:
                clauses.append("library heap %d exceeds %d*(input+expanded)+%d" % (d["peak"], HEAP_LIN, HEAP_C0))
            if d["leak"]:
                clauses.append("leak reported by LeakSanitizer")
            if d["held"]:
                clauses.append("library still holds %d bytes after returning" % d["held"])
            if d["stack"] > STACK_MAX:
                clauses.append("stack use %d exceeds %d" % (d["stack"], STACK_MAX))
        if clauses:
            viol.append({"input": line, "kind": kind, "clauses": clauses, "answer": a})
    # ---- tie of the XML front-end model (Model/XmlFront.v: Expat events -> tree) to wbxml_tree_from_xml
    front = None
    try:
        from vlib import xmlfront
        front = xmlfront.correspond(ctx.seed, quick=quick)
    except common.BuildError:
        raise
    except ImportError:
        pass
    if front is not None:
        ctx.coverage["front_end_model_tie"] = {k: front[k] for k in ("evaluations", "soft_error_code_differences", "distribution") if k in front}
        ctx.coverage["front_end_model_tie"]["disagreements"] = len(front.get("disagreements", []))
        for dgr in front.get("disagreements", [])[:3]:
            if str(dgr.get("kind", "")).startswith("crash"):
                viol.append({"input": "xmlfront --hex " + str(dgr.get("doc_hex"))[:4000], "kind": "front-end-crash", "clauses": ["crash / sanitizer report in wbxml_tree_from_xml"], "answer": str(dgr)[:1500]})
    # ---- tie of the concrete conversion model (Model/ConvXml2Wbxml.v: front end + WBXML encoder under the option tuple)
    #      to wbxml_conv_xml2wbxml_run: OK/ERR and the exact WBXML bytes
    conv = None
    try:
        from vlib import xmlfront as _xf
        if hasattr(_xf, "correspond_conv"):
            conv = _xf.correspond_conv(ctx.seed, quick)
    except common.BuildError:
        raise
    except ImportError:
        pass
    if conv is not None:
        ctx.coverage["conversion_model_tie"] = {k: conv[k] for k in ("evaluations", "soft_error_code_differences", "distribution") if k in conv}
        ctx.coverage["conversion_model_tie"]["disagreements"] = len(conv.get("disagreements", []))
        for dgr in conv.get("disagreements", [])[:3]:
            knd = str(dgr.get("kind", ""))
            marks = [m for m in ("!NULL-OUT-ON-OK", "!OUT-ON-ERROR", "!LEN-ON-ERROR", "!INPUT-MODIFIED") if m in str(dgr.get("c", ""))]
            if knd.startswith("crash") or marks:
                knd = knd + " " + " ".join(marks)
                viol.append({"input": "xmlfront --conv --hex " + str(dgr.get("doc_hex"))[:4000], "kind": "conversion-" + knd,
                             "clauses": ["wbxml_conv_xml2wbxml_run breaks its result contract (%s)" % knd], "answer": str(dgr)[:1500]})
    # ---- further ties of the front-end model: (a) the C callbacks called directly with arbitrary event lists, state compared
    #      after every event incl. after an error (sticky-error oracle); (b) events_of (extracted) of the trees the C built,
    #      replayed through the C callbacks: checks the parser assumptions of the inverse theorem
    extra = {}
    for nm in ("correspond_replay", "correspond_inverse"):
        try:
            from vlib import xmlfront as _xf2
            if hasattr(_xf2, nm):
                extra[nm] = getattr(_xf2, nm)(ctx.seed, quick)
        except common.BuildError:
            raise
        except ImportError:
            pass
    for nm, r in extra.items():
        ctx.coverage[nm] = {k: r[k] for k in ("evaluations", "distribution", "failed_runs", "events") if k in r}
        ctx.coverage[nm]["disagreements"] = len(r.get("disagreements", []))
    ctx.coverage.update({
        "evaluations": len(cases) + (front["evaluations"] if front else 0) + (conv["evaluations"] if conv else 0) + sum(r.get("evaluations", 0) for r in extra.values()), "distinct_nontrivial": len(nontrivial),
        "rule": "documents = project XML corpus + text-level mutations (truncate, flip, repeat/drop/insert elements, CDATA, PIs, entities, "
                "attribute bloat, unknown names, DOCTYPE removed/replaced, UTF-16/Latin-1 transcoding, deeper wrapping) + prefixes + random + "
                "nesting around the limit and far beyond + width + internal-entity expansion + embedded DevInf, under random option tuples "
                "(versions 1.0-1.3, string table, keep-ws, anonymous, 3 API variants incl. NULL parameter block); "
                "non-trivial = converted successfully with at least one element; distinct by document",
        "input_distribution": kinds, "stats": stats,
        "samples": [{"input": l[:160], "answer": a} for (l, _, _), a in list(zip(cases, answers))[:: max(1, len(cases) // 10)]][:12],
        "traces_validated_against_impl": len(cases),
    })
    for v in viol[:6]:
        ctx.violation("c-" + v["clauses"][0][:40], {"sanitizer": (lcr + hcr)[:2], **v})
    if not viol and front is not None and front.get("disagreements"):
        ctx.violation("front-end-correspondence-broken", {"broken": "Model/XmlFront.v and wbxml_tree_from_xml disagree on tree-or-error; no input violating the property's own oracle was found",
                                                           "first_cases": [{k: str(v)[:1500] for k, v in d.items()} for d in front["disagreements"][:3]],
                                                           "replay_cmd": "python3 -m vlib.xmlfront --hex <doc_hex>"}, found_input=False)
    if not viol and conv is not None and conv.get("disagreements"):
        ctx.violation("conversion-correspondence-broken", {"broken": "Model/ConvXml2Wbxml.v and wbxml_conv_xml2wbxml_run disagree on status or WBXML bytes; no input violating the property's own oracle was found",
                                                            "first_cases": [{k: str(v)[:1500] for k, v in d.items()} for d in conv["disagreements"][:3]],
                                                            "replay_cmd": "python3 -m vlib.xmlfront --conv --hex <doc_hex>"}, found_input=False)
    for nm, r in extra.items():
        if not viol and r.get("disagreements"):
            ctx.violation("front-end-%s-broken" % nm.split("_")[1], {"broken": "Model/XmlFront.v and the C callbacks disagree (%s); no input violating the property's own oracle was found" % nm,
                                                                   "first_cases": [{k: str(v)[:1500] for k, v in d.items()} for d in r["disagreements"][:3]]}, found_input=False)
            break
    if not viol and proof_broken:
        ctx.violation("proof-broken", {"broken": "Properties_C02*.v no longer check", "failed_theorems": cres["failed"],
                                       "broken_at": cres.get("broken_at"), "forbidden": bad, "log_tail": cres["log"][-3000:],
                                       "search": "sanitizer-backed exploration of %d cases found no failing input" % len(cases)}, found_input=False)
