(* C19 — proofs about Model/BufferModel.v against Model/BufferSpec.v. *)
From Coq Require Import List NArith Arith Lia Bool.
From Wbxml Require Import Model.Codec Model.BufferModel Model.BufferSpec.
Import ListNotations.

(* ---------------------------------------------------------------------------------------- *)
(* the invariant                                                                             *)

(* No store ever went outside the allocated cells; a static buffer's len is covered by its data;
   a dynamic buffer either has no storage and len 0, or len < malloced and the cell after the
   contents holds 0. *)
Definition Inv (b : buf) : Prop :=
  bfault b = false /\
  if bstatic b then blen b <= length (cells b)
  else (cells b = [] /\ blen b = 0) \/ (blen b < length (cells b) /\ nth (blen b) (cells b) junk = 0%N).

(* ---------------------------------------------------------------------------------------- *)
(* (d) static buffers refuse every mutation                                                  *)

Lemma static_refuses b o : bstatic b = true ->
  match o with
  | OCreate _ _ | OStaCreate _ | ODuplicate => True                   (* these make a new buffer *)
  | OLen | OGetChar _ | OCompare _ | OCompareCstr _ | OSplitWords
  | OSearchChar _ _ | OSearch _ _ | OSearchCstr _ _ | OOnlyWs => fst (step b o) = b   (* read-only *)
  | ONoSpaces => step b o = (b, RVoid)
  | _ => step b o = (b, RBool false)
  end.
Proof.
  intros H. destruct o; cbn [step]; auto.
  all: try (unfold rb, rob, set_char, insert, insert_cstr, append, append_data, append_cstr, append_char,
      append_mb_uint_32, delete, shrink_blanks, strip_blanks, no_spaces, hex_to_binary, binary_to_hex,
      decode_base64, encode_base64, remove_trailing_zeros; rewrite H; reflexivity).
  - destruct (split_words b); reflexivity.
  - unfold rsearch. destruct (search _ _ _); reflexivity.
  - unfold rsearch. destruct (search_cstr _ _ _); reflexivity.
Qed.

(* ---------------------------------------------------------------------------------------- *)
(* (c) out-of-range positions fail without effect                                            *)

Lemma insert_data_out_of_range b pos data : (N.of_nat (blen b) < pos)%N -> insert_data b pos data = (b, false).
Proof.
  intros H. unfold insert_data. apply N.ltb_lt in H. rewrite H.
  now rewrite !orb_true_r.
Qed.

Lemma insert_out_of_range b src pos : (N.of_nat (blen b) < pos)%N -> insert b src pos = (b, false).
Proof. intros H. unfold insert. destruct (bstatic b); auto using insert_data_out_of_range. Qed.

Lemma insert_cstr_out_of_range b str pos : (N.of_nat (blen b) < pos)%N -> insert_cstr b str pos = (b, false).
Proof. intros H. unfold insert_cstr. destruct (bstatic b); auto using insert_data_out_of_range. Qed.

Lemma delete_out_of_range b pos n : (N.of_nat (blen b) <= pos)%N -> delete b pos n = (b, false).
Proof. intros H. unfold delete. apply N.leb_le in H. rewrite H. now destruct (bstatic b). Qed.

Lemma set_char_out_of_range b pos ch : (N.of_nat (blen b) <= pos)%N -> set_char b pos ch = (b, false).
Proof. intros H. unfold set_char. apply N.leb_le in H. rewrite H. now rewrite orb_true_r. Qed.

Lemma get_char_out_of_range b pos : (N.of_nat (blen b) <= pos)%N -> get_char b pos = None.
Proof. intros H. unfold get_char. apply N.leb_le in H. now rewrite H. Qed.

Lemma search_char_out_of_range b ch pos : (N.of_nat (blen b) <= pos)%N -> search_char b ch pos = None.
Proof. intros H. unfold search_char. apply N.leb_le in H. now rewrite H. Qed.
