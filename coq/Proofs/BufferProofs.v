(* C19 — proofs about Model/BufferModel.v against Model/BufferSpec.v. *)
From Coq Require Import List NArith Arith Lia Bool.
From Wbxml Require Import Model.Codec Model.BufferModel Model.BufferSpec.
Import ListNotations.

(* ---------------------------------------------------------------------------------------- *)
(* the invariant                                                                             *)

(* No store ever went outside the allocated cells; a static buffer's len is covered by its data;
   a dynamic buffer either has no storage and len 0, or len < malloced and the cell after the
   contents holds 0. *)
Definition Inv (b : buf) : Prop :=
  bfault b = false /\
  if bstatic b then blen b <= length (cells b)
  else (cells b = [] /\ blen b = 0) \/ (blen b < length (cells b) /\ nth (blen b) (cells b) junk = 0%N).

(* ---------------------------------------------------------------------------------------- *)
(* (d) static buffers refuse every mutation                                                  *)

Lemma static_refuses b o : bstatic b = true ->
  match o with
  | OCreate _ _ | OStaCreate _ | ODuplicate => True                   (* these make a new buffer *)
  | OLen | OGetChar _ | OCompare _ | OCompareCstr _ | OSplitWords
  | OSearchChar _ _ | OSearch _ _ | OSearchCstr _ _ | OOnlyWs => fst (step b o) = b   (* read-only *)
  | ONoSpaces => step b o = (b, RVoid)
  | _ => step b o = (b, RBool false)
  end.
Proof.
  intros H. destruct o; cbn [step]; auto.
  all: try (unfold rb, rob, set_char, insert, insert_cstr, append, append_data, append_cstr, append_char,
      append_mb_uint_32, delete, shrink_blanks, strip_blanks, no_spaces, hex_to_binary, binary_to_hex,
      decode_base64, encode_base64, remove_trailing_zeros; rewrite H; reflexivity).
  - destruct (split_words b); reflexivity.
  - unfold rsearch. destruct (search _ _ _); reflexivity.
  - unfold rsearch. destruct (search_cstr _ _ _); reflexivity.
Qed.

(* ---------------------------------------------------------------------------------------- *)
(* (c) out-of-range positions fail without effect                                            *)

Lemma insert_data_out_of_range b pos data : (N.of_nat (blen b) < pos)%N -> insert_data b pos data = (b, false).
Proof.
  intros H. unfold insert_data. apply N.ltb_lt in H. rewrite H.
  now rewrite !orb_true_r.
Qed.

Lemma insert_out_of_range b src pos : (N.of_nat (blen b) < pos)%N -> insert b src pos = (b, false).
Proof. intros H. unfold insert. destruct (bstatic b); auto using insert_data_out_of_range. Qed.

Lemma insert_cstr_out_of_range b str pos : (N.of_nat (blen b) < pos)%N -> insert_cstr b str pos = (b, false).
Proof. intros H. unfold insert_cstr. destruct (bstatic b); auto using insert_data_out_of_range. Qed.

Lemma delete_out_of_range b pos n : (N.of_nat (blen b) <= pos)%N -> delete b pos n = (b, false).
Proof. intros H. unfold delete. apply N.leb_le in H. rewrite H. now destruct (bstatic b). Qed.

Lemma set_char_out_of_range b pos ch : (N.of_nat (blen b) <= pos)%N -> set_char b pos ch = (b, false).
Proof. intros H. unfold set_char. apply N.leb_le in H. rewrite H. now rewrite orb_true_r. Qed.

Lemma get_char_out_of_range b pos : (N.of_nat (blen b) <= pos)%N -> get_char b pos = None.
Proof. intros H. unfold get_char. apply N.leb_le in H. now rewrite H. Qed.

Lemma search_char_out_of_range b ch pos : (N.of_nat (blen b) <= pos)%N -> search_char b ch pos = None.
Proof. intros H. unfold search_char. apply N.leb_le in H. now rewrite H. Qed.

(* ---------------------------------------------------------------------------------------- *)
(* list and memory-primitive lemmas                                                          *)

Lemma firstn_app_l {A} n (a b : list A) : n = length a -> firstn n (a ++ b) = a.
Proof. intros ->. rewrite firstn_app, Nat.sub_diag, firstn_all. cbn. apply app_nil_r. Qed.

Lemma skipn_app_l {A} n (a b : list A) : n = length a -> skipn n (a ++ b) = b.
Proof. intros ->. rewrite skipn_app, Nat.sub_diag, skipn_all. reflexivity. Qed.

Lemma skipn_app_l2 {A} n k (a b : list A) : n = length a + k -> skipn n (a ++ b) = skipn k b.
Proof.
  intros ->. rewrite skipn_app. replace (length a + k - length a) with k by lia.
  rewrite skipn_all2 by lia. reflexivity.
Qed.

Lemma firstn_app_l2 {A} n k (a b : list A) : n = length a + k -> firstn n (a ++ b) = a ++ firstn k b.
Proof. intros ->. apply firstn_app_2. Qed.

Lemma skipn_skipn {A} a b (l : list A) : skipn a (skipn b l) = skipn (b + a) l.
Proof. revert l. induction b; intros l; [reflexivity|]. destruct l; cbn; [now rewrite skipn_nil | apply IHb]. Qed.

Lemma split3 {A} (l : list A) a b : l = firstn a l ++ firstn b (skipn a l) ++ skipn (a + b) l.
Proof. rewrite <- (firstn_skipn a l) at 1. f_equal. rewrite <- (firstn_skipn b (skipn a l)) at 1. f_equal. now rewrite skipn_skipn. Qed.

Lemma blit_at b pre mid post src n : cells b = pre ++ mid ++ post -> length mid = length src -> n = length pre ->
  blit b n src = set_cells b (pre ++ src ++ post).
Proof.
  intros H Hl ->. unfold blit. rewrite H, !app_length.
  replace (length pre + length src <=? length pre + (length mid + length post)) with true
    by (symmetry; apply Nat.leb_le; lia).
  f_equal. rewrite firstn_app_l by reflexivity. f_equal. f_equal.
  rewrite skipn_app_l2 with (k := length src) by reflexivity. apply skipn_app_l. lia.
Qed.

Lemma memmove_at b a m c pre mid post dst src n :
  cells b = a ++ m ++ c -> cells b = pre ++ mid ++ post -> length mid = length m ->
  dst = length pre -> src = length a -> n = length m ->
  memmove b dst src n = set_cells b (pre ++ m ++ post).
Proof.
  intros H1 H2 Hl -> -> ->. unfold memmove.
  assert (Hs : firstn (length m) (skipn (length a) (cells b)) = m).
  { rewrite H1. rewrite skipn_app_l by reflexivity. now apply firstn_app_l. }
  rewrite Hs.
  replace (length a + length m <=? length (cells b)) with true
    by (symmetry; apply Nat.leb_le; rewrite H1, !app_length; lia).
  eapply blit_at; eauto.
Qed.

Lemma poke_at b pre x post v n : cells b = pre ++ x :: post -> n = length pre ->
  poke b n v = set_cells b (pre ++ v :: post).
Proof. intros H ->. unfold poke. apply (blit_at b pre [x] post [v]); auto. Qed.

(* ---------------------------------------------------------------------------------------- *)
(* representation of a well-formed dynamic buffer                                            *)

Definition dyn (s rest : list N) : buf := mkbuf (s ++ 0%N :: rest) (length s) false false.
Definition empty_dyn : buf := mkbuf [] 0 false false.

(* b is a dynamic buffer in good shape holding s *)
Definition R (b : buf) (s : list N) : Prop := (b = empty_dyn /\ s = []) \/ exists rest, b = dyn s rest.

Lemma contents_dyn s rest : contents (dyn s rest) = s.
Proof. unfold contents, dyn. cbn. now apply firstn_app_l. Qed.

Lemma R_contents b s : R b s -> contents b = s /\ bstatic b = false /\ blen b = length s.
Proof. intros [(-> & ->) | (rest & ->)]; [now cbn | split; [apply contents_dyn | now cbn]]. Qed.

Lemma R_Inv b s : R b s -> Inv b.
Proof.
  intros [(-> & ->) | (rest & ->)]; unfold Inv; cbn; split; auto.
  right. rewrite app_length. cbn. split; [lia|]. rewrite app_nth2 by lia. now rewrite Nat.sub_diag.
Qed.

Lemma Inv_R b : Inv b -> bstatic b = false -> R b (contents b).
Proof.
  destruct b as [c n st f]. unfold Inv, R, contents, dyn, empty_dyn. cbn. intros (-> & H) ->.
  destruct H as [(-> & ->) | (Hlt & Hz)]; [now left|right].
  exists (skipn (S n) c). rewrite firstn_length. replace (Nat.min n (length c)) with n by lia.
  f_equal. rewrite <- (firstn_skipn n c) at 1. f_equal.
  destruct (skipn n c) as [|x r] eqn:E.
  { apply (f_equal (@length N)) in E. rewrite skipn_length in E. cbn in E. lia. }
  assert (x = 0%N).
  { rewrite <- Hz. rewrite <- (firstn_skipn n c) at 1. rewrite app_nth2; rewrite firstn_length; [|lia].
    replace (n - Nat.min n (length c)) with 0 by lia. now rewrite E. }
  subst x. f_equal. replace (S n) with (n + 1) by lia. rewrite <- skipn_skipn, E. reflexivity.
Qed.

(* ---------------------------------------------------------------------------------------- *)
(* grow_buff, insert_data                                                                    *)

Definition raw (s T : list N) : buf := mkbuf (s ++ T) (length s) false false.

Lemma dyn_raw s rest : dyn s rest = raw s (0%N :: rest).
Proof. reflexivity. Qed.

Lemma grow_raw s T size : exists T',
  grow_buff (raw s T) size = (raw s T', true) /\ size + 1 <= length T'.
Proof.
  unfold grow_buff, raw, malloced, set_cells. cbn [bstatic blen cells bfault].
  destruct (length (s ++ T) <? length s + S size) eqn:E.
  - apply Nat.ltb_lt in E.
    eexists (T ++ repeat junk _). rewrite <- app_assoc. split; [reflexivity|].
    rewrite app_length, repeat_length. rewrite app_length in *.
    destruct (_ <? _) eqn:E2; [apply Nat.ltb_lt in E2 | apply Nat.ltb_ge in E2]; lia.
  - apply Nat.ltb_ge in E. exists T. split; [reflexivity|]. rewrite app_length in E. lia.
Qed.

Lemma insert_data_raw s T p data : data <> [] -> p <= length s -> exists rest',
  insert_data (raw s T) (N.of_nat p) data = (dyn (insert_spec s p data) rest', true).
Proof.
  intros Hd Hp. unfold insert_data.
  assert (Hl : 0 < length data) by (destruct data; [congruence | cbn; lia]).
  replace (bstatic (raw s T)) with false by reflexivity.
  replace (length data =? 0) with false by (symmetry; apply Nat.eqb_neq; lia).
  replace (N.of_nat (blen (raw s T)) <? N.of_nat p)%N with false by (symmetry; apply N.ltb_ge; cbn; lia).
  cbn [orb]. rewrite Nat2N.id.
  destruct (grow_raw s T (length data)) as (T' & -> & HT'). cbn [negb].
  set (s1 := firstn p s). set (s2 := skipn p s).
  assert (Hs : s = s1 ++ s2) by (symmetry; apply firstn_skipn).
  assert (Hl1 : length s1 = p) by (unfold s1; rewrite firstn_length; lia).
  assert (Hl2 : length s2 = length s - p) by (unfold s2; now rewrite skipn_length).
  (* the cell right after the inserted text and what follows it *)
  destruct (skipn (length data) T') as [|x T''] eqn:ET.
  { apply (f_equal (@length N)) in ET. rewrite skipn_length in ET. cbn in ET. lia. }
  exists T''. unfold insert_spec. fold s1 s2.
  assert (Hfin : forall b2, cells b2 = s1 ++ firstn (length data) (s2 ++ T') ++ s2 ++ x :: T'' ->
            blen b2 = length s -> bstatic b2 = false -> bfault b2 = false ->
            (let b3 := blit b2 p data in let b4 := set_len b3 (blen b3 + length data) in poke b4 (blen b4) 0%N)
            = dyn (s1 ++ data ++ s2) T'').
  { intros b2 Hc Hbl Hst Hf. cbn zeta.
    rewrite (blit_at b2 s1 (firstn (length data) (s2 ++ T')) (s2 ++ x :: T'') data p); auto.
    2:{ rewrite firstn_length, app_length. lia. }
    unfold set_len, set_cells. cbn [cells blen bstatic bfault].
    erewrite (poke_at _ (s1 ++ data ++ s2) x T''); cbn [cells].
    2:{ now rewrite <- !app_assoc. }
    2:{ rewrite Hbl, Hs, !app_length. lia. }
    unfold set_cells, dyn. cbn [cells blen bstatic bfault]. rewrite Hst, Hf, Hbl. f_equal.
    rewrite Hs, !app_length. lia. }
  f_equal.
  assert (HU : cells (raw s T') = s1 ++ s2 ++ T') by (unfold raw; cbn [cells]; rewrite Hs at 1; now rewrite <- app_assoc).
  destruct (p <? blen (raw s T')) eqn:E.
  - (* memmove of the tail s2 by |data| cells *)
    erewrite (memmove_at (raw s T') s1 s2 T' (s1 ++ firstn (length data) (s2 ++ T'))
                (firstn (length s2) (skipn (length data) (s2 ++ T')))
                (skipn (length data + length s2) (s2 ++ T'))).
    + apply Hfin; auto. unfold set_cells. cbn [cells].
      rewrite (skipn_app_l2 _ (length data)) by lia. rewrite ET. rewrite <- ?app_assoc. reflexivity.
    + exact HU.
    + rewrite HU, <- app_assoc. f_equal. apply split3.
    + rewrite firstn_length, skipn_length, app_length. lia.
    + rewrite app_length, firstn_length, app_length. lia.
    + lia.
    + cbn [blen raw]. lia.
  - (* appending: nothing to move *)
    apply Nat.ltb_ge in E. cbn [blen raw] in E.
    assert (s2 = []) by (apply length_zero_iff_nil; lia). 
    apply Hfin; auto. rewrite HU, H. cbn [app]. f_equal.
    rewrite <- (firstn_skipn (length data) T') at 1. now rewrite ET.
Qed.

(* ---------------------------------------------------------------------------------------- *)
(* delete, set_char, create                                                                  *)

Lemma delete_dyn s rest p k : p < length s -> 0 < k -> p + k <= length s -> exists rest',
  delete (dyn s rest) (N.of_nat p) (N.of_nat k) = (dyn (delete_spec s p k) rest', true).
Proof.
  intros Hp Hk Hpk. unfold delete. cbn [bstatic dyn blen].
  replace (N.of_nat (length s) <=? N.of_nat p)%N with false by (symmetry; apply N.leb_gt; lia).
  replace (N.of_nat k =? 0)%N with false by (symmetry; apply N.eqb_neq; lia).
  cbn [orb]. rewrite !Nat2N.id.
  replace (length s <? p + k) with false by (symmetry; apply Nat.ltb_ge; lia).
  set (s1 := firstn p s). set (sm := firstn k (skipn p s)). set (s3 := skipn (p + k) s).
  assert (Hs : s = s1 ++ sm ++ s3) by apply split3.
  assert (Hl1 : length s1 = p) by (unfold s1; rewrite firstn_length; lia).
  assert (Hlm : length sm = k) by (unfold sm; rewrite firstn_length, skipn_length; lia).
  assert (Hl3 : length s3 = length s - p - k) by (unfold s3; rewrite skipn_length; lia).
  destruct (skipn (length s3) (sm ++ s3)) as [|x W] eqn:EW.
  { apply (f_equal (@length N)) in EW. rewrite skipn_length, app_length in EW. cbn in EW. lia. }
  exists (W ++ 0%N :: rest). f_equal. unfold delete_spec. fold s1 s3.
  assert (Hc : s ++ 0%N :: rest = (s1 ++ sm) ++ s3 ++ 0%N :: rest).
  { rewrite Hs at 1. now rewrite <- !app_assoc. }
  erewrite (memmove_at _ (s1 ++ sm) s3 (0%N :: rest) s1 (firstn (length s3) (sm ++ s3)) ((x :: W) ++ 0%N :: rest)).
  - unfold set_len, set_cells. cbn [cells blen bstatic bfault].
    erewrite (poke_at _ (s1 ++ s3) x (W ++ 0%N :: rest)); cbn [cells blen].
    + unfold set_cells, dyn. cbn [cells blen bstatic bfault]. f_equal. rewrite !app_length. lia.
    + now rewrite <- app_assoc.
    + cbn [blen dyn]. rewrite app_length. lia.
  - exact Hc.
  - cbn [cells dyn]. rewrite Hc, <- !app_assoc. f_equal. rewrite <- EW.
    rewrite (app_assoc (firstn _ _)), firstn_skipn. now rewrite <- app_assoc.
  - rewrite firstn_length, app_length. lia.
  - lia.
  - rewrite app_length. lia.
  - lia.
Qed.

Lemma set_char_dyn s rest p ch : p < length s ->
  set_char (dyn s rest) (N.of_nat p) ch = (dyn (set_spec s p ch) rest, true).
Proof.
  intros Hp. unfold set_char. cbn [bstatic dyn blen].
  replace (N.of_nat (length s) <=? N.of_nat p)%N with false by (symmetry; apply N.leb_gt; lia).
  cbn [orb]. rewrite Nat2N.id. f_equal.
  destruct (skipn p s) as [|x r] eqn:E.
  { apply (f_equal (@length N)) in E. rewrite skipn_length in E. cbn in E. lia. }
  assert (Hs : s = firstn p s ++ x :: r) by (now rewrite <- E, firstn_skipn).
  assert (Hr : skipn (S p) s = r).
  { replace (S p) with (p + 1) by lia. now rewrite <- skipn_skipn, E. }
  erewrite (poke_at _ (firstn p s) x (r ++ 0%N :: rest)).
  - unfold set_cells, dyn, set_spec. cbn [cells blen bstatic bfault]. rewrite Hr. f_equal.
    + now rewrite <- app_assoc.
    + rewrite app_length. cbn [length]. apply (f_equal (@length N)) in Hs. rewrite app_length in Hs. cbn [length] in Hs. lia.
  - cbn [cells dyn]. rewrite Hs at 1. now rewrite <- app_assoc.
  - rewrite firstn_length. lia.
Qed.

Lemma create_dyn_size data block : data <> [] -> (N.of_nat (length data) < create_size data block)%N ->
  exists rest, create data block = dyn data rest.
Proof.
  intros Hd Hb. unfold create. destruct data as [|d0 dr] eqn:Ed; [congruence|]. rewrite <- Ed in *.
  assert (Hl : 0 < length data) by (rewrite Ed; cbn; lia).
  set (m := create_size data block) in *.
  assert (Hm : length data + 1 <= N.to_nat m) by lia.
  destruct (skipn (length data) (repeat junk (N.to_nat m))) as [|x W] eqn:EW.
  { apply (f_equal (@length N)) in EW. rewrite skipn_length, repeat_length in EW. cbn in EW. lia. }
  exists W.
  erewrite (blit_at _ [] (firstn (length data) (repeat junk (N.to_nat m))) (x :: W) data 0).
  - unfold set_cells. cbn [cells blen bstatic bfault app].
    erewrite (poke_at _ data x W); cbn [cells]; reflexivity.
  - cbn [cells app]. now rewrite <- EW, firstn_skipn.
  - rewrite firstn_length, repeat_length. lia.
  - reflexivity.
Qed.

Lemma no_wrap_size data block : (N.of_nat (length data) + 1 + block < 4294967296)%N ->
  (N.of_nat (length data) < create_size data block)%N.
Proof.
  intros Hb. unfold create_size, u32. rewrite !N.mod_small by lia.
  destruct (_ <? _)%N eqn:E; [apply N.ltb_lt in E | apply N.ltb_ge in E]; lia.
Qed.

(* duplicate: create_real (.., len, len) *)
Lemma create_size_self data : (N.of_nat (length data) + 1 < 4294967296)%N ->
  (N.of_nat (length data) < create_size data (N.of_nat (length data)))%N.
Proof.
  intros Hb. unfold create_size. rewrite N.ltb_irrefl. unfold u32. rewrite N.mod_small by lia. lia.
Qed.

Lemma create_dyn data block : data <> [] -> (N.of_nat (length data) + 1 + block < 4294967296)%N ->
  exists rest, create data block = dyn data rest.
Proof. intros Hd Hb. apply create_dyn_size; [exact Hd | now apply no_wrap_size]. Qed.

(* ---------------------------------------------------------------------------------------- *)
(* the core operations on a well-formed dynamic buffer: result again well-formed, contents   *)
(* and return value as the plain-sequence specification says                                 *)

Lemma R_raw b s : R b s -> exists T, b = raw s T.
Proof. intros [(-> & ->) | (rest & ->)]; [now exists [] | now exists (0%N :: rest)]. Qed.

Lemma insert_data_R b s pos data : R b s ->
  R (fst (insert_data b pos data)) (fst (ins s pos data)) /\
  RBool (snd (insert_data b pos data)) = snd (ins s pos data).
Proof.
  intros HR. unfold ins. destruct data as [|d0 dr] eqn:Ed.
  { unfold insert_data. cbn [length Nat.eqb]. rewrite orb_true_r. cbn. auto. }
  rewrite <- Ed. assert (Hd : data <> []) by (rewrite Ed; discriminate).
  destruct (R_contents _ _ HR) as (_ & Hst & Hlen).
  destruct (N.of_nat (length s) <? pos)%N eqn:E.
  { apply N.ltb_lt in E. rewrite insert_data_out_of_range by (rewrite Hlen; exact E). cbn. auto. }
  apply N.ltb_ge in E. destruct (R_raw _ _ HR) as (T & ->).
  destruct (insert_data_raw s T (N.to_nat pos) data Hd) as (rest' & H); [lia|].
  rewrite N2Nat.id in H. rewrite H. cbn [fst snd]. split; [right; now exists rest' | reflexivity].
Qed.

Definition del (s : list N) (pos n : N) : list N * ret :=
  if (N.of_nat (length s) <=? pos)%N || (n =? 0)%N then (s, RBool false)
  else (delete_spec s (N.to_nat pos) (N.to_nat n), RBool true).

Lemma delete_R b s pos n : R b s ->
  ((N.of_nat (length s) <= pos)%N \/ n = 0%N \/ (pos + n <= N.of_nat (length s))%N) ->
  R (fst (delete b pos n)) (fst (del s pos n)) /\ RBool (snd (delete b pos n)) = snd (del s pos n).
Proof.
  intros HR Hc. unfold del. destruct (R_contents _ _ HR) as (_ & Hst & Hlen).
  destruct ((N.of_nat (length s) <=? pos)%N || (n =? 0)%N) eqn:E.
  { unfold delete. rewrite Hst, Hlen, E. cbn. auto. }
  apply orb_false_elim in E. destruct E as (E1 & E2). apply N.leb_gt in E1. apply N.eqb_neq in E2.
  destruct HR as [(-> & ->) | (rest & ->)]; [cbn in E1; lia|].
  destruct (delete_dyn s rest (N.to_nat pos) (N.to_nat n)) as (rest' & H); try lia.
  rewrite !N2Nat.id in H. rewrite H. cbn [fst snd]. split; [right; now exists rest' | reflexivity].
Qed.

Definition setc (s : list N) (pos ch : N) : list N * ret :=
  if (N.of_nat (length s) <=? pos)%N then (s, RBool false) else (set_spec s (N.to_nat pos) ch, RBool true).

Lemma set_char_R b s pos ch : R b s ->
  R (fst (set_char b pos ch)) (fst (setc s pos ch)) /\ RBool (snd (set_char b pos ch)) = snd (setc s pos ch).
Proof.
  intros HR. unfold setc. destruct (R_contents _ _ HR) as (_ & Hst & Hlen).
  destruct (N.of_nat (length s) <=? pos)%N eqn:E.
  { apply N.leb_le in E. rewrite set_char_out_of_range by (rewrite Hlen; exact E). cbn. auto. }
  apply N.leb_gt in E. destruct HR as [(-> & ->) | (rest & ->)]; [cbn in E; lia|].
  pose proof (set_char_dyn s rest (N.to_nat pos) ch) as H. rewrite N2Nat.id in H. rewrite H by lia.
  cbn [fst snd]. split; [right; now exists rest | reflexivity].
Qed.

Lemma insert_spec_end s data : insert_spec s (length s) data = s ++ data.
Proof. unfold insert_spec. now rewrite firstn_all, skipn_all, app_nil_r. Qed.

Lemma append_data_R b s data : R b s ->
  R (fst (append_data b data)) (s ++ data) /\ snd (append_data b data) = true.
Proof.
  intros HR. destruct (R_contents _ _ HR) as (_ & Hst & Hlen). unfold append_data. rewrite Hst.
  destruct data as [|d0 dr] eqn:Ed; [rewrite app_nil_r; auto|]. rewrite <- Ed.
  destruct (insert_data_R b s (N.of_nat (blen b)) data HR) as (H1 & H2).
  unfold ins in *. rewrite Ed in H1, H2 at 1. rewrite <- Ed in *.
  rewrite Hlen in *. rewrite N.ltb_irrefl in *. rewrite Nat2N.id, insert_spec_end in H1.
  cbn [fst snd] in *. rewrite Ed in H2 at 2. cbn [snd] in H2. split; [exact H1 | congruence].
Qed.

Lemma create_R_size data block : (N.of_nat (length data) < create_size data block)%N -> R (create data block) data.
Proof.
  intros H. destruct data as [|d0 dr] eqn:E; [left; auto|]. rewrite <- E in *.
  destruct (create_dyn_size data block) as (rest & ->); [rewrite E; discriminate | exact H |]. right. now exists rest.
Qed.

(* whatever the arguments: if create does not return NULL the buffer is well-formed and holds data *)
Lemma create_opt_R data block b : create_opt data block = Some b -> R b data.
Proof.
  unfold create_opt. destruct data as [|d0 dr] eqn:E.
  - intros H. inversion H. left. auto.
  - rewrite <- E. destruct (_ <=? _)%N eqn:El; [discriminate|]. intros H. inversion H.
    apply create_R_size. now apply N.leb_gt.
Qed.

Lemma create_R data block : (N.of_nat (length data) + 1 + block < 4294967296)%N -> R (create data block) data.
Proof.
  intros H. destruct data as [|d0 dr] eqn:E; [left; auto|]. rewrite <- E in *.
  destruct (create_dyn data block) as (rest & ->); [rewrite E; discriminate | exact H |]. right. now exists rest.
Qed.

(* ---------------------------------------------------------------------------------------- *)
(* read-only operations (static buffers included): they see exactly the contents             *)

Definition Wf (b : buf) : Prop := blen b <= length (cells b).

Lemma Inv_Wf b : Inv b -> Wf b.
Proof.
  unfold Inv, Wf. intros (_ & H). destruct (bstatic b); [exact H|].
  destruct H as [(-> & ->) | (H & _)]; cbn; lia.
Qed.

Lemma contents_length b : Wf b -> length (contents b) = blen b.
Proof. unfold Wf, contents. intros H. rewrite firstn_length. lia. Qed.

Lemma nth_error_firstn {A} n (l : list A) p : p < n -> nth_error (firstn n l) p = nth_error l p.
Proof.
  revert l p. induction n; intros l p H; [lia|]. destruct l; [now destruct p|].
  destruct p; cbn; [reflexivity | apply IHn; lia].
Qed.

Lemma get_char_spec b pos : Wf b ->
  get_char b pos = if (N.of_nat (length (contents b)) <=? pos)%N then None else nth_error (contents b) (N.to_nat pos).
Proof.
  intros H. unfold get_char. rewrite contents_length by exact H.
  destruct (N.of_nat (blen b) <=? pos)%N eqn:E; [reflexivity|]. apply N.leb_gt in E.
  unfold contents. rewrite nth_error_firstn by lia. symmetry. apply nth_error_nth'. unfold Wf in H. lia.
Qed.

Lemma memcmp_lex a b :
  lex_compare a b =
  match memcmp (firstn (Nat.min (length a) (length b)) a) (firstn (Nat.min (length a) (length b)) b) with
  | Eq => if length a <? length b then Lt else if length b <? length a then Gt else Eq
  | c => c
  end.
Proof.
  revert b. induction a as [|x a IH]; intros [|y b]; cbn [length Nat.min firstn memcmp lex_compare]; auto.
  destruct (x ?= y)%N; auto. rewrite IH.
  change (S (length a) <? S (length b)) with (length a <? length b).
  change (S (length b) <? S (length a)) with (length b <? length a). reflexivity.
Qed.

Lemma firstn_contents b n : n <= blen b -> firstn n (cells b) = firstn n (contents b).
Proof. intros H. unfold contents. rewrite firstn_firstn. f_equal. lia. Qed.

Lemma compare_data_spec b d2 l2 : Wf b -> l2 <= length d2 ->
  compare_data b d2 l2 = lex_compare (contents b) (firstn l2 d2).
Proof.
  intros Hw Hl. unfold compare_data. rewrite memcmp_lex, contents_length by exact Hw.
  rewrite firstn_length. replace (Nat.min l2 (length d2)) with l2 by lia.
  rewrite firstn_firstn. replace (Nat.min (Nat.min (blen b) l2) l2) with (Nat.min (blen b) l2) by lia.
  rewrite <- firstn_contents by lia.
  destruct (Nat.min (blen b) l2 =? 0) eqn:E; [|reflexivity].
  apply Nat.eqb_eq in E. rewrite E. cbn [firstn memcmp].
  destruct (blen b) as [|n]; destruct l2 as [|m]; cbn in *; try reflexivity; lia.
Qed.

Lemma find_char_index ch l idx :
  find_char ch l idx = option_map (fun k => (idx + N.of_nat k)%N) (index_of ch l).
Proof.
  revert idx. induction l as [|x r IH]; intros idx; cbn [find_char index_of option_map]; [reflexivity|].
  destruct (x =? ch)%N; cbn [option_map]; [f_equal; lia|].
  rewrite IH. destruct (index_of ch r); cbn [option_map]; [f_equal; lia | reflexivity].
Qed.

Lemma search_char_spec_ok b ch pos : Wf b -> search_char b ch pos = search_char_spec (contents b) ch pos.
Proof.
  intros Hw. unfold search_char, search_char_spec. rewrite contents_length by exact Hw.
  destruct (N.of_nat (blen b) <=? pos)%N; [reflexivity|].
  rewrite find_char_index. unfold contents. rewrite skipn_firstn_comm.
  destruct (index_of _ _); reflexivity.
Qed.

(* ---------------------------------------------------------------------------------------- *)
(* one step of any operation sequence                                                        *)

Lemma abs_R b s : R b s -> abs b = (s, false).
Proof. intros H. destruct (R_contents _ _ H) as (Hc & Hs & _). unfold abs. now rewrite Hc, Hs. Qed.

Lemma mut_dynamic s refused f : mut (s, false) refused f = ((fst (f s), false), snd (f s)).
Proof. unfold mut. cbn. now destruct (f s). Qed.

Lemma mut_static s refused f : mut (s, true) refused f = ((s, true), refused).
Proof. reflexivity. Qed.

Lemma create_other src : (N.of_nat (length src) + 22 <? 4294967296)%N = true ->
  contents (create src 1) = src /\ Wf (create src 1) /\ blen (create src 1) = length src.
Proof.
  intros H. apply N.ltb_lt in H. assert (HR : R (create src 1) src) by (apply create_R; lia).
  destruct (R_contents _ _ HR) as (H1 & _ & H3). split; [exact H1|]. split; [|exact H3].
  apply Inv_Wf. eapply R_Inv. exact HR.
Qed.

(* the result triple of one refinement step *)
Definition refines_step (b : buf) (o : op) : Prop :=
  abs (fst (step b o)) = fst (spec_step (abs b) o) /\
  snd (step b o) = snd (spec_step (abs b) o) /\
  Inv (fst (step b o)).

Lemma refines_R b o b' r s' r' : step b o = (b', r) -> spec_step (abs b) o = ((s', false), r') ->
  R b' s' -> r = r' -> refines_step b o.
Proof.
  intros H1 H2 HR ->. unfold refines_step. rewrite H1, H2. cbn [fst snd].
  split; [now apply abs_R | split; [reflexivity | eapply R_Inv; exact HR]].
Qed.

Lemma refines_readonly b o r : Inv b -> step b o = (b, r) -> spec_step (abs b) o = (abs b, r) -> refines_step b o.
Proof. intros HI H1 H2. unfold refines_step. rewrite H1, H2. cbn. auto. Qed.

(* a mutating operation on a static buffer *)
Ltac static_case b Hst HI :=
  apply (refines_readonly _ _ (RBool false) HI);
  [ pose proof (static_refuses b) as Hsr; match goal with |- step _ ?o = _ => specialize (Hsr o Hst); exact Hsr end
  | unfold abs; rewrite Hst; reflexivity ].

Lemma refines_set b pos ch : Inv b -> refines_step b (OSetChar pos ch).
Proof.
  intros HI. destruct (bstatic b) eqn:Hst; [static_case b Hst HI|].
  pose proof (Inv_R _ HI Hst) as HR. destruct (set_char_R _ _ pos ch HR) as (H1 & H2).
  eapply refines_R; [cbn [step]; unfold rb; reflexivity | | exact H1 | exact H2].
  unfold abs. rewrite Hst. cbn [spec_step]. rewrite mut_dynamic. reflexivity.
Qed.

Lemma refines_ins_data b pos data o :
  (forall b, bstatic b = false -> step b o = rb (insert_data b pos data)) ->
  (forall s, spec_step (s, false) o = mut (s, false) (RBool false) (fun s => ins s pos data)) ->
  (forall b, bstatic b = true -> step b o = (b, RBool false)) ->
  (forall s, spec_step (s, true) o = ((s, true), RBool false)) ->
  Inv b -> refines_step b o.
Proof.
  intros Hm Hs Hms Hss HI. destruct (bstatic b) eqn:Hst.
  { apply (refines_readonly _ _ (RBool false) HI); [now apply Hms | unfold abs; rewrite Hst; apply Hss]. }
  pose proof (Inv_R _ HI Hst) as HR. destruct (insert_data_R _ _ pos data HR) as (H1 & H2).
  eapply refines_R; [rewrite Hm by exact Hst; unfold rb; reflexivity | | exact H1 | exact H2].
  unfold abs. rewrite Hst, Hs, mut_dynamic. reflexivity.
Qed.

Lemma refines_insert b src pos : Inv b -> op_ok (abs b) (OInsert src pos) = true -> refines_step b (OInsert src pos).
Proof.
  intros HI Hok. cbn [op_ok] in Hok. destruct (create_other src Hok) as (Hc & _ & _).
  apply (refines_ins_data b pos src); auto.
  - intros b0 H0. cbn [step]. unfold insert. now rewrite H0, Hc.
  - intros b0 H0. cbn [step]. unfold insert. now rewrite H0.
Qed.

Lemma refines_insert_cstr b str pos : Inv b -> refines_step b (OInsertCstr str pos).
Proof.
  intros HI. apply (refines_ins_data b pos (cstr str)); auto.
  - intros b0 H0. cbn [step]. unfold insert_cstr. now rewrite H0.
  - intros b0 H0. cbn [step]. unfold insert_cstr. now rewrite H0.
Qed.

Lemma refines_app_data b data o :
  (forall b, bstatic b = false -> step b o = rb (append_data b data)) ->
  (forall s, spec_step (s, false) o = mut (s, false) (RBool false) (fun s => app_ s data)) ->
  (forall b, bstatic b = true -> step b o = (b, RBool false)) ->
  (forall s, spec_step (s, true) o = ((s, true), RBool false)) ->
  Inv b -> refines_step b o.
Proof.
  intros Hm Hs Hms Hss HI. destruct (bstatic b) eqn:Hst.
  { apply (refines_readonly _ _ (RBool false) HI); [now apply Hms | unfold abs; rewrite Hst; apply Hss]. }
  pose proof (Inv_R _ HI Hst) as HR. destruct (append_data_R _ _ data HR) as (H1 & H2).
  eapply refines_R; [rewrite Hm by exact Hst; unfold rb; reflexivity | | exact H1 | now rewrite H2].
  unfold abs. rewrite Hst, Hs, mut_dynamic. reflexivity.
Qed.

Ltac app_case := intros b0 H0; cbn [step]; unfold append, append_cstr, append_mb_uint_32, append_data; now rewrite ?H0.

Lemma refines_append b src : Inv b -> op_ok (abs b) (OAppend src) = true -> refines_step b (OAppend src).
Proof.
  intros HI Hok. cbn [op_ok] in Hok. destruct (create_other src Hok) as (Hc & _ & _).
  apply (refines_app_data b src); auto; try app_case.
  intros b0 H0. cbn [step]. unfold append. now rewrite H0, Hc.
Qed.

Lemma refines_append_data b data : Inv b -> refines_step b (OAppendData data).
Proof. intros HI. apply (refines_app_data b data); auto; app_case. Qed.

Lemma refines_append_cstr b str : Inv b -> refines_step b (OAppendCstr str).
Proof.
  intros HI. apply (refines_app_data b (cstr str)); auto; app_case.
Qed.

Lemma refines_append_mb b v : Inv b -> refines_step b (OAppendMb v).
Proof.
  intros HI. apply (refines_app_data b (mb_write v)); auto; app_case.
Qed.

Lemma refines_append_char b ch : Inv b -> refines_step b (OAppendChar ch).
Proof.
  intros HI. apply (refines_app_data b [ch]); auto.
  - intros b0 H0. cbn [step]. unfold append_char, append_data. now rewrite H0.
Qed.

Lemma refines_delete b pos n : Inv b -> op_ok (abs b) (ODelete pos n) = true -> refines_step b (ODelete pos n).
Proof.
  intros HI Hok. destruct (bstatic b) eqn:Hst; [static_case b Hst HI|].
  pose proof (Inv_R _ HI Hst) as HR.
  assert (Hc : (N.of_nat (length (contents b)) <= pos)%N \/ n = 0%N \/ (pos + n <= N.of_nat (length (contents b)))%N).
  { unfold op_ok, abs in Hok. cbn [fst snd] in Hok. rewrite Hst in Hok. cbn [orb] in Hok.
    apply orb_true_iff in Hok. destruct Hok as [Hok | Hok]; [apply orb_true_iff in Hok; destruct Hok as [Hok | Hok]|].
    - left. now apply N.leb_le. - right. left. now apply N.eqb_eq. - right. right. now apply N.leb_le. }
  destruct (delete_R _ _ pos n HR Hc) as (H1 & H2).
  eapply refines_R; [cbn [step]; unfold rb; reflexivity | | exact H1 | exact H2].
  unfold abs. rewrite Hst. cbn [spec_step]. rewrite mut_dynamic. reflexivity.
Qed.

(* the 32-bit size computation refuses exactly what the specification's limit says *)
Lemma create_size_refused data block : data <> [] ->
  (N.of_nat (length data) < 4294967296)%N -> (block < 4294967296)%N ->
  (create_size data block <=? N.of_nat (length data))%N = create_refused (N.of_nat (length data)) block.
Proof.
  intros Hd Hl Hb. assert (H0 : (0 < N.of_nat (length data))%N) by (destruct data; [congruence | cbn; lia]).
  unfold create_refused, create_size, u32. set (n := N.of_nat (length data)) in *.
  replace (0 <? n)%N with true by (symmetry; apply N.ltb_lt; exact H0). cbn [andb].
  destruct (N.eq_dec block 4294967295) as [-> | Hb1].
  { change ((4294967295 + 1) mod 4294967296)%N with 0%N.
    replace (4294967295 <=? 4294967295)%N with true by reflexivity. rewrite orb_true_r. cbn [orb].
    destruct (N.eq_dec n 4294967295) as [-> | Hn1]; [reflexivity|].
    rewrite (N.mod_small (n + 1)) by lia. replace (0 <? n + 1)%N with true by (symmetry; apply N.ltb_lt; lia).
    replace ((n + 1 + 4294967295) mod 4294967296)%N with n.
    - apply N.leb_refl.
    - replace (n + 1 + 4294967295)%N with (n + 1 * 4294967296)%N by lia. rewrite N.mod_add by lia. now rewrite N.mod_small. }
  rewrite (N.mod_small (block + 1)) by lia.
  replace (4294967295 <=? block)%N with false by (symmetry; apply N.leb_gt; lia). rewrite orb_false_r.
  destruct (N.eq_dec n 4294967295) as [-> | Hn1].
  { change ((4294967295 + 1) mod 4294967296)%N with 0%N. replace (block + 1 <? 0)%N with false by (symmetry; apply N.ltb_ge; lia).
    replace (4294967295 <=? 4294967295)%N with true by reflexivity. cbn [orb]. apply N.leb_le. lia. }
  rewrite (N.mod_small (n + 1)) by lia.
  replace (4294967295 <=? n)%N with false by (symmetry; apply N.leb_gt; lia). cbn [orb].
  replace (block + 1 <? n + 1)%N with (block <? n)%N.
  2:{ destruct (block <? n)%N eqn:E; symmetry; [apply N.ltb_lt in E; apply N.ltb_lt | apply N.ltb_ge in E; apply N.ltb_ge]; lia. }
  destruct (block <? n)%N eqn:E; cbn [andb]; [apply N.ltb_lt in E | apply N.ltb_ge in E].
  - destruct (4294967296 <=? n + 1 + block)%N eqn:E2; [apply N.leb_le in E2 | apply N.leb_gt in E2].
    + replace ((n + 1 + block) mod 4294967296)%N with (n + 1 + block - 4294967296)%N.
      * apply N.leb_le. lia.
      * replace (n + 1 + block)%N with ((n + 1 + block - 4294967296) + 1 * 4294967296)%N at 2 by lia.
        rewrite N.mod_add by lia. rewrite N.mod_small; lia.
    + rewrite N.mod_small by lia. apply N.leb_gt. lia.
  - apply N.leb_gt. lia.
Qed.

Lemma refines_create b data block : Inv b -> op_ok (abs b) (OCreate data block) = true -> refines_step b (OCreate data block).
Proof.
  intros HI Hok. cbn [op_ok] in Hok. apply andb_true_iff in Hok. destruct Hok as (Hl & Hb).
  apply N.ltb_lt in Hl. apply N.ltb_lt in Hb.
  destruct (create_opt data block) as [b'|] eqn:Ec.
  - assert (Hs : create_refused (N.of_nat (length data)) block = false).
    { unfold create_opt in Ec. destruct data as [|d0 dr] eqn:E; [reflexivity|]. rewrite <- E in *.
      rewrite <- create_size_refused by (auto; rewrite E; discriminate). now destruct (_ <=? _)%N. }
    eapply refines_R; [cbn [step]; rewrite Ec; reflexivity | cbn [spec_step]; rewrite Hs; reflexivity
                       | now apply (create_opt_R data block) | reflexivity].
  - assert (Hs : create_refused (N.of_nat (length data)) block = true).
    { unfold create_opt in Ec. destruct data as [|d0 dr] eqn:E; [discriminate|]. rewrite <- E in *.
      rewrite <- create_size_refused by (auto; rewrite E; discriminate). now destruct (_ <=? _)%N. }
    eapply refines_readonly; [exact HI | cbn [step]; rewrite Ec; reflexivity | cbn [spec_step]; now rewrite Hs].
Qed.

Lemma refines_sta_create b data : refines_step b (OStaCreate data).
Proof.
  unfold refines_step. cbn [step spec_step fst snd]. unfold abs, sta_create, contents, Inv. cbn.
  rewrite firstn_all. auto.
Qed.

Lemma refines_duplicate b : Inv b -> op_ok (abs b) ODuplicate = true -> refines_step b ODuplicate.
Proof.
  intros HI Hok. cbn [op_ok abs fst] in Hok. apply N.ltb_lt in Hok.
  pose proof (contents_length b (Inv_Wf b HI)) as Hl.
  assert (Hsz : (N.of_nat (length (contents b)) < create_size (contents b) (N.of_nat (blen b)))%N).
  { rewrite <- Hl. apply create_size_self. lia. }
  assert (Hd : duplicate_opt b = Some (duplicate b)).
  { unfold duplicate_opt, duplicate, create_opt. destruct (contents b) eqn:E; [reflexivity|]. rewrite <- E in *.
    now replace (_ <=? _)%N with false by (symmetry; apply N.leb_gt; exact Hsz). }
  eapply refines_R; [cbn [step]; rewrite Hd; reflexivity | reflexivity | | reflexivity].
  unfold duplicate. now apply create_R_size.
Qed.

Lemma refines_len b : Inv b -> refines_step b OLen.
Proof.
  intros HI. eapply refines_readonly; [exact HI | reflexivity |]. cbn [spec_step]. unfold len.
  now rewrite <- (contents_length b (Inv_Wf b HI)).
Qed.

Lemma refines_get b pos : Inv b -> refines_step b (OGetChar pos).
Proof.
  intros HI. eapply refines_readonly; [exact HI | reflexivity |]. cbn [spec_step].
  now rewrite (get_char_spec b pos (Inv_Wf b HI)).
Qed.

Lemma refines_onlyws b : Inv b -> refines_step b OOnlyWs.
Proof. intros HI. eapply refines_readonly; [exact HI | reflexivity | reflexivity]. Qed.

Lemma refines_search_char b ch pos : Inv b -> refines_step b (OSearchChar ch pos).
Proof.
  intros HI. eapply refines_readonly; [exact HI | reflexivity |]. cbn [spec_step].
  now rewrite (search_char_spec_ok b ch pos (Inv_Wf b HI)).
Qed.

Lemma refines_compare b other : Inv b -> op_ok (abs b) (OCompare other) = true -> refines_step b (OCompare other).
Proof.
  intros HI Hok. cbn [op_ok] in Hok. destruct (create_other other Hok) as (Hc & Hw & Hl).
  eapply refines_readonly; [exact HI | reflexivity |]. cbn [spec_step abs fst]. unfold compare.
  rewrite compare_data_spec; [|now apply Inv_Wf | exact Hw]. fold (contents (create other 1)). now rewrite Hc.
Qed.

Lemma refines_compare_cstr b str : Inv b -> refines_step b (OCompareCstr str).
Proof.
  intros HI. eapply refines_readonly; [exact HI | reflexivity |]. cbn [spec_step abs fst]. unfold compare_cstr.
  rewrite compare_data_spec; [|now apply Inv_Wf | lia]. now rewrite firstn_all.
Qed.

(* ---------------------------------------------------------------------------------------- *)
(* the white-space loops                                                                     *)

Lemma get_char_R_mid b pre ch post : R b (pre ++ ch :: post) -> get_char b (N.of_nat (length pre)) = Some ch.
Proof.
  intros HR. destruct (R_contents _ _ HR) as (Hc & _ & _).
  rewrite get_char_spec by (apply Inv_Wf; eapply R_Inv; exact HR). rewrite Hc, app_length. cbn [length].
  replace (N.of_nat (length pre + S (length post)) <=? N.of_nat (length pre))%N with false by (symmetry; apply N.leb_gt; lia).
  rewrite Nat2N.id, nth_error_app2 by lia. now rewrite Nat.sub_diag.
Qed.

Lemma get_char_R_end b s pos : R b s -> (N.of_nat (length s) <= pos)%N -> get_char b pos = None.
Proof. intros HR H. destruct (R_contents _ _ HR) as (_ & _ & Hl). apply get_char_out_of_range. now rewrite Hl. Qed.

Lemma delete_R_mid b pre mid post : R b (pre ++ mid ++ post) -> mid <> [] ->
  exists b', delete b (N.of_nat (length pre)) (N.of_nat (length mid)) = (b', true) /\ R b' (pre ++ post).
Proof.
  intros HR Hm. assert (0 < length mid) by (destruct mid; [congruence | cbn; lia]).
  destruct (delete_R _ _ (N.of_nat (length pre)) (N.of_nat (length mid)) HR) as (H1 & H2).
  { right. right. rewrite !app_length. lia. }
  unfold del in *. rewrite !app_length in *.
  replace ((N.of_nat (length pre + (length mid + length post)) <=? N.of_nat (length pre))%N || (N.of_nat (length mid) =? 0)%N)
    with false in * by (symmetry; apply orb_false_intro; [apply N.leb_gt | apply N.eqb_neq]; lia).
  cbn [fst snd] in *. rewrite !Nat2N.id in H1.
  exists (fst (delete b (N.of_nat (length pre)) (N.of_nat (length mid)))). split.
  - destruct (delete _ _ _) as (b', r). cbn in *. congruence.
  - unfold delete_spec in H1. rewrite firstn_app_l in H1 by reflexivity.
    rewrite (skipn_app_l2 _ (length mid)) in H1 by reflexivity. now rewrite skipn_app_l in H1 by reflexivity.
Qed.

Lemma set_char_R_mid b pre ch post c : R b (pre ++ ch :: post) ->
  exists b', set_char b (N.of_nat (length pre)) c = (b', true) /\ R b' (pre ++ c :: post).
Proof.
  intros HR. destruct (set_char_R _ _ (N.of_nat (length pre)) c HR) as (H1 & H2).
  unfold setc in *. rewrite app_length in *. cbn [length] in *.
  replace (N.of_nat (length pre + S (length post)) <=? N.of_nat (length pre))%N with false in *
    by (symmetry; apply N.leb_gt; lia).
  cbn [fst snd] in *. rewrite Nat2N.id in H1.
  exists (fst (set_char b (N.of_nat (length pre)) c)). split.
  - destruct (set_char _ _ _) as (b', r). cbn in *. congruence.
  - unfold set_spec in H1. rewrite firstn_app_l in H1 by reflexivity.
    rewrite (skipn_app_l2 _ 1) in H1 by lia. exact H1.
Qed.

Lemma no_spaces_loop_ok post : forall pre b fuel, R b (pre ++ post) -> length post < fuel ->
  exists b', no_spaces_loop fuel b (N.of_nat (length pre)) = Some b' /\ R b' (pre ++ no_spaces_spec post).
Proof.
  induction post as [|ch r IH]; intros pre b fuel HR Hf; (destruct fuel as [|f]; [cbn in Hf; lia|]);
    destruct (R_contents _ _ HR) as (_ & _ & Hl); cbn [no_spaces_loop].
  - rewrite Hl, app_nil_r. rewrite N.ltb_irrefl. exists b. now rewrite app_nil_r in *.
  - rewrite Hl, app_length. cbn [length].
    replace (N.of_nat (length pre) <? N.of_nat (length pre + S (length r)))%N with true by (symmetry; apply N.ltb_lt; lia).
    rewrite (get_char_R_mid b pre ch r HR). cbn [no_spaces_spec filter].
    destruct (is_cspace ch) eqn:E; cbn [negb].
    + destruct (delete_R_mid b pre [ch] r HR) as (b' & Hd & HR'); [discriminate|].
      cbn [length] in Hd. change (N.of_nat 1) with 1%N in Hd. rewrite Hd. cbn [fst]. apply IH; [exact HR' | cbn in Hf; lia].
    + replace (N.of_nat (length pre) + 1)%N with (N.of_nat (length (pre ++ [ch]))) by (rewrite app_length; cbn; lia).
      destruct (IH (pre ++ [ch]) b f) as (b' & H1 & H2); [now rewrite <- app_assoc | cbn in Hf; lia|].
      exists b'. split; [exact H1|]. now rewrite <- app_assoc in H2.
Qed.

Lemma no_spaces_R b s : R b s ->
  exists b', no_spaces b = (b', true) /\ R b' (no_spaces_spec s).
Proof.
  intros HR. destruct (R_contents _ _ HR) as (_ & Hst & Hl). unfold no_spaces. rewrite Hst.
  destruct (no_spaces_loop_ok s [] b (S (blen b))) as (b' & H1 & H2); [exact HR | lia|].
  cbn [length] in H1. change (N.of_nat 0) with 0%N in H1. rewrite H1. now exists b'.
Qed.

Lemma rtz_loop_ok s : forall b fuel, R b s -> length s < fuel ->
  exists b', rtz_loop fuel b = Some b' /\ R b' (rtz_spec s).
Proof.
  induction s as [|ch pre IH] using rev_ind; intros b fuel HR Hf; (destruct fuel as [|f]; [cbn in Hf; lia|]);
    destruct (R_contents _ _ HR) as (_ & _ & Hl); cbn [rtz_loop]; rewrite Hl.
  - cbn. now exists b.
  - rewrite app_length in *. cbn [length] in *.
    replace (0 <? length pre + 1) with true by (symmetry; apply Nat.ltb_lt; lia).
    replace (N.of_nat (length pre + 1) - 1)%N with (N.of_nat (length pre)) by lia.
    rewrite (get_char_R_mid b pre ch [] HR). unfold rtz_spec. rewrite rev_app_distr. cbn [rev app drop_zeros].
    destruct (ch =? 0)%N eqn:E.
    + destruct (delete_R_mid b pre [ch] [] HR) as (b' & Hd & HR'); [discriminate|].
      cbn [length] in Hd. change (N.of_nat 1) with 1%N in Hd. rewrite Hd. cbn [fst].
      rewrite app_nil_r in HR'. apply IH; [exact HR' | lia].
    + exists b. split; [reflexivity|]. cbn [rev]. now rewrite rev_involutive.
Qed.

Lemma rtz_R b s : R b s -> exists b', remove_trailing_zeros b = (b', Some true) /\ R b' (rtz_spec s).
Proof.
  intros HR. destruct (R_contents _ _ HR) as (_ & Hst & Hl). unfold remove_trailing_zeros. rewrite Hst.
  destruct (rtz_loop_ok s b (S (blen b)) HR) as (b' & H1 & H2); [lia|]. rewrite H1. now exists b'.
Qed.

(* --- shrink_blanks ----------------------------------------------------------------------- *)

Fixpoint take_blanks (s : list N) : list N :=
  match s with c :: r => if is_cspace c then c :: take_blanks r else [] | [] => [] end.

Lemma take_drop s : s = take_blanks s ++ drop_blanks s.
Proof. induction s as [|c r IH]; cbn; [reflexivity|]. destruct (is_cspace c); cbn; [now f_equal | reflexivity]. Qed.

Lemma take_blanks_all s : forallb is_cspace (take_blanks s) = true.
Proof. induction s as [|c r IH]; cbn; [reflexivity|]. destruct (is_cspace c) eqn:E; cbn; [now rewrite E | reflexivity]. Qed.

Lemma drop_blanks_head s : match drop_blanks s with [] => True | c :: _ => is_cspace c = false end.
Proof. induction s as [|c r IH]; cbn; [exact I|]. destruct (is_cspace c) eqn:E; [exact IH | exact E]. Qed.

Lemma collapse_true r :
  collapse_aux true r = match drop_blanks r with [] => [] | c :: r' => c :: collapse_aux false r' end.
Proof. induction r as [|x r IH]; cbn; [reflexivity|]. destruct (is_cspace x); [exact IH | reflexivity]. Qed.

Lemma scan_blanks_ok blanks : forall pre b fuel rest, R b (pre ++ blanks ++ rest) ->
  forallb is_cspace blanks = true -> match rest with [] => True | c :: _ => is_cspace c = false end ->
  length blanks < fuel ->
  scan_blanks fuel b (N.of_nat (length pre)) = Some (N.of_nat (length pre + length blanks)).
Proof.
  induction blanks as [|x bl IH]; intros pre b fuel rest HR Hb Hrest Hf;
    (destruct fuel as [|f]; [cbn in Hf; lia|]); cbn [scan_blanks].
  - cbn [app length] in *. rewrite Nat.add_0_r. destruct rest as [|c rest].
    + rewrite (get_char_R_end b _ _ HR); [reflexivity | rewrite app_nil_r; lia].
    + rewrite (get_char_R_mid b pre c rest HR). now rewrite Hrest.
  - cbn [forallb] in Hb. apply andb_true_iff in Hb. destruct Hb as (Hx & Hb).
    rewrite (get_char_R_mid b pre x (bl ++ rest) HR), Hx.
    replace (N.of_nat (length pre) + 1)%N with (N.of_nat (length (pre ++ [x]))) by (rewrite app_length; cbn; lia).
    rewrite (IH (pre ++ [x]) b f rest); [| now rewrite <- app_assoc | exact Hb | exact Hrest | cbn in Hf; lia].
    f_equal. rewrite app_length. cbn. lia.
Qed.

Lemma shrink_done fuel : forall b s i e, R b s -> (N.of_nat (length s) <= i)%N -> N.to_nat e - N.to_nat i < fuel ->
  shrink_loop fuel b i e = Some b.
Proof.
  induction fuel as [|f IH]; intros b s i e HR Hi Hf; [lia|]. cbn [shrink_loop].
  destruct (i <? e)%N eqn:E; [|reflexivity]. apply N.ltb_lt in E.
  rewrite (get_char_R_end b s i HR Hi). apply (IH b s); [exact HR | lia | lia].
Qed.

Lemma shrink_loop_ok fuel : forall pre post b e, R b (pre ++ post) ->
  (N.of_nat (length (pre ++ post)) <= e)%N -> N.to_nat e - length pre < fuel ->
  exists b', shrink_loop fuel b (N.of_nat (length pre)) e = Some b' /\ R b' (pre ++ collapse_aux false post).
Proof.
  induction fuel as [|f IH]; intros pre post b e HR He Hf; [lia|]. cbn [shrink_loop].
  destruct post as [|ch r].
  - cbn [collapse_aux]. rewrite app_nil_r in *. exists b. split; [|exact HR].
    destruct (_ <? _)%N eqn:E; [|reflexivity]. apply N.ltb_lt in E.
    rewrite (get_char_R_end b pre _ HR) by lia. apply (shrink_done f b pre); [exact HR | lia | lia].
  - rewrite app_length in He. cbn [length] in He.
    replace (N.of_nat (length pre) <? e)%N with true by (symmetry; apply N.ltb_lt; lia).
    rewrite (get_char_R_mid b pre ch r HR). cbn [collapse_aux].
    destruct (is_cspace ch) eqn:Ech.
    2:{ replace (N.of_nat (length pre) + 1)%N with (N.of_nat (length (pre ++ [ch]))) by (rewrite app_length; cbn; lia).
        destruct (IH (pre ++ [ch]) r b e) as (b' & H1 & H2).
        - now rewrite <- app_assoc.
        - rewrite <- app_assoc, app_length. cbn [app length]. lia.
        - rewrite app_length. cbn [length]. lia.
        - exists b'. split; [exact H1|]. now rewrite <- app_assoc in H2. }
    (* a blank: it becomes ' ', the blanks after it are deleted, the next character is stepped over *)
    assert (Hb1 : exists b1, (if (ch =? 32)%N then b else fst (set_char b (N.of_nat (length pre)) 32%N)) = b1 /\
                  R b1 (pre ++ 32%N :: r)).
    { destruct (ch =? 32)%N eqn:E32.
      - apply N.eqb_eq in E32. subst ch. now exists b.
      - destruct (set_char_R_mid b pre ch r 32%N HR) as (b1 & Hs & HR1). exists b1. now rewrite Hs. }
    destruct Hb1 as (b1 & -> & HR1).
    destruct (R_contents _ _ HR1) as (_ & _ & Hl1).
    assert (HR1' : R b1 ((pre ++ [32%N]) ++ take_blanks r ++ drop_blanks r)).
    { rewrite <- take_drop, <- app_assoc. exact HR1. }
    assert (Hlr : length r = length (take_blanks r) + length (drop_blanks r)).
    { rewrite (take_drop r) at 1. apply app_length. }
    assert (Hi1 : (N.of_nat (length pre) + 1)%N = N.of_nat (length (pre ++ [32%N]))) by (rewrite app_length; cbn; lia).
    rewrite Hi1.
    rewrite (scan_blanks_ok (take_blanks r) (pre ++ [32%N]) b1 (S (blen b1)) (drop_blanks r) HR1'
               (take_blanks_all r) (drop_blanks_head r)).
    2:{ rewrite Hl1, app_length. cbn [length]. lia. }
    assert (Hb2 : exists b2, (if (N.of_nat (length (pre ++ [32%N])) <? N.of_nat (length (pre ++ [32%N]) + length (take_blanks r)))%N
                              then fst (delete b1 (N.of_nat (length (pre ++ [32%N])))
                                          (N.of_nat (length (pre ++ [32%N]) + length (take_blanks r)) - N.of_nat (length (pre ++ [32%N])))%N)
                              else b1) = b2 /\ R b2 ((pre ++ [32%N]) ++ drop_blanks r)).
    { destruct (take_blanks r) as [|t0 tb] eqn:Etb.
      - cbn [length]. rewrite Nat.add_0_r, N.ltb_irrefl. exists b1. split; [reflexivity|]. exact HR1'.
      - rewrite <- Etb in *.
        assert (0 < length (take_blanks r)) by (rewrite Etb; cbn; lia).
        replace (_ <? _)%N with true by (symmetry; apply N.ltb_lt; lia).
        replace (N.of_nat (length (pre ++ [32%N]) + length (take_blanks r)) - N.of_nat (length (pre ++ [32%N])))%N
          with (N.of_nat (length (take_blanks r))) by lia.
        destruct (delete_R_mid b1 (pre ++ [32%N]) (take_blanks r) (drop_blanks r) HR1') as (b2 & Hd & HR2);
          [rewrite Etb; discriminate|].
        exists b2. now rewrite Hd. }
    destruct Hb2 as (b2 & -> & HR2).
    rewrite collapse_true. pose proof (drop_blanks_head r) as Hh.
    destruct (drop_blanks r) as [|c r''] eqn:Edr.
    + rewrite app_nil_r in HR2. exists b2. split; [|exact HR2].
      apply (shrink_done f b2 (pre ++ [32%N])); [exact HR2 | lia | rewrite app_length in *; cbn [length] in *; lia].
    + replace (N.of_nat (length (pre ++ [32%N])) + 1)%N with (N.of_nat (length (pre ++ [32%N; c])))
        by (rewrite !app_length; cbn [length]; lia).
      destruct (IH (pre ++ [32%N; c]) r'' b2 e) as (b' & H1 & H2).
      * rewrite <- !app_assoc in *. exact HR2.
      * rewrite <- app_assoc, app_length. cbn [app length] in *. lia.
      * rewrite app_length. cbn [length]. lia.
      * exists b'. split; [exact H1|]. now rewrite <- app_assoc in H2.
Qed.

Lemma shrink_R b s : R b s -> exists b', shrink_blanks b = (b', Some true) /\ R b' (collapse_spec s).
Proof.
  intros HR. destruct (R_contents _ _ HR) as (_ & Hst & Hl). unfold shrink_blanks. rewrite Hst.
  destruct (shrink_loop_ok (S (blen b)) [] s b (N.of_nat (blen b))) as (b' & H1 & H2);
    [exact HR | cbn [app]; lia | cbn [length]; lia |].
  cbn [length] in H1. change (N.of_nat 0) with 0%N in H1. rewrite H1. now exists b'.
Qed.

(* --- strip_blanks ------------------------------------------------------------------------ *)

Lemma strip_lead_ok blanks : forall pre b fuel rest, R b (pre ++ blanks ++ rest) ->
  forallb is_cspace blanks = true -> match rest with [] => True | c :: _ => is_cspace c = false end ->
  length blanks < fuel ->
  strip_lead fuel b (N.of_nat (length pre)) = Some (N.of_nat (length pre + length blanks)).
Proof.
  induction blanks as [|x bl IH]; intros pre b fuel rest HR Hb Hrest Hf;
    (destruct fuel as [|f]; [cbn in Hf; lia|]); cbn [strip_lead].
  - cbn [app length] in *. rewrite Nat.add_0_r. destruct rest as [|c rest].
    + rewrite (get_char_R_end b _ _ HR); [reflexivity | rewrite app_nil_r; lia].
    + rewrite (get_char_R_mid b pre c rest HR). now rewrite Hrest.
  - cbn [forallb] in Hb. apply andb_true_iff in Hb. destruct Hb as (Hx & Hb).
    destruct (R_contents _ _ HR) as (_ & _ & Hl).
    rewrite (get_char_R_mid b pre x (bl ++ rest) HR), Hx.
    replace (N.of_nat (length pre) <=? N.of_nat (blen b))%N with true
      by (symmetry; apply N.leb_le; rewrite Hl, app_length; lia).
    cbn [andb].
    replace (N.of_nat (length pre) + 1)%N with (N.of_nat (length (pre ++ [x]))) by (rewrite app_length; cbn; lia).
    rewrite (IH (pre ++ [x]) b f rest); [| now rewrite <- app_assoc | exact Hb | exact Hrest | cbn in Hf; lia].
    f_equal. rewrite app_length. cbn. lia.
Qed.

Lemma strip_trail_ok blanks : forall core c b fuel, R b (core ++ c :: blanks) ->
  is_cspace c = false -> forallb is_cspace blanks = true -> length blanks < fuel ->
  (N.of_nat (length (core ++ c :: blanks)) < 4294967296)%N ->
  strip_trail fuel b (N.of_nat (length core + length blanks)) = Some (N.of_nat (length core)).
Proof.
  induction blanks as [|x bl IH] using rev_ind; intros core c b fuel HR Hc Hb Hf H32;
    (destruct fuel as [|f]; [cbn in Hf; lia|]); cbn [strip_trail].
  - cbn [length]. rewrite Nat.add_0_r. rewrite (get_char_R_mid b core c [] HR). now rewrite Hc.
  - rewrite forallb_app in Hb. apply andb_true_iff in Hb. destruct Hb as (Hb & Hx). cbn in Hx.
    rewrite andb_true_r in Hx. rewrite !app_length in *. cbn [length] in *. rewrite app_length in *. cbn [length] in *.
    assert (HR' : R b ((core ++ c :: bl) ++ x :: [])).
    { rewrite <- app_assoc. exact HR. }
    replace (N.of_nat (length core + (length bl + 1))) with (N.of_nat (length (core ++ c :: bl)))
      by (rewrite app_length; cbn [length]; lia).
    rewrite (get_char_R_mid b (core ++ c :: bl) x [] HR'), Hx.
    replace (u32 (N.of_nat (length (core ++ c :: bl)) + 4294967295)) with (N.of_nat (length core + length bl)).
    2:{ unfold u32. rewrite app_length. cbn [length].
        replace (N.of_nat (length core + S (length bl)) + 4294967295)%N
          with (N.of_nat (length core + length bl) + 1 * 4294967296)%N by lia.
        rewrite N.mod_add by lia. rewrite N.mod_small; lia. }
    (* the buffer itself is unchanged: the remaining blanks are bl, followed by x *)
    clear IH. revert HR. generalize (@eq_refl _ (core ++ c :: bl ++ [x])). intros _ HR.
    (* restate as a scan over bl with a tail *)
    assert (Hgen : forall bl' tail core' k, R b (core' ++ c :: bl' ++ tail) -> forallb is_cspace bl' = true ->
              length bl' < k -> (N.of_nat (length core' + length bl') < 4294967296)%N ->
              strip_trail k b (N.of_nat (length core' + length bl')) = Some (N.of_nat (length core'))).
    { induction bl' as [|y bl' IHb] using rev_ind; intros tail core' k HRk Hbk Hk H32k;
        (destruct k as [|k]; [cbn in Hk; lia|]); cbn [strip_trail].
      - cbn [length app] in *. rewrite Nat.add_0_r. rewrite (get_char_R_mid b core' c tail HRk). now rewrite Hc.
      - rewrite forallb_app in Hbk. apply andb_true_iff in Hbk. destruct Hbk as (Hbk & Hy). cbn in Hy.
        rewrite andb_true_r in Hy. rewrite app_length in *. cbn [length] in *.
        assert (HRk' : R b ((core' ++ c :: bl') ++ y :: tail)).
        { rewrite <- app_assoc. cbn [app]. rewrite <- app_assoc in HRk. exact HRk. }
        replace (N.of_nat (length core' + (length bl' + 1))) with (N.of_nat (length (core' ++ c :: bl')))
          by (rewrite app_length; cbn [length]; lia).
        rewrite (get_char_R_mid b (core' ++ c :: bl') y tail HRk'), Hy.
        replace (u32 (N.of_nat (length (core' ++ c :: bl')) + 4294967295)) with (N.of_nat (length core' + length bl')).
        2:{ unfold u32. rewrite app_length. cbn [length].
            replace (N.of_nat (length core' + S (length bl')) + 4294967295)%N
              with (N.of_nat (length core' + length bl') + 1 * 4294967296)%N by lia.
            rewrite N.mod_add by lia. rewrite N.mod_small; lia. }
        apply (IHb (y :: tail)); [| exact Hbk | lia | lia].
        rewrite <- app_assoc in HRk. exact HRk. }
    apply (Hgen bl [x]); [exact HR | exact Hb | lia | lia].
Qed.

Lemma last_nonblank l : existsb (fun c => negb (is_cspace c)) l = true ->
  exists core c blanks, l = core ++ c :: blanks /\ is_cspace c = false /\ forallb is_cspace blanks = true.
Proof.
  induction l as [|x l IH] using rev_ind; intros H; [discriminate|].
  destruct (is_cspace x) eqn:E.
  - rewrite existsb_app in H. cbn in H. rewrite E in H. cbn in H. rewrite orb_false_r in H.
    destruct (IH H) as (core & c & bl & -> & Hc & Hb). exists core, c, (bl ++ [x]).
    split; [now rewrite <- app_assoc|]. split; [exact Hc|]. rewrite forallb_app, Hb. cbn. now rewrite E.
  - exists l, x, []. auto.
Qed.

Lemma drop_blanks_app bl c r : forallb is_cspace bl = true -> is_cspace c = false ->
  drop_blanks (bl ++ c :: r) = c :: r.
Proof.
  induction bl as [|x bl IH]; intros Hb Hc; cbn; [now rewrite Hc|].
  cbn in Hb. apply andb_true_iff in Hb. destruct Hb as (Hx & Hb). rewrite Hx. now apply IH.
Qed.

Lemma forallb_rev {A} (p : A -> bool) l : forallb p (rev l) = forallb p l.
Proof. induction l as [|x l IH]; cbn; [reflexivity|]. rewrite forallb_app, IH. cbn. rewrite andb_true_r. apply andb_comm. Qed.

Lemma strip_R b s : R b s -> (N.of_nat (length s) + 1 < 4294967296)%N ->
  exists b', strip_blanks b = (b', Some true) /\ R b' (trim_spec s).
Proof.
  intros HR H32. destruct (R_contents _ _ HR) as (_ & Hst & Hl). unfold strip_blanks. rewrite Hst.
  assert (HR0 : R b ([] ++ take_blanks s ++ drop_blanks s)) by (cbn [app]; now rewrite <- take_drop).
  pose proof (strip_lead_ok (take_blanks s) [] b (S (blen b)) (drop_blanks s) HR0 (take_blanks_all s) (drop_blanks_head s)) as Hlead.
  assert (Hls : length s = length (take_blanks s) + length (drop_blanks s)).
  { rewrite (take_drop s) at 1. apply app_length. }
  cbn [length] in Hlead. change (N.of_nat 0) with 0%N in Hlead. rewrite Hlead by lia. clear Hlead. cbn [Nat.add].
  assert (Hb1 : exists b1, (if (0 <? N.of_nat (length (take_blanks s)))%N
                            then fst (delete b 0%N (N.of_nat (length (take_blanks s)))) else b) = b1 /\
                R b1 (drop_blanks s)).
  { destruct (take_blanks s) as [|t0 tb] eqn:Etb.
    - cbn. exists b. split; [reflexivity|]. exact HR0.
    - rewrite <- Etb in *. replace (0 <? _)%N with true by (symmetry; apply N.ltb_lt; rewrite Etb; cbn; lia).
      destruct (delete_R_mid b [] (take_blanks s) (drop_blanks s) HR0) as (b1 & Hd & HR1); [rewrite Etb; discriminate|].
      cbn [length] in Hd. change (N.of_nat 0) with 0%N in Hd. exists b1. now rewrite Hd. }
  destruct Hb1 as (b1 & -> & HR1). destruct (R_contents _ _ HR1) as (_ & _ & Hl1). rewrite Hl1.
  unfold trim_spec. pose proof (drop_blanks_head s) as Hh.
  destruct (drop_blanks s) as [|h t] eqn:Es'.
  { cbn. exists b1. auto. }
  rewrite <- Es' in *.
  destruct (last_nonblank (drop_blanks s)) as (core & c & bl & Hdec & Hc & Hb).
  { rewrite Es'. cbn. now rewrite Hh. }
  replace (0 <? N.of_nat (length (drop_blanks s)))%N with true by (symmetry; apply N.ltb_lt; rewrite Es'; cbn; lia).
  rewrite Hdec in *. clear Hh.
  assert (Hlen : length (core ++ c :: bl) = length core + S (length bl)) by (rewrite app_length; reflexivity).
  replace (N.of_nat (length (core ++ c :: bl)) - 1)%N with (N.of_nat (length core + length bl)) by lia.
  rewrite (strip_trail_ok bl core c b1 _ HR1 Hc Hb) by lia.
  replace (u32 (N.of_nat (length core) + 1)) with (N.of_nat (length (core ++ [c])))
    by (unfold u32; rewrite app_length; cbn [length]; rewrite N.mod_small; lia).
  replace (u32 (N.of_nat (length core + length bl) + 4294967296 - N.of_nat (length core))) with (N.of_nat (length bl)).
  2:{ unfold u32. replace (N.of_nat (length core + length bl) + 4294967296 - N.of_nat (length core))%N
        with (N.of_nat (length bl) + 1 * 4294967296)%N by lia.
      rewrite N.mod_add by lia. rewrite N.mod_small; lia. }
  assert (Hspec : rev (drop_blanks (rev (core ++ c :: bl))) = core ++ [c]).
  { rewrite rev_app_distr. cbn [rev]. rewrite <- app_assoc. cbn [app].
    rewrite drop_blanks_app; [| now rewrite forallb_rev | exact Hc].
    cbn [rev]. now rewrite rev_involutive. }
  rewrite Hspec.
  assert (HR1' : R b1 ((core ++ [c]) ++ bl ++ [])) by (now rewrite app_nil_r, <- app_assoc).
  destruct bl as [|x bl'] eqn:Ebl.
  - exists b1. split; [|now rewrite app_nil_r in HR1'].
    unfold delete. destruct (R_contents _ _ HR1) as (_ & Hst1 & _). rewrite Hst1. cbn [length].
    change (N.of_nat 0 =? 0)%N with true. now rewrite orb_true_r.
  - rewrite <- Ebl in *.
    destruct (delete_R_mid b1 (core ++ [c]) bl [] HR1') as (b2 & Hd & HR2); [rewrite Ebl; discriminate|].
    exists b2. rewrite Hd. split; [reflexivity|]. now rewrite app_nil_r in HR2.
Qed.

(* --- hex / base64 ------------------------------------------------------------------------ *)

Lemma hex_pairs_length : forall l, length (hex_pairs l) = length l / 2.
Proof.
  fix IH 1. intros l. destruct l as [|a [|b r]]; [reflexivity | reflexivity |].
  cbn [hex_pairs length]. rewrite IH. change (S (S (length r))) with (1 * 2 + length r).
  rewrite Nat.div_add_l by lia. reflexivity.
Qed.

Lemma bin_to_hex_length up l : length (bin_to_hex up l) = length l * 2.
Proof. unfold bin_to_hex. induction l as [|x l IH]; cbn [flat_map length app]; [reflexivity|]. rewrite IH. lia. Qed.

Lemma clear_R b s : R b s -> R (fst (delete b 0%N (N.of_nat (blen b)))) [].
Proof.
  intros HR. destruct (R_contents _ _ HR) as (_ & Hst & Hl). destruct s as [|x s'] eqn:Es.
  - rewrite Hl. cbn [length]. unfold delete. rewrite Hst. change (N.of_nat 0 =? 0)%N with true.
    rewrite orb_true_r. exact HR.
  - rewrite <- Es in *. assert (HR' : R b ([] ++ s ++ [])) by (now rewrite app_nil_r).
    destruct (delete_R_mid b [] s [] HR') as (b' & Hd & HR2); [rewrite Es; discriminate|].
    rewrite Hl. cbn [length] in Hd. change (N.of_nat 0) with 0%N in Hd. now rewrite Hd.
Qed.

Lemma hex_to_binary_R b s : R b s -> exists b', hex_to_binary b = (b', true) /\ R b' (hex_to_bin s).
Proof.
  intros HR. destruct HR as [(-> & ->) | (rest & ->)].
  { exists empty_dyn. split; [reflexivity | now left]. }
  unfold hex_to_binary. cbn [bstatic dyn blen].
  destruct (length s =? 0) eqn:E0.
  { apply Nat.eqb_eq in E0. apply length_zero_iff_nil in E0. subst s. exists (dyn [] rest). split; [reflexivity|]. right. now exists rest. }
  change (cells (dyn s rest)) with (s ++ 0%N :: rest). rewrite (firstn_app_l (length s) s) by reflexivity.
  erewrite (blit_at _ [] s (0%N :: rest) (map hexval s) 0); [| reflexivity | now rewrite map_length | reflexivity].
  unfold set_cells at 2. cbn [cells app blen bstatic bfault].
  rewrite (firstn_app_l (length s) (map hexval s)) by (now rewrite map_length).
  fold (hex_to_bin s). set (h := hex_to_bin s).
  assert (Hh : length h = length s / 2) by (unfold h, hex_to_bin; now rewrite hex_pairs_length, map_length).
  assert (Hle : length s / 2 <= length s) by (apply Nat.div_le_upper_bound; lia).
  destruct (skipn (length h) (map hexval s) ++ 0%N :: rest) as [|x W] eqn:EW.
  { destruct (skipn (length h) (map hexval s)); discriminate. }
  erewrite (blit_at _ [] (firstn (length h) (map hexval s)) (x :: W) h 0); [| | | reflexivity].
  2:{ unfold set_cells. cbn [cells app]. rewrite <- EW, app_assoc, firstn_skipn. reflexivity. }
  2:{ rewrite firstn_length, map_length. lia. }
  unfold set_cells, set_len. cbn [cells app blen bstatic bfault].
  erewrite (poke_at _ h x W); [| reflexivity | cbn [blen]; lia].
  exists (dyn h W). split; [|right; now exists W].
  unfold set_cells, dyn. cbn [cells blen bstatic bfault]. now rewrite Hh.
Qed.

Lemma binary_to_hex_R b s up : R b s -> exists b', binary_to_hex b up = (b', true) /\ R b' (bin_to_hex up s).
Proof.
  intros HR. destruct HR as [(-> & ->) | (rest & ->)].
  { exists empty_dyn. split; [reflexivity | now left]. }
  unfold binary_to_hex. cbn [bstatic dyn blen].
  destruct (length s =? 0) eqn:E0.
  { apply Nat.eqb_eq in E0. apply length_zero_iff_nil in E0. subst s. exists (dyn [] rest). split; [reflexivity|]. right. now exists rest. }
  fold (dyn s rest). rewrite dyn_raw.
  destruct (grow_raw s (0%N :: rest) (length s * 2)) as (T' & -> & HT'). cbn [negb fst raw blen cells].
  rewrite (firstn_app_l (length s) s) by reflexivity.
  set (h := bin_to_hex up s). assert (Hh : length h = length s * 2) by apply bin_to_hex_length.
  destruct (skipn (length h) (s ++ T')) as [|x W] eqn:EW.
  { apply (f_equal (@length N)) in EW. rewrite skipn_length, app_length in EW. cbn [length] in EW. lia. }
  erewrite (blit_at _ [] (firstn (length h) (s ++ T')) (x :: W) h 0); [| | | reflexivity].
  2:{ cbn [cells app]. now rewrite <- EW, firstn_skipn. }
  2:{ rewrite firstn_length, app_length. lia. }
  unfold set_cells, set_len. cbn [cells app blen bstatic bfault].
  erewrite (poke_at _ h x W); [| reflexivity | cbn [blen raw]; lia].
  exists (dyn h W). split; [|right; now exists W].
  unfold set_cells, dyn. cbn [cells blen bstatic bfault raw]. now rewrite Hh.
Qed.

Lemma decode_base64_R b s : R b s ->
  exists b', decode_base64 b = (b', Some (match buffer_b64_dec s with Some _ => true | None => false end)) /\
             R b' (match buffer_b64_dec s with Some out => out | None => no_spaces_spec s end).
Proof.
  intros HR. destruct (R_contents _ _ HR) as (_ & Hst & _). unfold decode_base64. rewrite Hst.
  destruct (no_spaces_R b s HR) as (b1 & -> & HR1). destruct (R_contents _ _ HR1) as (Hc1 & _ & _).
  rewrite Hc1. unfold buffer_b64_dec. fold (no_spaces_spec s).
  destruct (b64_dec (no_spaces_spec s)) as [out|]; [|now exists b1].
  pose proof (clear_R b1 _ HR1) as HR2.
  destruct (append_data_R _ _ out HR2) as (H1 & H2). cbn [app] in H1.
  destruct (append_data _ out) as (b3, ok). cbn [fst snd] in *. subst ok. now exists b3.
Qed.

Lemma encode_base64_R b s : R b s ->
  exists b', encode_base64 b = (b', Some (match b64_enc s with Some _ => true | None => false end)) /\
             R b' (match b64_enc s with Some out => cstr out | None => s end).
Proof.
  intros HR. destruct (R_contents _ _ HR) as (Hc & Hst & _). unfold encode_base64. rewrite Hst, Hc.
  destruct (b64_enc s) as [out|]; [|now exists b].
  pose proof (clear_R b _ HR) as HR2. destruct (R_contents _ _ HR2) as (_ & Hst2 & _).
  unfold append_cstr. rewrite Hst2.
  destruct (append_data_R _ _ (cstr out) HR2) as (H1 & H2). cbn [app] in H1.
  destruct (append_data _ (cstr out)) as (b3, ok). cbn [fst snd] in *. subst ok. now exists b3.
Qed.

(* ---------------------------------------------------------------------------------------- *)
(* the remaining mutating operations as refinement steps                                     *)

Lemma refines_mut b o f r0 : Inv b ->
  (bstatic b = false -> exists b', step b o = (b', snd (f (contents b))) /\ R b' (fst (f (contents b)))) ->
  (forall s, spec_step (s, false) o = mut (s, false) r0 f) ->
  (bstatic b = true -> step b o = (b, r0)) ->
  (forall s, spec_step (s, true) o = ((s, true), r0)) ->
  refines_step b o.
Proof.
  intros HI Hd Hs Hms Hss. destruct (bstatic b) eqn:Hst.
  { apply (refines_readonly _ _ r0 HI); [now apply Hms | unfold abs; rewrite Hst; apply Hss]. }
  destruct (Hd eq_refl) as (b' & H1 & H2).
  eapply refines_R; [exact H1 | | exact H2 | reflexivity].
  unfold abs. rewrite Hst, Hs, mut_dynamic. reflexivity.
Qed.

Ltac static_step b := intros Hst; pose proof (static_refuses b) as Hsr;
  match goal with |- step _ ?o = _ => specialize (Hsr o Hst); exact Hsr end.

Lemma refines_shrink b : Inv b -> refines_step b OShrink.
Proof.
  intros HI. apply (refines_mut b OShrink (fun s => (collapse_spec s, RBool true)) (RBool false)); auto; [|static_step b].
  intros Hst. destruct (shrink_R b _ (Inv_R b HI Hst)) as (b' & H1 & H2). exists b'. cbn [step]. now rewrite H1.
Qed.

Lemma refines_strip b : Inv b -> op_ok (abs b) OStrip = true -> refines_step b OStrip.
Proof.
  intros HI Hok. cbn [op_ok abs fst] in Hok. apply N.ltb_lt in Hok.
  apply (refines_mut b OStrip (fun s => (trim_spec s, RBool true)) (RBool false)); auto; [|static_step b].
  intros Hst. destruct (strip_R b _ (Inv_R b HI Hst) Hok) as (b' & H1 & H2). exists b'. cbn [step]. now rewrite H1.
Qed.

Lemma refines_no_spaces b : Inv b -> refines_step b ONoSpaces.
Proof.
  intros HI. apply (refines_mut b ONoSpaces (fun s => (no_spaces_spec s, RVoid)) RVoid); auto; [|static_step b].
  intros Hst. destruct (no_spaces_R b _ (Inv_R b HI Hst)) as (b' & H1 & H2). exists b'. cbn [step]. now rewrite H1.
Qed.

Lemma refines_rtz b : Inv b -> refines_step b ORemoveTrailingZeros.
Proof.
  intros HI. apply (refines_mut b ORemoveTrailingZeros (fun s => (rtz_spec s, RBool true)) (RBool false)); auto; [|static_step b].
  intros Hst. destruct (rtz_R b _ (Inv_R b HI Hst)) as (b' & H1 & H2). exists b'. cbn [step]. now rewrite H1.
Qed.

Lemma refines_hex_to_bin b : Inv b -> refines_step b OHexToBin.
Proof.
  intros HI. apply (refines_mut b OHexToBin (fun s => (hex_to_bin s, RBool true)) (RBool false)); auto; [|static_step b].
  intros Hst. destruct (hex_to_binary_R b _ (Inv_R b HI Hst)) as (b' & H1 & H2). exists b'. cbn [step]. now rewrite H1.
Qed.

Lemma refines_bin_to_hex b up : Inv b -> refines_step b (OBinToHex up).
Proof.
  intros HI. apply (refines_mut b (OBinToHex up) (fun s => (bin_to_hex up s, RBool true)) (RBool false)); auto; [|static_step b].
  intros Hst. destruct (binary_to_hex_R b _ up (Inv_R b HI Hst)) as (b' & H1 & H2). exists b'. cbn [step]. now rewrite H1.
Qed.

Lemma refines_decode_b64 b : Inv b -> refines_step b ODecodeB64.
Proof.
  intros HI.
  apply (refines_mut b ODecodeB64 (fun s => match buffer_b64_dec s with Some out => (out, RBool true)
                                            | None => (no_spaces_spec s, RBool false) end) (RBool false)); auto; [|static_step b].
  intros Hst. destruct (decode_base64_R b _ (Inv_R b HI Hst)) as (b' & H1 & H2). exists b'. cbn [step]. rewrite H1.
  destruct (buffer_b64_dec (contents b)); auto.
Qed.

Lemma refines_encode_b64 b : Inv b -> refines_step b OEncodeB64.
Proof.
  intros HI.
  apply (refines_mut b OEncodeB64 (fun s => match b64_enc s with Some out => (cstr out, RBool true)
                                            | None => (s, RBool false) end) (RBool false)); auto; [|static_step b].
  intros Hst. destruct (encode_base64_R b _ (Inv_R b HI Hst)) as (b' & H1 & H2). exists b'. cbn [step]. rewrite H1.
  destruct (b64_enc (contents b)); auto.
Qed.

(* ---------------------------------------------------------------------------------------- *)
(* all operations together                                                                   *)

(* operations whose refinement is proved; split_words / search / search_cstr are corresponded only *)
Definition proved_op (o : op) : bool :=
  match o with OSplitWords | OSearch _ _ | OSearchCstr _ _ => false | _ => true end.

Theorem step_refines b o : Inv b -> op_ok (abs b) o = true -> proved_op o = true -> refines_step b o.
Proof.
  intros HI Hok Hp. destruct o; try discriminate Hp.
  - now apply refines_create.
  - apply refines_sta_create.
  - now apply refines_duplicate.
  - now apply refines_len.
  - now apply refines_get.
  - now apply refines_set.
  - now apply refines_insert.
  - now apply refines_insert_cstr.
  - now apply refines_append.
  - now apply refines_append_data.
  - now apply refines_append_cstr.
  - now apply refines_append_char.
  - now apply refines_append_mb.
  - now apply refines_delete.
  - now apply refines_shrink.
  - now apply refines_strip.
  - now apply refines_no_spaces.
  - now apply refines_compare.
  - now apply refines_compare_cstr.
  - now apply refines_search_char.
  - now apply refines_onlyws.
  - now apply refines_hex_to_bin.
  - now apply refines_bin_to_hex.
  - now apply refines_decode_b64.
  - now apply refines_encode_b64.
  - now apply refines_rtz.
Qed.

(* lifted to every operation sequence: after every operation the contents, the static mark and the
   returned value are those of the plain byte string, and the invariant holds *)
Theorem run_refines ops : forall b, Inv b -> ops_ok (abs b) ops = true -> forallb proved_op ops = true ->
  map (fun x => (abs (fst x), snd x)) (run b ops) = spec_run (abs b) ops /\
  Forall (fun x => Inv (fst x)) (run b ops).
Proof.
  induction ops as [|o r IH]; intros b HI Hok Hp; cbn [run spec_run map]; [split; constructor|].
  cbn [ops_ok forallb] in Hok, Hp. apply andb_true_iff in Hok. destruct Hok as (Hok1 & Hok2).
  apply andb_true_iff in Hp. destruct Hp as (Hp1 & Hp2).
  destruct (step_refines b o HI Hok1 Hp1) as (Ha & Hr & HI').
  rewrite <- Ha in Hok2. destruct (IH _ HI' Hok2 Hp2) as (IH1 & IH2).
  split; [|constructor; auto].
  rewrite IH1, Ha. f_equal. rewrite Hr. now destruct (spec_step (abs b) o).
Qed.

Lemma Inv_create data block b : create_opt data block = Some b -> Inv b /\ contents b = data /\ bstatic b = false.
Proof.
  intros H. pose proof (create_opt_R _ _ _ H) as HR. destruct (R_contents _ _ HR) as (Hc & Hs & _).
  split; [eapply R_Inv; exact HR | auto].
Qed.

(* the invariant spelled out for a dynamic buffer with storage *)
Lemma Inv_terminator b : Inv b -> bstatic b = false -> cells b <> [] ->
  bfault b = false /\ blen b < length (cells b) /\ nth (blen b) (cells b) junk = 0%N.
Proof.
  intros (Hf & H) Hst Hc. rewrite Hst in H. destruct H as [(H & _) | H]; [congruence|]. tauto.
Qed.
