(* C19 — proofs about Model/BufferModel.v against Model/BufferSpec.v. *)
From Coq Require Import List NArith Arith Lia Bool.
From Wbxml Require Import Model.Codec Model.BufferModel Model.BufferSpec.
Import ListNotations.

(* ---------------------------------------------------------------------------------------- *)
(* the invariant                                                                             *)

(* No store ever went outside the allocated cells; a static buffer's len is covered by its data;
   a dynamic buffer either has no storage and len 0, or len < malloced and the cell after the
   contents holds 0. *)
Definition Inv (b : buf) : Prop :=
  bfault b = false /\
  if bstatic b then blen b <= length (cells b)
  else (cells b = [] /\ blen b = 0) \/ (blen b < length (cells b) /\ nth (blen b) (cells b) junk = 0%N).

(* ---------------------------------------------------------------------------------------- *)
(* (d) static buffers refuse every mutation                                                  *)

Lemma static_refuses b o : bstatic b = true ->
  match o with
  | OCreate _ _ | OStaCreate _ | ODuplicate => True                   (* these make a new buffer *)
  | OLen | OGetChar _ | OCompare _ | OCompareCstr _ | OSplitWords
  | OSearchChar _ _ | OSearch _ _ | OSearchCstr _ _ | OOnlyWs => fst (step b o) = b   (* read-only *)
  | ONoSpaces => step b o = (b, RVoid)
  | _ => step b o = (b, RBool false)
  end.
Proof.
  intros H. destruct o; cbn [step]; auto.
  all: try (unfold rb, rob, set_char, insert, insert_cstr, append, append_data, append_cstr, append_char,
      append_mb_uint_32, delete, shrink_blanks, strip_blanks, no_spaces, hex_to_binary, binary_to_hex,
      decode_base64, encode_base64, remove_trailing_zeros; rewrite H; reflexivity).
  - destruct (split_words b); reflexivity.
  - unfold rsearch. destruct (search _ _ _); reflexivity.
  - unfold rsearch. destruct (search_cstr _ _ _); reflexivity.
Qed.

(* ---------------------------------------------------------------------------------------- *)
(* (c) out-of-range positions fail without effect                                            *)

Lemma insert_data_out_of_range b pos data : (N.of_nat (blen b) < pos)%N -> insert_data b pos data = (b, false).
Proof.
  intros H. unfold insert_data. apply N.ltb_lt in H. rewrite H.
  now rewrite !orb_true_r.
Qed.

Lemma insert_out_of_range b src pos : (N.of_nat (blen b) < pos)%N -> insert b src pos = (b, false).
Proof. intros H. unfold insert. destruct (bstatic b); auto using insert_data_out_of_range. Qed.

Lemma insert_cstr_out_of_range b str pos : (N.of_nat (blen b) < pos)%N -> insert_cstr b str pos = (b, false).
Proof. intros H. unfold insert_cstr. destruct (bstatic b); auto using insert_data_out_of_range. Qed.

Lemma delete_out_of_range b pos n : (N.of_nat (blen b) <= pos)%N -> delete b pos n = (b, false).
Proof. intros H. unfold delete. apply N.leb_le in H. rewrite H. now destruct (bstatic b). Qed.

Lemma set_char_out_of_range b pos ch : (N.of_nat (blen b) <= pos)%N -> set_char b pos ch = (b, false).
Proof. intros H. unfold set_char. apply N.leb_le in H. rewrite H. now rewrite orb_true_r. Qed.

Lemma get_char_out_of_range b pos : (N.of_nat (blen b) <= pos)%N -> get_char b pos = None.
Proof. intros H. unfold get_char. apply N.leb_le in H. now rewrite H. Qed.

Lemma search_char_out_of_range b ch pos : (N.of_nat (blen b) <= pos)%N -> search_char b ch pos = None.
Proof. intros H. unfold search_char. apply N.leb_le in H. now rewrite H. Qed.

(* ---------------------------------------------------------------------------------------- *)
(* list and memory-primitive lemmas                                                          *)

Lemma firstn_app_l {A} n (a b : list A) : n = length a -> firstn n (a ++ b) = a.
Proof. intros ->. rewrite firstn_app, Nat.sub_diag, firstn_all. cbn. apply app_nil_r. Qed.

Lemma skipn_app_l {A} n (a b : list A) : n = length a -> skipn n (a ++ b) = b.
Proof. intros ->. rewrite skipn_app, Nat.sub_diag, skipn_all. reflexivity. Qed.

Lemma skipn_app_l2 {A} n k (a b : list A) : n = length a + k -> skipn n (a ++ b) = skipn k b.
Proof.
  intros ->. rewrite skipn_app. replace (length a + k - length a) with k by lia.
  rewrite skipn_all2 by lia. reflexivity.
Qed.

Lemma firstn_app_l2 {A} n k (a b : list A) : n = length a + k -> firstn n (a ++ b) = a ++ firstn k b.
Proof. intros ->. apply firstn_app_2. Qed.

Lemma skipn_skipn {A} a b (l : list A) : skipn a (skipn b l) = skipn (b + a) l.
Proof. revert l. induction b; intros l; [reflexivity|]. destruct l; cbn; [now rewrite skipn_nil | apply IHb]. Qed.

Lemma split3 {A} (l : list A) a b : l = firstn a l ++ firstn b (skipn a l) ++ skipn (a + b) l.
Proof. rewrite <- (firstn_skipn a l) at 1. f_equal. rewrite <- (firstn_skipn b (skipn a l)) at 1. f_equal. now rewrite skipn_skipn. Qed.

Lemma blit_at b pre mid post src n : cells b = pre ++ mid ++ post -> length mid = length src -> n = length pre ->
  blit b n src = set_cells b (pre ++ src ++ post).
Proof.
  intros H Hl ->. unfold blit. rewrite H, !app_length.
  replace (length pre + length src <=? length pre + (length mid + length post)) with true
    by (symmetry; apply Nat.leb_le; lia).
  f_equal. rewrite firstn_app_l by reflexivity. f_equal. f_equal.
  rewrite skipn_app_l2 with (k := length src) by reflexivity. apply skipn_app_l. lia.
Qed.

Lemma memmove_at b a m c pre mid post dst src n :
  cells b = a ++ m ++ c -> cells b = pre ++ mid ++ post -> length mid = length m ->
  dst = length pre -> src = length a -> n = length m ->
  memmove b dst src n = set_cells b (pre ++ m ++ post).
Proof.
  intros H1 H2 Hl -> -> ->. unfold memmove.
  assert (Hs : firstn (length m) (skipn (length a) (cells b)) = m).
  { rewrite H1. rewrite skipn_app_l by reflexivity. now apply firstn_app_l. }
  rewrite Hs.
  replace (length a + length m <=? length (cells b)) with true
    by (symmetry; apply Nat.leb_le; rewrite H1, !app_length; lia).
  eapply blit_at; eauto.
Qed.

Lemma poke_at b pre x post v n : cells b = pre ++ x :: post -> n = length pre ->
  poke b n v = set_cells b (pre ++ v :: post).
Proof. intros H ->. unfold poke. apply (blit_at b pre [x] post [v]); auto. Qed.

(* ---------------------------------------------------------------------------------------- *)
(* representation of a well-formed dynamic buffer                                            *)

Definition dyn (s rest : list N) : buf := mkbuf (s ++ 0%N :: rest) (length s) false false.
Definition empty_dyn : buf := mkbuf [] 0 false false.

(* b is a dynamic buffer in good shape holding s *)
Definition R (b : buf) (s : list N) : Prop := (b = empty_dyn /\ s = []) \/ exists rest, b = dyn s rest.

Lemma contents_dyn s rest : contents (dyn s rest) = s.
Proof. unfold contents, dyn. cbn. now apply firstn_app_l. Qed.

Lemma R_contents b s : R b s -> contents b = s /\ bstatic b = false /\ blen b = length s.
Proof. intros [(-> & ->) | (rest & ->)]; [now cbn | split; [apply contents_dyn | now cbn]]. Qed.

Lemma R_Inv b s : R b s -> Inv b.
Proof.
  intros [(-> & ->) | (rest & ->)]; unfold Inv; cbn; split; auto.
  right. rewrite app_length. cbn. split; [lia|]. rewrite app_nth2 by lia. now rewrite Nat.sub_diag.
Qed.

Lemma Inv_R b : Inv b -> bstatic b = false -> R b (contents b).
Proof.
  destruct b as [c n st f]. unfold Inv, R, contents, dyn, empty_dyn. cbn. intros (-> & H) ->.
  destruct H as [(-> & ->) | (Hlt & Hz)]; [now left|right].
  exists (skipn (S n) c). rewrite firstn_length. replace (Nat.min n (length c)) with n by lia.
  f_equal. rewrite <- (firstn_skipn n c) at 1. f_equal.
  destruct (skipn n c) as [|x r] eqn:E.
  { apply (f_equal (@length N)) in E. rewrite skipn_length in E. cbn in E. lia. }
  assert (x = 0%N).
  { rewrite <- Hz. rewrite <- (firstn_skipn n c) at 1. rewrite app_nth2; rewrite firstn_length; [|lia].
    replace (n - Nat.min n (length c)) with 0 by lia. now rewrite E. }
  subst x. f_equal. replace (S n) with (n + 1) by lia. rewrite <- skipn_skipn, E. reflexivity.
Qed.

(* ---------------------------------------------------------------------------------------- *)
(* grow_buff, insert_data                                                                    *)

Definition raw (s T : list N) : buf := mkbuf (s ++ T) (length s) false false.

Lemma dyn_raw s rest : dyn s rest = raw s (0%N :: rest).
Proof. reflexivity. Qed.

Lemma grow_raw s T size : exists T',
  grow_buff (raw s T) size = (raw s T', true) /\ size + 1 <= length T'.
Proof.
  unfold grow_buff, raw, malloced, set_cells. cbn [bstatic blen cells bfault].
  destruct (length (s ++ T) <? length s + S size) eqn:E.
  - apply Nat.ltb_lt in E.
    eexists (T ++ repeat junk _). rewrite <- app_assoc. split; [reflexivity|].
    rewrite app_length, repeat_length. rewrite app_length in *.
    destruct (_ <? _) eqn:E2; [apply Nat.ltb_lt in E2 | apply Nat.ltb_ge in E2]; lia.
  - apply Nat.ltb_ge in E. exists T. split; [reflexivity|]. rewrite app_length in E. lia.
Qed.

Lemma insert_data_raw s T p data : data <> [] -> p <= length s -> exists rest',
  insert_data (raw s T) (N.of_nat p) data = (dyn (insert_spec s p data) rest', true).
Proof.
  intros Hd Hp. unfold insert_data.
  assert (Hl : 0 < length data) by (destruct data; [congruence | cbn; lia]).
  replace (bstatic (raw s T)) with false by reflexivity.
  replace (length data =? 0) with false by (symmetry; apply Nat.eqb_neq; lia).
  replace (N.of_nat (blen (raw s T)) <? N.of_nat p)%N with false by (symmetry; apply N.ltb_ge; cbn; lia).
  cbn [orb]. rewrite Nat2N.id.
  destruct (grow_raw s T (length data)) as (T' & -> & HT'). cbn [negb].
  set (s1 := firstn p s). set (s2 := skipn p s).
  assert (Hs : s = s1 ++ s2) by (symmetry; apply firstn_skipn).
  assert (Hl1 : length s1 = p) by (unfold s1; rewrite firstn_length; lia).
  assert (Hl2 : length s2 = length s - p) by (unfold s2; now rewrite skipn_length).
  (* the cell right after the inserted text and what follows it *)
  destruct (skipn (length data) T') as [|x T''] eqn:ET.
  { apply (f_equal (@length N)) in ET. rewrite skipn_length in ET. cbn in ET. lia. }
  exists T''. unfold insert_spec. fold s1 s2.
  assert (Hfin : forall b2, cells b2 = s1 ++ firstn (length data) (s2 ++ T') ++ s2 ++ x :: T'' ->
            blen b2 = length s -> bstatic b2 = false -> bfault b2 = false ->
            (let b3 := blit b2 p data in let b4 := set_len b3 (blen b3 + length data) in poke b4 (blen b4) 0%N)
            = dyn (s1 ++ data ++ s2) T'').
  { intros b2 Hc Hbl Hst Hf. cbn zeta.
    rewrite (blit_at b2 s1 (firstn (length data) (s2 ++ T')) (s2 ++ x :: T'') data p); auto.
    2:{ rewrite firstn_length, app_length. lia. }
    unfold set_len, set_cells. cbn [cells blen bstatic bfault].
    erewrite (poke_at _ (s1 ++ data ++ s2) x T''); cbn [cells].
    2:{ now rewrite <- !app_assoc. }
    2:{ rewrite Hbl, Hs, !app_length. lia. }
    unfold set_cells, dyn. cbn [cells blen bstatic bfault]. rewrite Hst, Hf, Hbl. f_equal.
    rewrite Hs, !app_length. lia. }
  f_equal.
  assert (HU : cells (raw s T') = s1 ++ s2 ++ T') by (unfold raw; cbn [cells]; rewrite Hs at 1; now rewrite <- app_assoc).
  destruct (p <? blen (raw s T')) eqn:E.
  - (* memmove of the tail s2 by |data| cells *)
    erewrite (memmove_at (raw s T') s1 s2 T' (s1 ++ firstn (length data) (s2 ++ T'))
                (firstn (length s2) (skipn (length data) (s2 ++ T')))
                (skipn (length data + length s2) (s2 ++ T'))).
    + apply Hfin; auto. unfold set_cells. cbn [cells].
      rewrite (skipn_app_l2 _ (length data)) by lia. rewrite ET. rewrite <- ?app_assoc. reflexivity.
    + exact HU.
    + rewrite HU, <- app_assoc. f_equal. apply split3.
    + rewrite firstn_length, skipn_length, app_length. lia.
    + rewrite app_length, firstn_length, app_length. lia.
    + lia.
    + cbn [blen raw]. lia.
  - (* appending: nothing to move *)
    apply Nat.ltb_ge in E. cbn [blen raw] in E.
    assert (s2 = []) by (apply length_zero_iff_nil; lia). 
    apply Hfin; auto. rewrite HU, H. cbn [app]. f_equal.
    rewrite <- (firstn_skipn (length data) T') at 1. now rewrite ET.
Qed.

(* ---------------------------------------------------------------------------------------- *)
(* delete, set_char, create                                                                  *)

Lemma delete_dyn s rest p k : p < length s -> 0 < k -> p + k <= length s -> exists rest',
  delete (dyn s rest) (N.of_nat p) (N.of_nat k) = (dyn (delete_spec s p k) rest', true).
Proof.
  intros Hp Hk Hpk. unfold delete. cbn [bstatic dyn blen].
  replace (N.of_nat (length s) <=? N.of_nat p)%N with false by (symmetry; apply N.leb_gt; lia).
  replace (N.of_nat k =? 0)%N with false by (symmetry; apply N.eqb_neq; lia).
  cbn [orb]. rewrite !Nat2N.id.
  replace (length s <? p + k) with false by (symmetry; apply Nat.ltb_ge; lia).
  set (s1 := firstn p s). set (sm := firstn k (skipn p s)). set (s3 := skipn (p + k) s).
  assert (Hs : s = s1 ++ sm ++ s3) by apply split3.
  assert (Hl1 : length s1 = p) by (unfold s1; rewrite firstn_length; lia).
  assert (Hlm : length sm = k) by (unfold sm; rewrite firstn_length, skipn_length; lia).
  assert (Hl3 : length s3 = length s - p - k) by (unfold s3; rewrite skipn_length; lia).
  destruct (skipn (length s3) (sm ++ s3)) as [|x W] eqn:EW.
  { apply (f_equal (@length N)) in EW. rewrite skipn_length, app_length in EW. cbn in EW. lia. }
  exists (W ++ 0%N :: rest). f_equal. unfold delete_spec. fold s1 s3.
  assert (Hc : s ++ 0%N :: rest = (s1 ++ sm) ++ s3 ++ 0%N :: rest).
  { rewrite Hs at 1. now rewrite <- !app_assoc. }
  erewrite (memmove_at _ (s1 ++ sm) s3 (0%N :: rest) s1 (firstn (length s3) (sm ++ s3)) ((x :: W) ++ 0%N :: rest)).
  - unfold set_len, set_cells. cbn [cells blen bstatic bfault].
    erewrite (poke_at _ (s1 ++ s3) x (W ++ 0%N :: rest)); cbn [cells blen].
    + unfold set_cells, dyn. cbn [cells blen bstatic bfault]. f_equal. rewrite !app_length. lia.
    + now rewrite <- app_assoc.
    + cbn [blen dyn]. rewrite app_length. lia.
  - exact Hc.
  - cbn [cells dyn]. rewrite Hc, <- !app_assoc. f_equal. rewrite <- EW.
    rewrite (app_assoc (firstn _ _)), firstn_skipn. now rewrite <- app_assoc.
  - rewrite firstn_length, app_length. lia.
  - lia.
  - rewrite app_length. lia.
  - lia.
Qed.

Lemma set_char_dyn s rest p ch : p < length s ->
  set_char (dyn s rest) (N.of_nat p) ch = (dyn (set_spec s p ch) rest, true).
Proof.
  intros Hp. unfold set_char. cbn [bstatic dyn blen].
  replace (N.of_nat (length s) <=? N.of_nat p)%N with false by (symmetry; apply N.leb_gt; lia).
  cbn [orb]. rewrite Nat2N.id. f_equal.
  destruct (skipn p s) as [|x r] eqn:E.
  { apply (f_equal (@length N)) in E. rewrite skipn_length in E. cbn in E. lia. }
  assert (Hs : s = firstn p s ++ x :: r) by (now rewrite <- E, firstn_skipn).
  assert (Hr : skipn (S p) s = r).
  { replace (S p) with (p + 1) by lia. now rewrite <- skipn_skipn, E. }
  erewrite (poke_at _ (firstn p s) x (r ++ 0%N :: rest)).
  - unfold set_cells, dyn, set_spec. cbn [cells blen bstatic bfault]. rewrite Hr. f_equal.
    + now rewrite <- app_assoc.
    + rewrite app_length. cbn [length]. apply (f_equal (@length N)) in Hs. rewrite app_length in Hs. cbn [length] in Hs. lia.
  - cbn [cells dyn]. rewrite Hs at 1. now rewrite <- app_assoc.
  - rewrite firstn_length. lia.
Qed.

Lemma create_dyn data block : data <> [] -> (N.of_nat (length data) + 1 + block < 4294967296)%N ->
  exists rest, create data block = dyn data rest.
Proof.
  intros Hd Hb. unfold create. destruct data as [|d0 dr] eqn:Ed; [congruence|]. rewrite <- Ed in *.
  assert (Hl : 0 < length data) by (rewrite Ed; cbn; lia).
  set (m := if (u32 (block + 1) <? u32 (N.of_nat (length data) + 1))%N then u32 (N.of_nat (length data) + 1 + block) else u32 (block + 1)).
  assert (Hm : length data + 1 <= N.to_nat m).
  { unfold m, u32. clear m. rewrite !N.mod_small by lia.
    destruct (_ <? _)%N eqn:E; [apply N.ltb_lt in E | apply N.ltb_ge in E]; lia. }
  destruct (skipn (length data) (repeat junk (N.to_nat m))) as [|x W] eqn:EW.
  { apply (f_equal (@length N)) in EW. rewrite skipn_length, repeat_length in EW. cbn in EW. lia. }
  exists W.
  erewrite (blit_at _ [] (firstn (length data) (repeat junk (N.to_nat m))) (x :: W) data 0).
  - unfold set_cells. cbn [cells blen bstatic bfault app].
    erewrite (poke_at _ data x W); cbn [cells]; reflexivity.
  - cbn [cells app]. now rewrite <- EW, firstn_skipn.
  - rewrite firstn_length, repeat_length. lia.
  - reflexivity.
Qed.
