(* C01 (parser core) — totality with linear fuel and the suffix invariant of Model/Parser.v.
   sfx k r' r : r' is what is left of r after at least k bytes were consumed (r = p ++ r', k <= |p|).
   Every function of the model returns, on success, a state whose unread part is such a suffix of the
   unread part it was given; functions that are called in loops consume at least one byte, so fuel
   `S (length input)` is never exhausted. *)
From Coq Require Import String Ascii.
From Coq Require Import List NArith ZArith Lia Bool ZifyBool ZifyN.
From Wbxml Require Import Base.Bits Model.Codec Model.TablesDefs Model.Parser.
Import ListNotations.
Local Open Scope N_scope.

Definition sfx (k : nat) (r' r : bytes) : Prop := exists p, r = p ++ r' /\ (k <= length p)%nat.

Definition ok1 {A} (k : nat) (x : pres (A * bytes)) (r : bytes) : Prop :=
  match x with POk (_, r') => sfx k r' r | PErr _ => True | PFuel => False end.
Definition okS {A} (k : nat) (x : pres (A * pstate)) (st : pstate) : Prop :=
  match x with POk (_, st') => sfx k (s_rest st') (s_rest st) | PErr _ => True | PFuel => False end.
Definition okP (k : nat) (x : pres pstate) (st : pstate) : Prop :=
  match x with POk st' => sfx k (s_rest st') (s_rest st) | PErr _ => True | PFuel => False end.
Definition nofuel {A} (x : pres A) : Prop := match x with PFuel => False | _ => True end.

Lemma sfx_len k r' r : sfx k r' r -> (length r' + k <= length r)%nat.
Proof. intros (p & -> & H). rewrite app_length. lia. Qed.

Lemma sfx_refl r : sfx 0 r r.
Proof. exists []. split; [reflexivity|cbn; lia]. Qed.

Lemma sfx_cons b r : sfx 1 r (b :: r).
Proof. exists [b]. split; [reflexivity|cbn; lia]. Qed.

Lemma sfx_cons_step k b r' r : sfx k r' r -> sfx 1 r' (b :: r).
Proof. intros (p & -> & H). exists (b :: p). split; [reflexivity|cbn; lia]. Qed.

Lemma sfx_tl r : sfx 0 (tl r) r.
Proof. destruct r as [|b r]; [apply sfx_refl|]. exists [b]. split; [reflexivity|cbn; lia]. Qed.

Lemma sfx_drop n r : sfx 0 (drop n r) r.
Proof. exists (take n r). split; [unfold take, drop; symmetry; apply firstn_skipn|lia]. Qed.

Lemma sfx_trans a b r1 r2 r3 : sfx a r2 r1 -> sfx b r3 r2 -> sfx (a + b) r3 r1.
Proof.
  intros (p & -> & Hp) (q & -> & Hq). exists (p ++ q). split; [rewrite app_assoc; reflexivity|rewrite app_length; lia].
Qed.

Lemma sfx_weaken k j r' r : (j <= k)%nat -> sfx k r' r -> sfx j r' r.
Proof. intros H (p & -> & Hp). exists p. split; [reflexivity|lia]. Qed.

(* chain the suffix facts in the context *)
Ltac sfx_chain1 :=
  match goal with
  | H1 : sfx ?a ?r2 ?r1, H2 : sfx ?b ?r3 ?r2 |- _ =>
    tryif constr_eq r1 r2 then fail else
    tryif constr_eq r2 r3 then fail else
    lazymatch goal with
    | _ : sfx (a + b) r3 r1 |- _ => fail
    | _ => pose proof (sfx_trans a b r1 r2 r3 H1 H2)
    end
  end.
Ltac sfx_done :=
  cbn [s_rest set_rest set_cur] in *;
  do 8 try sfx_chain1;
  first [ apply sfx_refl
        | match goal with H : sfx ?k ?r' ?r |- sfx ?j ?r' ?r => apply (sfx_weaken k j); [cbn; lia | exact H] end ].

(* ---- primitives ---- *)

Lemma uint8_ok r : ok1 1 (parse_uint8 r) r.
Proof. destruct r as [|b r]; cbn; [exact I|apply sfx_cons]. Qed.

Lemma mb_loop_ok k : forall u r,
  match mb_read_loop k u r with Ok (_, r') => sfx 1 r' r | Err _ => True end.
Proof.
  induction k as [|k IH]; intros u r; cbn [mb_read_loop]; [exact I|].
  destruct r as [|b r]; [exact I|].
  destruct (N.land b 128 =? 0); [apply sfx_cons|].
  specialize (IH (u32 (N.lor (N.shiftl u 7) (N.land b 127))) r).
  destruct (mb_read_loop k _ r) as [[v r']|e]; [|exact I].
  apply (sfx_weaken 2 1); [lia|]. apply (sfx_trans 1 1 _ r); [apply sfx_cons|exact IH].
Qed.

Lemma mb_ok r : ok1 1 (parse_mb_uint32 r) r.
Proof.
  unfold parse_mb_uint32, mb_read. pose proof (mb_loop_ok 5 0 r) as H.
  destruct (mb_read_loop 5 0 r) as [[v r']|e]; cbn; [exact H|exact I].
Qed.

Lemma split_nul_sfx r s t : split_nul r = Some (s, t) -> sfx 1 t r.
Proof.
  revert s t. induction r as [|b r IH]; intros s t H; cbn [split_nul] in H; [discriminate|].
  destruct (b =? 0).
  - injection H as <- <-. apply sfx_cons.
  - destruct (split_nul r) as [[s0 t0]|]; [|discriminate]. injection H as <- <-.
    apply (sfx_weaken 2 1); [lia|]. apply (sfx_trans 1 1 _ r); [apply sfx_cons|apply (IH s0 t0 eq_refl)].
Qed.

Lemma conv_term_ok1 cs r : ok1 1 (conv_term cs r) r.
Proof.
  unfold conv_term. destruct ((cs =? 1000) || (cs =? 1015)).
  - destruct (search_null2 r); exact I.
  - destruct (split_nul r) as [[s t]|] eqn:E; [|exact I].
    destruct ((cs =? 3) || (cs =? 106)); [|exact I]. cbn. apply (split_nul_sfx r s t E).
Qed.

Lemma strtbl_ref_nofuel env i : nofuel (get_strtbl_reference env i).
Proof.
  unfold get_strtbl_reference. destruct (e_strtbl env) as [tb|].
  - destruct (e_strtbl_len env <=? i); [exact I|].
    pose proof (conv_term_ok1 (e_charset env) (drop i tb)) as H.
    destruct (conv_term (e_charset env) (drop i tb)) as [[s t]|e|]; cbn in *; tauto.
  - destruct (i =? 0); exact I.
Qed.

(* destruct a call whose result satisfies ok1 / okS / okP / nofuel *)
Tactic Notation "dcall" constr(t) "by" constr(lemma) "as" simple_intropattern(x) :=
  generalize lemma; unfold ok1, okS, okP, nofuel;
  destruct t as [x|?|]; cbn beta iota; intros ?; try exact I; try contradiction.

Lemma string_ok env r : ok1 1 (parse_string env r) r.
Proof.
  unfold parse_string, parse_inline, parse_termstr, parse_tableref.
  destruct r as [|b r]; cbn [is_token]; [exact I|]. cbn [tl].
  destruct (b =? 3).
  - dcall (conv_term (e_charset env) r) by (conv_term_ok1 (e_charset env) r) as [s t]. cbn. eapply sfx_cons_step; eassumption.
  - destruct (b =? 131); [|exact I].
    dcall (parse_mb_uint32 r) by (mb_ok r) as [i r1].
    dcall (get_strtbl_reference env i) by (strtbl_ref_nofuel env i) as s. cbn. eapply sfx_cons_step; eassumption.
Qed.

Lemma entity_ok r : ok1 1 (parse_entity r) r.
Proof.
  unfold parse_entity. pose proof (sfx_tl r).
  dcall (parse_mb_uint32 (tl r)) by (mb_ok (tl r)) as [c r1].
  destruct (entity_utf8 c); cbn; [|exact I]. sfx_done.
Qed.

Lemma opaque_ok r : ok1 1 (parse_opaque r) r.
Proof.
  unfold parse_opaque. pose proof (sfx_tl r).
  dcall (parse_mb_uint32 (tl r)) by (mb_ok (tl r)) as [len r1].
  destruct (blen r1 <? len); cbn; [exact I|]. pose proof (sfx_drop len r1). sfx_done.
Qed.

Lemma switch_page_ok sp st : okP 1 (parse_switch_page sp st) st.
Proof.
  unfold parse_switch_page. pose proof (sfx_tl (s_rest st)).
  dcall (parse_uint8 (tl (s_rest st))) by (uint8_ok (tl (s_rest st))) as [pg r1].
  destruct sp; cbn [s_rest]; sfx_done.
Qed.

Lemma opt_switch_page_ok0 sp st : okP 0 (opt_switch_page sp st) st.
Proof.
  unfold opt_switch_page. destruct (is_token (s_rest st) 0).
  - pose proof (switch_page_ok sp st) as H. unfold okP in *. destruct (parse_switch_page sp st); try tauto.
    apply (sfx_weaken 1 0); [lia|exact H].
  - cbn. apply sfx_refl.
Qed.

Lemma extension_ok env sp st : okS 1 (parse_extension env sp st) st.
Proof.
  unfold parse_extension.
  dcall (opt_switch_page sp st) by (opt_switch_page_ok0 sp st) as st1.
  dcall (parse_uint8 (s_rest st1)) by (uint8_ok (s_rest st1)) as [tok r1].
  destruct (is_wml_lang (l_id (e_lang env))).
  - destruct ((tok =? 192) || (tok =? 193) || (tok =? 194)); [cbn [s_rest set_rest]; sfx_done|].
    destruct ((tok =? 64) || (tok =? 65) || (tok =? 66)).
    + unfold parse_termstr. dcall (conv_term (e_charset env) r1) by (conv_term_ok1 (e_charset env) r1) as [s t].
      cbn [s_rest set_rest]. sfx_done.
    + destruct ((tok =? 128) || (tok =? 129) || (tok =? 130)); [|exact I].
      dcall (parse_mb_uint32 r1) by (mb_ok r1) as [i r2].
      dcall (get_strtbl_reference env i) by (strtbl_ref_nofuel env i) as s. cbn [s_rest set_rest]. sfx_done.
  - destruct (is_wv_lang (l_id (e_lang env))).
    + destruct (negb (tok =? 128)); [cbn [s_rest set_rest]; sfx_done|].
      dcall (parse_mb_uint32 r1) by (mb_ok r1) as [v r2].
      destruct (l_exts (e_lang env)) as [t|]; [|exact I].
      destruct (find_ext t v); cbn [s_rest set_rest]; sfx_done.
    + cbn [s_rest set_rest]. sfx_done.
Qed.

Lemma literal_ok env r : ok1 1 (parse_literal env r) r.
Proof.
  unfold parse_literal.
  dcall (parse_uint8 r) by (uint8_ok r) as [tok r1].
  dcall (parse_mb_uint32 r1) by (mb_ok r1) as [i r2].
  dcall (get_strtbl_reference env i) by (strtbl_ref_nofuel env i) as s.
  destruct (tok =? 4); [cbn; sfx_done|]. destruct (tok =? 68); [cbn; sfx_done|].
  destruct (tok =? 132); [cbn; sfx_done|]. destruct (tok =? 196); [cbn; sfx_done|exact I].
Qed.

Lemma stag_ok1 env st : ok1 1 (parse_stag env st) (s_rest st).
Proof.
  unfold parse_stag, parse_tag. destruct (is_literal (s_rest st)).
  - dcall (parse_literal env (s_rest st)) by (literal_ok env (s_rest st)) as [[m nm] r1]. cbn. sfx_done.
  - dcall (parse_uint8 (s_rest st)) by (uint8_ok (s_rest st)) as [tag r1].
    destruct (l_tags (e_lang env)) as [t|]; [|exact I].
    destruct (find_tag t (s_tagcp st) (N.land tag 63)); cbn; sfx_done.
Qed.

Lemma attr_start_ok env st : okS 1 (parse_attr_start env st) st.
Proof.
  unfold parse_attr_start. destruct (is_token (s_rest st) 4).
  - dcall (parse_literal env (s_rest st)) by (literal_ok env (s_rest st)) as [[m nm] r1]. cbn [s_rest set_rest]. sfx_done.
  - dcall (opt_switch_page AttrSpace st) by (opt_switch_page_ok0 AttrSpace st) as st1.
    dcall (parse_uint8 (s_rest st1)) by (uint8_ok (s_rest st1)) as [tag r1].
    destruct (l_attrs (e_lang env)) as [t|]; [|exact I].
    destruct (find_attr t (s_attrcp st1) tag); cbn [s_rest set_rest]; sfx_done.
Qed.

Lemma lift_str_ok st x : ok1 1 x (s_rest st) -> okS 1 (lift_str st x) st.
Proof. unfold lift_str, ok1, okS. destruct x as [[s r]|e|]; cbn [s_rest set_rest]; tauto. Qed.

Lemma decode_attr_nofuel env d : nofuel (decode_opaque_attr_value env d).
Proof.
  unfold decode_opaque_attr_value, decode_base64_value.
  destruct (l_id (e_lang env) =? 1901); [destruct (b64_enc d)|]; exact I.
Qed.

Lemma attr_value_ok env st : okS 1 (parse_attr_value env st) st.
Proof.
  unfold parse_attr_value. cbn zeta.
  destruct (is_extension (s_rest st)); [apply extension_ok|].
  destruct (is_token (s_rest st) 2); [apply lift_str_ok, entity_ok|].
  destruct (is_string (s_rest st)); [apply lift_str_ok, string_ok|].
  destruct (is_token (s_rest st) 195).
  - dcall (parse_opaque (s_rest st)) by (opaque_ok (s_rest st)) as [d r1].
    dcall (decode_opaque_attr_value env d) by (decode_attr_nofuel env d) as d'. cbn [s_rest set_rest]. sfx_done.
  - dcall (opt_switch_page AttrSpace st) by (opt_switch_page_ok0 AttrSpace st) as st1.
    dcall (parse_uint8 (s_rest st1)) by (uint8_ok (s_rest st1)) as [tag r1].
    destruct (l_vals (e_lang env)) as [t|]; [|exact I].
    destruct (find_val t (s_attrcp st1) tag); cbn [s_rest set_rest]; [sfx_done|exact I].
Qed.

(* ---- loops over attribute values and attributes ---- *)

Ltac len_lia := repeat match goal with H : sfx _ _ _ |- _ => apply sfx_len in H end; cbn [s_rest set_rest set_cur] in *; lia.

Lemma attr_values_loop_ok fuel : forall env st acc, (length (s_rest st) < fuel)%nat ->
  okS 0 (attr_values_loop fuel env st acc) st.
Proof.
  induction fuel as [|f IH]; intros env st acc Hf; [lia|]. cbn [attr_values_loop].
  destruct (is_attr_value (s_rest st)); [|cbn; apply sfx_refl].
  dcall (parse_attr_value env st) by (attr_value_ok env st) as [v st1].
  assert (Hl : (length (s_rest st1) < f)%nat) by len_lia.
  dcall (attr_values_loop f env st1 (app_opt acc v)) by (IH env st1 (app_opt acc v) Hl) as [b st2]. sfx_done.
Qed.

Lemma pi_values_loop_ok fuel : forall env st acc, (length (s_rest st) < fuel)%nat ->
  okS 0 (pi_values_loop fuel env st acc) st.
Proof.
  induction fuel as [|f IH]; intros env st acc Hf; [lia|]. cbn [pi_values_loop].
  destruct (is_token (s_rest st) 1); [cbn; apply sfx_refl|].
  dcall (parse_attr_value env st) by (attr_value_ok env st) as [v st1].
  assert (Hl : (length (s_rest st1) < f)%nat) by len_lia.
  dcall (pi_values_loop f env st1 (app_opt acc v)) by (IH env st1 (app_opt acc v) Hl) as [b st2]. sfx_done.
Qed.

Lemma attr_typed_nofuel env name v : nofuel (attr_typed env name v).
Proof.
  unfold attr_typed, decode_datetime. destruct v as [|b v]; [exact I|]. destruct name as [p t n|n]; [|exact I].
  repeat match goal with |- context [if ?c then _ else _] => destruct c end; exact I.
Qed.

Lemma attribute_ok fuel env st : (length (s_rest st) <= fuel)%nat -> okS 1 (parse_attribute fuel env st) st.
Proof.
  intros Hf. unfold parse_attribute.
  dcall (parse_attr_start env st) by (attr_start_ok env st) as [[name start] st1].
  assert (Hl : (length (s_rest st1) < fuel)%nat) by len_lia.
  dcall (attr_values_loop fuel env st1 (opt_bytes start)) by (attr_values_loop_ok fuel env st1 (opt_bytes start) Hl) as [value st2].
  dcall (attr_typed env name value) by (attr_typed_nofuel env name value) as value'. sfx_done.
Qed.

Lemma attrs_loop_ok1 fuel : forall env st acc, (length (s_rest st) < fuel)%nat ->
  okS 1 (attrs_loop fuel env st acc) st.
Proof.
  induction fuel as [|f IH]; intros env st acc Hf; [lia|]. cbn [attrs_loop].
  assert (Hle : (length (s_rest st) <= f)%nat) by lia.
  dcall (parse_attribute f env st) by (attribute_ok f env st Hle) as [[name value] st1].
  destruct (is_token (s_rest st1) 1).
  - cbn [s_rest set_rest]. pose proof (sfx_tl (s_rest st1)). sfx_done.
  - assert (Hl : (length (s_rest st1) < f)%nat) by len_lia.
    dcall (attrs_loop f env st1 (acc ++ [(name, value)])) by (IH env st1 (acc ++ [(name, value)]) Hl) as [l st2]. sfx_done.
Qed.

Lemma pi_ok1 fuel env st : s_rest st <> [] -> (length (s_rest st) <= fuel)%nat -> okS 1 (parse_pi fuel env st) st.
Proof.
  intros Hne Hf. unfold parse_pi.
  assert (H0 : sfx 1 (tl (s_rest st)) (s_rest st)) by (destruct (s_rest st) as [|b r]; [congruence|apply sfx_cons]).
  dcall (parse_attr_start env (set_rest st (tl (s_rest st)))) by (attr_start_ok env (set_rest st (tl (s_rest st)))) as [[name start] st1].
  cbn [s_rest set_rest] in *.
  assert (Hl : (length (s_rest st1) < fuel)%nat) by len_lia.
  dcall (pi_values_loop fuel env st1 (opt_bytes start)) by (pi_values_loop_ok fuel env st1 (opt_bytes start) Hl) as [value st2].
  cbn [s_rest set_rest]. pose proof (sfx_tl (s_rest st2)). sfx_done.
Qed.

(* ---- content and elements ---- *)

Lemma wv_int_loop_nofuel d : forall v, nofuel (wv_int_loop d v).
Proof. induction d as [|b d IH]; intros v; cbn [wv_int_loop]; [exact I|]. destruct (16777215 <? v); [exact I|apply IH]. Qed.

Lemma decode_content_nofuel env cur d : nofuel (decode_opaque_content env cur d).
Proof.
  unfold decode_opaque_content, decode_wv_content, decode_wv_integer, decode_wv_datetime, decode_base64_value.
  destruct (is_wv_lang (l_id (e_lang env))).
  - destruct cur as [[p t]|]; [|exact I]. destruct (wv_data_type p t); try exact I.
    + pose proof (wv_int_loop_nofuel d 0). destruct (wv_int_loop d 0); cbn in *; tauto.
    + destruct d as [|d0 [|d1 [|d2 [|d3 [|d4 [|d5 [|d6 d]]]]]]]; exact I.
  - destruct (l_id (e_lang env) =? 1801); [destruct (cur_is cur 0 12); [destruct (b64_enc d)|]; exact I|].
    destruct (is_syncml_lang (l_id (e_lang env))); [destruct (cur_is cur 1 16); [destruct (b64_enc d)|]; exact I|exact I].
Qed.

Lemma content_ok fuel env n pelt st : (length (s_rest st) <= fuel)%nat -> okS 1 (pelt st) st ->
  okS 1 (parse_content fuel env n pelt st) st.
Proof.
  intros Hf Hp. unfold parse_content. cbn zeta. destruct (s_rest st) as [|b0 r0] eqn:Er; [exact I|]. rewrite <- Er in *.
  destruct (is_extension (s_rest st)).
  { dcall (parse_extension env TagSpace st) by (extension_ok env TagSpace st) as [v st1]. exact H. }
  destruct (is_token (s_rest st) 2).
  { dcall (parse_entity (s_rest st)) by (entity_ok (s_rest st)) as [s r1]. cbn [s_rest set_rest]. exact H. }
  destruct (is_string (s_rest st)).
  { dcall (parse_string env (s_rest st)) by (string_ok env (s_rest st)) as [s r1]. cbn [s_rest set_rest]. exact H. }
  destruct (is_token (s_rest st) 195).
  { dcall (parse_opaque (s_rest st)) by (opaque_ok (s_rest st)) as [d r1].
    dcall (decode_opaque_content env (s_cur st) d) by (decode_content_nofuel env (s_cur st) d) as d'. cbn [s_rest set_rest]. exact H. }
  destruct (is_token (s_rest st) 67).
  { apply pi_ok1; [rewrite Er; discriminate|exact Hf]. }
  destruct (is_token (s_rest st) 0).
  { dcall (parse_switch_page TagSpace st) by (switch_page_ok TagSpace st) as st1. exact H. }
  destruct (MAX_NESTING_DEPTH <=? n); [exact I|exact Hp].
Qed.

Lemma element_with_ok fuel env cloop st : (length (s_rest st) <= fuel)%nat ->
  (forall st', (length (s_rest st') < length (s_rest st))%nat -> okS 1 (cloop st') st') ->
  okS 1 (parse_element_with fuel env cloop st) st.
Proof.
  intros Hf Hc. unfold parse_element_with.
  dcall (opt_switch_page TagSpace st) by (opt_switch_page_ok0 TagSpace st) as st0.
  dcall (parse_stag env st0) by (stag_ok1 env st0) as [[tag elt] r].
  cbn zeta.
  set (st1 := match elt with TagTok p t _ => set_cur (set_rest st0 r) (Some (p, t)) | TagLit _ => set_rest st0 r end).
  assert (E1 : s_rest st1 = r) by (subst st1; destruct elt; reflexivity).
  assert (H1 : sfx 1 (s_rest st1) (s_rest st)) by (rewrite E1; sfx_done).
  assert (Ha : okS 0 (if N.land tag 128 =? 128 then attrs_loop fuel env st1 [] else POk ([], st1)) st1).
  { destruct (N.land tag 128 =? 128).
    - pose proof (attrs_loop_ok1 fuel env st1 []) as Hx.
      assert (Hl : (length (s_rest st1) < fuel)%nat) by len_lia. specialize (Hx Hl).
      unfold okS in *. destruct (attrs_loop fuel env st1 []) as [[al st2]|e|]; try tauto.
      apply (sfx_weaken 1 0); [lia|exact Hx].
    - cbn. apply sfx_refl. }
  clearbody st1.
  dcall (if N.land tag 128 =? 128 then attrs_loop fuel env st1 [] else POk ([], st1)) by Ha as [attrs st2].
  destruct (N.land tag 64 =? 64).
  - assert (Hl : (length (s_rest st2) < length (s_rest st))%nat) by len_lia.
    dcall (cloop st2) by (Hc st2 Hl) as [evs st3]. cbn [s_rest set_cur]. sfx_done.
  - cbn [s_rest set_cur]. sfx_done.
Qed.

Lemma content_loop_ok fuel : forall env n st, (length (s_rest st) < fuel)%nat ->
  okS 1 (content_loop fuel env n st) st.
Proof.
  induction fuel as [|f IH]; intros env n st Hf; [lia|]. cbn [content_loop].
  destruct (is_token (s_rest st) 1) eqn:E1.
  - cbn [okS s_rest set_rest]. destruct (s_rest st) as [|b r]; [discriminate|]. cbn [tl]. apply sfx_cons.
  - assert (Hle : (length (s_rest st) <= f)%nat) by lia.
    assert (Hp : okS 1 (parse_element_with f env (content_loop f env (n + 1)) st) st).
    { apply element_with_ok; [exact Hle|]. intros st' Hl. apply IH. lia. }
    dcall (parse_content f env n (parse_element_with f env (content_loop f env (n + 1))) st)
      by (content_ok f env n _ st Hle Hp) as [evs st1].
    assert (Hl : (length (s_rest st1) < f)%nat) by len_lia.
    dcall (content_loop f env n st1) by (IH env n st1 Hl) as [evs' st2]. sfx_done.
Qed.

Lemma element_ok1 fuel env st : (length (s_rest st) <= fuel)%nat -> okS 1 (parse_element fuel env st) st.
Proof.
  intros Hf. unfold parse_element. apply element_with_ok; [exact Hf|].
  intros st' Hl. apply content_loop_ok. lia.
Qed.

Lemma body_pi_loop_ok fuel : forall env st, (length (s_rest st) < fuel)%nat -> okS 0 (body_pi_loop fuel env st) st.
Proof.
  induction fuel as [|f IH]; intros env st Hf; [lia|]. cbn [body_pi_loop].
  destruct (is_token (s_rest st) 67) eqn:E; [|cbn; apply sfx_refl].
  assert (Hne : s_rest st <> []) by (destruct (s_rest st); [discriminate|discriminate]).
  assert (Hle : (length (s_rest st) <= f)%nat) by lia.
  dcall (parse_pi f env st) by (pi_ok1 f env st Hne Hle) as [evs st1].
  assert (Hl : (length (s_rest st1) < f)%nat) by len_lia.
  dcall (body_pi_loop f env st1) by (IH env st1 Hl) as [evs' st2]. sfx_done.
Qed.

Lemma body_ok fuel env st : (length (s_rest st) < fuel)%nat -> okS 1 (parse_body fuel env st) st.
Proof.
  intros Hf. unfold parse_body.
  dcall (body_pi_loop fuel env st) by (body_pi_loop_ok fuel env st Hf) as [e1 st1].
  assert (Hl1 : (length (s_rest st1) <= fuel)%nat) by len_lia.
  dcall (parse_element fuel env st1) by (element_ok1 fuel env st1 Hl1) as [e2 st2].
  assert (Hl2 : (length (s_rest st2) < fuel)%nat) by len_lia.
  dcall (body_pi_loop fuel env st2) by (body_pi_loop_ok fuel env st2 Hl2) as [e3 st3]. sfx_done.
Qed.

(* ---- header ---- *)

Lemma publicid_ok r : ok1 1 (parse_publicid r) r.
Proof.
  unfold parse_publicid. destruct r as [|b r]; [exact I|].
  destruct (b =? 0).
  - dcall (parse_mb_uint32 r) by (mb_ok r) as [i r2]. cbn. eapply sfx_cons_step; eassumption.
  - dcall (parse_mb_uint32 (b :: r)) by (mb_ok (b :: r)) as [p r2]. cbn. exact H.
Qed.

Lemma charset_ok meta r : ok1 1 (parse_charset meta r) r.
Proof.
  unfold parse_charset. dcall (parse_mb_uint32 r) by (mb_ok r) as [c r1].
  destruct (charset_known _); cbn; [exact H|exact I].
Qed.

Lemma strtbl_ok r : ok1 1 (parse_strtbl r) r.
Proof.
  unfold parse_strtbl. pose proof (mb_ok r) as H. unfold ok1 in H.
  destruct (parse_mb_uint32 r) as [[len r1]|e|]; [|exact I|contradiction].
  destruct (0 <? len); [|cbn; exact H].
  destruct (blen r1 <? len); [exact I|]. cbn. pose proof (sfx_drop len r1). sfx_done.
Qed.

(* (a) totality: one unit of fuel more than the length of the document is never exhausted *)
Theorem parse_total tbl forced meta bs : parse_with tbl forced meta (S (length bs)) bs <> PFuel.
Proof.
  unfold parse_with. destruct bs as [|b0 bs0] eqn:Ebs; [discriminate|]. rewrite <- Ebs.
  assert (Hlen : length bs = S (length bs0)) by (subst bs; reflexivity).
  generalize (uint8_ok bs). unfold ok1. destruct (parse_uint8 bs) as [[version r0]|e|]; [|discriminate|contradiction]. intros H0.
  generalize (publicid_ok r0). unfold ok1. destruct (parse_publicid r0) as [[[pubid pubidx] r1]|e|]; [|discriminate|contradiction]. intros H1.
  set (cs := if version =? 0 then POk (0, r1) else parse_charset meta r1).
  assert (Hcs : ok1 0 cs r1).
  { subst cs. destruct (version =? 0); [cbn; apply sfx_refl|].
    pose proof (charset_ok meta r1) as Hc. unfold ok1 in *. destruct (parse_charset meta r1) as [[c r]|e|]; try tauto.
    apply (sfx_weaken 1 0); [lia|exact Hc]. }
  clearbody cs. unfold ok1 in Hcs. destruct cs as [[charset r2]|e|]; [|discriminate|contradiction].
  generalize (strtbl_ok r2). unfold ok1. destruct (parse_strtbl r2) as [[[strtbl strtbl_len] r3]|e|]; [|discriminate|contradiction]. intros H3.
  destruct (check_public_id _ _ _ _ _ _ _) as [l|]; [|discriminate].
  match goal with |- context [parse_body ?f ?env ?st] =>
    assert (Hb : okS 1 (parse_body f env st) st) end.
  { apply body_ok. cbn [s_rest]. len_lia. }
  unfold okS in Hb. destruct (parse_body _ _ _) as [[evs st']|e|]; [discriminate|discriminate|contradiction].
Qed.

(* (b) the suffix invariant, at the top level: whatever the body parser leaves unread is a suffix of the document,
   and the string table is a block of it *)
Theorem body_reads_inside fuel env st evs st' : (length (s_rest st) < fuel)%nat ->
  parse_body fuel env st = POk (evs, st') -> exists p, s_rest st = p ++ s_rest st'.
Proof.
  intros Hf H. pose proof (body_ok fuel env st Hf) as Hb. unfold okS in Hb. rewrite H in Hb.
  destruct Hb as (p & E & _). exists p. exact E.
Qed.

(* ---- (d) growth, the two sources: an inline string is shorter than the bytes it consumed; a string-table
        reference yields at most the (padded) table, whatever number of times it is repeated ---- *)

Lemma split_nul_len r s t : split_nul r = Some (s, t) -> (length s + 1 + length t = length r)%nat.
Proof.
  revert s t. induction r as [|b r IH]; intros s t H; cbn [split_nul] in H; [discriminate|].
  destruct (b =? 0).
  - injection H as <- <-. cbn. lia.
  - destruct (split_nul r) as [[s0 t0]|]; [|discriminate]. injection H as <- <-.
    specialize (IH s0 t0 eq_refl). cbn [length]. lia.
Qed.

Lemma conv_term_len cs r s t : conv_term cs r = POk (s, t) -> (length s + 1 + length t = length r)%nat.
Proof.
  unfold conv_term. destruct ((cs =? 1000) || (cs =? 1015)); [destruct (search_null2 r); discriminate|].
  destruct (split_nul r) as [[s0 t0]|] eqn:E; [|discriminate].
  destruct ((cs =? 3) || (cs =? 106)); [|discriminate]. intros H. injection H as <- <-. apply (split_nul_len r s0 t0 E).
Qed.

Lemma strtbl_ref_len env i s : get_strtbl_reference env i = POk s ->
  (length s <= Nat.max 5 (match e_strtbl env with Some tb => length tb | None => 0 end))%nat.
Proof.
  unfold get_strtbl_reference. destruct (e_strtbl env) as [tb|].
  - destruct (e_strtbl_len env <=? i); [discriminate|].
    destruct (conv_term (e_charset env) (drop i tb)) as [[s0 t0]|e|] eqn:E; try discriminate.
    intros H. injection H as <-. apply conv_term_len in E.
    assert (length (drop i tb) <= length tb)%nat by (unfold drop; rewrite skipn_length; lia). lia.
  - destruct (i =? 0); [|discriminate]. intros H. injection H as <-. cbn. lia.
Qed.
