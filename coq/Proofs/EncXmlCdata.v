(* C05 — CDATA sections: the generator splits every "]]>" of the payload over two sections
   (split_cdata_end, the repaired D9) and the reader puts the payload together again. *)
From Coq Require Import List NArith Arith Lia Bool.
From Wbxml Require Import Model.Codec Model.EncXml Model.XmlRead Proofs.EncXmlProofs.
Import ListNotations.
Local Open Scope N_scope.

Definition is_end (a b c : N) : bool := (a =? 93) && (b =? 93) && (c =? 62).

Lemma split_cons_other a t : (match t with b :: c :: _ => is_end a b c | _ => false end) = false ->
  split_cdata_end (a :: t) = a :: split_cdata_end t.
Proof.
  intros H. destruct t as [|b [|c r]]; try reflexivity. cbn [split_cdata_end]. unfold is_end in H. now rewrite H.
Qed.

Lemma span_cdata_3 a b c r :
  span_cdata (a :: b :: c :: r) =
  if is_end a b c then Some ([], r)
  else match span_cdata (b :: c :: r) with Some (x, y) => Some (a :: x, y) | None => None end.
Proof. reflexivity. Qed.

Lemma split_3 a b c r :
  split_cdata_end (a :: b :: c :: r) =
  if is_end a b c then s_cdata_split ++ split_cdata_end r else a :: split_cdata_end (b :: c :: r).
Proof. reflexivity. Qed.

(* no end marker in the payload: it is copied and makes one section *)
Lemma split_none t : span_cdata t = None -> split_cdata_end t = t.
Proof.
  induction t as [|a t IH]; [reflexivity|]. destruct t as [|b [|c r]]; try reflexivity.
  rewrite span_cdata_3, split_3. destruct (is_end a b c); [discriminate|].
  intros H. f_equal. apply IH. destruct (span_cdata (b :: c :: r)) as [[x y]|]; [discriminate H|reflexivity].
Qed.

Lemma span_none_app t tail : span_cdata t = None -> span_cdata (t ++ 93 :: 93 :: 62 :: tail) = Some (t, tail).
Proof.
  induction t as [|a t IH]; [reflexivity|]. destruct t as [|b [|c r]].
  - intros _. cbn [app]. rewrite span_cdata_3. unfold is_end. change (93 =? 62) with false. rewrite !andb_false_r. reflexivity.
  - intros _. cbn [app] in *. rewrite span_cdata_3. unfold is_end. change (93 =? 62) with false. rewrite !andb_false_r.
    rewrite IH by reflexivity. reflexivity.
  - rewrite span_cdata_3. destruct (is_end a b c) eqn:E; [discriminate|]. intros H.
    cbn [app] in *. rewrite span_cdata_3, E. rewrite IH; [reflexivity|].
    destruct (span_cdata (b :: c :: r)) as [[x y]|]; [discriminate H|reflexivity].
Qed.

(* an end marker in the payload: the section ends after its first two bytes *)
Lemma span_some t : forall t1 t2, span_cdata t = Some (t1, t2) ->
  t = t1 ++ 93 :: 93 :: 62 :: t2 /\
  split_cdata_end t = t1 ++ s_cdata_split ++ split_cdata_end t2 /\
  forall rest, span_cdata (t1 ++ 93 :: 93 :: 93 :: 93 :: 62 :: rest) = Some (t1 ++ [93; 93], rest).
Proof.
  induction t as [|a t IH]; [discriminate|]. destruct t as [|b [|c r]]; try discriminate.
  intros t1 t2. rewrite span_cdata_3, split_3. destruct (is_end a b c) eqn:E.
  - intros H. injection H as <- <-. unfold is_end in E. apply andb_true_iff in E as [E E3]. apply andb_true_iff in E as [E1 E2].
    apply N.eqb_eq in E1, E2, E3. subst. repeat split; reflexivity.
  - destruct (span_cdata (b :: c :: r)) as [[x y]|] eqn:ES; [|discriminate]. intros H. injection H as <- <-.
    destruct (IH x y eq_refl) as (H1 & H2 & H3). repeat split.
    + cbn [app]. now rewrite <- H1.
    + cbn [app]. f_equal. exact H2.
    + intros rest. cbn [app].
      destruct x as [|x0 [|x1 xr]]; cbn [app] in *.
      * rewrite span_cdata_3. unfold is_end. change (93 =? 62) with false. rewrite !andb_false_r.
        rewrite (H3 rest). reflexivity.
      * rewrite span_cdata_3. unfold is_end. change (93 =? 62) with false. rewrite !andb_false_r.
        rewrite (H3 rest). reflexivity.
      * injection H1 as -> -> _. rewrite span_cdata_3, E. rewrite (H3 rest). reflexivity.
Qed.

Lemma split_gt u : split_cdata_end (62 :: u) = 62 :: split_cdata_end u.
Proof. apply split_cons_other. destruct u as [|b [|c r]]; reflexivity. Qed.

Lemma s_cdata_split_eq x : s_cdata_split ++ x = 93 :: 93 :: 93 :: 93 :: 62 :: 60 :: 33 :: s_cdata_tail ++ 62 :: x.
Proof. reflexivity. Qed.

Lemma cdata_step f r acc :
  p_content (S f) (60 :: 33 :: s_cdata_tail ++ r) acc =
  match span_cdata r with
  | Some (t, r2) => if forallb is_xml_byte t then p_content f r2 (push_text (norm_eol t) acc) else RErr
  | None => RErr
  end.
Proof.
  cbn [p_content]. change (60 =? 60) with true. change (33 =? 47) with false. change (33 =? 33) with true. cbn match.
  now rewrite expect_app.
Qed.

(* reading the sections of one CDATA node: the payload is pushed as character data *)
Lemma cdata_read : forall n t, (length t <= n)%nat ->
  forallb is_xml_byte t = true -> no_byte 13 t = true ->
  forall acc tail f x,
    p_content f tail (push_text t acc) = ROk x ->
    p_content (S n + f) (60 :: 33 :: s_cdata_tail ++ split_cdata_end t ++ 93 :: 93 :: 62 :: tail) acc = ROk x.
Proof.
  induction n as [|n IH]; intros t Hlen Hb Hcr acc tail f x Hk.
  - destruct t; [|cbn in Hlen; lia]. change (1 + f)%nat with (S f). rewrite cdata_step. exact Hk.
  - change (S (S n) + f)%nat with (S (S n + f)). rewrite cdata_step.
    destruct (span_cdata t) as [[t1 t2]|] eqn:ES.
    + destruct (span_some t t1 t2 ES) as (H1 & H2 & H3).
      rewrite H2, <- !app_assoc, s_cdata_split_eq. rewrite H3.
      assert (Hb1 : forallb is_xml_byte (t1 ++ [93; 93]) = true).
      { rewrite H1, forallb_app in Hb. apply andb_true_iff in Hb as [Hb _]. rewrite forallb_app, Hb. reflexivity. }
      assert (Hc1 : no_byte 13 (t1 ++ [93; 93]) = true).
      { rewrite H1, no_byte_app in Hcr. apply andb_true_iff in Hcr as [Hcr _]. rewrite no_byte_app, Hcr. reflexivity. }
      rewrite Hb1, (norm_eol_id _ Hc1).
      assert (Hb2 : forallb is_xml_byte (62 :: t2) = true).
      { rewrite H1, forallb_app in Hb. apply andb_true_iff in Hb as [_ Hb]. cbn [forallb] in Hb |- *.
        apply andb_true_iff in Hb as [_ Hb]. apply andb_true_iff in Hb as [_ Hb]. exact Hb. }
      assert (Hc2 : no_byte 13 (62 :: t2) = true).
      { rewrite H1, no_byte_app in Hcr. apply andb_true_iff in Hcr as [_ Hcr]. unfold no_byte in *. cbn [forallb] in Hcr |- *.
        apply andb_true_iff in Hcr as [_ Hcr]. apply andb_true_iff in Hcr as [_ Hcr]. exact Hcr. }
      change (62 :: split_cdata_end t2 ++ 93 :: 93 :: 62 :: tail) with ((62 :: split_cdata_end t2) ++ 93 :: 93 :: 62 :: tail).
      rewrite <- split_gt.
      apply (IH (62 :: t2)); auto.
      * rewrite H1, app_length in Hlen. cbn [length] in Hlen |- *. lia.
      * rewrite <- push_text_app. rewrite <- app_assoc. cbn [app]. rewrite <- H1. exact Hk.
    + rewrite (split_none t ES), (span_none_app t tail ES), Hb, (norm_eol_id _ Hcr).
      eapply p_content_mono; [exact Hk|lia].
Qed.
