(* C03 (round trip at model level, WIDE fragment of Proofs/EncWbxmlDenote3.v: attributes, literal tags and attribute
   names, string table on or off) — the tree that the parser and the tree builder make of the bytes the WBXML encoder
   writes is the NORMALISED source tree converted to the builder's type (tnw): tags by tag_event, attributes by
   attr_event (none when the language has no attribute table: the encoder drops them), text as in tn.

   The encoder's theorem gives the parser's events only MODULO merge_chars (a text written as STR_I / STR_T pieces may
   reach the callbacks in several pieces).  The tree builder does not see the difference: wbxml_tree_add_node joins a
   text node to a preceding text node (add_node), so the fold gives the same state for an event list and for its
   merge_chars normal form (build_merge) as long as no SyncML <Data> element is involved. *)
From Coq Require Import String Ascii.
From Coq Require Import List NArith ZArith Lia Bool.
From Wbxml Require Import Model.Codec Model.TablesDefs Model.Parser Model.Spec Model.TreeBuild
     Proofs.ParserProofsBase Proofs.ParserProofsStr Proofs.ParserProofsDoc Proofs.ParserProofsTyped Proofs.ParserProofsWv
     Proofs.TreeBuildProofs Proofs.TreeBuildProofs2 Proofs.TreeBuildProofs3 Proofs.TreeRoundTrip.
From Wbxml Require Model.EncWbxml Model.EncWbxmlEvents Model.TreeNorm Proofs.EncWbxmlProofs Proofs.EncWbxmlAbs Proofs.EncWbxmlMerge
     Proofs.EncWbxmlDenote2 Proofs.EncWbxmlTblOk Proofs.EncWbxmlDenote3.
Import ListNotations.
Local Open Scope N_scope.

Module EV := Wbxml.Model.EncWbxmlEvents.
Module MG := Wbxml.Proofs.EncWbxmlMerge.
Module D2 := Wbxml.Proofs.EncWbxmlDenote2.
Module TK := Wbxml.Proofs.EncWbxmlTblOk.
Module D3 := Wbxml.Proofs.EncWbxmlDenote3.

(* ---- wbxml_tree_add_node and text pieces ---- *)
Lemma add_node_ne l n : add_node l n <> [].
Proof. destruct l as [|x [|y r]]; cbn [add_node]; [discriminate| |discriminate]. destruct x, n; discriminate. Qed.

Lemma add_node_text2 l a b : add_node (add_node l (TText a)) (TText b) = add_node l (TText (a ++ b)).
Proof.
  induction l as [|x r IH]; [reflexivity|]. destruct r as [|y r'].
  - destruct x; cbn [add_node]; try reflexivity. now rewrite app_assoc.
  - change (add_node (x :: y :: r') (TText a)) with (x :: add_node (y :: r') (TText a)).
    change (add_node (x :: y :: r') (TText (a ++ b))) with (x :: add_node (y :: r') (TText (a ++ b))).
    rewrite <- IH. destruct (add_node (y :: r') (TText a)) as [|z Z] eqn:E; [exfalso; exact (add_node_ne _ _ E)|]. reflexivity.
Qed.

(* ---- the fold on states whose open elements are ordinary (no <Data>, no CDATA section open) ---- *)
Definition finv (f : frame) : bool := not_data (f_tag f) && match f_cdata f with None => true | Some _ => false end.
Definition sinv (st : bstate) : Prop := exists f up, b_stack st = f :: up /\ forallb finv (f :: up) = true.

Lemma finv_split f : finv f = true -> not_data (f_tag f) = true /\ f_cdata f = None.
Proof. unfold finv. intros H. apply andb_true_iff in H as [H1 H2]. split; [exact H1|]. destruct (f_cdata f); [discriminate|reflexivity]. Qed.

Lemma chars_step tbl lv a r st f up : b_stack st = f :: up -> finv f = true ->
  build_from tbl lv (EvChars a :: r) st
  = build_from tbl lv r (mk_bstate (b_lang st) (b_charset st)
                                   (mk_frame (f_tag f) (f_attrs f) (add_node (f_done f) (TText a)) None :: up) (b_root st)).
Proof.
  intros Hs Hf. apply finv_split in Hf as [Hd Hc]. rewrite build_from_eq. rewrite Hs, (dtype_not_data f up Hd).
  unfold bnext, add_to_current. rewrite Hs, Hc. reflexivity.
Qed.

Lemma chars_step2 tbl lv a b r st : sinv st ->
  build_from tbl lv (EvChars a :: EvChars b :: r) st = build_from tbl lv (EvChars (a ++ b) :: r) st.
Proof.
  intros (f & up & Hs & Hi). cbn [forallb] in Hi. apply andb_true_iff in Hi as [Hf Hup].
  rewrite (chars_step tbl lv a _ st f up Hs Hf), (chars_step tbl lv (a ++ b) _ st f up Hs Hf).
  assert (Hf' : finv (mk_frame (f_tag f) (f_attrs f) (add_node (f_done f) (TText a)) None) = true).
  { unfold finv in *. cbn [f_tag f_cdata]. apply andb_true_iff in Hf as [Hd _]. now rewrite Hd. }
  rewrite (chars_step tbl lv b r (mk_bstate (b_lang st) (b_charset st) (mk_frame (f_tag f) (f_attrs f) (add_node (f_done f) (TText a)) None :: up) (b_root st))
             (mk_frame (f_tag f) (f_attrs f) (add_node (f_done f) (TText a)) None) up eq_refl Hf').
  cbn [b_lang b_charset b_root f_tag f_attrs f_done].
  now rewrite add_node_text2.
Qed.

Lemma build_glue tbl lv a m st : sinv st ->
  build_from tbl lv (EvChars a :: m) st = build_from tbl lv (EV.glue (EvChars a) m) st.
Proof.
  intros Hs. destruct m as [|y m']; [reflexivity|]. destruct y; try reflexivity. cbn [EV.glue]. now apply chars_step2.
Qed.

Lemma build_merge tbl lv : forall evs st, no_data evs = true -> sinv st ->
  build_from tbl lv evs st = build_from tbl lv (EV.merge_chars evs) st.
Proof.
  induction evs as [|x r IH]; intros st Hn Hs; [reflexivity|].
  cbn [no_data forallb] in Hn. apply andb_true_iff in Hn as [Hx Hn]. fold (no_data r) in Hn.
  cbn [EV.merge_chars].
  destruct x as [cs lid|t a|b|tg dt|t|].
  - cbn [EV.glue]. rewrite (build_from_eq tbl lv (EvStartDoc cs lid :: r)), (build_from_eq tbl lv (EvStartDoc cs lid :: _)).
    apply IH; [exact Hn|]. destruct Hs as (f & up & E & Hi). exists f, up. split; [exact E|exact Hi].
  - cbn [EV.glue]. rewrite (build_from_eq tbl lv (EvStartElt t a :: r)), (build_from_eq tbl lv (EvStartElt t a :: _)).
    destruct Hs as (f & up & E & Hi). unfold cb_start_element. rewrite E. unfold bnext.
    apply IH; [exact Hn|]. exists (mk_frame t a [] None), (leave_cdata f :: up). split; [reflexivity|].
    cbn [forallb] in *. apply andb_true_iff in Hi as [Hf Hup]. destruct (finv_split f Hf) as [_ Hc].
    unfold leave_cdata. rewrite Hc. rewrite Hf, Hup. unfold finv at 1. cbn [f_tag f_cdata]. now rewrite Hx.
  - destruct Hs as (f & up & E & Hi).
    rewrite <- build_glue by (exists f, up; auto).
    cbn [forallb] in Hi. pose proof Hi as Hi'. apply andb_true_iff in Hi as [Hf Hup].
    rewrite (chars_step tbl lv b r st f up E Hf), (chars_step tbl lv b _ st f up E Hf).
    apply IH; [exact Hn|]. eexists; eexists. split; [reflexivity|]. cbn [forallb]. rewrite Hup.
    unfold finv in *. cbn [f_tag f_cdata]. apply andb_true_iff in Hf as [Hd _]. now rewrite Hd.
  - cbn [EV.glue]. rewrite (build_from_eq tbl lv (EvPi tg dt :: r)), (build_from_eq tbl lv (EvPi tg dt :: _)). now apply IH.
  - cbn [EV.glue]. rewrite (build_from_eq tbl lv (EvEndElt t :: r)), (build_from_eq tbl lv (EvEndElt t :: _)).
    destruct Hs as (f & up & E & Hi). unfold cb_end_element. rewrite E.
    cbn [forallb] in Hi. apply andb_true_iff in Hi as [Hf Hup]. destruct (finv_split f Hf) as [_ Hc].
    destruct up as [|p up'].
    + rewrite Hc. unfold bnext. apply IH; [exact Hn|]. exists f, []. split; [exact E|]. cbn [forallb]. now rewrite Hf.
    + unfold bnext. apply IH; [exact Hn|]. eexists; eexists. split; [reflexivity|].
      cbn [forallb] in *. apply andb_true_iff in Hup as [Hp Hup']. rewrite Hup'.
      unfold finv in *. cbn [f_tag f_cdata]. apply andb_true_iff in Hp as [Hp _]. now rewrite Hp.
  - cbn [EV.glue]. rewrite (build_from_eq tbl lv (EvEndDoc :: r)), (build_from_eq tbl lv (EvEndDoc :: _)). now apply IH.
Qed.

(* ---- merge_chars keeps everything that is not character data ---- *)
Lemma no_data_glue x m : no_data (EV.glue x m) = no_data (x :: m).
Proof. destruct x; try reflexivity. destruct m as [|y m']; [reflexivity|]. destruct y; reflexivity. Qed.

Lemma no_data_merge l : no_data (EV.merge_chars l) = no_data l.
Proof.
  induction l as [|x r IH]; [reflexivity|]. cbn [EV.merge_chars]. rewrite no_data_glue.
  unfold no_data in *. cbn [forallb]. now rewrite IH.
Qed.

Lemma merge_head evs x m : EV.merge_chars evs = x :: m -> MG.is_chars x = false ->
  exists r, evs = x :: r /\ EV.merge_chars r = m.
Proof.
  destruct evs as [|y r]; [discriminate|]. cbn [EV.merge_chars]. intros H Hx.
  destruct y; cbn [EV.glue] in H;
    try (injection H as <- <-; eexists; split; reflexivity).
  destruct (EV.merge_chars r) as [|z M']; [injection H as <- _; discriminate|].
  destruct z; injection H as <- _; discriminate.
Qed.

(* ---- two documents whose events agree modulo merge_chars build the same tree ---- *)
Lemma build_merge_doc tbl lv cs lid t a r1 r2 :
  not_data t = true -> no_data r2 = true -> EV.merge_chars r1 = EV.merge_chars r2 ->
  build tbl lv (EvStartDoc cs lid :: EvStartElt t a :: r1) = build tbl lv (EvStartDoc cs lid :: EvStartElt t a :: r2).
Proof.
  intros Ht H2 HM. assert (H1 : no_data r1 = true) by (rewrite <- no_data_merge, HM, no_data_merge; exact H2).
  unfold build.
  rewrite (build_from_eq tbl lv (_ :: _ :: r1)), (build_from_eq tbl lv (_ :: _ :: r2)).
  rewrite (build_from_eq tbl lv (_ :: r1)), (build_from_eq tbl lv (_ :: r2)).
  unfold cb_start_element. cbn [b_stack b_root st_init bnext b_lang b_charset].
  assert (Hs : sinv (mk_bstate lid cs [mk_frame t a [] None] None)).
  { exists (mk_frame t a [] None), []. split; [reflexivity|]. cbn [forallb]. unfold finv. cbn [f_tag f_cdata]. now rewrite Ht. }
  rewrite (build_merge tbl lv r1 _ H1 Hs), (build_merge tbl lv r2 _ H2 Hs), HM. reflexivity.
Qed.

(* ---- the conversion of the encoder's tree type, with attributes and literal names ---- *)
Fixpoint tnw (wa : bool) (n : E.node) : list tnode :=
  match n with
  | E.NElt tag attrs ch =>
    [TElt (TK.tag_event tag) (if wa then map D2.attr_event attrs else []) (merge_text (flat_map (tnw wa) ch))]
  | E.NText c => match cstr c with [] => [] | s => [TText s] end
  | _ => []
  end.

Lemma spec_forest_nodes3 wa : forall n, spec_forest (TK.events3 wa n) (tnw wa n).
Proof.
  induction n as [tag attrs ch IH|c|ch IH| |lid roots IH] using Proofs.EncWbxmlProofs.node_ind'; cbn [TK.events3 tnw].
  - assert (Hc : spec_forest (flat_map (TK.events3 wa) ch) (flat_map (tnw wa) ch)).
    { induction IH as [|x r Hx _ IHr]; cbn [flat_map]; [constructor|]. apply spec_forest_app; assumption. }
    change (flat_map (TK.events3 wa) ch ++ [EvEndElt (TK.tag_event tag)])
      with (flat_map (TK.events3 wa) ch ++ EvEndElt (TK.tag_event tag) :: []).
    constructor; [exact Hc|constructor].
  - destruct (cstr c) as [|b r]; constructor. constructor.
  - constructor.
  - constructor.
  - constructor.
Qed.

Lemma spec_forest_list3 wa ns : spec_forest (flat_map (TK.events3 wa) ns) (flat_map (tnw wa) ns).
Proof. induction ns as [|x r IH]; cbn [flat_map]; [constructor|]. apply spec_forest_app; [apply spec_forest_nodes3|exact IH]. Qed.

(* on the narrow fragment (token tags, no attributes) this is tn *)
Lemma tnw_tn wa : forall n, Proofs.EncWbxmlSerialize.frag_node n = true -> tnw wa n = tn n.
Proof.
  induction n as [tag attrs ch IH|c|ch IH| |lid roots IH] using Proofs.EncWbxmlProofs.node_ind';
    cbn [Proofs.EncWbxmlSerialize.frag_node]; intros H; try discriminate; [|reflexivity].
  destruct tag as [p t o nm|nm]; [|discriminate]. destruct attrs as [|a0 ar]; [|discriminate].
  cbn [tnw tn TK.tag_event map].
  assert (Hk : flat_map (tnw wa) ch = flat_map tn ch).
  { apply andb_true_iff in H as [_ H]. clear -IH H. induction IH as [|x r Hx _ IHr]; [reflexivity|].
    cbn [forallb] in H. apply andb_true_iff in H as [H1 H2]. cbn [flat_map]. now rewrite (Hx H1), (IHr H2). }
  rewrite Hk. destruct wa; reflexivity.
Qed.

(* ---- the round trip on the wide fragment ---- *)
Theorem roundtrip_wide tblb TBL L o tag attrs ch bs :
  let e := E.enc_env (D2.to_blang L) o in
  Proofs.EncWbxmlAbs.plain_env e = true -> D2.vals_ok L = true -> l_exts L = None ->
  TK.tree_ok3 L 0 (E.NElt tag attrs ch) = true ->
  find (fun x => l_id x =? l_id L) TBL = Some L -> l_id L <> 0 ->
  E.o_version o < 4 -> E.header_public_id e < 4294967296 -> E.header_public_id e <> 0 ->
  (match Proofs.EncWbxmlAbs.header_pid e with Some p => D2.okb p = true | None => True end) ->
  E.len bs < 4294967296 ->
  E.enc_wbxml tblb (D2.to_blang L) o [E.NElt tag attrs ch] = E.EOk bs ->
  no_data (D3.doc_events3 L e (E.o_keep_ws o) (E.NElt tag attrs ch)) = true ->
  forall ef, tree_from_wbxml TBL (l_id L) 0 ef bs
             = BOk (mk_wtree (l_id L) 106
                     (hd_error (flat_map (tnw (E.has_attr_table e)) (TreeNorm.norm (E.o_keep_ws o) [E.NElt tag attrs ch])))).
Proof.
  cbv zeta. intros HP HV HX HT HFind Hid Hv H1 H0 Hpid Hlen He Hnd ef.
  destruct (D3.strict_decode_of_encoding3 tblb TBL L o tag attrs ch bs HP HV HX HT HFind Hv H1 H0 Hpid Hlen He)
    as (d & evs & Hbs & _ & Hden & _ & HM).
  subst bs.
  assert (Hp : parse_with TBL (l_id L) 0 (S (length (serialize d))) (serialize d) = POk evs).
  { apply (parse_denote_with TBL (fun l0 _ _ => typed_wv_agree_proved) typed_datetime_agree_proved (l_id L) (Some L) d); [|exact Hden].
    split; [reflexivity|]. split; [exact Hid|exact HFind]. }
  unfold tree_from_wbxml. rewrite Hp.
  set (e := E.enc_env (D2.to_blang L) o) in *. set (wa := E.has_attr_table e) in *.
  revert HM Hnd. unfold D3.doc_events3, TreeNorm.norm. fold wa. cbn [flat_map TreeNorm.norm_node TK.events3 tnw app]. rewrite !app_nil_r.
  set (kids := flat_map (TreeNorm.norm_node (E.o_keep_ws o) false) ch).
  set (t := TK.tag_event tag). set (a := if wa then map D2.attr_event attrs else []).
  intros HM Hnd. cbn [hd_error].
  cbn [EV.merge_chars EV.glue] in HM.
  destruct (merge_head evs _ _ HM eq_refl) as (r1 & -> & HM1).
  destruct (merge_head r1 _ _ HM1 eq_refl) as (r2 & -> & HM2).
  unfold no_data in Hnd. cbn [forallb] in Hnd. apply andb_true_iff in Hnd as [_ Hnd]. apply andb_true_iff in Hnd as [Ht Hn2]. fold (no_data ((flat_map (TK.events3 wa) kids ++ [EvEndElt t]) ++ [EvEndDoc])) in Hn2.
  subst a.
  rewrite (build_merge_doc TBL ef 106 (l_id L) t _ r2 _ Ht Hn2 HM2).
  assert (Hni : no_data (flat_map (TK.events3 wa) kids) = true).
  { unfold no_data in *. rewrite !forallb_app in Hn2. apply andb_true_iff in Hn2 as [Hn2 _]. apply andb_true_iff in Hn2 as [Hn2 _]. exact Hn2. }
  pose proof (build_of_shape TBL ef 106 (l_id L) [] t (if wa then map D2.attr_event attrs else []) (flat_map (TK.events3 wa) kids) [] _ eq_refl eq_refl
               (spec_forest_list3 wa kids) Ht Hni) as Hb.
  cbn [app] in Hb. rewrite app_nil_r in Hb. exact Hb.
Qed.
