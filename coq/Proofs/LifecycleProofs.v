(* C15 — proofs over Model/Lifecycle.v and the regenerated Gen/Structs.v *)
From Coq Require Import List NArith ZArith String Bool Lia.
From Wbxml Require Import Model.Lifecycle Gen.Structs.
Import ListNotations.
Local Open Scope N_scope.

(* ====================================================================== *)
(* 1. obligations against the generated struct descriptions                *)

Definition str_in (s : string) (l : list string) : bool := existsb (String.eqb s) l.
Definition subset (a b : list string) : bool := forallb (fun x => str_in x b) a.
Fixpoint lookup (k : string) (l : list (string * list string)) : list string :=
  match l with [] => [] | (k', v) :: r => if String.eqb k k' then v else lookup k r end.
Definition is_setting (c : fclass) : bool := match c with Setting => true | RunState => false end.

(* every SETTING field is assigned only by creation / its setter (and the listed run functions whose stores the
   model transcribes); in particular no run function caches anything in a setting that the model does not know *)
Definition settings_writers_ok (cls : list (string * fclass)) (allowed writers : list (string * list string)) : bool :=
  forallb (fun fc => if is_setting (snd fc) then subset (lookup (fst fc) writers) (lookup (fst fc) allowed) else true) cls.
(* every RUN-STATE field is assigned by the re-initialisation function (or is a listed, known omission) *)
Definition runstate_reset_ok (cls : list (string * fclass)) (reset : string) (known : list string)
                             (writers : list (string * list string)) : bool :=
  forallb (fun fc => if is_setting (snd fc) then true
                     else str_in reset (lookup (fst fc) writers) || str_in (fst fc) known) cls.

Lemma parser_fields_match : map fst parser_class = parser_fields.
Proof. vm_compute. reflexivity. Qed.
Lemma encoder_fields_match : map fst encoder_class = encoder_fields.
Proof. vm_compute. reflexivity. Qed.
Lemma conv_w2x_fields_match : map fst conv_w2x_class = conv_w2x_fields.
Proof. vm_compute. reflexivity. Qed.
Lemma conv_x2w_fields_match : map fst conv_x2w_class = conv_x2w_fields.
Proof. vm_compute. reflexivity. Qed.

Lemma parser_settings_writers : settings_writers_ok parser_class parser_setters parser_writers = true.
Proof. vm_compute. reflexivity. Qed.
Lemma parser_reinit_covers_runstate : runstate_reset_ok parser_class parser_reinit_name [] parser_writers_via_static = true.
Proof. vm_compute. reflexivity. Qed.
Lemma conv_w2x_settings_writers : settings_writers_ok conv_w2x_class conv_w2x_setters conv_w2x_writers = true.
Proof. vm_compute. reflexivity. Qed.
Lemma conv_x2w_settings_writers : settings_writers_ok conv_x2w_class conv_x2w_setters conv_x2w_writers = true.
Proof. vm_compute. reflexivity. Qed.
Lemma encoder_settings_writers : settings_writers_ok encoder_class encoder_setters encoder_writers = true.
Proof. vm_compute. reflexivity. Qed.
Lemma encoder_reset_covers_runstate :
  runstate_reset_ok encoder_class encoder_reset_name encoder_known_unreset encoder_writers_via_static = true.
Proof. vm_compute. reflexivity. Qed.

(* ====================================================================== *)
(* 2. parser                                                               *)

Lemma p_make_split : forall p, p_make (p_settings p) (p_runstate p) = p.
Proof. destruct p; reflexivity. Qed.
Lemma p_settings_make : forall s r, p_settings (p_make s r) = s.
Proof. destruct s, r; reflexivity. Qed.
Lemma p_runstate_make : forall s r, p_runstate (p_make s r) = r.
Proof. destruct s, r; reflexivity. Qed.

(* re-initialisation gives exactly a new object with the same settings, field by field *)
Lemma reinit_is_fresh : forall p, parser_reinit p = parser_fresh (p_settings p).
Proof. destruct p; reflexivity. Qed.
Lemma fresh_settings : forall s, p_settings (parser_fresh s) = s.
Proof. destruct s; reflexivity. Qed.
Lemma reinit_settings : forall p, p_settings (parser_reinit p) = p_settings p.
Proof. destruct p; reflexivity. Qed.
Lemma reinit_runstate : forall p, p_runstate (parser_reinit p) = p_runstate parser_create.
Proof. destruct p; reflexivity. Qed.
Lemma reinit_idem : forall p, parser_reinit (parser_reinit p) = parser_reinit p.
Proof. destruct p; reflexivity. Qed.

Section ParserProofs.
  Variables doc result : Type.
  Variable doc_empty : doc -> bool.
  Variable empty_result : result.
  Variable pbody : parser -> doc -> prun * result.

  Notation parse := (parser_parse doc result doc_empty empty_result pbody).
  Notation exec := (p_exec doc result doc_empty empty_result pbody).
  Notation spec := (p_spec doc result doc_empty empty_result pbody).

  (* one parse: the result depends on the settings only, the settings are kept *)
  Lemma parse_result_fresh : forall p d, snd (parse p d) = snd (parse (parser_fresh (p_settings p)) d).
  Proof.
    intros p d. unfold parser_parse, parser_parse_with.
    destruct (doc_empty d); [reflexivity|].
    rewrite (reinit_is_fresh (parser_fresh (p_settings p))), fresh_settings, <- reinit_is_fresh.
    destruct (pbody (parser_reinit p) d); reflexivity.
  Qed.
  Lemma parse_keeps_settings : forall p d, p_settings (fst (parse p d)) = p_settings p.
  Proof.
    intros p d. unfold parser_parse, parser_parse_with.
    destruct (doc_empty d); [reflexivity|].
    destruct (pbody (parser_reinit p) d). cbn [fst]. rewrite p_settings_make. apply reinit_settings.
  Qed.

  Lemma pstep_spec : forall p o,
    snd (pstep doc result parse p o) = snd (ps_step doc result doc_empty empty_result pbody (p_settings p) o) /\
    p_settings (fst (pstep doc result parse p o)) = fst (ps_step doc result doc_empty empty_result pbody (p_settings p) o).
  Proof.
    intros p o. destruct o; cbn [pstep ps_step fst snd].
    - pose proof (parse_result_fresh p d) as H1. pose proof (parse_keeps_settings p d) as H2.
      destruct (parse p d) as [p' r]. cbn [fst snd] in *. rewrite H1, H2. split; reflexivity.
    - destruct p; split; reflexivity.
    - destruct p; split; reflexivity.
    - destruct p; split; reflexivity.
    - destruct p; split; reflexivity.
    - destruct p; split; reflexivity.
  Qed.

  (* the whole history on ONE object = each document on a fresh object with the settings in force *)
  Theorem parser_history : forall ops p,
    snd (exec p ops) = snd (spec (p_settings p) ops) /\
    p_settings (fst (exec p ops)) = fst (spec (p_settings p) ops).
  Proof.
    induction ops as [|o r IH]; intros p.
    - split; reflexivity.
    - unfold p_exec. cbn [p_exec_with p_spec].
      destruct (pstep_spec p o) as [H1 H2].
      destruct (pstep doc result parse p o) as [p1 out1].
      destruct (ps_step doc result doc_empty empty_result pbody (p_settings p) o) as [s1 sout1].
      cbn [fst snd] in H1, H2. subst.
      specialize (IH p1). unfold p_exec in IH.
      destruct (p_exec_with doc result parse p1 r) as [p2 out2].
      destruct (spec (p_settings p1) r) as [s2 sout2].
      cbn [fst snd] in *. destruct IH as [IH1 IH2]. subst. split; reflexivity.
  Qed.

  (* documents only: the statement of the property *)
  Corollary parser_docs : forall docs p,
    snd (exec p (map PParse docs)) = map (fun d => snd (parse (parser_fresh (p_settings p)) d)) docs /\
    p_settings (fst (exec p (map PParse docs))) = p_settings p.
  Proof.
    intros docs p. destruct (parser_history (map PParse docs) p) as [H1 H2]. rewrite H1, H2. clear H1 H2.
    generalize (p_settings p) as s. induction docs as [|d r IH]; intros s; [split; reflexivity|].
    cbn [map p_spec ps_step]. specialize (IH s).
    destruct (spec s (map PParse r)) as [s2 o2]. cbn [fst snd app] in *. destruct IH as [-> ->]. split; reflexivity.
  Qed.
End ParserProofs.

(* the statement is not vacuous: with a re-initialisation that forgets attrCodePage there is a body and a pair of
   documents whose second result differs from the fresh one (the body reports the attribute page it starts on
   and leaves page 1 behind) *)
Definition demo_body (p : parser) (d : N) : prun * N :=
  (mkPR None None 0 None None 1 (-1)%Z 0 0 3 0 d 0, p_attrCodePage p).
Lemma forgetting_attrCodePage_is_observable :
  let bad := parser_parse_with N N (fun _ => false) 0 demo_body parser_reinit_forgets_attrCodePage in
  snd (bad (fst (bad parser_create 1)) 1) <> snd (bad parser_create 1).
Proof. vm_compute. discriminate. Qed.

(* ====================================================================== *)
(* 3. converters                                                           *)

Section ConvProofs.
  Variables doc result : Type.
  Variable w2x_body : N -> N -> N -> N -> bool -> doc -> result.
  Variable x2w_body : N -> bool -> bool -> bool -> doc -> result.

  Theorem w2x_history : forall ops c, snd (w2x_exec doc result w2x_body c ops) = w2x_spec doc result w2x_body c ops.
  Proof.
    induction ops as [|o r IH]; intros c; [reflexivity|].
    cbn [w2x_exec w2x_spec]. destruct o; cbn [w2x_step w2x_run w2x_opts fst];
      rewrite <- IH; match goal with |- context [w2x_exec _ _ _ ?c' r] => destruct (w2x_exec doc result w2x_body c' r) end; reflexivity.
  Qed.
  Theorem x2w_history : forall ops c, snd (x2w_exec doc result x2w_body c ops) = x2w_spec doc result x2w_body c ops.
  Proof.
    induction ops as [|o r IH]; intros c; [reflexivity|].
    cbn [x2w_exec x2w_spec]. destruct o; cbn [x2w_step x2w_run x2w_opts fst];
      rewrite <- IH; match goal with |- context [x2w_exec _ _ _ ?c' r] => destruct (x2w_exec doc result x2w_body c' r) end; reflexivity.
  Qed.
  (* a run leaves the object as it was *)
  Lemma w2x_run_keeps : forall c d, fst (w2x_run doc result w2x_body c d) = c.
  Proof. reflexivity. Qed.
  Lemma x2w_run_keeps : forall c d, fst (x2w_run doc result x2w_body c d) = c.
  Proof. reflexivity. Qed.
  Corollary w2x_docs : forall docs c,
    snd (w2x_exec doc result w2x_body c (map WRun docs)) =
    map (fun d => snd (w2x_run doc result w2x_body c d)) docs.
  Proof.
    intros docs c. rewrite w2x_history. induction docs as [|d r IH]; [reflexivity|].
    cbn [map w2x_spec]. rewrite IH. reflexivity.
  Qed.
  Corollary x2w_docs : forall docs c,
    snd (x2w_exec doc result x2w_body c (map XRun docs)) =
    map (fun d => snd (x2w_run doc result x2w_body c d)) docs.
  Proof.
    intros docs c. rewrite x2w_history. induction docs as [|d r IH]; [reflexivity|].
    cbn [map x2w_spec]. rewrite IH. reflexivity.
  Qed.
End ConvProofs.

(* ====================================================================== *)
(* 4. encoder                                                              *)

Lemma e_make_split : forall e, e_make (e_settings e) (e_runstate e) = e.
Proof. destruct e; reflexivity. Qed.
Lemma e_settings_make : forall s r, e_settings (e_make s r) = s.
Proof. destruct s, r; reflexivity. Qed.
Lemma e_runstate_make : forall s r, e_runstate (e_make s r) = r.
Proof. destruct s, r; reflexivity. Qed.

(* what the reset, as it is, does and does not do *)
Lemma reset_keeps_settings : forall e, e_settings (enc_reset e) = e_settings e.
Proof. destruct e; reflexivity. Qed.
Lemma reset_fixed_keeps_settings : forall e, e_settings (enc_reset_fixed e) = e_settings e.
Proof. destruct e; reflexivity. Qed.
(* the repaired reset: exactly a newly created encoder with the same settings *)
Lemma reset_fixed_is_fresh : forall e, enc_reset_fixed e = enc_fresh (e_settings e).
Proof. destruct e; reflexivity. Qed.
(* both resets clear the CDATA / content flags UNCONDITIONALLY — in particular in_cdata whatever e_cdata is: XML output
   never allocates the cdata buffer, so a reset that looked at the buffer would leave in_cdata set *)
Lemma reset_clears_cdata_flags : forall e,
  (e_in_cdata (enc_reset e) = false /\ e_in_content (enc_reset e) = false /\ e_cdata (enc_reset e) = None) /\
  (e_in_cdata (enc_reset_fixed e) = false /\ e_in_content (enc_reset_fixed e) = false /\ e_cdata (enc_reset_fixed e) = None /\
   e_indent (enc_reset_fixed e) = 0).
Proof. destruct e; repeat split; reflexivity. Qed.
(* both resets drop the output and the HEADER buffer unconditionally — in particular in Flow Mode, where the header is built
   only when output_header is NULL: a header kept across a reset would be written in front of the next document *)
Lemma reset_clears_output_header : forall e,
  (e_output_header (enc_reset e) = None /\ e_output (enc_reset e) = None) /\
  (e_output_header (enc_reset_fixed e) = None /\ e_output (enc_reset_fixed e) = None) /\
  e_flow_mode (enc_reset_fixed e) = e_flow_mode e.
Proof. destruct e; repeat split; reflexivity. Qed.
(* the reset as it is never is: the string-table list is NULL where creation allocates one *)
Lemma reset_is_never_fresh : forall e, enc_reset e <> enc_fresh (e_settings e).
Proof. intros e H. apply (f_equal e_strstbl) in H. destruct e; discriminate H. Qed.
(* ... and these are the only differences: string-table list, indent, current_text_parent *)
Lemma reset_differs_only_in : forall e,
  enc_reset e =
  (let f := enc_fresh (e_settings e) in
   mkEnc (e_tree f) (e_lang f) (e_output f) (e_output_header f) (e_current_tag f) (e_current_text_parent e)
     (e_current_attr f) (e_current_node f) (e_tagCodePage f) (e_attrCodePage f) (e_ignore_empty_text f)
     (e_remove_text_blanks f) (e_output_type f) (e_xml_gen_type f) (e_indent_delta f) (e_indent e) (e_in_content f)
     (e_in_cdata f) (e_cdata f) None (e_strstbl_len f) (e_use_strtbl f) (e_xml_encode_header f)
     (e_produce_anonymous f) (e_wbxml_version f) (e_output_charset f) (e_flow_mode f) (e_pre_last_node_len f)
     (e_pre_last_tagCodePage f) (e_pre_last_attrCodePage f) (e_pre_last_indent f) (e_pre_last_in_content f) (e_pre_last_tag f)
     (e_textual_publicid f)).
Proof. destruct e; reflexivity. Qed.

Section EncoderProofs.
  Variables tree out : Type.
  Variable t_id : tree -> N.
  Variable t_lang : tree -> option N.
  Variable t_charset : tree -> N.
  Variable ebody : encoder -> tree -> erun * eres out.

  Notation encode := (enc_encode tree out t_id t_lang t_charset ebody).
  Notation encode_fixed := (enc_encode_fixed tree out t_id t_lang t_charset ebody).
  Notation exec_fixed := (e_exec_fixed tree out t_id t_lang t_charset ebody).
  Notation spec := (e_spec tree out t_id t_lang t_charset ebody).

  (* D14, first half, for EVERY body: a WBXML run with the string table on, started on an encoder that has been
     reset (as the code is), cannot succeed *)
  Theorem reset_then_wbxml_fails : forall e t,
    es_use_strtbl (enc_derive (es_apply (e_settings e) (ESetOutputType OUT_WBXML)) (t_lang t) (t_charset t)) = true ->
    (e_lang e <> None \/ t_lang t <> None) ->
    exists code, snd (encode (enc_reset e) t OUT_WBXML) = EErr code.
  Proof.
    intros e t Hu Hl. unfold enc_encode. rewrite reset_keeps_settings.
    set (s2 := es_apply (e_settings e) (ESetOutputType OUT_WBXML)) in *.
    set (s3 := enc_derive s2 (t_lang t) (t_charset t)) in *.
    assert (Hot : es_output_type s3 =? OUT_WBXML = true) by (subst s3 s2; destruct e; reflexivity).
    assert (Hst : er_strstbl (er_set_tree (e_runstate (enc_reset e)) (t_id t)) = None) by (destruct e; reflexivity).
    assert (Hlang : es_lang s2 = e_lang e) by (subst s2; destruct e; reflexivity).
    rewrite Hlang, Hot, Hu, Hst.
    destruct (e_lang e) as [l|]; [| destruct (t_lang t) as [tl|]; [| destruct Hl as [Hl|Hl]; congruence]];
      match goal with |- context [ebody ?x t] => destruct (ebody x t) as [rs r] end;
      cbn [snd andb]; destruct r; cbn [force_err]; eexists; reflexivity.
  Qed.

  (* the repaired encoder: a run followed by the reset leaves a newly created encoder with the caller's settings
     (the output type of the run is the only setting a run changes: set_output_type is a setter) *)
  Lemma encode_fixed_settings : forall e t ot,
    e_settings (fst (encode_fixed e t ot)) = es_apply (e_settings e) (ESetOutputType ot).
  Proof.
    intros e t ot. unfold enc_encode_fixed, enc_encode.
    set (s2 := es_apply (e_settings e) (ESetOutputType ot)).
    assert (Hgen : forall s3 rs, s3 = s2 \/ s3 = enc_derive s2 (t_lang t) (t_charset t) ->
       e_settings (e_make (mkES (es_lang (e_settings e)) (es_ignore_empty_text (e_settings (e_make s3 rs)))
         (es_remove_text_blanks (e_settings (e_make s3 rs))) (es_output_type (e_settings (e_make s3 rs)))
         (es_xml_gen_type (e_settings (e_make s3 rs))) (es_indent_delta (e_settings (e_make s3 rs)))
         (es_use_strtbl (e_settings e)) (es_xml_encode_header (e_settings (e_make s3 rs)))
         (es_produce_anonymous (e_settings (e_make s3 rs))) (es_wbxml_version (e_settings (e_make s3 rs)))
         (es_output_charset (e_settings e)) (es_flow_mode (e_settings (e_make s3 rs)))
         (es_textual_publicid (e_settings (e_make s3 rs)))) (e_runstate (e_make s3 rs))) = s2).
    { intros s3 rs H. rewrite !e_settings_make. destruct H; subst s3 s2; destruct e; reflexivity. }
    destruct (es_lang s2); [| destruct (t_lang t)];
      try (match goal with |- context [ebody ?x t] => destruct (ebody x t) end);
      cbn [fst]; apply Hgen; auto.
  Qed.

  Lemma encode_fixed_result : forall e t ot, snd (encode_fixed e t ot) = snd (encode e t ot).
  Proof. intros. unfold enc_encode_fixed. destruct (encode e t ot). reflexivity. Qed.

  (* the result of a run depends on the object only through what the run can see; on a fresh object that is the settings *)
  Theorem encoder_history_fixed : forall ops e,
    e_runstate e = erun_init ->
    snd (exec_fixed e ops) = snd (spec (e_settings e) ops) /\
    e_settings (fst (exec_fixed e ops)) = fst (spec (e_settings e) ops) /\
    e_runstate (fst (exec_fixed e ops)) = erun_init.
  Proof.
    induction ops as [|o r IH]; intros e He.
    - repeat split; assumption.
    - unfold e_exec_fixed. cbn [e_exec_with e_spec]. destruct o as [s | t ot]; cbn [estep].
      + assert (He' : e_runstate (e_set e s) = erun_init) by (unfold e_set; rewrite e_runstate_make; exact He).
        specialize (IH (e_set e s) He'). unfold e_exec_fixed in IH.
        destruct (e_exec_with tree out encode_fixed enc_reset_fixed (e_set e s) r) as [e2 o2].
        assert (Hs : e_settings (e_set e s) = es_apply (e_settings e) s) by (unfold e_set; apply e_settings_make).
        rewrite Hs in IH. cbn [fst snd app] in *. exact IH.
      + pose proof (encode_fixed_settings e t ot) as Hset. pose proof (encode_fixed_result e t ot) as Hres.
        destruct (encode_fixed e t ot) as [e' x]. cbn [fst snd] in Hset, Hres.
        assert (Hfresh : enc_reset_fixed e' = enc_fresh (es_after_run (e_settings e) ot)).
        { rewrite reset_fixed_is_fresh, Hset. reflexivity. }
        assert (He' : e_runstate (enc_reset_fixed e') = erun_init).
        { rewrite Hfresh. unfold enc_fresh. apply e_runstate_make. }
        specialize (IH (enc_reset_fixed e') He'). unfold e_exec_fixed in IH.
        destruct (e_exec_with tree out encode_fixed enc_reset_fixed (enc_reset_fixed e') r) as [e2 o2].
        rewrite Hfresh in IH. unfold enc_fresh in IH at 1 2. rewrite e_settings_make in IH.
        destruct (spec (es_after_run (e_settings e) ot) r) as [s2 so2].
        cbn [fst snd app] in *. destruct IH as [IH1 [IH2 IH3]].
        assert (Hx : x = snd (encode (enc_fresh (e_settings e)) t ot)).
        { rewrite Hres. f_equal. f_equal. unfold enc_fresh. rewrite <- He. symmetry. apply e_make_split. }
        subst. rewrite Hx. repeat split; try assumption; reflexivity.
  Qed.

  (* single step form of the property for the repaired code *)
  Corollary reset_fixed_after_run : forall e t ot,
    enc_reset_fixed (fst (encode_fixed e t ot)) = enc_fresh (es_apply (e_settings e) (ESetOutputType ot)).
  Proof. intros. rewrite reset_fixed_is_fresh, encode_fixed_settings. reflexivity. Qed.
End EncoderProofs.

(* ---------------------------------------------------------------------- *)
(* concrete witnesses against the code as it is (replayed on the C by the check) *)

(* a body that shows what it was given: it reports the language and whether a string table would be written *)
Definition wit_body (e : encoder) (t : N * N) : erun * eres (list N) :=
  (mkER (e_tree e) (Some []) None None 0 0 0 0 0 (e_indent e + 1) false false None (e_strstbl e) 0 0 0 0 0 false None,
   EOk [match e_lang e with Some l => l | None => 0 end; if e_use_strtbl e then 1 else 0; e_indent e; e_output_charset e]).
Definition wit_lang (t : N * N) : option N := Some (fst t).
Definition wit_exec := e_exec (N * N) (list N) (fun _ => 7) wit_lang snd wit_body.
Definition wit_spec := e_spec (N * N) (list N) (fun _ => 7) wit_lang snd wit_body.

(* W1 "encode, reset, encode WBXML": an SI tree twice; the second WBXML run fails, a fresh encoder succeeds *)
Lemma witness_strstbl_null :
  snd (wit_exec enc_create [ERunReset (1301, 106) OUT_WBXML; ERunReset (1301, 106) OUT_WBXML])
    = [EOk [1301; 1; 0; 106]; EErr 15] /\
  snd (wit_spec (e_settings enc_create) [ERunReset (1301, 106) OUT_WBXML; ERunReset (1301, 106) OUT_WBXML])
    = [EOk [1301; 1; 0; 106]; EOk [1301; 1; 0; 106]].
Proof. vm_compute. split; reflexivity. Qed.

(* W2 "WV tree, reset, SI tree": language, string-table switch and charset of the first tree are used for the second *)
Lemma witness_derived_settings_survive :
  snd (wit_exec enc_create [ERunReset (2301, 3) OUT_WBXML; ERunReset (1301, 106) OUT_WBXML])
    = [EOk [2301; 0; 0; 3]; EOk [2301; 0; 1; 3]] /\
  snd (wit_spec (e_settings enc_create) [ERunReset (2301, 3) OUT_WBXML; ERunReset (1301, 106) OUT_WBXML])
    = [EOk [2301; 0; 0; 3]; EOk [1301; 1; 0; 106]].
Proof. vm_compute. split; reflexivity. Qed.

(* W3 "failed XML run, reset, XML run": the indentation level is carried over *)
Lemma witness_indent_survives :
  e_indent (enc_reset (fst (enc_encode (N * N) (list N) (fun _ => 7) wit_lang snd wit_body enc_create (1301, 106) OUT_XML))) = 1 /\
  e_indent (enc_fresh (e_settings enc_create)) = 0.
Proof. vm_compute. split; reflexivity. Qed.

(* the property, stated for the code as it is, is refuted *)
Lemma reset_refuted :
  exists (ops : list (eop (N * N))) e,
    e_runstate e = erun_init /\ snd (wit_exec e ops) <> snd (wit_spec (e_settings e) ops).
Proof.
  exists [ERunReset (1301, 106) OUT_WBXML; ERunReset (1301, 106) OUT_WBXML], enc_create.
  split; [reflexivity|]. vm_compute. discriminate.
Qed.
