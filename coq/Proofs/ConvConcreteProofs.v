(* C01 (whole conversion) — facts about Model/ConvConcrete.v:
   - the model's own status MODEL_FUEL is never the result (the parser never runs out of its fuel, at either level;
     the tree builder has none);
   - the size of the XML is bounded by a fixed polynomial of the length of the document and of the indentation
     parameter: degree 2 when no embedded document is opened, degree 4 with the one level of embedded documents that
     WBXML_MAX_EMBEDDED_DEPTH allows. *)
From Coq Require Import String Ascii.
From Coq Require Import List NArith ZArith Lia Bool ZifyBool ZifyN.
From Wbxml Require Import Model.Codec Model.TablesDefs Model.Parser Model.TreeBuild Model.TreeConv Model.Conv Model.ConvConcrete
     Proofs.ParserTotal Proofs.ParserGrowth Proofs.ParserCount Proofs.ParserCharsMax Proofs.TreeBuildProofs Proofs.TreeBuildProofs2
     Proofs.TreeBuildProofs3 Proofs.TreeBuildSize Proofs.ConvCostXml Proofs.ConvProofs.
From Wbxml Require Model.EncXml.
Import ListNotations.
Local Open Scope N_scope.

(* ---- fuel ---- *)
Lemma perr_code_not_fuel e : perr_code e <> MODEL_FUEL.
Proof. destruct e; discriminate. Qed.
Lemma xerr_code_not_fuel e : xerr_code e <> MODEL_FUEL.
Proof. destruct e; discriminate. Qed.

Theorem model_never_fuel tbl o doc : r_status (wbxml2xml_model tbl o doc) <> ST_ERR MODEL_FUEL.
Proof.
  unfold wbxml2xml_model, conv_run. destruct doc as [|b0 r0]; [discriminate|].
  unfold w2x_tree_from_doc, wbxml_tree_from_wbxml.
  pose proof (tree_from_wbxml_total tbl (wo_lang o) (wo_charset o) MAX_EMBEDDED_DEPTH (b0 :: r0)) as Ht.
  destruct (tree_from_wbxml tbl (wo_lang o) (wo_charset o) MAX_EMBEDDED_DEPTH (b0 :: r0)) as [t|[| |e]|]; [| | | |congruence].
  - unfold w2x_encode. destruct (to_xroots tbl t) as [[xl roots]|]; [|discriminate].
    destruct (EncXml.enc_xml _ _ _ _ _) as [out|e]; cbn [r_status]; [discriminate|].
    intros H. injection H as H. exact (xerr_code_not_fuel e H).
  - discriminate.
  - discriminate.
  - cbn [r_status]. intros H. injection H as H. exact (perr_code_not_fuel e H).
Qed.

(* ---- size ---- *)
Definition KnsT (tbl : list lang) : nat := maxl (map (fun l => nsmax (EncXml.xlang_of l)) tbl).
Definition Khdr (tbl : list lang) : nat := maxl (map (fun l => hdr_len (EncXml.xlang_of l)) tbl).

Section Size.
Variable tbl : list lang.
Variable D : nat.

Definition Cn : nat := (2 * D + 2 * Kmax tbl + KnsT tbl + 12)%nat.
Definition mE (t : tagname) (a : list (attrname * bytes)) : nat :=
  (2 * D + 2 * (Kmax tbl + tn_size t) + KnsT tbl + 12 + 6 * attrs_size a + 5 * length a)%nat.
Definition mT (b : bytes) : nat := (24 * length b)%nat.
Definition mC : nat := 12%nat.

Lemma mT_app a b : (mT (a ++ b) <= mT a + mT b)%nat.
Proof. unfold mT. rewrite app_length. lia. Qed.

Lemma find_lang_In id l : find_lang tbl id = Some l -> In l tbl.
Proof. unfold find_lang. intros H. apply find_some in H. tauto. Qed.

Lemma to_tname_len l t : In l tbl -> (length (EncXml.tname_bytes (to_tname l t)) <= Kmax tbl + tn_size t)%nat.
Proof.
  intros Hl. destruct t as [p k n|n]; cbn [to_tname tn_size].
  - destruct (find _ (opt_list (l_tags l))) as [r|] eqn:E.
    + apply find_some in E. destruct E as [E _]. cbn [EncXml.tname_bytes EncXml.trow_of EncXml.tr_name].
      assert (H1 : (slen (t_name r) <= Ktags l)%nat) by (unfold Ktags; apply maxl_In; apply (in_map (fun r => slen (t_name r)) _ r E)).
      assert (H2 : (Klang l <= Kmax tbl)%nat) by (unfold Kmax; apply maxl_In; apply in_map; exact Hl).
      pose proof (Kfacts l). unfold slen, B in H1. unfold EncXml.bs. lia.
    + cbn [EncXml.tname_bytes]. pose proof (cstr_len n). lia.
  - cbn [EncXml.tname_bytes]. pose proof (cstr_len n). lia.
Qed.

Lemma attrs_cost a : (list_sum (map attr_cost (map to_attr a)) <= 6 * attrs_size a + 5 * length a)%nat.
Proof.
  induction a as [|[n v] r IH]; cbn [map attrs_size length]; [cbn; lia|]. rewrite ConvCostXml.list_sum_cons.
  unfold attr_cost at 1, to_attr at 1 2. cbn [EncXml.at_name EncXml.at_value EncXml.attr_value_bytes fst snd].
  assert (Hn : (length (EncXml.aname_bytes match n with AttrTok _ _ n0 => EncXml.ATok (EncXml.mk_arow n0) | AttrLit n0 => EncXml.ALit n0 end) <= an_size n)%nat).
  { destruct n as [p k n0|n0]; cbn [EncXml.aname_bytes EncXml.ar_name an_size]; [lia|apply cstr_len]. }
  pose proof (cstr_len (cstr v)). pose proof (cstr_len v). lia.
Qed.

Lemma to_xnode_cost : forall n l, In l tbl -> (xc D (EncXml.xlang_of l) (to_xnode tbl l n) <= tm mE mT mC n)%nat.
Proof.
  fix IH 1. intros n l Hl. destruct n as [t a ch|b|ch|lid cs root]; cbn [to_xnode xc tm].
  - assert (Hc : (list_sum (map (xc D (EncXml.xlang_of l)) (map (to_xnode tbl l) ch)) <= list_sum (map (tm mE mT mC) ch))%nat).
    { induction ch as [|x r IHr]; cbn [map]; rewrite ?ConvCostXml.list_sum_cons; [lia|]. pose proof (IH x l Hl). lia. }
    pose proof (to_tname_len l t Hl). pose proof (attrs_cost a).
    assert (Hns : (nsmax (EncXml.xlang_of l) <= KnsT tbl)%nat) by (unfold KnsT; apply maxl_In; apply (in_map (fun l => nsmax (EncXml.xlang_of l)) _ l Hl)).
    assert (HE : mE t a = (2 * D + 2 * (Kmax tbl + tn_size t) + KnsT tbl + 12 + 6 * attrs_size a + 5 * length a)%nat) by reflexivity. lia.
  - assert (HT : mT b = (24 * length b)%nat) by reflexivity. lia.
  - assert (Hc : (list_sum (map (xc D (EncXml.xlang_of l)) (map (to_xnode tbl l) ch)) <= list_sum (map (tm mE mT mC) ch))%nat).
    { induction ch as [|x r IHr]; cbn [map]; rewrite ?ConvCostXml.list_sum_cons; [lia|]. pose proof (IH x l Hl). lia. }
    assert (HC : mC = 12%nat) by reflexivity. lia.
  - destruct (find_lang tbl lid) as [l'|] eqn:E; cbn [option_map]; [|lia].
    apply find_lang_In in E. destruct root as [r|]; cbn [map]; rewrite ?ConvCostXml.list_sum_cons; [|cbn; lia].
    pose proof (IH r l' E). change (list_sum []) with 0%nat. lia.
Qed.

Definition Phi (x : nat) : nat := (24 * (x * (2 * x + 2 * Kmax tbl + 122)) + Cn * (2 * x))%nat.

Lemma Phi_mono a b : (a <= b)%nat -> (Phi a <= Phi b)%nat.
Proof. intros H. unfold Phi. nia. Qed.
Lemma Phi_add a b : (Phi a + Phi b <= Phi (a + b))%nat.
Proof. unfold Phi. nia. Qed.

(* level 0: no embedded document is opened *)
Definition mS0 (b : bytes) : nat := 0%nat.
(* level 1: an embedded document is a level-0 document parsed from the character data *)
Definition mS1 (b : bytes) : nat := Phi (length b).

Fixpoint chars_total (l : list event) : nat :=
  match l with [] => 0 | EvChars b :: r => length b + chars_total r | _ :: r => chars_total r end%nat.

Lemma chars_total_le evs : (chars_total evs <= evs_size evs)%nat.
Proof. induction evs as [|e r IH]; [cbn; lia|]. destruct e; cbn [chars_total evs_size ev_size]; lia. Qed.

Lemma ems_bound0 evs : (ems mE mT mC mS0 evs <= 24 * evs_size evs + Cn * cnt evs)%nat.
Proof.
  induction evs as [|e r IH]; [cbn; lia|]. rewrite ems_cons. cbn [evs_size cnt].
  assert (He : (em mE mT mC mS0 e <= 24 * ev_size e + Cn * ecnt e)%nat).
  { destruct e as [cs lid|t a|b|tg dt|t|]; cbn [em ev_size ecnt]; try lia.
    - unfold mE, Cn. nia.
    - unfold mT, mC, mS0, Cn. lia. }
  nia.
Qed.

Lemma ems_bound1 evs : (ems mE mT mC mS1 evs <= 24 * evs_size evs + Cn * cnt evs + Phi (chars_total evs))%nat.
Proof.
  induction evs as [|e r IH]; [cbn; lia|]. rewrite ems_cons. cbn [evs_size cnt].
  destruct e as [cs lid|t a|b|tg dt|t|]; cbn [em ev_size ecnt chars_total]; try lia.
  - assert (He : (mE t a <= 24 * (tn_size t + attrs_size a) + Cn * S (length a))%nat) by (unfold mE, Cn; nia). nia.
  - pose proof (Phi_add (length b) (chars_total r)). assert (HC : (12 <= Cn)%nat) by (unfold Cn; lia).
    assert (E1 : mT b = (24 * length b)%nat) by reflexivity. assert (E2 : mC = 12%nat) by reflexivity.
    assert (E3 : mS1 b = Phi (length b)) by reflexivity. rewrite Nat.mul_add_distr_l. lia.
Qed.

(* what a document parsed and built without embedding measures *)
Lemma level0_measure forced meta bs evs t :
  parse_with tbl forced meta (S (length bs)) bs = POk evs -> build tbl 0 evs = BOk t ->
  (tmr mE mT mC t <= Phi (length bs))%nat.
Proof.
  intros Hp Hb. pose proof (build_measure mE mT mC mS0 mT_app tbl 0 evs t I Hb) as Hm.
  pose proof (ems_bound0 evs) as He. pose proof (parse_growth _ _ _ _ _ _ Hp) as Hg. pose proof (parse_count _ _ _ _ _ _ Hp) as Hc.
  assert (Hmul : (Cn * cnt evs <= Cn * (2 * length bs))%nat) by (apply Nat.mul_le_mono_l; exact Hc).
  unfold Phi. lia.
Qed.

Lemma sub_ok1 : sub_ok mE mT mC mS1 tbl 1.
Proof. intros cs ch evs' t' Hp Hb. exact (level0_measure 0 cs ch evs' t' Hp Hb). Qed.

Lemma level1_measure forced meta bs evs t :
  parse_with tbl forced meta (S (length bs)) bs = POk evs -> build tbl 1 evs = BOk t ->
  (tmr mE mT mC t <= Phi (length bs) + Phi (length bs * (2 * length bs + 2 * Kmax tbl + 122)))%nat.
Proof.
  intros Hp Hb. pose proof (build_measure mE mT mC mS1 mT_app tbl 1 evs t sub_ok1 Hb) as Hm.
  pose proof (ems_bound1 evs) as He. pose proof (parse_growth _ _ _ _ _ _ Hp) as Hg. pose proof (parse_count _ _ _ _ _ _ Hp) as Hc.
  assert (Hmul : (Cn * cnt evs <= Cn * (2 * length bs))%nat) by (apply Nat.mul_le_mono_l; exact Hc).
  pose proof (Phi_mono _ _ (Nat.le_trans _ _ _ (chars_total_le evs) Hg)) as Hphi.
  unfold Phi at 1. lia.
Qed.
(* degree 3: an embedded document is parsed from ONE character-data event, and a single event is at most
   Bc = 5 n + Kmax + 121 bytes long (Proofs/ParserCharsMax.v); Phi x <= x * Psi for x <= Bc, and a linear function of the
   sizes sums to the same function of their total, which is at most E(n) *)
Definition PsiC (Bc : nat) : nat := (24 * (2 * Bc + 2 * Kmax tbl + 122) + Cn * 2)%nat.

Lemma Phi_lin Bc x : (x <= Bc)%nat -> (Phi x <= x * PsiC Bc)%nat.
Proof. intros H. unfold Phi, PsiC. nia. Qed.

Lemma ems_bound1_lin Bc evs : chars_le Bc evs ->
  (ems mE mT mC mS1 evs <= 24 * evs_size evs + Cn * cnt evs + chars_total evs * PsiC Bc)%nat.
Proof.
  intros Hc. induction Hc as [|e r He Hr IH]; [cbn; lia|]. rewrite ems_cons. cbn [evs_size cnt].
  destruct e as [cs lid|t a|b|tg dt|t|]; cbn [em ev_size ecnt chars_total]; try lia.
  - assert (Hm : (mE t a <= 24 * (tn_size t + attrs_size a) + Cn * S (length a))%nat) by (unfold mE, Cn; nia). nia.
  - pose proof (Phi_lin Bc (length b) He) as Hp. assert (HC : (12 <= Cn)%nat) by (unfold Cn; lia).
    assert (E1 : mT b = (24 * length b)%nat) by reflexivity. assert (E2 : mC = 12%nat) by reflexivity.
    assert (E3 : mS1 b = Phi (length b)) by reflexivity. rewrite Nat.mul_add_distr_l, Nat.mul_add_distr_r. lia.
Qed.

Lemma level1_measure3 forced meta bs evs t :
  parse_with tbl forced meta (S (length bs)) bs = POk evs -> build tbl 1 evs = BOk t ->
  (tmr mE mT mC t <= Phi (length bs)
                     + length bs * (2 * length bs + 2 * Kmax tbl + 122) * PsiC (5 * length bs + Kmax tbl + 121))%nat.
Proof.
  intros Hp Hb. pose proof (build_measure mE mT mC mS1 mT_app tbl 1 evs t sub_ok1 Hb) as Hm.
  pose proof (ems_bound1_lin _ evs (parse_chars_max _ _ _ _ _ _ Hp)) as He.
  pose proof (parse_growth _ _ _ _ _ _ Hp) as Hg. pose proof (parse_count _ _ _ _ _ _ Hp) as Hc.
  assert (Hmul : (Cn * cnt evs <= Cn * (2 * length bs))%nat) by (apply Nat.mul_le_mono_l; exact Hc).
  assert (Hct : (chars_total evs * PsiC (5 * length bs + Kmax tbl + 121)
                 <= length bs * (2 * length bs + 2 * Kmax tbl + 122) * PsiC (5 * length bs + Kmax tbl + 121))%nat).
  { apply Nat.mul_le_mono_r. exact (Nat.le_trans _ _ _ (chars_total_le evs) Hg). }
  unfold Phi at 1. lia.
Qed.
End Size.

Definition size_bound (tbl : list lang) (indent : N) (n : nat) : nat :=
  let D := (255 * (N.to_nat (u8 indent) + 1))%nat in
  (Khdr tbl + Phi tbl D n + Phi tbl D (n * (2 * n + 2 * Kmax tbl + 122)))%nat.

Theorem conv_size tbl o doc t out :
  wbxml_tree_from_wbxml tbl (wo_lang o) (wo_charset o) doc = BOk t -> w2x_encode tbl o t = inl out ->
  (length out <= size_bound tbl (wo_indent o) (length doc))%nat.
Proof.
  unfold wbxml_tree_from_wbxml, tree_from_wbxml, MAX_EMBEDDED_DEPTH.
  destruct (parse_with tbl (wo_lang o) (wo_charset o) (S (length doc)) doc) as [evs|e|] eqn:Ep; try discriminate.
  intros Hb. unfold w2x_encode, to_xroots. destruct (find_lang tbl (wt_lang t)) as [l|] eqn:El; [|discriminate].
  destruct (EncXml.enc_xml _ _ _ _ _) as [out'|e] eqn:Ee; [|discriminate]. intros H. injection H as <-.
  apply enc_xml_cost in Ee. unfold size_bound. set (D := (255 * (N.to_nat (u8 (wo_indent o)) + 1))%nat) in *.
  pose proof (find_lang_In tbl _ _ El) as Hl.
  pose proof (level1_measure tbl D _ _ _ _ _ Ep Hb) as Hm.
  assert (Hh : (hdr_len (EncXml.xlang_of l) <= Khdr tbl)%nat) by (unfold Khdr; apply maxl_In; apply (in_map (fun l => hdr_len (EncXml.xlang_of l)) _ l Hl)).
  assert (Hr : (list_sum (map (xc D (EncXml.xlang_of l)) match wt_root t with Some r => [to_xnode tbl l r] | None => [] end)
                <= tmr (mE tbl D) mT mC t)%nat).
  { unfold tmr. destruct (wt_root t) as [r|]; cbn [map]; rewrite ?ConvCostXml.list_sum_cons; [|cbn; lia].
    pose proof (to_xnode_cost tbl D r l Hl). change (list_sum []) with 0%nat. lia. }
  cbv zeta. lia.
Qed.

Theorem model_size tbl o doc :
  (N.to_nat (r_len (wbxml2xml_model tbl o doc)) <= size_bound tbl (wo_indent o) (length doc))%nat.
Proof.
  unfold wbxml2xml_model, conv_run. destruct doc as [|b0 r0]; [cbn [r_len]; lia|]. unfold w2x_tree_from_doc.
  destruct (wbxml_tree_from_wbxml tbl (wo_lang o) (wo_charset o) (b0 :: r0)) as [t|[| |e]|] eqn:Et; try (cbn [r_len]; lia).
  destruct (w2x_encode tbl o t) as [out|e] eqn:Ee; [|cbn [r_len]; lia].
  cbn [r_len]. rewrite Nat2N.id. exact (conv_size tbl o (b0 :: r0) t out Et Ee).
Qed.

(* ---- the bound over N (binary numbers: it can be evaluated) ---- *)
Definition PhiN (K C x : N) : N := 24 * (x * (2 * x + 2 * K + 122)) + C * (2 * x).
Definition CnN (tbl : list lang) (indent : N) : N :=
  2 * (255 * (u8 indent + 1)) + 2 * N.of_nat (Kmax tbl) + N.of_nat (KnsT tbl) + 12.
Definition bound_N (tbl : list lang) (indent n : N) : N :=
  let K := N.of_nat (Kmax tbl) in
  N.of_nat (Khdr tbl) + PhiN K (CnN tbl indent) n + PhiN K (CnN tbl indent) (n * (2 * n + 2 * K + 122)).

Lemma size_bound_N tbl indent n : N.of_nat (size_bound tbl indent n) = bound_N tbl indent (N.of_nat n).
Proof.
  unfold size_bound, bound_N, PhiN, CnN, Phi, Cn. cbv zeta.
  generalize (Kmax tbl) (KnsT tbl) (Khdr tbl) (u8 indent). intros k s h u. lia.
Qed.

Theorem model_size_N tbl o doc :
  r_len (wbxml2xml_model tbl o doc) <= bound_N tbl (wo_indent o) (N.of_nat (length doc)).
Proof.
  rewrite <- size_bound_N. pose proof (model_size tbl o doc) as H. lia.
Qed.


(* ---- degree 3 ---- *)
Definition size_bound3 (tbl : list lang) (indent : N) (n : nat) : nat :=
  let D := (255 * (N.to_nat (u8 indent) + 1))%nat in
  (Khdr tbl + Phi tbl D n + n * (2 * n + 2 * Kmax tbl + 122) * PsiC tbl D (5 * n + Kmax tbl + 121))%nat.

Theorem conv_size3 tbl o doc t out :
  wbxml_tree_from_wbxml tbl (wo_lang o) (wo_charset o) doc = BOk t -> w2x_encode tbl o t = inl out ->
  (length out <= size_bound3 tbl (wo_indent o) (length doc))%nat.
Proof.
  unfold wbxml_tree_from_wbxml, tree_from_wbxml, MAX_EMBEDDED_DEPTH.
  destruct (parse_with tbl (wo_lang o) (wo_charset o) (S (length doc)) doc) as [evs|e|] eqn:Ep; try discriminate.
  intros Hb. unfold w2x_encode, to_xroots. destruct (find_lang tbl (wt_lang t)) as [l|] eqn:El; [|discriminate].
  destruct (EncXml.enc_xml _ _ _ _ _) as [out'|e] eqn:Ee; [|discriminate]. intros H. injection H as <-.
  apply enc_xml_cost in Ee. unfold size_bound3. set (D := (255 * (N.to_nat (u8 (wo_indent o)) + 1))%nat) in *.
  pose proof (find_lang_In tbl _ _ El) as Hl.
  pose proof (level1_measure3 tbl D _ _ _ _ _ Ep Hb) as Hm.
  assert (Hh : (hdr_len (EncXml.xlang_of l) <= Khdr tbl)%nat) by (unfold Khdr; apply maxl_In; apply (in_map (fun l => hdr_len (EncXml.xlang_of l)) _ l Hl)).
  assert (Hr : (list_sum (map (xc D (EncXml.xlang_of l)) match wt_root t with Some r => [to_xnode tbl l r] | None => [] end)
                <= tmr (mE tbl D) mT mC t)%nat).
  { unfold tmr. destruct (wt_root t) as [r|]; cbn [map]; rewrite ?ConvCostXml.list_sum_cons; [|cbn; lia].
    pose proof (to_xnode_cost tbl D r l Hl). change (list_sum []) with 0%nat. lia. }
  cbv zeta. lia.
Qed.

Theorem model_size3 tbl o doc :
  (N.to_nat (r_len (wbxml2xml_model tbl o doc)) <= size_bound3 tbl (wo_indent o) (length doc))%nat.
Proof.
  unfold wbxml2xml_model, conv_run. destruct doc as [|b0 r0]; [cbn [r_len]; lia|]. unfold w2x_tree_from_doc.
  destruct (wbxml_tree_from_wbxml tbl (wo_lang o) (wo_charset o) (b0 :: r0)) as [t|[| |e]|] eqn:Et; try (cbn [r_len]; lia).
  destruct (w2x_encode tbl o t) as [out|e] eqn:Ee; [|cbn [r_len]; lia].
  cbn [r_len]. rewrite Nat2N.id. exact (conv_size3 tbl o (b0 :: r0) t out Et Ee).
Qed.

Definition bound3_N (tbl : list lang) (indent n : N) : N :=
  let K := N.of_nat (Kmax tbl) in
  let C := CnN tbl indent in
  N.of_nat (Khdr tbl) + PhiN K C n + n * (2 * n + 2 * K + 122) * (24 * (2 * (5 * n + K + 121) + 2 * K + 122) + C * 2).

Lemma size_bound3_N tbl indent n : N.of_nat (size_bound3 tbl indent n) = bound3_N tbl indent (N.of_nat n).
Proof.
  unfold size_bound3, bound3_N, PhiN, CnN, Phi, PsiC, Cn. cbv zeta.
  generalize (Kmax tbl) (KnsT tbl) (Khdr tbl) (u8 indent). intros k s h u. lia.
Qed.

Theorem model_size3_N tbl o doc :
  r_len (wbxml2xml_model tbl o doc) <= bound3_N tbl (wo_indent o) (N.of_nat (length doc)).
Proof. rewrite <- size_bound3_N. pose proof (model_size3 tbl o doc) as H. lia. Qed.
