(* C01 (whole conversion) — facts about Model/ConvConcrete.v:
   - the only way to the model's own status MODEL_FUEL is the exhaustion of the EMBEDDED-DOCUMENT fuel in the tree
     builder (the parser never runs out of its fuel, at any level), and a run that does not exhaust it is the run
     for every larger fuel;
   - when no character data is recognised as an embedded document (fuel 1 suffices), the size of the XML is bounded
     by a fixed polynomial of the length of the document and of the indentation parameter. *)
From Coq Require Import String Ascii.
From Coq Require Import List NArith ZArith Lia Bool ZifyBool ZifyN.
From Wbxml Require Import Model.Codec Model.TablesDefs Model.Parser Model.TreeBuild Model.TreeConv Model.Conv Model.ConvConcrete
     Proofs.ParserTotal Proofs.ParserGrowth Proofs.ParserCount Proofs.TreeBuildProofs Proofs.TreeBuildProofs2
     Proofs.TreeBuildProofs3 Proofs.TreeBuildSize Proofs.ConvCostXml Proofs.ConvProofs.
From Wbxml Require Model.EncXml.
Import ListNotations.
Local Open Scope N_scope.

(* ---- fuel ---- *)
Lemma tree_from_wbxml_fuel tbl forced meta ef bs : tree_from_wbxml tbl forced meta ef bs = BFuel ->
  exists evs, parse_with tbl forced meta (S (length bs)) bs = POk evs /\ build tbl ef evs = BFuel.
Proof.
  unfold tree_from_wbxml. pose proof (parse_total tbl forced meta bs) as Ht.
  destruct (parse_with tbl forced meta (S (length bs)) bs) as [evs|e|]; [|discriminate|congruence].
  intros H. exists evs. split; [reflexivity|exact H].
Qed.

Lemma tree_from_wbxml_mono tbl forced meta ef bs r : tree_from_wbxml tbl forced meta ef bs = r -> r <> BFuel ->
  forall k, tree_from_wbxml tbl forced meta (ef + k) bs = r.
Proof.
  unfold tree_from_wbxml. destruct (parse_with tbl forced meta (S (length bs)) bs) as [evs|e|]; [|tauto|tauto].
  intros H Hr k. exact (build_mono tbl ef evs r H Hr k).
Qed.

Lemma perr_code_not_fuel e : perr_code e <> MODEL_FUEL.
Proof. destruct e; discriminate. Qed.
Lemma xerr_code_not_fuel e : xerr_code e <> MODEL_FUEL.
Proof. destruct e; discriminate. Qed.

Lemma model_fuel_iff tbl ef o doc :
  r_status (wbxml2xml_model tbl ef o doc) = ST_ERR MODEL_FUEL <->
  doc <> [] /\ tree_from_wbxml tbl (wo_lang o) (wo_charset o) ef doc = BFuel.
Proof.
  unfold wbxml2xml_model, conv_run. destruct doc as [|b0 r0]; [cbn; split; [discriminate|intros [H _]; congruence]|].
  unfold w2x_tree_from_doc.
  destruct (tree_from_wbxml tbl (wo_lang o) (wo_charset o) ef (b0 :: r0)) as [t|[|e]|].
  - unfold w2x_encode. destruct (to_xroots tbl t) as [[xl roots]|].
    + destruct (EncXml.enc_xml _ _ _ _ _) as [out|e]; cbn [r_status].
      * split; [discriminate|intros [_ H]; discriminate].
      * split; [intros H; injection H as H; exfalso; exact (xerr_code_not_fuel e H)|intros [_ H]; discriminate].
    + cbn [r_status]. split; [discriminate|intros [_ H]; discriminate].
  - cbn [r_status]. split; [discriminate|intros [_ H]; discriminate].
  - cbn [r_status]. split; [intros H; injection H as H; exfalso; exact (perr_code_not_fuel e H)|intros [_ H]; discriminate].
  - cbn [r_status]. split; [intros _; split; [discriminate|reflexivity]|reflexivity].
Qed.

Lemma model_mono tbl ef o doc : r_status (wbxml2xml_model tbl ef o doc) <> ST_ERR MODEL_FUEL ->
  forall k, wbxml2xml_model tbl (ef + k) o doc = wbxml2xml_model tbl ef o doc.
Proof.
  intros H k. assert (Hn : doc = [] \/ tree_from_wbxml tbl (wo_lang o) (wo_charset o) ef doc <> BFuel).
  { destruct doc as [|b0 r0]; [left; reflexivity|right]. intros Hf. apply H. apply model_fuel_iff. split; [discriminate|exact Hf]. }
  destruct Hn as [->|Hn]; [reflexivity|].
  unfold wbxml2xml_model, conv_run, w2x_tree_from_doc.
  rewrite (tree_from_wbxml_mono tbl _ _ ef doc _ eq_refl Hn k). reflexivity.
Qed.

(* documents without a <Data> element never need more than fuel 1 *)
Lemma no_data_no_fuel tbl forced meta ef bs evs :
  parse_with tbl forced meta (S (length bs)) bs = POk evs -> no_data evs = true ->
  tree_from_wbxml tbl forced meta (S ef) bs <> BFuel.
Proof.
  intros Hp Hn. unfold tree_from_wbxml. rewrite Hp.
  destruct (build_is_spec tbl forced meta _ bs evs Hp Hn) as (cs & lid & p1 & t & a & inner & p2 & ch & _ & _ & _ & _ & Hb).
  rewrite (Hb ef). discriminate.
Qed.

(* ---- size ---- *)
Definition KnsT (tbl : list lang) : nat := maxl (map (fun l => nsmax (EncXml.xlang_of l)) tbl).
Definition Khdr (tbl : list lang) : nat := maxl (map (fun l => hdr_len (EncXml.xlang_of l)) tbl).

Section Size.
Variable tbl : list lang.
Variable D : nat.

Definition Cn : nat := (2 * D + 2 * Kmax tbl + KnsT tbl + 12)%nat.
Definition mE (t : tagname) (a : list (attrname * bytes)) : nat :=
  (2 * D + 2 * (Kmax tbl + tn_size t) + KnsT tbl + 12 + 6 * attrs_size a + 5 * length a)%nat.
Definition mT (b : bytes) : nat := (24 * length b)%nat.
Definition mC : nat := 12%nat.

Lemma mT_app a b : (mT (a ++ b) <= mT a + mT b)%nat.
Proof. unfold mT. rewrite app_length. lia. Qed.

Lemma find_lang_In id l : find_lang tbl id = Some l -> In l tbl.
Proof. unfold find_lang. intros H. apply find_some in H. tauto. Qed.

Lemma to_tname_len l t : In l tbl -> (length (EncXml.tname_bytes (to_tname l t)) <= Kmax tbl + tn_size t)%nat.
Proof.
  intros Hl. destruct t as [p k n|n]; cbn [to_tname tn_size].
  - destruct (find _ (opt_list (l_tags l))) as [r|] eqn:E.
    + apply find_some in E. destruct E as [E _]. cbn [EncXml.tname_bytes EncXml.trow_of EncXml.tr_name].
      assert (H1 : (slen (t_name r) <= Ktags l)%nat) by (unfold Ktags; apply maxl_In; apply (in_map (fun r => slen (t_name r)) _ r E)).
      assert (H2 : (Klang l <= Kmax tbl)%nat) by (unfold Kmax; apply maxl_In; apply in_map; exact Hl).
      pose proof (Kfacts l). unfold slen, B in H1. unfold EncXml.bs. lia.
    + cbn [EncXml.tname_bytes]. pose proof (cstr_len n). lia.
  - cbn [EncXml.tname_bytes]. pose proof (cstr_len n). lia.
Qed.

Lemma attrs_cost a : (list_sum (map attr_cost (map to_attr a)) <= 6 * attrs_size a + 5 * length a)%nat.
Proof.
  induction a as [|[n v] r IH]; cbn [map attrs_size length]; [cbn; lia|]. rewrite ConvCostXml.list_sum_cons.
  unfold attr_cost at 1, to_attr at 1 2. cbn [EncXml.at_name EncXml.at_value EncXml.attr_value_bytes fst snd].
  assert (Hn : (length (EncXml.aname_bytes match n with AttrTok _ _ n0 => EncXml.ATok (EncXml.mk_arow n0) | AttrLit n0 => EncXml.ALit n0 end) <= an_size n)%nat).
  { destruct n as [p k n0|n0]; cbn [EncXml.aname_bytes EncXml.ar_name an_size]; [lia|apply cstr_len]. }
  pose proof (cstr_len (cstr v)). pose proof (cstr_len v). lia.
Qed.

Lemma to_xnode_cost : forall n l, In l tbl -> (xc D (EncXml.xlang_of l) (to_xnode tbl l n) <= tm mE mT mC n)%nat.
Proof.
  fix IH 1. intros n l Hl. destruct n as [t a ch|b|ch|lid cs root]; cbn [to_xnode xc tm].
  - assert (Hc : (list_sum (map (xc D (EncXml.xlang_of l)) (map (to_xnode tbl l) ch)) <= list_sum (map (tm mE mT mC) ch))%nat).
    { induction ch as [|x r IHr]; cbn [map]; rewrite ?ConvCostXml.list_sum_cons; [lia|]. pose proof (IH x l Hl). lia. }
    pose proof (to_tname_len l t Hl). pose proof (attrs_cost a).
    assert (Hns : (nsmax (EncXml.xlang_of l) <= KnsT tbl)%nat) by (unfold KnsT; apply maxl_In; apply (in_map (fun l => nsmax (EncXml.xlang_of l)) _ l Hl)).
    assert (HE : mE t a = (2 * D + 2 * (Kmax tbl + tn_size t) + KnsT tbl + 12 + 6 * attrs_size a + 5 * length a)%nat) by reflexivity. lia.
  - assert (HT : mT b = (24 * length b)%nat) by reflexivity. lia.
  - assert (Hc : (list_sum (map (xc D (EncXml.xlang_of l)) (map (to_xnode tbl l) ch)) <= list_sum (map (tm mE mT mC) ch))%nat).
    { induction ch as [|x r IHr]; cbn [map]; rewrite ?ConvCostXml.list_sum_cons; [lia|]. pose proof (IH x l Hl). lia. }
    assert (HC : mC = 12%nat) by reflexivity. lia.
  - destruct (find_lang tbl lid) as [l'|] eqn:E; cbn [option_map]; [|lia].
    apply find_lang_In in E. destruct root as [r|]; cbn [map]; rewrite ?ConvCostXml.list_sum_cons; [|cbn; lia].
    pose proof (IH r l' E). change (list_sum []) with 0%nat. lia.
Qed.

Lemma ems_bound evs : (ems mE mT mC evs <= 24 * evs_size evs + Cn * cnt evs)%nat.
Proof.
  induction evs as [|e r IH]; [cbn; lia|]. rewrite ems_cons. cbn [evs_size cnt].
  assert (He : (em mE mT mC e <= 24 * ev_size e + Cn * ecnt e)%nat).
  { destruct e as [cs lid|t a|b|tg dt|t|]; cbn [em ev_size ecnt]; try lia.
    - unfold mE, Cn. nia.
    - unfold mT, mC, Cn. lia. }
  nia.
Qed.
End Size.

Theorem conv_size tbl o doc t out :
  tree_from_wbxml tbl (wo_lang o) (wo_charset o) 1 doc = BOk t -> w2x_encode tbl o t = inl out ->
  (length out <= Khdr tbl + 24 * (length doc * (2 * length doc + 2 * Kmax tbl + 122))
                 + (2 * (255 * (N.to_nat (u8 (wo_indent o)) + 1)) + 2 * Kmax tbl + KnsT tbl + 12) * (2 * length doc))%nat.
Proof.
  unfold tree_from_wbxml. destruct (parse_with tbl (wo_lang o) (wo_charset o) (S (length doc)) doc) as [evs|e|] eqn:Ep; try discriminate.
  intros Hb. unfold w2x_encode, to_xroots. destruct (find_lang tbl (wt_lang t)) as [l|] eqn:El; [|discriminate].
  destruct (EncXml.enc_xml _ _ _ _ _) as [out'|e] eqn:Ee; [|discriminate]. intros H. injection H as <-.
  apply enc_xml_cost in Ee. set (D := (255 * (N.to_nat (u8 (wo_indent o)) + 1))%nat) in *.
  pose proof (find_lang_In tbl _ _ El) as Hl.
  pose proof (build_measure (mE tbl D) mT mC mT_app tbl evs t Hb) as Hm.
  pose proof (ems_bound tbl D evs) as He. pose proof (parse_growth _ _ _ _ _ _ Ep) as Hg. pose proof (parse_count _ _ _ _ _ _ Ep) as Hc.
  assert (Hh : (hdr_len (EncXml.xlang_of l) <= Khdr tbl)%nat) by (unfold Khdr; apply maxl_In; apply (in_map (fun l => hdr_len (EncXml.xlang_of l)) _ l Hl)).
  assert (Hr : (list_sum (map (xc D (EncXml.xlang_of l)) match wt_root t with Some r => [to_xnode tbl l r] | None => [] end)
                <= match wt_root t with Some n => tm (mE tbl D) mT mC n | None => 0 end)%nat).
  { destruct (wt_root t) as [r|]; cbn [map]; rewrite ?ConvCostXml.list_sum_cons; [|cbn; lia].
    pose proof (to_xnode_cost tbl D r l Hl). change (list_sum []) with 0%nat. lia. }
  unfold Cn in He.
  assert (Hmul : (Cn tbl D * cnt evs <= Cn tbl D * (2 * length doc))%nat) by (apply Nat.mul_le_mono_l; exact Hc).
  unfold Cn in Hmul. lia.
Qed.

(* the same for the model's result, at every fuel, as soon as fuel 1 is not exhausted *)
Definition size_bound (tbl : list lang) (indent : N) (n : nat) : nat :=
  (Khdr tbl + 24 * (n * (2 * n + 2 * Kmax tbl + 122))
   + (2 * (255 * (N.to_nat (u8 indent) + 1)) + 2 * Kmax tbl + KnsT tbl + 12) * (2 * n))%nat.

Theorem model_size tbl o doc k : r_status (wbxml2xml_model tbl 1 o doc) <> ST_ERR MODEL_FUEL ->
  (N.to_nat (r_len (wbxml2xml_model tbl (1 + k) o doc)) <= size_bound tbl (wo_indent o) (length doc))%nat.
Proof.
  intros H. rewrite (model_mono tbl 1 o doc H k). clear H.
  unfold wbxml2xml_model, conv_run. destruct doc as [|b0 r0]; [cbn [r_len]; lia|]. unfold w2x_tree_from_doc.
  destruct (tree_from_wbxml tbl (wo_lang o) (wo_charset o) 1 (b0 :: r0)) as [t|[|e]|] eqn:Et; try (cbn [r_len]; lia).
  destruct (w2x_encode tbl o t) as [out|e] eqn:Ee; [|cbn [r_len]; lia].
  cbn [r_len]. rewrite Nat2N.id. exact (conv_size tbl o (b0 :: r0) t out Et Ee).
Qed.
