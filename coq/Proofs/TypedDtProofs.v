(* C12 — proofs about the SI/EMN %Datetime codec of Model/Typed.v *)
From Coq Require Import List NArith ZArith Lia Bool ZifyBool ZifyN PeanoNat.
From Wbxml Require Import Base.Bits Model.Codec Model.Typed Proofs.CodecProofs Proofs.TypedProofs.
Import ListNotations.
Local Open Scope N_scope.
Ltac Zify.zify_post_hook ::= Z.div_mod_to_equations.

Arguments N.mul : simpl never.
Arguments N.add : simpl never.
Arguments N.div : simpl never.
Arguments N.modulo : simpl never.
Arguments N.shiftr : simpl never.
Arguments N.shiftl : simpl never.
Arguments N.land : simpl never.
Arguments N.lor : simpl never.
Arguments N.pow : simpl never.
Arguments N.sub : simpl never.
Arguments N.ltb : simpl never.
Arguments N.leb : simpl never.
Arguments N.eqb : simpl never.

(* ------------------------------------------------------------------ *)
(* removing trailing zero octets                                        *)

(* structural description of what the loop computes *)
Fixpoint strip (l : list N) : list N :=
  match l with
  | [] => []
  | b :: r => match strip r with
              | [] => if b =? 0 then [] else [b]
              | r' => b :: r'
              end
  end.

Lemma strip_snoc_zero l : strip (l ++ [0]) = strip l.
Proof.
  induction l as [|b l IH]; [reflexivity|].
  cbn [app strip]. rewrite IH. reflexivity.
Qed.

Lemma strip_snoc_nz l x : x <> 0 -> strip (l ++ [x]) = l ++ [x].
Proof.
  intros Hx. induction l as [|b l IH].
  - cbn [app strip]. replace (x =? 0) with false by lia. reflexivity.
  - cbn [app strip]. rewrite IH. destruct (l ++ [x]) eqn:E; [destruct l; discriminate|reflexivity].
Qed.

Lemma rev_cons_inv {A} (l : list A) c r : rev l = c :: r -> l = rev r ++ [c].
Proof. intros H. rewrite <- (rev_involutive l), H. reflexivity. Qed.

Lemma rtz_loop_strip fuel l : (length l <= fuel)%nat -> rtz_loop fuel l = strip l.
Proof.
  revert l. induction fuel as [|f IH]; intros l Hl.
  - destruct l; [reflexivity|cbn in Hl; lia].
  - cbn [rtz_loop]. destruct (rev l) as [|c r] eqn:E.
    + destruct l as [|a l']; [reflexivity|]. cbn [rev] in E. destruct (rev l'); discriminate.
    + apply rev_cons_inv in E. subst l.
      destruct c as [|p].
      * rewrite strip_snoc_zero. apply IH. rewrite app_length in Hl. cbn in Hl. lia.
      * rewrite strip_snoc_nz by discriminate. reflexivity.
Qed.

Lemma rtz_strip l : rtz l = strip l.
Proof. apply rtz_loop_strip. lia. Qed.

(* what is removed are zero octets, and nothing more could be removed *)
Lemma strip_spec l :
  l = strip l ++ repeat 0 (length l - length (strip l)) /\ (strip l = [] \/ last (strip l) 0 <> 0).
Proof.
  induction l as [|b l [IH1 IH2]]; [split; [reflexivity|left; reflexivity]|].
  cbn [strip]. destruct (strip l) as [|c r'] eqn:E.
  - cbn [app length] in IH1. rewrite Nat.sub_0_r in IH1.
    destruct (b =? 0) eqn:Hb.
    + split; [|left; reflexivity]. cbn [app length]. rewrite Nat.sub_0_r. cbn [repeat].
      replace b with 0 by lia. f_equal. exact IH1.
    + split; [|right; cbn [last]; lia]. cbn [app length].
      replace (S (length l) - 1)%nat with (length l) by lia. f_equal. exact IH1.
  - split.
    + cbn [app length Nat.sub]. cbn [app length] in IH1. f_equal. exact IH1.
    + right. destruct IH2 as [IH2|IH2]; [discriminate|]. exact IH2.
Qed.

Lemma rtz_spec l :
  l = rtz l ++ repeat 0 (length l - length (rtz l)) /\ (rtz l = [] \/ last (rtz l) 0 <> 0).
Proof. rewrite rtz_strip. apply strip_spec. Qed.

(* ------------------------------------------------------------------ *)
(* digits                                                               *)

Lemma is_digit_ok a : a < 10 -> is_digit (48 + a) = true.
Proof. intros H. unfold is_digit. replace (48 <=? 48 + a) with true by lia. replace (48 + a <=? 57) with true by lia. reflexivity. Qed.

Lemma dt_filter_digit a r : a < 10 ->
  dt_filter ((48 + a) :: r) = match dt_filter r with Some d => Some ((48 + a) :: d) | None => None end.
Proof. intros H. cbn [dt_filter]. rewrite is_digit_ok by exact H. reflexivity. Qed.

Lemma dt_filter_45 r : dt_filter (45 :: r) = dt_filter r. Proof. reflexivity. Qed.
Lemma dt_filter_58 r : dt_filter (58 :: r) = dt_filter r. Proof. reflexivity. Qed.
Lemma dt_filter_84 r : dt_filter (84 :: r) = dt_filter r. Proof. reflexivity. Qed.
Lemma dt_filter_90 r : dt_filter (90 :: r) = dt_filter r. Proof. reflexivity. Qed.

Ltac filter_steps :=
  repeat first [ rewrite dt_filter_45 | rewrite dt_filter_58 | rewrite dt_filter_84 | rewrite dt_filter_90
               | rewrite dt_filter_digit by assumption ].

Lemma hexval_digit a : a < 10 -> hexval (48 + a) = a.
Proof.
  intros H. unfold hexval. replace (48 <=? 48 + a) with true by lia. replace (48 + a <=? 57) with true by lia.
  cbn [andb]. lia.
Qed.

Lemma bcd_pack a b : a < 10 -> b < 10 -> u8 (N.lor (a * 16) b) = a * 16 + b.
Proof.
  intros Ha Hb. change 16 with (2 ^ 4). rewrite lor_high_low by (change (2 ^ 4) with 16; lia).
  unfold u8. apply N.mod_small. change (2 ^ 4) with 16. lia.
Qed.

Lemma hex_pairs_digits a b r : a < 10 -> b < 10 ->
  hex_pairs (map hexval ((48 + a) :: (48 + b) :: r)) = (a * 16 + b) :: hex_pairs (map hexval r).
Proof.
  intros Ha Hb. cbn [map hex_pairs]. rewrite !hexval_digit by assumption. rewrite bcd_pack by assumption. reflexivity.
Qed.

Lemma hexit_digit d : d < 10 -> hexit true d = 48 + d.
Proof. intros H. unfold hexit. replace (d <? 10) with true by lia. reflexivity. Qed.

Lemma bcd_unpack a b r : a < 10 -> b < 10 ->
  bin_to_hex true ((a * 16 + b) :: r) = (48 + a) :: (48 + b) :: bin_to_hex true r.
Proof.
  intros Ha Hb. unfold bin_to_hex. cbn [flat_map app]. rewrite land_15.
  replace (((a * 16 + b) / 16) mod 16) with a by lia. replace ((a * 16 + b) mod 16) with b by lia.
  rewrite !hexit_digit by assumption. reflexivity.
Qed.

(* ------------------------------------------------------------------ *)
(* the texts and octets in terms of their fourteen digits               *)

Definition canon_digits (a1 a2 a3 a4 a5 a6 a7 a8 a9 a10 a11 a12 a13 a14 : N) : list N :=
  [48 + a1; 48 + a2; 48 + a3; 48 + a4; 45; 48 + a5; 48 + a6; 45; 48 + a7; 48 + a8; 84;
   48 + a9; 48 + a10; 58; 48 + a11; 48 + a12; 58; 48 + a13; 48 + a14; 90].

Definition bcd_digits (a1 a2 a3 a4 a5 a6 a7 a8 a9 a10 a11 a12 a13 a14 : N) : list N :=
  [a1 * 16 + a2; a3 * 16 + a4; a5 * 16 + a6; a7 * 16 + a8; a9 * 16 + a10; a11 * 16 + a12; a13 * 16 + a14].

Section Digits.
  Variables a1 a2 a3 a4 a5 a6 a7 a8 a9 a10 a11 a12 a13 a14 : N.
  Hypothesis H1 : a1 < 10. Hypothesis H2 : a2 < 10. Hypothesis H3 : a3 < 10. Hypothesis H4 : a4 < 10.
  Hypothesis H5 : a5 < 10. Hypothesis H6 : a6 < 10. Hypothesis H7 : a7 < 10. Hypothesis H8 : a8 < 10.
  Hypothesis H9 : a9 < 10. Hypothesis H10 : a10 < 10. Hypothesis H11 : a11 < 10. Hypothesis H12 : a12 < 10.
  Hypothesis H13 : a13 < 10. Hypothesis H14 : a14 < 10.

  Ltac unpack := repeat (rewrite bcd_unpack by assumption).

  (* the decoder on each of the four legal lengths: the missing fields are printed as 00 *)
  Lemma dec_len7 : dec_datetime (bcd_digits a1 a2 a3 a4 a5 a6 a7 a8 a9 a10 a11 a12 a13 a14) =
                   TOk (canon_digits a1 a2 a3 a4 a5 a6 a7 a8 a9 a10 a11 a12 a13 a14).
  Proof. unfold dec_datetime, bcd_digits. unpack. reflexivity. Qed.

  Lemma dec_len6 : dec_datetime [a1 * 16 + a2; a3 * 16 + a4; a5 * 16 + a6; a7 * 16 + a8; a9 * 16 + a10; a11 * 16 + a12] =
                   TOk (canon_digits a1 a2 a3 a4 a5 a6 a7 a8 a9 a10 a11 a12 0 0).
  Proof. unfold dec_datetime. unpack. reflexivity. Qed.

  Lemma dec_len5 : dec_datetime [a1 * 16 + a2; a3 * 16 + a4; a5 * 16 + a6; a7 * 16 + a8; a9 * 16 + a10] =
                   TOk (canon_digits a1 a2 a3 a4 a5 a6 a7 a8 a9 a10 0 0 0 0).
  Proof. unfold dec_datetime. unpack. reflexivity. Qed.

  Lemma dec_len4 : dec_datetime [a1 * 16 + a2; a3 * 16 + a4; a5 * 16 + a6; a7 * 16 + a8] =
                   TOk (canon_digits a1 a2 a3 a4 a5 a6 a7 a8 0 0 0 0 0 0).
  Proof. unfold dec_datetime. unpack. reflexivity. Qed.

  (* any legal truncation (4..7 octets, the dropped octets being zero) decodes to the canonical text *)
  Lemma dec_truncation p k :
    p ++ repeat 0 k = bcd_digits a1 a2 a3 a4 a5 a6 a7 a8 a9 a10 a11 a12 a13 a14 -> (4 <= length p)%nat ->
    dec_datetime p = TOk (canon_digits a1 a2 a3 a4 a5 a6 a7 a8 a9 a10 a11 a12 a13 a14).
  Proof.
    intros E Hl. unfold bcd_digits in E.
    destruct p as [|x1 [|x2 [|x3 [|x4 [|x5 [|x6 [|x7 [|x8 r]]]]]]]]; cbn [length] in Hl; try lia.
    - (* 4 octets *)
      destruct k as [|[|[|[|k]]]]; cbn [app repeat] in E; try discriminate.
      injection E as -> -> -> -> E5 E6 E7.
      rewrite dec_len4. unfold canon_digits.
      replace a9 with 0 by lia. replace a10 with 0 by lia. replace a11 with 0 by lia.
      replace a12 with 0 by lia. replace a13 with 0 by lia. replace a14 with 0 by lia. reflexivity.
    - destruct k as [|[|[|k]]]; cbn [app repeat] in E; try discriminate.
      injection E as -> -> -> -> -> E6 E7.
      rewrite dec_len5. unfold canon_digits.
      replace a11 with 0 by lia. replace a12 with 0 by lia. replace a13 with 0 by lia. replace a14 with 0 by lia.
      reflexivity.
    - destruct k as [|[|k]]; cbn [app repeat] in E; try discriminate.
      injection E as -> -> -> -> -> -> E7.
      rewrite dec_len6. unfold canon_digits.
      replace a13 with 0 by lia. replace a14 with 0 by lia. reflexivity.
    - destruct k as [|k]; cbn [app repeat] in E; try discriminate.
      injection E as -> -> -> -> -> -> ->.
      apply dec_len7.
    - (* more than 7 octets cannot be a prefix *)
      exfalso. apply (f_equal (@length N)) in E. rewrite app_length in E. cbn [length] in E. lia.
  Qed.

  (* the BCD packing of the encoder on the digit string (any even prefix of it) *)
  Lemma pack14 :
    hex_to_bin [48 + a1; 48 + a2; 48 + a3; 48 + a4; 48 + a5; 48 + a6; 48 + a7; 48 + a8; 48 + a9; 48 + a10;
                48 + a11; 48 + a12; 48 + a13; 48 + a14] =
    bcd_digits a1 a2 a3 a4 a5 a6 a7 a8 a9 a10 a11 a12 a13 a14.
  Proof. unfold hex_to_bin. rewrite !hex_pairs_digits by assumption. reflexivity. Qed.
  Lemma pack12 :
    hex_to_bin [48 + a1; 48 + a2; 48 + a3; 48 + a4; 48 + a5; 48 + a6; 48 + a7; 48 + a8; 48 + a9; 48 + a10; 48 + a11; 48 + a12] =
    firstn 6 (bcd_digits a1 a2 a3 a4 a5 a6 a7 a8 a9 a10 a11 a12 a13 a14).
  Proof. unfold hex_to_bin. rewrite !hex_pairs_digits by assumption. reflexivity. Qed.
  Lemma pack10 :
    hex_to_bin [48 + a1; 48 + a2; 48 + a3; 48 + a4; 48 + a5; 48 + a6; 48 + a7; 48 + a8; 48 + a9; 48 + a10] =
    firstn 5 (bcd_digits a1 a2 a3 a4 a5 a6 a7 a8 a9 a10 a11 a12 a13 a14).
  Proof. unfold hex_to_bin. rewrite !hex_pairs_digits by assumption. reflexivity. Qed.
  Lemma pack8 :
    hex_to_bin [48 + a1; 48 + a2; 48 + a3; 48 + a4; 48 + a5; 48 + a6; 48 + a7; 48 + a8] =
    firstn 4 (bcd_digits a1 a2 a3 a4 a5 a6 a7 a8 a9 a10 a11 a12 a13 a14).
  Proof. unfold hex_to_bin. rewrite !hex_pairs_digits by assumption. reflexivity. Qed.
End Digits.

(* ------------------------------------------------------------------ *)
(* fields to digits                                                     *)

Lemma canonical_digits Y M D h m s :
  canonical Y M D h m s =
  canon_digits (Y / 1000) ((Y / 100) mod 10) ((Y / 10) mod 10) (Y mod 10) (M / 10) (M mod 10) (D / 10) (D mod 10)
               (h / 10) (h mod 10) (m / 10) (m mod 10) (s / 10) (s mod 10).
Proof. reflexivity. Qed.

Lemma bcd7_digits Y M D h m s :
  bcd7 Y M D h m s =
  bcd_digits (Y / 1000) ((Y / 100) mod 10) ((Y / 10) mod 10) (Y mod 10) (M / 10) (M mod 10) (D / 10) (D mod 10)
             (h / 10) (h mod 10) (m / 10) (m mod 10) (s / 10) (s mod 10).
Proof.
  unfold bcd7, bcd_digits, bcd.
  replace (Y / 100 / 10) with (Y / 1000) by lia.
  replace (Y mod 100 / 10) with ((Y / 10) mod 10) by lia.
  replace ((Y mod 100) mod 10) with (Y mod 10) by lia.
  reflexivity.
Qed.

Lemma div10_lt n : n < 100 -> n / 10 < 10.
Proof. intros H. apply N.div_lt_upper_bound; [discriminate|exact H]. Qed.
Lemma mod10_lt n : n mod 10 < 10.
Proof. apply N.mod_lt. discriminate. Qed.
Lemma div1000_lt n : n <= 9999 -> n / 1000 < 10.
Proof. intros H. apply N.div_lt_upper_bound; [discriminate|]. apply N.le_lt_trans with (1 := H). reflexivity. Qed.

Ltac digit_bounds Y M D h m s HY HM HD Hh Hm Hs :=
  assert (Y / 1000 < 10) by (apply div1000_lt; exact HY);
  assert ((Y / 100) mod 10 < 10) by apply mod10_lt; assert ((Y / 10) mod 10 < 10) by apply mod10_lt;
  assert (Y mod 10 < 10) by apply mod10_lt;
  assert (M / 10 < 10) by (apply div10_lt; clear - HM; lia); assert (M mod 10 < 10) by apply mod10_lt;
  assert (D / 10 < 10) by (apply div10_lt; clear - HD; lia); assert (D mod 10 < 10) by apply mod10_lt;
  assert (h / 10 < 10) by (apply div10_lt; clear - Hh; lia); assert (h mod 10 < 10) by apply mod10_lt;
  assert (m / 10 < 10) by (apply div10_lt; clear - Hm; lia); assert (m mod 10 < 10) by apply mod10_lt;
  assert (s / 10 < 10) by (apply div10_lt; clear - Hs; lia); assert (s mod 10 < 10) by apply mod10_lt.

(* what the encoder emits for the text with t trailing fields left out *)
Lemma enc_datetime_render t Y M D h m s : valid_dt Y M D h m s -> (t <= 3)%nat ->
  enc_datetime (render t Y M D h m s) = Emit (enc_opaque (rtz (firstn (7 - t) (bcd7 Y M D h m s)))).
Proof.
  intros (HY & HM & HD & Hh & Hm & Hs) Ht. digit_bounds Y M D h m s HY HM HD Hh Hm Hs.
  rewrite bcd7_digits. unfold enc_datetime, render, d4, d2.
  destruct t as [|[|[|[|t]]]]; try lia; cbn [app Nat.sub]; filter_steps; cbn [dt_filter].
  - rewrite pack14 by assumption. reflexivity.
  - rewrite (pack12 _ _ _ _ _ _ _ _ _ _ _ _ (s / 10) (s mod 10)) by assumption. reflexivity.
  - rewrite (pack10 _ _ _ _ _ _ _ _ _ _ (m / 10) (m mod 10) (s / 10) (s mod 10)) by assumption. reflexivity.
  - rewrite (pack8 _ _ _ _ _ _ _ _ (h / 10) (h mod 10) (m / 10) (m mod 10) (s / 10) (s mod 10)) by assumption. reflexivity.
Qed.

Lemma bcd_zero n : n = 0 -> bcd n = 0.
Proof. intros ->. reflexivity. Qed.

Lemma bcd_nonzero n : 1 <= n < 100 -> bcd n <> 0.
Proof. intros H. unfold bcd. lia. Qed.

(* the octets of the text with t fields left out, padded with t zero octets, are the seven octets *)
Lemma firstn_bcd7_pad t Y M D h m s : trunc_ok t h m s -> (t <= 3)%nat ->
  firstn (7 - t) (bcd7 Y M D h m s) ++ repeat 0 t = bcd7 Y M D h m s.
Proof.
  intros Ht Hle. unfold bcd7.
  destruct t as [|[|[|[|t]]]]; try lia; cbn [Nat.sub firstn app repeat]; cbn [trunc_ok] in Ht.
  - reflexivity.
  - subst s. reflexivity.
  - destruct Ht; subst. reflexivity.
  - destruct Ht as (? & ? & ?); subst. reflexivity.
Qed.

(* the emitted payload: a prefix of the seven octets of at least 4 octets, the rest being zero, ending in a non-zero octet *)
Lemma enc_datetime_payload t Y M D h m s : valid_dt Y M D h m s -> trunc_ok t h m s -> (t <= 3)%nat ->
  exists p k, payload_of (enc_datetime (render t Y M D h m s)) = Some p /\
              p ++ repeat 0 k = bcd7 Y M D h m s /\ (4 <= length p)%nat /\ last p 0 <> 0.
Proof.
  intros Hv Ht Hle. rewrite enc_datetime_render by assumption.
  set (l := firstn (7 - t) (bcd7 Y M D h m s)).
  destruct (rtz_spec l) as [Hl Hlast].
  assert (Hlen : length l = (7 - t)%nat).
  { unfold l. rewrite firstn_length. unfold bcd7. cbn [length]. lia. }
  assert (H4 : (4 <= length (rtz l))%nat).
  { (* the day octet is not zero, so it is not among the removed ones *)
    destruct (Nat.le_gt_cases 4 (length (rtz l))) as [|Hlt]; [assumption|exfalso].
    assert (Hd : nth 3 l 0 <> 0).
    { unfold l, bcd7. destruct Hv as (_ & _ & HD & _).
      destruct t as [|[|[|[|t]]]]; try lia; cbn [Nat.sub firstn nth]; apply bcd_nonzero; lia. }
    apply Hd. rewrite Hl. rewrite app_nth2 by lia.
    apply nth_repeat. }
  exists (rtz l), (length l - length (rtz l) + t)%nat.
  split; [|split; [|split]].
  - cbn [payload_of]. apply opaque_payload_enc.
    assert (length (rtz l) <= 7)%nat.
    { apply (f_equal (@length N)) in Hl. rewrite app_length in Hl. lia. }
    lia.
  - rewrite repeat_app, app_assoc, <- Hl. unfold l. apply firstn_bcd7_pad; assumption.
  - exact H4.
  - destruct Hlast as [E|E]; [rewrite E in H4; cbn in H4; lia|exact E].
Qed.

Lemma dec_datetime_truncation Y M D h m s p k : valid_dt Y M D h m s ->
  p ++ repeat 0 k = bcd7 Y M D h m s -> (4 <= length p)%nat ->
  dec_datetime p = TOk (canonical Y M D h m s).
Proof.
  intros (HY & HM & HD & Hh & Hm & Hs) E Hl. digit_bounds Y M D h m s HY HM HD Hh Hm Hs.
  rewrite canonical_digits. rewrite bcd7_digits in E.
  apply (dec_truncation _ _ _ _ _ _ _ _ _ _ _ _ _ _) with (k := k); assumption.
Qed.

(* Theorem 1: the text (with any legal omission of trailing zero fields) comes back in canonical form *)
Lemma si_datetime_roundtrip t Y M D h m s : valid_dt Y M D h m s -> trunc_ok t h m s -> (t <= 3)%nat ->
  exists p, payload_of (enc_datetime (render t Y M D h m s)) = Some p /\
            dec_datetime p = TOk (canonical Y M D h m s).
Proof.
  intros Hv Ht Hle. destruct (enc_datetime_payload t Y M D h m s Hv Ht Hle) as (p & k & Hp & E & Hl & _).
  exists p. split; [exact Hp|]. apply dec_datetime_truncation with (k := k); assumption.
Qed.

(* a payload of fewer than 4 or more than 7 octets is refused *)
Lemma bin_to_hex_length up p : length (bin_to_hex up p) = (2 * length p)%nat.
Proof.
  unfold bin_to_hex. induction p as [|b p IH]; [reflexivity|]. cbn [flat_map app length]. rewrite IH. lia.
Qed.

Lemma dec_datetime_badlen p : (length p < 4)%nat \/ (7 < length p)%nat -> dec_datetime p = TErr T_BAD_DATETIME.
Proof.
  intros H. unfold dec_datetime. rewrite bin_to_hex_length.
  destruct H as [H|H].
  - destruct p as [|? [|? [|? [|? ?]]]]; cbn [length] in H; try lia; reflexivity.
  - do 8 (destruct p as [|? p]; [cbn [length] in H; lia|]).
    cbn [length Nat.mul Nat.add]. rewrite !Nat.add_succ_r. reflexivity.
Qed.
