(* C02 (front end) — proofs about Model/XmlFront.v, part 3: balance.
   For an event list that is well bracketed (what Expat delivers for the content of an element of a well-formed
   document) `current` comes back to the node it started from (or to the CDATA node the SyncML hack added below it) and
   the skip level comes back to its value — also through skipped embedded documents —, unless an error is recorded.
   The ancestors of `current` are untouched.  Since the depth the nesting check uses is recomputed from the parent chain
   (`length c_spine`), it is the true depth at every start-element event; there is no counter that could drift. *)
From Coq Require Import List NArith Lia Bool.
From Wbxml Require Import Model.TablesDefs Model.Tables Model.Codec Model.LangSelect Model.EncWbxml Model.XmlFront.
From Wbxml Require Import Proofs.XmlFrontProofs.
Import ListNotations.
Local Open Scope N_scope.

Definition is_chars (e : event) : Prop := match e with EvCharacters _ => True | _ => False end.
Definition is_pi (e : event) : Prop := match e with EvPi _ _ => True | _ => False end.

(* the events of the content of an element: text, processing instructions, CDATA sections (only text inside),
   child elements whose end tag carries the name of the start tag *)
Inductive balanced : list event -> Prop :=
| B_nil : balanced []
| B_chars ch r : balanced r -> balanced (EvCharacters ch :: r)
| B_pi t d r : balanced r -> balanced (EvPi t d :: r)
| B_cdata chs r : Forall is_chars chs -> balanced r -> balanced (EvStartCdata :: chs ++ EvEndCdata :: r)
| B_elt n a i i' body r : balanced body -> balanced r -> balanced (EvStartElement n a i :: body ++ EvEndElement n i' :: r).

(* the same node, possibly with more children / another cached text *)
Definition same_kind (f f' : frame) : Prop :=
  match f_kind f, f_kind f' with
  | FElt t a _, FElt t' a' _ => t = t' /\ a = a'
  | FCData, FCData => True
  | _, _ => False
  end.

Lemma same_kind_refl f : same_kind f f.
Proof. unfold same_kind. destruct (f_kind f); auto. Qed.

Lemma same_kind_trans f g h : same_kind f g -> same_kind g h -> same_kind f h.
Proof.
  unfold same_kind. destruct (f_kind f), (f_kind g), (f_kind h); try tauto.
  intros [-> ->] [-> ->]. auto.
Qed.

Lemma same_kind_cdata f g : same_kind f g -> is_cdata_frame g = is_cdata_frame f.
Proof. unfold same_kind, is_cdata_frame. destruct (f_kind f), (f_kind g); tauto. Qed.

Lemma same_kind_rkids f k : same_kind f (mk_frame (f_kind f) k).
Proof. unfold same_kind. cbn. destruct (f_kind f); auto. Qed.

Lemma same_kind_add_kid f n : same_kind f (add_kid f n).
Proof. apply same_kind_rkids. Qed.

Lemma same_kind_add_text_kid f t : same_kind f (add_text_kid f t).
Proof. unfold add_text_kid. destruct (f_rkids f) as [|[] ?]; apply same_kind_rkids. Qed.

Lemma cdata_frame_eta f : is_cdata_frame f = true -> f = mk_frame FCData (f_rkids f).
Proof. destruct f as [k r]. unfold is_cdata_frame. cbn. destruct k; [discriminate|reflexivity]. Qed.

(* a <Data> that is the root element has no SyncML data type: the hack never adds a CDATA node below the root *)
Lemma data_type_root f : is_cdata_frame f = false -> syncml_data_type [f] = Some DT_NORMAL.
Proof.
  unfold syncml_data_type, is_cdata_frame. destruct (f_kind f) as [tag attrs content|] eqn:K; [|discriminate].
  intros _. rewrite K. destruct (beq (tag_xml_name tag) s_Data); reflexivity.
Qed.

Section B.
  Variable main : list lang.
  Variable sub : bytes -> xtree + N.
  Variable input : bytes.
  (* the nested wbxml_tree_from_xml reports a failure with an error code other than WBXML_OK *)
  Hypothesis sub_inr_nonzero : forall d, sub d <> inr WBXML_OK.

  Notation step := (step main sub input).
  Notation run := (run main sub input).

  (* what holds after a balanced list that started with `current` = f, ancestors up, skip level lvl *)
  Definition post (lvl : N) (f : frame) (up : list frame) (c' : ctx) : Prop :=
    failed c' \/
    (c_skip_lvl c' = lvl /\
     exists f', same_kind f f' /\
                (c_spine c' = f' :: up \/
                 (lvl = 0 /\ is_cdata_frame f = false /\ up <> [] /\ exists k, c_spine c' = mk_frame FCData k :: f' :: up))).

  Lemma post_failed lvl f up c evs : failed c -> post lvl f up (run c evs).
  Proof. intros H. left. now apply error_never_cleared. Qed.

  Lemma not_failed c : ~ failed c -> c_error c = WBXML_OK.
  Proof. unfold failed. intros H. destruct (N.eq_dec (c_error c) WBXML_OK); [assumption|contradiction]. Qed.

  Lemma ok_eqb c : c_error c = WBXML_OK -> negb (c_error c =? WBXML_OK) = false.
  Proof. intros ->. reflexivity. Qed.

  (* ---------------------------------------------------------------- characters *)

  Lemma chars_step c f up ch :
    c_spine c = f :: up -> post (c_skip_lvl c) f up (step c (EvCharacters ch)).
  Proof.
    intros S. destruct (N.eq_dec (c_error c) WBXML_OK) as [E|E].
    2:{ left. apply (error_never_cleared_step main sub input c (EvCharacters ch) E). }
    cbn. unfold on_characters. rewrite (ok_eqb _ E).
    destruct (0 <? c_skip_lvl c) eqn:K.
    { right. split; [reflexivity|]. exists f. split; [apply same_kind_refl|left; exact S]. }
    assert (K0 : c_skip_lvl c = 0) by (apply N.ltb_ge in K; lia).
    destruct (syncml_data_type (c_spine c)) as [dt|] eqn:DT; [|left; unfold failed; cbn; discriminate].
    match goal with |- post _ _ _ (let '(ch1, want_cdata) := ?p in _) => destruct p as [ch1 want] eqn:P end.
    rewrite S.
    destruct (want && negb (is_cdata_frame f) && negb (first_kid_is_cdata f)) eqn:W.
    - (* a CDATA node is added below f; the text goes into it *)
      apply andb_true_iff in W. destruct W as [W _]. apply andb_true_iff in W. destruct W as [W1 W2].
      apply negb_true_iff in W2.
      assert (UP : up <> []).
      { intros ->. rewrite S, (data_type_root f W2) in DT. injection DT as <-. cbn in P. injection P as _ <-. discriminate. }
      unfold push_frame. rewrite S. cbn [c_spine set_spine is_binary_frame f_kind]. unfold add_text. cbn [c_spine set_spine].
      right. cbn [c_skip_lvl set_spine]. split; [reflexivity|]. exists f. split; [apply same_kind_refl|]. right.
      repeat split; auto. eexists. unfold add_text_kid. cbn. reflexivity.
    - rewrite S. destruct (is_binary_frame f) eqn:BF.
      + destruct (f_kind f) as [tag at0 content|] eqn:KD; [|unfold is_binary_frame in BF; rewrite KD in BF; discriminate].
        right. cbn. split; [reflexivity|]. eexists. split; [|left; reflexivity].
        unfold same_kind. cbn. rewrite KD. auto.
      + unfold add_text. rewrite S. right. cbn. split; [reflexivity|].
        exists (add_text_kid f ch1). split; [apply same_kind_add_text_kid|left; reflexivity].
  Qed.

  (* text inside a CDATA node stays there *)
  Lemma chars_in_cdata c f up chs :
    Forall is_chars chs -> c_spine c = f :: up -> is_cdata_frame f = true ->
    failed (run c chs) \/
    (c_skip_lvl (run c chs) = c_skip_lvl c /\ exists f', same_kind f f' /\ c_spine (run c chs) = f' :: up).
  Proof.
    intros F. revert c f. induction F as [|e r He F IH]; intros c f S CD.
    - right. split; [reflexivity|]. exists f. split; [apply same_kind_refl|exact S].
    - destruct e; try contradiction. rewrite run_cons.
      destruct (chars_step c f up ch S) as [X|(K & f' & SK & [S'|(_ & X & _)])].
      + left. now apply error_never_cleared.
      + destruct (IH _ f' S') as [Y|(K' & f'' & SK' & S'')].
        * now rewrite (same_kind_cdata _ _ SK).
        * now left.
        * right. split; [now rewrite K'|]. exists f''. split; [eapply same_kind_trans; eassumption|exact S''].
      + rewrite CD in X. discriminate.
  Qed.

  (* ---------------------------------------------------------------- chaining *)

  Definition cont (r : list event) : Prop :=
    forall c f up, c_spine c = f :: up -> N.of_nat (List.length r) + c_skip_lvl c < 4294967296 ->
                   post (c_skip_lvl c) f up (run c r).

  Lemma post_then lvl f up c1 r :
    cont r -> post lvl f up c1 -> N.of_nat (List.length r) + lvl < 4294967296 -> post lvl f up (run c1 r).
  Proof.
    intros C [X|(K & f' & SK & [S|(L0 & NC & UP & k & S)])] B.
    - now apply post_failed.
    - specialize (C c1 f' up S). rewrite K in C. specialize (C B).
      destruct C as [Y|(K' & f'' & SK' & [S'|(L0 & NC & UP & k & S')])]; [now left| |].
      + right. split; [exact K'|]. exists f''. split; [eapply same_kind_trans; eassumption|now left].
      + right. split; [exact K'|]. exists f''. split; [eapply same_kind_trans; eassumption|]. right.
        repeat split; auto. * now rewrite <- (same_kind_cdata _ _ SK). * now exists k.
    - specialize (C c1 (mk_frame FCData k) (f' :: up) S). rewrite K in C. specialize (C B).
      destruct C as [Y|(K' & f'' & SK' & [S'|(_ & X & _)])]; [now left| |discriminate].
      right. split; [exact K'|]. exists f'. split; [exact SK|]. right. repeat split; auto.
      exists (f_rkids f''). rewrite S'. f_equal.
      apply cdata_frame_eta. now rewrite (same_kind_cdata _ _ SK').
  Qed.

  (* ---------------------------------------------------------------- leaving an element *)

  Lemma flush_post c f up :
    c_spine c = f :: up ->
    failed (flush_binary c) \/
    (c_error (flush_binary c) = WBXML_OK /\ c_skip_lvl (flush_binary c) = c_skip_lvl c /\ c_lang (flush_binary c) = c_lang c /\
     c_skip_start (flush_binary c) = c_skip_start c /\
     exists f', same_kind f f' /\ c_spine (flush_binary c) = f' :: up /\ (is_cdata_frame f = true -> flush_binary c = c)).
  Proof.
    intros S. destruct (N.eq_dec (c_error (flush_binary c)) WBXML_OK) as [E|E]; [right|now left].
    destruct (flush_binary_fields c) as (L & _ & _ & _ & K & SS & _).
    split; [exact E|]. split; [exact K|]. split; [exact L|]. split; [exact SS|].
    unfold flush_binary in *. rewrite S in *.
    destruct (f_kind f) as [[p t o nm|nm] attrs [content|]|] eqn:KD;
      try (exists f; split; [apply same_kind_refl|]; split; [exact S|reflexivity]).
    destruct (negb (N.land o WBXML_TAG_OPTION_BINARY =? 0)); [|exists f; split; [apply same_kind_refl|]; split; [exact S|reflexivity]].
    destruct (buffer_b64_dec content); cbn.
    - eexists. split; [|split; [reflexivity|]].
      + eapply same_kind_trans; [|apply same_kind_add_text_kid]. unfold same_kind. cbn. rewrite KD. auto.
      + unfold is_cdata_frame. rewrite KD. discriminate.
    - cbn in E. discriminate.
  Qed.

  Lemma post_same_kind lvl f f0 up c' : same_kind f f0 -> post lvl f0 up c' -> post lvl f up c'.
  Proof.
    intros SK [X|(K & f' & SK' & [S|(L & NC & UP & k & S)])]; [now left| |].
    - right. split; [exact K|]. exists f'. split; [eapply same_kind_trans; eassumption|now left].
    - right. split; [exact K|]. exists f'. split; [eapply same_kind_trans; eassumption|]. right.
      repeat split; auto. + now rewrite <- (same_kind_cdata _ _ SK). + now exists k.
  Qed.

  Ltac fail_chain :=
    apply post_failed; repeat (first [assumption | apply error_never_cleared_step | apply error_never_cleared]).

  (* ---------------------------------------------------------------- the main induction *)

  Theorem balanced_cont evs : balanced evs -> cont evs.
  Proof.
    induction 1 as [|ch r Hr IHr|t d r Hr IHr|chs r Hc Hr IHr|n a i i' body r Hb IHb Hr IHr]; intros c f up S B.
    - (* nil *) right. split; [reflexivity|]. exists f. split; [apply same_kind_refl|now left].
    - (* characters *)
      rewrite run_cons. cbn [List.length] in B. apply post_then; [exact IHr|now apply chars_step|lia].
    - (* processing instruction *)
      rewrite run_cons. cbn [List.length] in B. apply (post_then _ _ _ c); [exact IHr| |lia].
      right. split; [reflexivity|]. exists f. split; [apply same_kind_refl|now left].
    - (* CDATA section *)
      rewrite run_cons, run_app, run_cons.
      assert (LEN : N.of_nat (List.length r) + c_skip_lvl c < 4294967296).
      { cbn [List.length] in B. rewrite app_length in B. cbn [List.length] in B. lia. }
      destruct (N.eq_dec (c_error c) WBXML_OK) as [E|E]; [|fail_chain].
      change (step c EvStartCdata) with (on_start_cdata c). unfold on_start_cdata. rewrite (ok_eqb _ E).
      destruct (0 <? c_skip_lvl c) eqn:K.
      + (* skipped: nothing happens *)
        assert (R : run c chs = c).
        { clear B LEN. induction Hc as [|e r' He Hc IH]; [reflexivity|]. destruct e; try contradiction.
          rewrite run_cons. cbn [XmlFront.step]. unfold on_characters. rewrite (ok_eqb _ E), K. exact IH. }
        rewrite R. change (step c EvEndCdata) with (on_end_cdata c). unfold on_end_cdata. rewrite (ok_eqb _ E), K.
        apply (post_then _ _ _ c); [exact IHr| |exact LEN].
        right. split; [reflexivity|]. exists f. split; [apply same_kind_refl|now left].
      + unfold push_frame. rewrite S.
        set (c1 := set_spine c (mk_frame FCData [] :: f :: up)).
        destruct (chars_in_cdata c1 (mk_frame FCData []) (f :: up) chs Hc eq_refl eq_refl) as [X|(K' & f' & SK & S')].
        * apply post_failed. now apply error_never_cleared_step.
        * set (c2 := run c1 chs) in *.
          destruct (N.eq_dec (c_error c2) WBXML_OK) as [E2|E2]; [|now apply post_failed, error_never_cleared_step].
          change (step c2 EvEndCdata) with (on_end_cdata c2). unfold on_end_cdata. rewrite (ok_eqb _ E2).
          assert (K2 : (0 <? c_skip_lvl c2) = false) by (rewrite K'; exact K). rewrite K2, S'.
          apply (post_then _ _ _ _ _ IHr); [|exact LEN].
          right. destruct (go_up_fields c2) as (_ & G & _). split; [rewrite G; exact K'|].
          exists (add_kid f (reify f')). split; [apply same_kind_add_kid|left]. unfold go_up. rewrite S'. reflexivity.
    - (* element *)
      rewrite run_cons, run_app, run_cons.
      assert (LEN : N.of_nat (List.length r) + c_skip_lvl c < 4294967296 /\ N.of_nat (List.length body) + (c_skip_lvl c + 1) < 4294967296).
      { cbn [List.length] in B. rewrite app_length in B. cbn [List.length] in B. lia. }
      destruct LEN as [LENr LENb].
      destruct (N.eq_dec (c_error c) WBXML_OK) as [E|E]; [|fail_chain].
      change (step c (EvStartElement n a i)) with (on_start_element main c n a i). unfold on_start_element. rewrite (ok_eqb _ E).
      destruct (0 <? c_skip_lvl c) eqn:K.
      + (* inside a skipped element: one level deeper and back *)
        apply N.ltb_lt in K.
        set (c1 := set_skip c (u32 (c_skip_lvl c + 1)) (c_skip_start c)).
        assert (K1 : c_skip_lvl c1 = c_skip_lvl c + 1) by (cbn; unfold u32; apply N.mod_small; lia).
        pose proof (IHb c1 f up S) as P1. rewrite K1 in P1. specialize (P1 LENb).
        destruct P1 as [X|(K2 & f' & SK & [S2|(X & _)])]; [now apply post_failed, error_never_cleared_step| |lia].
        set (c2 := run c1 body) in *.
        match goal with |- context [step ?x (EvEndElement n i')] => change (step x (EvEndElement n i')) with (on_end_element main sub input x n i') end. unfold on_end_element.
        destruct (flush_post c2 f' up S2) as [X|(E3 & K3 & _ & _ & f'' & SK' & S3 & _)]; [apply post_failed; now rewrite (failed_eqb _ X)|].
        rewrite (ok_eqb _ E3).
        assert (K4 : (0 <? c_skip_lvl (flush_binary c2)) = true) by (apply N.ltb_lt; lia). rewrite K4.
        assert (K5 : (c_skip_lvl (flush_binary c2) =? 1) = false) by (apply N.eqb_neq; lia). rewrite K5.
        apply (post_then _ _ _ _ _ IHr); [|exact LENr].
        right. cbn. split; [lia|]. exists f''. split; [eapply same_kind_trans; eassumption|now left].
      + assert (K0 : c_skip_lvl c = 0) by (apply N.ltb_ge in K; lia).
        rewrite S. cbn match. rewrite (ok_eqb _ E). rewrite S. cbn match. cbn [negb]. rewrite andb_true_r.
        destruct (is_embedded_name n) eqn:EM.
        * (* an embedded document: skipped, re-parsed at the end tag, attached as a TREE node *)
          set (c1 := set_skip c (u32 (c_skip_lvl c + 1)) i).
          assert (K1 : c_skip_lvl c1 = 1) by (cbn; rewrite K0; reflexivity).
          pose proof (IHb c1 f up S) as P1. rewrite K1 in P1. rewrite K0 in LENb. specialize (P1 LENb).
          destruct P1 as [X|(K2 & f' & SK & [S2|(X & _)])]; [now apply post_failed, error_never_cleared_step| |discriminate].
          set (c2 := run c1 body) in *.
          match goal with |- context [step ?x (EvEndElement n i')] => change (step x (EvEndElement n i')) with (on_end_element main sub input x n i') end. unfold on_end_element.
          destruct (flush_post c2 f' up S2) as [X|(E3 & K3 & _ & _ & f'' & SK' & S3 & _)]; [apply post_failed; now rewrite (failed_eqb _ X)|].
          rewrite (ok_eqb _ E3).
          assert (K4 : (0 <? c_skip_lvl (flush_binary c2)) = true) by (apply N.ltb_lt; lia). rewrite K4.
          assert (K5 : (c_skip_lvl (flush_binary c2) =? 1) = true) by (apply N.eqb_eq; lia). rewrite K5, EM.
          set (cf := flush_binary c2) in *.
          assert (FAIL : forall e, e <> WBXML_OK -> post (c_skip_lvl c) f up (run (set_error cf e) r)).
          { intros e He. apply post_failed. exact He. }
          destruct (c_lang cf) as [tl|]; [|apply FAIL; discriminate].
          destruct (beq n n_MgmtTree && negb (l_id tl =? LANG_SYNCML12)); [apply FAIL; discriminate|].
          match goal with |- context [match ?t with Some _ => _ | None => _ end] => destruct t as [id|] end; [|apply FAIL; discriminate].
          destruct (get_table main id) as [el|]; [|apply FAIL; discriminate].
          destruct (embedded_doc _ _ _ _ _) as [doc|]; [|apply FAIL; discriminate].
          destruct (sub doc) as [t|e] eqn:SB.
          -- rewrite S3. apply (post_then _ _ _ _ _ IHr); [|exact LENr].
             right. cbn. split; [now rewrite K0|]. eexists. split; [|left; reflexivity].
             eapply same_kind_trans; [exact SK|]. eapply same_kind_trans; [exact SK'|]. apply same_kind_add_kid.
          -- destruct (N.eq_dec e WBXML_OK) as [->|He]; [|apply FAIL; exact He].
             (* a nested parse that reports OK without a tree: the C would store WBXML_OK and go on skipping; the
                skip level stays 1, current stays: still the post-condition only if the level matches, so this
                case is excluded by the convention that sub returns inr only with an error code *)
             exfalso. exact (sub_inr_nonzero doc SB).
        * cbn [andb].
          (* since /repo c0648d3 the cached base64 text of a binary-flagged parent is flushed first: the parent frame
             changes within its kind, then the old argument applies to the flushed context *)
          destruct (flush_post c f up S) as [X|(E3 & K3 & _ & _ & f0 & SK0 & S3 & _)].
          { unfold start_child. rewrite (failed_eqb _ X).
            apply post_failed, error_never_cleared_step, error_never_cleared. exact X. }
          apply (post_same_kind _ _ _ _ _ SK0).
          rewrite <- K3. rewrite <- K3 in LENr, LENb, K0.
          set (cf := flush_binary c) in *. clearbody cf.
          clear S E K B SK0 K3. clear c f. rename cf into c, f0 into f, S3 into S, E3 into E.
          unfold start_child. rewrite (ok_eqb _ E), S.
          destruct (WBXML_MAX_NESTING_DEPTH <=? N.of_nat (List.length (f :: up))).
          { apply post_failed, error_never_cleared_step, error_never_cleared. unfold failed. cbn. discriminate. }
          destruct (c_lang c) as [l|]; [|apply post_failed, error_never_cleared_step, error_never_cleared; unfold failed; cbn; discriminate].
          destruct (resolve_tag l n) as [tag page].
          unfold push_frame. cbn [c_spine set_page]. rewrite S.
          set (new := mk_frame (FElt tag (map (resolve_attr l) a) None) []).
          set (c1 := set_spine (set_page c page) (new :: f :: up)).
          assert (K1 : c_skip_lvl c1 = 0) by exact K0.
          pose proof (IHb c1 new (f :: up) eq_refl) as P1. rewrite K1 in P1. rewrite K0 in LENb.
          assert (LENb' : N.of_nat (List.length body) + 0 < 4294967296) by lia. specialize (P1 LENb').
          set (c2 := run c1 body) in *.
          match goal with |- context [step ?x (EvEndElement n i')] => change (step x (EvEndElement n i')) with (on_end_element main sub input x n i') end. unfold on_end_element.
          destruct P1 as [X|(K2 & new' & SK & [S2|(_ & _ & _ & k & S2)])].
          -- apply post_failed. rewrite (failed_eqb _ (flush_binary_error_nonzero c2 X)). now apply flush_binary_error_nonzero.
          -- (* current = the element: flush its cache, go to the parent *)
             destruct (flush_post c2 new' (f :: up) S2) as [X|(E3 & K3 & _ & _ & new'' & SK' & S3 & _)]; [apply post_failed; now rewrite (failed_eqb _ X)|].
             rewrite (ok_eqb _ E3).
             assert (K4 : (0 <? c_skip_lvl (flush_binary c2)) = false) by (apply N.ltb_ge; lia). rewrite K4.
             apply (post_then _ _ _ _ _ IHr); [|exact LENr].
             unfold leave_current. rewrite S3.
             assert (NC : is_cdata_frame new'' = false).
             { rewrite (same_kind_cdata _ _ SK'), (same_kind_cdata _ _ SK). reflexivity. }
             rewrite NC. right. destruct (go_up_fields (flush_binary c2)) as (_ & G & _). split; [rewrite G; lia|].
             exists (add_kid f (reify new'')). split; [apply same_kind_add_kid|left]. unfold go_up. rewrite S3. reflexivity.
          -- (* current = the CDATA node added below the element: two steps up *)
             destruct (flush_post c2 (mk_frame FCData k) (new' :: f :: up) S2) as [X|(E3 & K3 & _ & _ & g & SK' & S3 & ID)];
               [apply post_failed; now rewrite (failed_eqb _ X)|].
             rewrite (ID eq_refl) in *. clear ID.
             rewrite (ok_eqb _ E3).
             assert (K4 : (0 <? c_skip_lvl c2) = false) by (apply N.ltb_ge; lia). rewrite K4.
             apply (post_then _ _ _ _ _ IHr); [|exact LENr].
             unfold leave_current. rewrite S2. cbn [is_cdata_frame f_kind].
             right. destruct (go_up_fields (go_up c2)) as (_ & G & _). destruct (go_up_fields c2) as (_ & G' & _).
             split; [rewrite G, G'; lia|].
             eexists. split; [|left]. 2:{ unfold go_up at 1. unfold go_up. rewrite S2. cbn. reflexivity. }
             apply same_kind_add_kid.
  Qed.

  (* ---------------------------------------------------------------- a whole document *)

  (* what Expat delivers before the root element *)
  Definition prolog_any (e : event) : Prop :=
    match e with EvXmlDecl _ _ | EvStartDoctype _ _ _ | EvEndDoctype | EvPi _ _ => True | _ => False end.

  Lemma prolog_any_run c evs :
    Forall prolog_any evs ->
    let c' := run c evs in
    c_spine c' = c_spine c /\ c_root c' = c_root c /\ c_error c' = c_error c /\ c_skip_lvl c' = c_skip_lvl c.
  Proof.
    intros F. revert c. induction F as [|e r He F IH]; intros c; [cbn; auto|].
    rewrite run_cons. cbv zeta in *. destruct (IH (step c e)) as (A1 & A2 & A3 & A4). rewrite A1, A2, A3, A4.
    destruct e; try contradiction; cbn; auto.
    - destruct (step_decl_fields main sub input c (EvXmlDecl version encoding)) as (R & S & E & L & _). auto.
    - destruct (step_decl_fields main sub input c (EvStartDoctype name sysid pubid)) as (R & S & E & L & _). auto.
  Qed.

  Lemma pi_run c evs : Forall is_pi evs -> run c evs = c.
  Proof.
    intros F. revert c. induction F as [|e r He F IH]; intros c; [reflexivity|].
    destruct e; try contradiction. rewrite run_cons. cbn. apply IH.
  Qed.

  (* prolog, root element with balanced content, epilog: unless an error is recorded, `current` is the root element
     again at the end (the C leaves it there rather than at NULL) and nothing is being skipped *)
  Theorem document_balance prolog root attrs i i' body epilog :
    Forall prolog_any prolog -> balanced body -> Forall is_pi epilog ->
    N.of_nat (List.length body) + 1 < 4294967296 ->
    let c' := run init_ctx (prolog ++ EvStartElement root attrs i :: body ++ EvEndElement root i' :: epilog) in
    failed c' \/ (c_skip_lvl c' = 0 /\ exists f, c_spine c' = [f] /\ is_cdata_frame f = false).
  Proof.
    intros FP HB FE LEN. cbv zeta. rewrite run_app, run_cons, run_app, run_cons, (pi_run _ epilog FE).
    destruct (prolog_any_run init_ctx prolog FP) as (S0 & R0 & E0 & K0). cbn in S0, R0, E0, K0.
    set (c0 := run init_ctx prolog) in *.
    change (step c0 (EvStartElement root attrs i)) with (on_start_element main c0 root attrs i).
    unfold on_start_element. rewrite E0, K0, S0. cbn [negb N.eqb WBXML_OK N.ltb N.compare].
    set (c1 := match c_lang c0 with
               | Some _ => c0
               | None => match search_table main None None (Some (str root)) with
                         | Some l => set_lang c0 (Some l)
                         | None => set_error c0 E_UNKNOWN_XML_LANGUAGE
                         end
               end).
    assert (H1 : failed c1 \/ (c_error c1 = WBXML_OK /\ c_spine c1 = [] /\ c_root c1 = None /\ c_skip_lvl c1 = 0 /\ c_lang c1 <> None)).
    { subst c1. destruct (c_lang c0) eqn:L; [right; rewrite L; repeat split; auto; discriminate|].
      destruct (search_table main None None (Some (str root))); [right; cbn; repeat split; auto; discriminate|left; unfold failed; cbn; discriminate]. }
    destruct H1 as [X|(E1 & S1 & R1 & K1 & L1)].
    { left. rewrite (failed_eqb _ X). now apply error_never_cleared_step, error_never_cleared. }
    rewrite (ok_eqb _ E1), S1. rewrite andb_false_r.
    assert (FN : flush_binary c1 = c1) by (unfold flush_binary; now rewrite S1).
    rewrite FN. unfold start_child. rewrite (ok_eqb _ E1), S1. cbn [List.length N.of_nat].
    change (WBXML_MAX_NESTING_DEPTH <=? 0) with false. cbv iota.
    destruct (c_lang c1) as [l|]; [|now elim L1].
    destruct (resolve_tag l root) as [tag page].
    unfold push_frame. cbn [c_spine c_root set_page]. rewrite S1, R1.
    set (new := mk_frame (FElt tag (map (resolve_attr l) attrs) None) []).
    set (c2 := set_spine (set_page c1 page) [new]).
    pose proof (balanced_cont body HB c2 new [] eq_refl) as P. cbn [c_skip_lvl c2 set_spine set_page] in P. rewrite K1 in P.
    assert (LEN' : N.of_nat (List.length body) + 0 < 4294967296) by lia. specialize (P LEN').
    set (c3 := run c2 body) in *.
    change (step c3 (EvEndElement root i')) with (on_end_element main sub input c3 root i'). unfold on_end_element.
    destruct P as [X|(K3 & new' & SK & [S3|(_ & _ & UP & _)])]; [| |now elim UP].
    { left. rewrite (failed_eqb _ (flush_binary_error_nonzero c3 X)). now apply flush_binary_error_nonzero. }
    destruct (flush_post c3 new' [] S3) as [X|(E4 & K4 & _ & _ & new'' & SK' & S4 & _)]; [left; now rewrite (failed_eqb _ X)|].
    rewrite (ok_eqb _ E4). rewrite K4, K3. cbn [N.ltb N.compare]. unfold leave_current. rewrite S4.
    right. split; [now rewrite K4|]. exists new''. split; [exact S4|].
    rewrite (same_kind_cdata _ _ SK'), (same_kind_cdata _ _ SK). reflexivity.
  Qed.
End B.

(* ---------------------------------------------------------------- the nested parse is the function itself *)

Lemma tree_from_xml_inr_nonzero main sub input evs ok : tree_from_xml main sub input evs ok <> inr WBXML_OK.
Proof.
  unfold tree_from_xml. destruct input; [discriminate|]. destruct ok; cbn; [|discriminate].
  destruct (c_error _ =? WBXML_OK) eqn:E; cbn; [discriminate|]. intros X. injection X as X. rewrite X in E. discriminate.
Qed.

Lemma tree_from_xml_fuel_inr_nonzero main expat fuel input : tree_from_xml_fuel main expat fuel input <> inr WBXML_OK.
Proof. destruct fuel; cbn [tree_from_xml_fuel]; apply tree_from_xml_inr_nonzero. Qed.
