(* C13 — proper prefixes, part 3: content, elements, the whole document. *)
From Coq Require Import String Ascii.
From Coq Require Import List NArith ZArith Lia Bool ZifyBool ZifyN.
From Wbxml Require Import Base.Bits Model.Codec Model.TablesDefs Model.Parser Model.Spec
     Proofs.CodecProofs Proofs.ParserProofsBase Proofs.ParserProofsStr Proofs.ParserProofsAttr Proofs.ParserProofsElt
     Proofs.ParserProofsDoc Proofs.ParserProofsReject Proofs.ParserProofsPrefix Proofs.ParserProofsPrefix2 Proofs.ParserTotal.
Import ListNotations.
Local Open Scope N_scope.

Section Pre3.
Variables (l : lang) (tb : bytes) (ver cs : N).
Hypothesis Hcs : cs_ok cs.
Hypothesis Hwv : wv_premise l.
Hypothesis Hdt : typed_datetime_agree.
Let env := penv_of l tb ver cs.
Let denv := mk_denv l tb.

(* a string-like content item cut short: an error, or (a lone switchPage) nothing is left *)
Lemma content_str_prefix fuel nesting pelt parent s dst o dst' P :
  den_str denv TagSpace parent s dst = Some (o, dst') -> pp P (ser_str s) -> P <> [] ->
  isErr (parse_content fuel env nesting pelt (pst dst P))
  \/ exists st', parse_content fuel env nesting pelt (pst dst P) = POk ([], st') /\ s_rest st' = [].
Proof.
  unfold env. intros H Hp Hne. destruct s as [s|i|c|d|sw x]; cbn [den_str] in H; cbn [ser_str] in Hp.
  - left. destruct (str_okb s) eqn:Es; [|discriminate]. destruct (str_okb_split s Es) as [_ Hn].
    apply pp_cons in Hp. destruct Hp as [->|(P' & -> & Hp)]; [congruence|].
    destruct (termstr_prefix_err cs s P' Hn Hp) as [e He].
    unfold parse_content. ev. unfold parse_string. ev. unfold parse_inline, parse_termstr. cbn [tl e_charset penv_of].
    rewrite He. apply isErr_PErr.
  - left. destruct (u32_okb i) eqn:Ei; [|discriminate].
    apply pp_cons in Hp. destruct Hp as [->|(P' & -> & Hp)]; [congruence|].
    unfold parse_content. ev. unfold parse_string. ev. unfold parse_tableref. cbn [tl].
    rewrite (mb_prefix_err i P' (u32_okb_lt _ Ei) Hp). apply isErr_PErr.
  - left. destruct (is_scalar c && negb (c =? 0)) eqn:E; [|discriminate]. apply andb_prop in E. destruct E as [Hs _].
    apply pp_cons in Hp. destruct Hp as [->|(P' & -> & Hp)]; [congruence|].
    unfold parse_content. ev. unfold parse_entity. cbn [tl].
    rewrite (mb_prefix_err c P') by (try exact Hp; unfold is_scalar in Hs; lia). apply isErr_PErr.
  - left. destruct (bytes_okb d && u32_okb (blen d)) eqn:E; [|discriminate]. apply andb_prop in E. destruct E as [_ Hu].
    apply pp_cons in Hp. destruct Hp as [->|(P' & -> & Hp)]; [congruence|].
    unfold parse_content. ev. unfold parse_opaque. cbn [tl].
    destruct (mb_then (blen d) d P' (u32_okb_lt _ Hu) Hp) as [He|(P2 & Hp2 & He)]; rewrite He; [apply isErr_PErr|].
    replace (blen P2 <? blen d) with true by (pose proof (pp_len _ _ Hp2); unfold blen; lia). apply isErr_PErr.
  - destruct (sw_okb sw) eqn:Esw; [|discriminate]. destruct (den_ext denv x) as [o'|] eqn:Ex; [|discriminate].
    destruct (ext_prefix l tb ver cs TagSpace sw x o' dst P Esw Ex Hp Hne) as [[->|(p & ->)]|[Hie He]].
    + left. unfold parse_content, is_extension, is_string, parse_switch_page. cbn. apply isErr_PErr.
    + right. unfold parse_content, is_extension, is_string, parse_switch_page. cbn. eexists. split; reflexivity.
    + left. unfold parse_content. cbn [pst s_rest]. destruct P as [|b0 P0]; [congruence|]. rewrite Hie.
      destruct He as [e He]. rewrite He. apply isErr_PErr.
Qed.

Definition elt_pstmt (i : witem) : Prop :=
  forall depth parent dst evs dst' fuel P,
    den_item denv depth parent i dst = Some (evs, dst') -> pp P (ser_item i) -> P <> [] ->
    (length P <= fuel)%nat ->
    isErr (parse_element_with fuel env (content_loop fuel env depth) (pst dst P)).

Definition items_pstmt (items : list witem) : Prop :=
  forall depth me dst evs dst' fuel P,
    den_items denv (depth + 1) me items dst = Some (evs, dst') ->
    pp P (flat_map ser_item items ++ [1]) -> (length P < fuel)%nat ->
    isErr (content_loop fuel env depth (pst dst P)).

Lemma isErr_bind {A B} (x : pres A) (k : A -> pres B) :
  isErr x -> isErr (match x with POk a => k a | PErr e => PErr e | PFuel => PFuel end).
Proof. intros [e ->]. eexists. reflexivity. Qed.

Lemma elt_p_of_items items : items_pstmt items ->
  forall sw tag attrs hasc, elt_pstmt (WItemElt sw tag attrs hasc items).
Proof.
  unfold elt_pstmt, items_pstmt. unfold env.
  intros Hitems sw tag attrs hasc depth parent dst evs dst' fuel P H Hp Hne Hf.
  rewrite den_item_elt in H.
  destruct (sw_okb sw && (depth <=? 1000)) eqn:E; [|discriminate]. apply andb_prop in E. destruct E as [Hsw Hd].
  destruct (den_named denv tag (apply_sw TagSpace sw dst)) as [[[name me] st1]|] eqn:En; [|discriminate].
  destruct (den_attrs denv attrs st1) as [[al st2]|] eqn:Ea; [|discriminate].
  rewrite ser_item_elt, tag_bits_of in Hp. set (ha := match attrs with [] => false | _ => true end) in *.
  set (A := match attrs with [] => [] | _ :: _ => flat_map ser_attr attrs ++ [1] end) in *.
  set (C := if hasc then flat_map ser_item items ++ [1] else []) in *.
  (* after the optional switchPage *)
  assert (Hmain : forall P', pp P' (ser_tag tag (bits_of ha hasc) ++ A ++ C) -> (length P' <= fuel)%nat ->
            isErr (match parse_stag (penv_of l tb ver cs) (pst (apply_sw TagSpace sw dst) P') with
                   | POk (tagv, elt, r) =>
                     let st1 := set_rest (pst (apply_sw TagSpace sw dst) P') r in
                     let st1 := match elt with TagTok p t _ => set_cur st1 (Some (p, t)) | TagLit _ => st1 end in
                     match (if N.land tagv 128 =? 128 then attrs_loop fuel (penv_of l tb ver cs) st1 [] else POk ([], st1)) with
                     | POk (attrs0, st2) =>
                       if N.land tagv 64 =? 64 then
                         match content_loop fuel (penv_of l tb ver cs) depth st2 with
                         | POk (evs0, st3) => POk (EvStartElt elt attrs0 :: evs0 ++ [EvEndElt elt], set_cur st3 None)
                         | PErr e => PErr e | PFuel => PFuel
                         end
                       else POk ([EvStartElt elt attrs0; EvEndElt elt], set_cur st2 None)
                     | PErr e => PErr e | PFuel => PFuel
                     end
                   | PErr e => PErr e | PFuel => PFuel
                   end)).
  { intros P' Hp' Hf'. apply pp_app in Hp'. destruct Hp' as [Hp'|(P1 & -> & Hp1)].
    - (* inside the tag *)
      apply isErr_bind.
      destruct tag as [t|idx]; cbn [ser_tag] in Hp'.
      + apply pp_single in Hp'. subst P'. unfold parse_stag, parse_tag. cbn. eexists. reflexivity.
      + cbn [den_named] in En. destruct (u32_okb idx) eqn:Ei; [|discriminate].
        apply pp_cons in Hp'. destruct Hp' as [->|(P2 & -> & Hp2)].
        * unfold parse_stag, parse_tag. cbn. eexists. reflexivity.
        * unfold parse_stag, parse_literal.
          destruct ha, hasc; cbn [bits_of];
            [change (4 + 192) with 196|change (4 + 128) with 132|change (4 + 64) with 68|change (4 + 0) with 4];
            cbn [pst s_rest is_literal N.eqb Pos.eqb orb parse_uint8];
            rewrite (mb_prefix_err idx P2 (u32_okb_lt _ Ei) Hp2); eexists; reflexivity.
    - destruct (stag_ok l tb ver cs Hcs tag ha hasc _ name me st1 P1 En) as (tagv & Hps & T128 & T64 & Hst1 & Hme).
      rewrite Hps. cbn zeta. rewrite T128, T64.
      pose proof (ser_tag_len tag (bits_of ha hasc)) as Htl. rewrite app_length in Hf'.
      assert (Est : match name with
                    | TagTok p t _ => set_cur (set_rest (pst (apply_sw TagSpace sw dst) (ser_tag tag (bits_of ha hasc) ++ P1)) P1) (Some (p, t))
                    | TagLit _ => set_rest (pst (apply_sw TagSpace sw dst) (ser_tag tag (bits_of ha hasc) ++ P1)) P1
                    end = pst st1 P1).
      { rewrite Hst1. destruct name; reflexivity. }
      rewrite Est. clear Est.
      (* attributes *)
      assert (Hattrs : isErr (if ha then attrs_loop fuel (penv_of l tb ver cs) (pst st1 P1) [] else POk ([], pst st1 P1))
                       \/ exists P2, pp P2 C /\ (length P2 <= length P1)%nat /\
                            (if ha then attrs_loop fuel (penv_of l tb ver cs) (pst st1 P1) [] else POk ([], pst st1 P1)) = POk (al, pst st2 P2)).
      { subst ha A. destruct attrs as [|a0 al0].
        - right. exists P1. cbn [den_attrs] in Ea. injection Ea as <- <-. cbn [app] in Hp1. repeat split; [exact Hp1|lia].
        - apply pp_app in Hp1. destruct Hp1 as [Hp1|(P2 & -> & Hp2)].
          + left. apply (attrs_loop_prefix l tb ver cs Hcs Hdt (a0 :: al0) st1 al st2 fuel [] P1 Ea); [discriminate|exact Hp1|lia].
          + right. exists P2. split; [exact Hp2|]. split; [rewrite app_length; lia|].
            rewrite <- app_assoc. cbn [app].
            apply (attrs_loop_ok l tb ver cs Hcs Hdt (a0 :: al0) st1 al st2 fuel [] P2 Ea); [discriminate|].
            rewrite !app_length in Hf'. cbn [length] in Hf'. lia. }
      destruct Hattrs as [He|(P2 & Hp2 & Hl2 & Hok)]; [apply isErr_bind; exact He|]. rewrite Hok.
      subst C. destruct hasc.
      + destruct (den_items denv (depth + 1) me items st2) as [[evs0 st3]|] eqn:Ei; [|discriminate].
        apply isErr_bind. apply (Hitems depth me st2 evs0 st3 fuel P2 Ei Hp2). lia.
      + exfalso. apply (pp_nil_inv _ Hp2). }
  unfold parse_element_with.
  destruct sw as [p|]; cbn [ser_sw app] in Hp.
  - apply pp_sw_cases in Hp. destruct Hp as [->|[[->|(p' & ->)]|(P' & -> & Hp' & Hne')]]; [congruence| | |].
    + unfold opt_switch_page, parse_switch_page. cbn. eexists. reflexivity.
    + unfold opt_switch_page, parse_switch_page, parse_stag, parse_tag. cbn. eexists. reflexivity.
    + unfold opt_switch_page, parse_switch_page. cbn [pst s_rest is_token N.eqb tl parse_uint8 s_attrcp s_cur].
      change (mk_pstate P' p (ds_attrcp dst) (ds_cur dst)) with (pst (apply_sw TagSpace (Some p) dst) P').
      apply Hmain; [exact Hp'|cbn [length] in Hf; lia].
  - destruct (ser_tag_head l tb tag ha hasc _ _ (A ++ C) En) as (b & r' & Eb & B0 & _).
    rewrite Eb in Hp. apply pp_cons in Hp. destruct Hp as [->|(P' & -> & Hp')]; [congruence|].
    unfold opt_switch_page. cbn [pst s_rest is_token]. rewrite B0.
    change (mk_pstate (b :: P') (ds_tagcp dst) (ds_attrcp dst) (ds_cur dst)) with (pst (apply_sw TagSpace None dst) (b :: P')).
    apply Hmain; [|exact Hf]. rewrite Eb. destruct Hp' as (Q & Hq & EQ). exists Q. split; [exact Hq|]. cbn [app]. rewrite EQ. reflexivity.
Qed.

Definition icost (x : witem) : nat := match x with WItemElt (Some _) _ _ _ _ => 2%nat | _ => 1%nat end.

Definition bind_evs (e : list event) (x : pres (list event * pstate)) : pres (list event * pstate) :=
  match x with POk (e', st'') => POk (e ++ e', st'') | PErr er => PErr er | PFuel => PFuel end.

(* one complete content item, then the rest of the loop *)
Lemma item_step x depth me dst e st1 f rest :
  G l tb ver cs x ->
  den_item denv (depth + 1) me x dst = Some (e, st1) ->
  (length (ser_item x) < f + icost x)%nat ->
  content_loop (icost x + f) env depth (pst dst (ser_item x ++ rest))
  = bind_evs e (content_loop f env depth (pst st1 rest)).
Proof.
  unfold env. intros Hx Ex Hf.
  destruct x as [sw tag attrs hasc its|s|p].
  - cbn [G] in Hx. destruct sw as [pg|].
    + rewrite (den_item_sw l tb) in Ex. fold denv in Ex. destruct (is_byte pg) eqn:Epg; [|discriminate].
      assert (Elen : length (ser_item (WItemElt (Some pg) tag attrs hasc its))
                     = S (S (length (ser_item (WItemElt None tag attrs hasc its))))).
      { rewrite !ser_item_elt. cbn [ser_sw app length]. reflexivity. }
      rewrite Elen in Hf. cbn [icost] in *.
      destruct (content_elt_step l tb ver cs Hcs Hdt tag attrs hasc its depth me (apply_sw TagSpace (Some pg) dst) e st1 f
                  rest Hx Ex) as [H1 Hpc]; [lia|].
      assert (Eser : ser_item (WItemElt (Some pg) tag attrs hasc its) ++ rest
                     = 0 :: pg :: ser_item (WItemElt None tag attrs hasc its) ++ rest).
      { rewrite !ser_item_elt. cbn [ser_sw app]. rewrite <- !app_assoc. reflexivity. }
      rewrite Eser.
      assert (Hhd : exists b r', ser_item (WItemElt None tag attrs hasc its) ++ rest = b :: r' /\ is_ext_token b = false).
      { rewrite den_item_elt in Ex. cbn [sw_okb andb] in Ex.
        destruct (depth + 1 <=? 1000); [|discriminate].
        destruct (den_named denv tag (apply_sw TagSpace None (apply_sw TagSpace (Some pg) dst))) as [x|] eqn:En; [|discriminate].
        rewrite ser_item_elt, tag_bits_of. cbn [ser_sw app]. rewrite <- !app_assoc.
        destruct (ser_tag_head l tb tag (match attrs with [] => false | _ => true end) hasc _ x
            ((match attrs with [] => [] | _ :: _ => flat_map ser_attr attrs ++ [1] end)
             ++ (if hasc then flat_map ser_item its ++ [1] else []) ++ rest) En)
          as (b & r' & Eb & _ & _ & _ & _ & _ & _ & _ & Bx).
        exists b, r'. split; assumption. }
      destruct Hhd as (b & r' & Eb & Bx).
      change (2 + f)%nat with (S (S f)).
      cbn [content_loop pst s_rest is_token N.eqb Pos.eqb].
      unfold parse_content at 1. cbn [pst s_rest]. unfold is_extension, is_string.
      rewrite Eb. cbn [is_token nth_error N.eqb Pos.eqb orb]. rewrite Bx.
      unfold parse_switch_page. cbn [pst s_rest tl parse_uint8 s_attrcp s_cur].
      rewrite <- Eb.
      change (mk_pstate (ser_item (WItemElt None tag attrs hasc its) ++ rest) pg (ds_attrcp dst) (ds_cur dst))
        with (pst (apply_sw TagSpace (Some pg) dst) (ser_item (WItemElt None tag attrs hasc its) ++ rest)).
      cbn [content_loop]. rewrite H1. rewrite Hpc. unfold bind_evs.
      destruct (content_loop f (penv_of l tb ver cs) depth (pst st1 rest)) as [[e' st'']|er|]; reflexivity.
    + cbn [icost] in *. change (1 + f)%nat with (S f).
      destruct (content_elt_step l tb ver cs Hcs Hdt tag attrs hasc its depth me dst e st1 f rest Hx Ex) as [H1 Hpc]; [lia|].
      cbn [content_loop]. cbn [pst s_rest]. rewrite H1. rewrite Hpc. reflexivity.
  - cbn [den_item] in Ex. destruct (den_str denv TagSpace me s dst) as [[o st1']|] eqn:Es; [|discriminate].
    injection Ex as <- <-. cbn [icost]. change (1 + f)%nat with (S f).
    destruct (ser_str_head s rest) as [H1 Hl1].
    cbn [ser_item] in *. cbn [content_loop pst s_rest]. rewrite H1.
    rewrite (content_str_ok l tb ver cs Hcs Hwv f depth _ me s dst o st1' rest Es). reflexivity.
  - cbn [den_item] in Ex. cbn [ser_item icost] in *. change (1 + f)%nat with (S f).
    assert (Hl1 : length (ser_pi p) = S (S (length (ser_attr p)))).
    { unfold ser_pi. cbn [length]. rewrite app_length. cbn [length]. lia. }
    pose proof (pi_ok l tb ver cs Hcs p dst e st1 f rest Ex) as Hpi.
    cbn [content_loop pst s_rest]. change (ser_pi p) with (67 :: ser_attr p ++ [1]) in *.
    cbn [app is_token N.eqb Pos.eqb] in *.
    unfold parse_content, is_extension, is_string. cbn [pst s_rest is_token nth_error N.eqb Pos.eqb is_ext_token orb].
    rewrite Hpi by lia. reflexivity.
Qed.

Lemma content_loop_sw_step f depth dst pg b r' : is_ext_token b = false ->
  content_loop (S f) env depth (pst dst (0 :: pg :: b :: r'))
  = bind_evs [] (content_loop f env depth (pst (apply_sw TagSpace (Some pg) dst) (b :: r'))).
Proof.
  intros Bx. cbn [content_loop pst s_rest is_token N.eqb Pos.eqb].
  unfold parse_content, is_extension, is_string. cbn [pst s_rest is_token nth_error N.eqb Pos.eqb orb]. rewrite Bx.
  unfold parse_switch_page. cbn [pst s_rest tl parse_uint8 s_attrcp s_cur]. reflexivity.
Qed.

Definition Gp (i : witem) : Prop :=
  match i with WItemElt _ _ _ _ its => items_pstmt its | _ => True end.

Lemma isErr_bind_evs e x : isErr x -> isErr (bind_evs e x).
Proof. intros [er ->]. eexists. reflexivity. Qed.

Lemma content_eob f depth dst : isErr (content_loop (S f) env depth (pst dst [])).
Proof. unfold env. rewrite eob_content by reflexivity. eexists. reflexivity. Qed.

Lemma items_p_from_Gp items : Forall Gp items -> items_pstmt items.
Proof.
  unfold items_pstmt. unfold env. induction items as [|x xs IH]; intros HF depth me dst evs dst' fuel P H Hp Hf.
  - cbn [flat_map app] in Hp. apply pp_single in Hp. subst P. destruct fuel as [|f]; [lia|]. apply content_eob.
  - inversion HF as [|x0 xs0 Hx Hxs]; subst x0 xs0.
    cbn [den_items] in H. destruct (den_item denv (depth + 1) me x dst) as [[e st1]|] eqn:Ex; [|discriminate].
    destruct (den_items denv (depth + 1) me xs st1) as [[e' st2]|] eqn:Exs; [|discriminate].
    cbn [flat_map] in Hp. rewrite <- app_assoc in Hp. apply pp_app in Hp. destruct Hp as [Hp|(P' & -> & Hp')].
    + (* the cut is inside x *)
      destruct fuel as [|f]; [lia|].
      destruct P as [|b0 P0] eqn:EP; [apply content_eob|]. rewrite <- EP in *.
      assert (Hne : P <> []) by (subst P; discriminate).
      destruct x as [sw tag attrs hasc its|s|p].
      * cbn [Gp] in Hx.
        assert (Hnosw : forall dst0 f0 P1, den_item denv (depth + 1) me (WItemElt None tag attrs hasc its) dst0 = Some (e, st1) ->
                  pp P1 (ser_item (WItemElt None tag attrs hasc its)) -> P1 <> [] -> (length P1 <= f0)%nat ->
                  isErr (content_loop (S f0) (penv_of l tb ver cs) depth (pst dst0 P1))).
        { intros dst0 f0 P1 Hden Hp1 Hne1 Hf1.
          pose proof (elt_p_of_items its Hx None tag attrs hasc (depth + 1) me dst0 e st1 f0 P1 Hden Hp1 Hne1 Hf1) as He.
          unfold env in He.
          rewrite den_item_elt in Hden. cbn [sw_okb andb] in Hden.
          destruct (depth + 1 <=? 1000) eqn:Ed; [|discriminate].
          destruct (den_named denv tag (apply_sw TagSpace None dst0)) as [xn|] eqn:En; [|discriminate].
          rewrite ser_item_elt, tag_bits_of in Hp1. cbn [ser_sw app] in Hp1.
          destruct (ser_tag_head l tb tag (match attrs with [] => false | _ => true end) hasc _ xn
                      ((match attrs with [] => [] | _ :: _ => flat_map ser_attr attrs ++ [1] end)
                       ++ (if hasc then flat_map ser_item its ++ [1] else [])) En)
            as (b & r' & Eb & B0 & B1 & B67 & B2 & B3 & B131 & B195 & Bx).
          rewrite Eb in Hp1. apply pp_cons in Hp1. destruct Hp1 as [->|(P2 & -> & _)]; [congruence|].
          cbn [content_loop pst s_rest is_token]. rewrite B1.
          unfold parse_content, is_extension, is_string. cbn [pst s_rest is_token nth_error].
          rewrite B0. cbn [nth_error]. rewrite Bx, B2, B3, B131, B195, B67. cbn [orb].
          replace (MAX_NESTING_DEPTH <=? depth) with false by (unfold MAX_NESTING_DEPTH; lia).
          apply isErr_bind. exact He. }
        destruct sw as [pg|].
        -- rewrite (den_item_sw l tb) in Ex. fold denv in Ex. destruct (is_byte pg) eqn:Epg; [|discriminate].
           assert (Hp0 : pp P (0 :: pg :: ser_item (WItemElt None tag attrs hasc its))).
           { rewrite ser_item_elt in Hp. cbn [ser_sw app] in Hp. rewrite ser_item_elt. cbn [ser_sw app]. exact Hp. }
           apply pp_sw_cases in Hp0. destruct Hp0 as [E0|[[E0|(p' & E0)]|(P1 & E0 & Hp1 & Hne1)]]; [congruence| | |].
           ++ rewrite E0. cbn [content_loop pst s_rest is_token N.eqb Pos.eqb].
              unfold parse_content, is_extension, is_string, parse_switch_page. cbn. eexists. reflexivity.
           ++ rewrite E0 in *. cbn [content_loop pst s_rest is_token N.eqb Pos.eqb].
              unfold parse_content, is_extension, is_string, parse_switch_page. cbn [pst s_rest is_token nth_error N.eqb Pos.eqb orb tl parse_uint8].
              destruct f as [|f']; [cbn [length] in Hf; lia|].
              rewrite eob_content by reflexivity. eexists. reflexivity.
           ++ rewrite E0 in *. destruct f as [|f']; [cbn [length] in Hf; lia|].
              (* first iteration: the switchPage; the byte at +2 is a tag byte *)
              assert (Hb : exists b r', P1 = b :: r' /\ is_ext_token b = false).
              { rewrite den_item_elt in Ex. cbn [sw_okb andb] in Ex. destruct (depth + 1 <=? 1000); [|discriminate].
                destruct (den_named denv tag (apply_sw TagSpace None (apply_sw TagSpace (Some pg) dst))) as [xn|] eqn:En; [|discriminate].
                rewrite ser_item_elt, tag_bits_of in Hp1. cbn [ser_sw app] in Hp1.
                destruct (ser_tag_head l tb tag (match attrs with [] => false | _ => true end) hasc _ xn
                      ((match attrs with [] => [] | _ :: _ => flat_map ser_attr attrs ++ [1] end)
                       ++ (if hasc then flat_map ser_item its ++ [1] else [])) En)
                  as (b & r' & Eb & _ & _ & _ & _ & _ & _ & _ & Bx).
                rewrite Eb in Hp1. apply pp_cons in Hp1. destruct Hp1 as [->|(P2 & -> & _)]; [congruence|].
                exists b, P2. split; [reflexivity|exact Bx]. }
              destruct Hb as (b & r' & Eb & Bx).
              rewrite Eb. pose proof (content_loop_sw_step (S f') depth dst pg b r' Bx) as Hs. unfold env in Hs. rewrite Hs. rewrite <- Eb.
              apply isErr_bind_evs. apply (Hnosw (apply_sw TagSpace (Some pg) dst) f' P1 Ex Hp1 Hne1).
              cbn [length] in Hf; lia.
        -- apply (Hnosw dst f P Ex Hp Hne). lia.
      * cbn [den_item] in Ex. destruct (den_str denv TagSpace me s dst) as [[o st1']|] eqn:Es; [|discriminate].
        cbn [ser_item] in Hp.
        assert (H1 : is_token P 1 = false).
        { destruct (is_token P 1) eqn:E1; [|reflexivity]. exfalso. destruct Hp as (Q & _ & EQ).
          apply (is_token_mono P Q) in E1. rewrite <- EQ in E1.
          destruct (ser_str_head s []) as [Hn1 _]. rewrite app_nil_r in Hn1. congruence. }
        cbn [content_loop pst s_rest]. rewrite H1.
        destruct (content_str_prefix f depth
                    (parse_element_with f (penv_of l tb ver cs) (content_loop f (penv_of l tb ver cs) (depth + 1)))
                    me s dst o st1' P Es Hp Hne) as [[er He]|(st' & He & Hr)].
        -- unfold env in He. rewrite He. eexists. reflexivity.
        -- unfold env in He. rewrite He. destruct f as [|f']; [destruct P; [congruence|cbn [length] in Hf; lia]|].
           rewrite eob_content by exact Hr. eexists. reflexivity.
      * cbn [den_item] in Ex. cbn [ser_item] in Hp.
        pose proof Hp as Hp67. unfold ser_pi in Hp67. apply pp_cons in Hp67. destruct Hp67 as [E0|(P1 & E0 & _)]; [congruence|].
        cbn [content_loop pst s_rest]. rewrite E0. cbn [is_token N.eqb Pos.eqb].
        unfold parse_content, is_extension, is_string. cbn [pst s_rest is_token nth_error N.eqb Pos.eqb is_ext_token orb].
        rewrite <- E0.
        destruct (pi_prefix l tb ver cs Hcs p dst e st1 f P Ex Hp Hne) as [er He]; [lia|]. rewrite He. eexists. reflexivity.
    + (* x is complete *)
      rewrite app_length in Hf.
      assert (Hc : (icost x <= 2)%nat) by (destruct x as [[?|] ? ? ? ?| |]; cbn; lia).
      assert (Hlx : (icost x <= length (ser_item x))%nat).
      { destruct x as [[pg|] tag attrs hasc its|s|p]; cbn [icost].
        - rewrite ser_item_elt. cbn [ser_sw app length]. lia.
        - rewrite ser_item_elt. rewrite !app_length. pose proof (ser_tag_len tag (tag_bits attrs hasc)). lia.
        - destruct (ser_str_head s []) as [_ Hl]. exact Hl.
        - cbn [ser_item]. unfold ser_pi. cbn [length]. lia. }
      pose proof (item_step x depth me dst e st1 (fuel - icost x) P' (all_G l tb ver cs Hcs Hwv Hdt x) Ex) as Hstep.
      unfold env in Hstep. replace (icost x + (fuel - icost x))%nat with fuel in Hstep by lia.
      rewrite Hstep by lia.
      apply isErr_bind_evs. apply (IH Hxs depth me st1 e' st2 (fuel - icost x)%nat P' Exs Hp'). lia.
Qed.

Lemma all_Gp : forall i, Gp i.
Proof.
  fix IH 1. intros i. destruct i as [sw tag attrs hasc items|s|p]; cbn [Gp]; [|exact I|exact I].
  apply items_p_from_Gp. induction items as [|x xs IHxs]; constructor; [apply IH|exact IHxs].
Qed.

Theorem element_prefix sw tag attrs hasc items : elt_pstmt (WItemElt sw tag attrs hasc items).
Proof. apply elt_p_of_items. exact (all_Gp (WItemElt sw tag attrs hasc items)). Qed.

End Pre3.
