(* C14 (b) — obligations over the generated inventory Gen/Globals.v, re-checked by computation on every run *)
From Coq Require Import String List Bool NArith.
From Wbxml Require Import Model.Concurrency Gen.Globals.
Import ListNotations.

Lemma all_objects_readonly_b : forallb sym_readonly defined_objects = true.
Proof. vm_compute. reflexivity. Qed.

Lemma all_objects_readonly : forall g, In g defined_objects -> sym_readonly g = true.
Proof. apply forallb_forall. exact all_objects_readonly_b. Qed.

Lemma no_writable_object_b : forallb (fun g => negb (rw_section (gs_section g))) defined_objects = true.
Proof. vm_compute. reflexivity. Qed.

Lemma no_writable_object : forall g, In g defined_objects -> rw_section (gs_section g) = false.
Proof.
  intros g H. pose proof (proj1 (forallb_forall _ _) no_writable_object_b g H) as E.
  apply negb_true_iff in E. exact E.
Qed.

Lemma no_writable_section_b : forallb sec_readonly alloc_sections = true.
Proof. vm_compute. reflexivity. Qed.

Lemma no_writable_section : forall s, In s alloc_sections -> sec_readonly s = true.
Proof. apply forallb_forall. exact no_writable_section_b. Qed.

Lemma imports_allowed_b : forallb (fun s => mem_str s allowlist) imported = true.
Proof. vm_compute. reflexivity. Qed.

Lemma imports_allowed : forall s, In s imported -> mem_str s allowlist = true.
Proof. apply forallb_forall. exact imports_allowed_b. Qed.

Lemma logging_compiled_out : log_symbols = [].
Proof. vm_compute. reflexivity. Qed.

(* the inventory is not vacuous *)
Lemma inventory_nonempty : (10 <= length defined_objects)%nat /\ (10 <= length imported)%nat.
Proof. vm_compute. split; repeat constructor. Qed.
