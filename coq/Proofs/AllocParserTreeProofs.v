(* C16 — proofs over Model/AllocParserTree.v: for every failure oracle and every non-memory failure flag, every exit
   of the transcribed parser / tree functions leaves no violation and nothing unowned. *)
From Coq Require Import List NArith Bool Lia.
From Wbxml Require Import Model.Alloc Model.AllocParserTree Proofs.AllocProofs.
Import ListNotations.
Local Open Scope N_scope.

(* what a (heap, result, status) exit must look like: error = no result and nothing left but the caller's blocks;
   success = a result whose blocks are live, and nothing else *)
Definition exit_ok {R} (blocks : R -> list N) (caller : list N) (x : heap * option R * status) : Prop :=
  let '(h, r, st) := x in
  clean h /\ all_live h caller = true /\
  match st, r with
  | ERR, None => leaked h caller = []
  | OK, Some v => leaked h (blocks v ++ caller) = [] /\ all_live h (blocks v) = true
  | _, _ => False
  end.

Ltac flags := repeat match goal with b : bool |- _ => destruct b end.

(* ---------------------------------------------------------------- strings *)
Lemma parse_string_ok : forall fails inline mb_ok ok,
  exit_ok buf_blocks [] (parse_string (heap0 fails) inline mb_ok ok).
Proof. intros fails inline mb_ok ok. flags; oracle fails 1%nat. Qed.
Lemma parse_literal_ok : forall fails mb_ok index_ok,
  exit_ok buf_blocks [] (parse_literal (heap0 fails) mb_ok index_ok).
Proof. intros fails a b. flags; oracle fails 1%nat. Qed.

(* ---------------------------------------------------------------- tags *)
Lemma parse_stag_ok : forall fails literal mb_ok index_ok byte_ok known,
  exit_ok named_blocks [] (parse_stag (heap0 fails) literal mb_ok index_ok byte_ok known).
Proof. intros fails a b c d e. flags; oracle fails 4%nat. Qed.

(* ---------------------------------------------------------------- parse_attribute *)
(* every exit releases attr_name and attr_value or hands them to *attr; the temporary value never survives an iteration.
   Up to one value piece: all flags; two pieces: token name with a start value. *)
Lemma parse_attribute_ok_upto1 : forall fails name_ok token_name start_value (pieces : list bool) datetime,
  (length pieces <= 1)%nat ->
  exit_ok attr_blocks [] (parse_attribute true (heap0 fails) name_ok token_name start_value pieces datetime).
Proof.
  intros fails a b c pieces dt Hl.
  destruct pieces as [|p [|q r]]; [| | cbn in Hl; lia]; destruct dt as [[|]|];
    (destruct a; [destruct b; [flags; oracle fails 7%nat | flags; oracle fails 9%nat] | flags; oracle fails 0%nat]).
Qed.
Lemma parse_attribute_ok_two_pieces : forall fails p q datetime,
  exit_ok attr_blocks [] (parse_attribute true (heap0 fails) true true true [p; q] datetime).
Proof. intros fails p q dt. destruct dt as [[|]|]; flags; oracle fails 9%nat. Qed.

(* the seeded change seeded/C01_r22 (attr_name not released when decode_datetime fails) is refuted by the same statement,
   with NO allocation failure *)
Lemma parse_attribute_name_leak_refuted :
  ~ exit_ok attr_blocks [] (parse_attribute false (heap0 nofail) true true true [] (Some false)) /\
  leaked (fst (fst (parse_attribute false (heap0 nofail) true true true [] (Some false)))) [] = [1].
Proof. split; [vm_compute; intros [_ [_ H]]; discriminate | vm_compute; reflexivity]. Qed.

(* ---------------------------------------------------------------- OPAQUE content (D3) *)
Lemma content_opaque_ok : forall fails len_ok decode_ok needs_memory,
  exit_ok buf_blocks [] (content_opaque false (heap0 fails) len_ok decode_ok needs_memory).
Proof. intros fails a b c. flags; oracle fails 4%nat. Qed.
(* the code before /repo 08a9d63: a typed decoding that fails leaves the opaque buffer with nobody *)
Lemma content_opaque_refuted :
  leaked (fst (fst (content_opaque true (heap0 nofail) true false false))) [] <> [].
Proof. vm_compute. discriminate. Qed.

(* ---------------------------------------------------------------- the content loop of parse_element *)
(* the element tag: a literal tag, blocks 1 (structure), 2, 3 (name buffer) *)
Lemma element_contents_ok_upto3 : forall fails (items : list bool), (length items <= 3)%nat ->
  let '(h, st) := element_contents (heap_named fails) a_named items in
  clean h /\ h_live h = [].
Proof.
  intros fails items Hl.
  destruct items as [|a [|b [|c [|d r]]]]; [| | | | cbn in Hl; lia]; flags; oracle fails 3%nat.
Qed.

(* ---------------------------------------------------------------- trees *)
Fixpoint tn_blocks (n : tnode) : list N :=
  match n with TN b c t ch => b :: obuf_blocks c ++ (match t with Some t => [t] | None => [] end) ++ flat_map tn_blocks ch end.

(* text after text.  The old last child: node 1 with buffer (2, bytes 3); the new node: 4 with buffer (5, bytes 6). *)
Definition old_text : tnode := TN 1 (Some (mkBuf 2 (Some 3))) None [].
Definition new_text : tnode := TN 4 (Some (mkBuf 5 (Some 6))) None [].
Definition heap_texts (o : list bool) : heap := heap_with o [1; 2; 3; 4; 5; 6] 7.

Lemma tree_add_node_merge_ok : forall fails,
  let '(h, ch, ok) := tree_add_node (heap_texts fails) (Some old_text) new_text true in
  clean h /\
  (if ok then leaked h (flat_map tn_blocks ch) = [] /\ all_live h (flat_map tn_blocks ch) = true /\
              mem 1 (h_live h) = false /\ mem 5 (h_live h) = false /\ mem 6 (h_live h) = false /\ length ch = 1%nat
   else ch = [old_text] /\ all_live h [1; 2; 3; 4; 5; 6] = true /\ leaked h [1; 2; 3; 4; 5; 6] = []).
Proof. intros fails. oracle fails 1%nat. Qed.

Lemma tree_add_text_ok : forall fails (situation : N),
  let '(last, is_text, caller) := if situation =? 0 then (None, false, [])
                                  else if situation =? 1 then (Some old_text, true, [1; 2; 3])
                                  else (Some (TN 1 None None []), false, [1]) in
  let '(h, r) := tree_add_text (heap_with fails caller 7) last is_text in
  clean h /\
  match r with
  | None => leaked h caller = [] /\ all_live h caller = true
  | Some ch => leaked h (flat_map tn_blocks ch) = [] /\ all_live h (flat_map tn_blocks ch) = true
  end.
Proof.
  intros fails s. destruct (s =? 0); [| destruct (s =? 1)]; oracle fails 4%nat.
Qed.

(* wbxml_tree_add_tree: the new tree (block 1) is the caller's; on EVERY failure exit it still is (live, not handed
   over, not freed); on success the node owns it *)
Lemma tree_add_tree_ok : forall fails can_add,
  let '(h, r) := tree_add_tree (heap_with fails [1] 2) 1 can_add in
  clean h /\ all_live h [1] = true /\
  match r with
  | None => leaked h [1] = []
  | Some n => leaked h (tn_blocks n) = [] /\ mem 1 (tn_blocks n) = true
  end.
Proof. intros fails c. flags; oracle fails 1%nat. Qed.

(* extract a node and destroy its whole sub-tree: the siblings stay, everything of the sub-tree goes, once *)
Definition a_subtree : tnode :=
  TN 10 None None [TN 11 (Some (mkBuf 12 (Some 13))) None []; TN 14 None (Some 15) [TN 16 (Some (mkBuf 17 None)) None []]; TN 18 None None []].
Lemma tree_destroy_all_partial :
  let h := tree_node_destroy_all (heap_with [] [1; 2; 10; 11; 12; 13; 14; 15; 16; 17; 18; 20] 30) a_subtree in
  clean h /\ h_live h = [1; 2; 20] /\
  h_bad (tree_node_destroy_all h a_subtree) <> [].          (* destroying it again is seen *)
Proof. vm_compute. repeat split; try reflexivity. discriminate. Qed.

(* ---------------------------------------------------------------- the embedded document (known finding P9) *)
Definition emb_children_blocks (r : option (list tnode)) : list N := match r with Some ch => flat_map tn_blocks ch | None => [] end.
(* never a heap violation, never a leak — old and repaired code *)
Lemma embedded_characters_heap_ok : forall old fails parsable,
  let '(h, res, ch) := embedded_characters old (heap0 fails) parsable in
  clean h /\ leaked h (emb_children_blocks ch) = [] /\ all_live h (emb_children_blocks ch) = true /\
  (res = EmbError <-> ch = None).
Proof. intros o fails p. flags; oracle fails 6%nat. Qed.
(* OLD code: an allocation failure INSIDE the embedded parse is swallowed: the run goes on with a text node — REFUTED *)
Lemma embedded_characters_swallow_refuted :
  exists k, snd (fst (embedded_characters true (heap0 (single k)) true)) = EmbText /\
            snd (fst (embedded_characters true (heap0 nofail) true)) = EmbTree.
Proof. exists 0%nat. vm_compute. split; reflexivity. Qed.
(* ... exactly the two requests of the embedded parse itself (its parser, its tree) were swallowed *)
Lemma embedded_characters_swallowed_exactly : forall fails,
  snd (fst (embedded_characters true (heap0 fails) true)) = EmbText ->
  nth_error fails 0 = Some true \/ (nth_error fails 0 = Some false /\ nth_error fails 1 = Some true).
Proof.
  intros fails. split_oracle fails 6%nat; vm_compute; intros H; try discriminate H; auto.
Qed.
(* REPAIRED code (props/C16/P9-fix.patch): for every oracle a parsable embedded document never ends up as text: either
   the tree node or an error; text only for content that really is not WBXML, and then with every allocation granted
   or an error *)
Lemma embedded_characters_fixed_ok : forall fails,
  snd (fst (embedded_characters false (heap0 fails) true)) <> EmbText /\
  (snd (fst (embedded_characters false (heap0 fails) true)) = EmbTree \/
   (snd (fst (embedded_characters false (heap0 fails) true)) = EmbError /\ exists k, nth_error fails k = Some true)).
Proof.
  intros fails. split_oracle fails 4%nat; vm_compute; (split; [discriminate|]);
    first [left; reflexivity
          | right; split; [reflexivity|]; first [exists 0%nat; reflexivity | exists 1%nat; reflexivity | exists 2%nat; reflexivity | exists 3%nat; reflexivity]].
Qed.
Lemma embedded_characters_fixed_not_parsable : forall fails,
  snd (fst (embedded_characters false (heap0 fails) false)) <> EmbTree.
Proof. intros fails. split_oracle fails 6%nat; vm_compute; discriminate. Qed.
