(* C03 (round trip at model level, UNION fragment of Proofs/EncWbxmlUnion.v: every language class - Wireless Village, DRMREL,
   SyncML, OTA settings, all others incl. SI / EMN - with typed content in its canonical form, binary content, CDATA sections
   and embedded trees) — the tree that the parser and the tree builder make of the encoder's bytes, for documents WITHOUT an
   element named Data (where the SyncML data-type rule of wbxml_tree_clb_wbxml_characters cannot fire; the rule itself is
   stated below: the data_rule lemmas).

   tn_union: an element keeps tag (tag_event) and attributes with their CANONICAL values (acan_u: canon_dt for %Datetime
   attributes, base64 of the OTA icon, the value otherwise); every other node becomes the text node(s) of the character data
   the decoder reports for it (tev_u: the canonical forms canon_wv_int / canon_wv_date / canon_b64 / mime_of, base64 text for
   binary-flagged elements, the trimmed text otherwise; a CDATA section: its text, LF -> CR LF in SyncML; an embedded tree:
   the octets of the embedded document) and adjacent text nodes are one node (merge_text).  Outside <Data> the builder
   re-creates no CDATA node and parses no embedded document. *)
From Coq Require Import String Ascii.
From Coq Require Import List NArith ZArith Lia Bool.
From Wbxml Require Import Model.Codec Model.TablesDefs Model.Parser Model.Spec Model.TreeBuild
     Proofs.ParserProofsBase Proofs.ParserProofsStr Proofs.ParserProofsDoc Proofs.ParserProofsTyped Proofs.ParserProofsWv
     Proofs.TreeBuildProofs Proofs.TreeBuildProofs2 Proofs.TreeBuildProofs3 Proofs.TreeRoundTrip Proofs.TreeRoundTripWide.
From Wbxml Require Model.EncWbxml Model.EncWbxmlEvents Model.TreeNorm Proofs.EncWbxmlProofs Proofs.EncWbxmlAbs Proofs.EncWbxmlAbs4 Proofs.EncWbxmlAbs5 Proofs.EncWbxmlMerge
     Proofs.EncWbxmlDenote2 Proofs.EncWbxmlTblOk Proofs.EncWbxmlDenote3 Proofs.EncWbxmlDenote5 Proofs.EncWbxmlDenoteWv
     Proofs.EncWbxmlDenote6 Proofs.EncWbxmlClass6 Proofs.EncWbxmlClasses Proofs.EncWbxmlUnion.
Import ListNotations.
Local Open Scope N_scope.

Module D5 := Wbxml.Proofs.EncWbxmlDenote5.
Module D6 := Wbxml.Proofs.EncWbxmlDenote6.
Module C6 := Wbxml.Proofs.EncWbxmlClass6.
Module UN := Wbxml.Proofs.EncWbxmlUnion.

(* ---- character-data events as text nodes ---- *)
Definition texts_of (evs : list event) : list tnode :=
  flat_map (fun ev => match ev with EvChars b => [TText b] | _ => [] end) evs.

Lemma spec_forest_chars evs : forallb MG.is_chars evs = true -> spec_forest evs (texts_of evs).
Proof.
  induction evs as [|x r IH]; [constructor|]. cbn [forallb]. intros H. apply andb_true_iff in H. destruct H as [Hx Hr].
  destruct x; try discriminate. cbn [texts_of flat_map app]. constructor. exact (IH Hr).
Qed.

Lemma chars_is_chars b : forallb MG.is_chars (MG.chars b) = true.
Proof. destruct b; reflexivity. Qed.

(* ---- the tree of the union fragment in the builder's type ---- *)
Section TnU.
Variable acan : E.tagname -> list E.attr -> E.attr -> E.bytes.
Variable tev : bool -> option E.tagname -> E.bytes -> list event.
Variable sy : bool.
Variable edoc : N -> list E.node -> E.bytes.
Variable wa : bool.
Hypothesis tev_chars : forall f p c, forallb MG.is_chars (tev f p c) = true.

Fixpoint tnu (first : bool) (par : option E.tagname) (n : E.node) : list tnode :=
  match n with
  | E.NElt tag attrs ch =>
    [TElt (TK.tag_event tag) (if wa then map (D5.attr_event5 (acan tag attrs)) attrs else [])
          (merge_text ((fix go (f : bool) (l : list E.node) : list tnode :=
                          match l with [] => [] | x :: r => tnu f (Some tag) x ++ go false r end) true ch))]
  | E.NText c => texts_of (tev first par c)
  | E.NCData ch => texts_of (MG.chars (D6.cdata_of sy ch))
  | E.NTree lid roots => texts_of (MG.chars (edoc lid roots))
  | E.NPi => []
  end.

Lemma spec_forest_nodes6 : forall n first par, spec_forest (D6.events6 acan tev sy edoc wa first par n) (tnu first par n).
Proof.
  fix IH 1. intros n first par. destruct n as [tag attrs ch|c|ch| |lid roots]; cbn [D6.events6 tnu].
  - assert (Hc : forall f, spec_forest ((fix go (f : bool) (l : list E.node) : list event :=
                                          match l with [] => [] | x :: r => D6.events6 acan tev sy edoc wa f (Some tag) x ++ go false r end) f ch)
                                       ((fix go (f : bool) (l : list E.node) : list tnode :=
                                          match l with [] => [] | x :: r => tnu f (Some tag) x ++ go false r end) f ch)).
    { induction ch as [|x r IHr]; intros f; [constructor|]. apply spec_forest_app; [apply IH|apply IHr]. }
    match goal with |- spec_forest (_ :: ?kids ++ [EvEndElt ?t]) _ => change (kids ++ [EvEndElt t]) with (kids ++ EvEndElt t :: []) end.
    constructor; [apply Hc|constructor].
  - apply spec_forest_chars. apply tev_chars.
  - apply spec_forest_chars. apply chars_is_chars.
  - constructor.
  - apply spec_forest_chars. apply chars_is_chars.
Qed.
End TnU.

(* the canonical text events of every class are character data only *)
Lemma tev_u_chars L e keep f p c : forallb MG.is_chars (UN.tev_u L e keep f p c) = true.
Proof.
  unfold UN.tev_u. destruct (UN.class_of (D2.to_blang L)).
  - unfold Proofs.EncWbxmlDenoteWv.tev_wv. destruct (Proofs.EncWbxmlDenoteWv.wv_norm keep c); [reflexivity|].
    cbv zeta. repeat match goal with |- context [if ?b then _ else _] => destruct b end; apply chars_is_chars.
  - unfold Proofs.EncWbxmlClasses.tev_drm. destruct (Proofs.EncWbxmlDenoteWv.wv_norm keep c); [reflexivity|].
    destruct (Proofs.EncWbxmlClasses.is_keyvalue p); apply chars_is_chars.
  - unfold Proofs.EncWbxmlClasses.tev_sy. destruct (Proofs.EncWbxmlDenoteWv.wv_norm keep c); [reflexivity|]. apply chars_is_chars.
  - unfold D5.tev_plain. destruct (Proofs.EncWbxmlAbs4.tag_bin p); [apply chars_is_chars|].
    unfold TreeNorm.norm_text. destruct (keep || false); [|destruct (E.only_ws c)]; cbn [flat_map TK.events3 app]; try reflexivity;
      match goal with |- context [cstr ?x] => destruct (cstr x) end; reflexivity.
  - unfold D5.tev_plain. destruct (Proofs.EncWbxmlAbs4.tag_bin p); [apply chars_is_chars|].
    unfold TreeNorm.norm_text. destruct (keep || false); [|destruct (E.only_ws c)]; cbn [flat_map TK.events3 app]; try reflexivity;
      match goal with |- context [cstr ?x] => destruct (cstr x) end; reflexivity.
Qed.

(* ---- the round trip on the union fragment (no element named Data) ---- *)
Definition tn_union (tblb : list E.blang) (L : lang) (o : E.options) (root : E.node) : list tnode :=
  let e := E.enc_env (D2.to_blang L) o in
  tnu (UN.acan_u L) (UN.tev_u L e (E.o_keep_ws o)) (E.is_syncml (E.e_lang e)) (D6.emb_doc tblb e) (E.has_attr_table e) true None root.

Theorem roundtrip_union tblb TBL L o tag attrs ch bs :
  let e := E.enc_env (D2.to_blang L) o in
  D2.vals_ok L = true -> UN.side_u L = true -> Proofs.EncWbxmlAbs5.tag_tbl_ok e = true ->
  D6.tree_ok6 L (UN.aok_u L) (UN.tok_u L (E.o_keep_ws o)) (UN.cok_plain L) (UN.eok_plain tblb e L) (E.is_syncml (E.e_lang e)) 0 true None (E.NElt tag attrs ch) = true ->
  find (fun x => l_id x =? l_id L) TBL = Some L -> l_id L <> 0 ->
  E.o_version o < 4 -> E.header_public_id e < 4294967296 -> E.header_public_id e <> 0 ->
  (match Proofs.EncWbxmlAbs.header_pid e with Some p => D2.okb p = true | None => True end) ->
  E.len bs < 4294967296 ->
  E.enc_wbxml tblb (D2.to_blang L) o [E.NElt tag attrs ch] = E.EOk bs ->
  no_data (C6.doc_events6 tblb L e (UN.acan_u L) (UN.tev_u L e (E.o_keep_ws o)) (E.NElt tag attrs ch)) = true ->
  forall ef, tree_from_wbxml TBL (l_id L) 0 ef bs = BOk (mk_wtree (l_id L) 106 (hd_error (tn_union tblb L o (E.NElt tag attrs ch)))).
Proof.
  cbv zeta. intros HV HSD HTB HT HFind Hid Hv H1 H0 Hpid Hlen He Hnd ef.
  destruct (UN.strict_decode_union tblb TBL L o tag attrs ch bs HV HSD HTB HT HFind Hv H1 H0 Hpid Hlen He)
    as (d & evs & Hbs & _ & Hden & _ & HM).
  subst bs.
  assert (Hp : parse_with TBL (l_id L) 0 (S (length (serialize d))) (serialize d) = POk evs).
  { apply (parse_denote_with TBL (fun l0 _ _ => typed_wv_agree_proved) typed_datetime_agree_proved (l_id L) (Some L) d); [|exact Hden].
    split; [reflexivity|]. split; [exact Hid|exact HFind]. }
  unfold tree_from_wbxml. rewrite Hp. unfold tn_union.
  set (e := E.enc_env (D2.to_blang L) o) in *. set (wa := E.has_attr_table e) in *.
  set (acan := UN.acan_u L) in *. set (tev := UN.tev_u L e (E.o_keep_ws o)) in *. set (sy := E.is_syncml (E.e_lang e)) in *.
  set (edoc := D6.emb_doc tblb e) in *.
  assert (Htc : forall f p c, forallb MG.is_chars (tev f p c) = true) by (intros f p c; apply tev_u_chars).
  pose proof (spec_forest_nodes6 acan tev sy edoc wa Htc (E.NElt tag attrs ch) true None) as Hsf.
  revert HM Hnd Hsf. unfold C6.doc_events6. fold wa sy edoc. cbn [D6.events6 tnu].
  set (kidsE := (fix go (f : bool) (l : list E.node) : list event :=
                   match l with [] => [] | x :: r => D6.events6 acan tev sy edoc wa f (Some tag) x ++ go false r end) true ch).
  set (kidsT := (fix go (f : bool) (l : list E.node) : list tnode :=
                   match l with [] => [] | x :: r => tnu acan tev sy edoc wa f (Some tag) x ++ go false r end) true ch).
  set (t := TK.tag_event tag). set (a := if wa then map (D5.attr_event5 (acan tag attrs)) attrs else []).
  intros HM Hnd Hsf. cbn [hd_error].
  cbn [EV.merge_chars EV.glue app] in HM.
  destruct (merge_head evs _ _ HM eq_refl) as (r1 & -> & HM1).
  destruct (merge_head r1 _ _ HM1 eq_refl) as (r2 & -> & HM2).
  unfold no_data in Hnd. cbn [forallb app] in Hnd. apply andb_true_iff in Hnd as [_ Hnd]. apply andb_true_iff in Hnd as [Ht Hn2].
  fold (no_data ((kidsE ++ [EvEndElt t]) ++ [EvEndDoc])) in Hn2.
  subst a. rewrite (build_merge_doc TBL ef 106 (l_id L) t _ r2 _ Ht Hn2 HM2).
  assert (Hni : no_data kidsE = true).
  { unfold no_data in *. rewrite !forallb_app in Hn2. apply andb_true_iff in Hn2 as [Hn2 _]. apply andb_true_iff in Hn2 as [Hn2 _]. exact Hn2. }
  (* the children's forest *)
  assert (Hk : spec_forest kidsE kidsT).
  { inversion Hsf as [| | |t0 a0 inner r0 ch0 ns0 Hi Hr Eq1 Eq2]; subst.
    (* inner ++ EvEndElt t :: r0 = kidsE ++ [EvEndElt t]: the statement of spec_forest_nodes6 for the children, directly *)
    clear -Htc. subst kidsE kidsT. generalize true as f. induction ch as [|x r IHr]; intros f; [constructor|].
    apply spec_forest_app; [apply spec_forest_nodes6; exact Htc|apply IHr]. }
  pose proof (build_of_shape TBL ef 106 (l_id L) [] t (if wa then map (D5.attr_event5 (acan tag attrs)) attrs else []) kidsE [] kidsT eq_refl eq_refl Hk Ht Hni) as Hb.
  cbn [app] in Hb. rewrite app_nil_r in Hb. exact Hb.
Qed.

(* ---- the SyncML data-type rule of the builder (wbxml_tree_clb_wbxml_characters), for an element with ONE run of character
   data: what the element becomes under its parent, by the type the rule finds for it ---- *)
Definition after_child (st : bstate) (p : frame) (up : list frame) (n : tnode) : bstate :=
  mk_bstate (b_lang st) (b_charset st) (mk_frame (f_tag p) (f_attrs p) (f_done p ++ [n]) None :: up) (b_root st).

Lemma data_rule_normal tbl lv t a b st p up r : b_stack st = p :: up -> f_cdata p = None ->
  syncml_data_type (mk_frame t a [] None :: p :: up) = D_NORMAL ->
  build_from tbl lv (EvStartElt t a :: EvChars b :: EvEndElt t :: r) st = build_from tbl lv r (after_child st p up (TElt t a [TText b])).
Proof.
  intros Hs Hc Hd. rewrite build_from_eq. unfold cb_start_element. rewrite Hs. unfold leave_cdata. rewrite Hc. cbn [bnext].
  assert (Hp : mk_frame (f_tag p) (f_attrs p) (f_done p) (f_cdata p) = p) by (destruct p; reflexivity).
  rewrite build_from_eq. cbn [b_stack]. rewrite Hd. unfold add_to_current. cbn [b_stack f_cdata f_tag f_attrs f_done bnext b_lang b_charset b_root add_node].
  rewrite build_from_eq. unfold cb_end_element. cbn [b_stack bnext b_lang b_charset b_root f_tag f_attrs f_done].
  unfold frame_node, frame_children, cdata_nodes. cbn [f_tag f_attrs f_done f_cdata app]. rewrite Hc. cbn [app]. reflexivity.
Qed.

(* a vObject / "clear" type: the text is put into a CDATA node the builder creates *)
Lemma data_rule_cdata tbl lv t a b st p up r : b_stack st = p :: up -> f_cdata p = None ->
  syncml_data_type (mk_frame t a [] None :: p :: up) = D_CDATA ->
  build_from tbl lv (EvStartElt t a :: EvChars b :: EvEndElt t :: r) st = build_from tbl lv r (after_child st p up (TElt t a [TCData [TText b]])).
Proof.
  intros Hs Hc Hd. rewrite build_from_eq. unfold cb_start_element. rewrite Hs. unfold leave_cdata. rewrite Hc. cbn [bnext].
  rewrite build_from_eq. cbn [b_stack]. rewrite Hd. unfold open_cdata, add_to_current.
  cbn [b_stack f_cdata f_tag f_attrs f_done bnext b_lang b_charset b_root add_node].
  rewrite build_from_eq. unfold cb_end_element. cbn [b_stack bnext b_lang b_charset b_root f_tag f_attrs f_done].
  unfold frame_node, frame_children, cdata_nodes. cbn [f_tag f_attrs f_done f_cdata app]. rewrite Hc. cbn [app]. reflexivity.
Qed.

(* an embedded WBXML document (DevInf, DM DDF): parsed with the language not forced and built one level down; the sub-tree node *)
Lemma data_rule_embedded tbl lv t a b st p up r evs' st' : b_stack st = p :: up -> f_cdata p = None ->
  syncml_data_type (mk_frame t a [] None :: p :: up) = D_WBXML ->
  parse_with tbl 0 (b_charset st) (S (length b)) b = POk evs' -> build_from tbl lv evs' st_init = BOk st' ->
  build_from tbl (S lv) (EvStartElt t a :: EvChars b :: EvEndElt t :: r) st
  = build_from tbl (S lv) r (after_child st p up (TElt t a [TSub (wt_lang (tree_of_state st')) (wt_charset (tree_of_state st')) (wt_root (tree_of_state st'))])).
Proof.
  intros Hs Hc Hd Hp Hb. rewrite build_from_eq. unfold cb_start_element. rewrite Hs. unfold leave_cdata. rewrite Hc. cbn [bnext].
  rewrite build_from_eq. cbn [b_stack b_charset]. rewrite Hd, Hp, Hb. cbv zeta. unfold add_to_current.
  cbn [b_stack f_cdata f_tag f_attrs f_done bnext b_lang b_charset b_root add_node].
  rewrite build_from_eq. unfold cb_end_element. cbn [b_stack bnext b_lang b_charset b_root f_tag f_attrs f_done].
  unfold frame_node, frame_children, cdata_nodes. cbn [f_tag f_attrs f_done f_cdata app]. rewrite Hc. cbn [app]. reflexivity.
Qed.

(* ... beyond WBXML_MAX_EMBEDDED_DEPTH, or when the content does not parse, it stays a text node *)
Lemma data_rule_embedded_limit tbl t a b st p up r : b_stack st = p :: up -> f_cdata p = None ->
  syncml_data_type (mk_frame t a [] None :: p :: up) = D_WBXML ->
  build_from tbl 0 (EvStartElt t a :: EvChars b :: EvEndElt t :: r) st = build_from tbl 0 r (after_child st p up (TElt t a [TText b])).
Proof.
  intros Hs Hc Hd. rewrite build_from_eq. unfold cb_start_element. rewrite Hs. unfold leave_cdata. rewrite Hc. cbn [bnext].
  rewrite build_from_eq. cbn [b_stack]. rewrite Hd. unfold add_to_current. cbn [b_stack f_cdata f_tag f_attrs f_done bnext b_lang b_charset b_root add_node].
  rewrite build_from_eq. unfold cb_end_element. cbn [b_stack bnext b_lang b_charset b_root f_tag f_attrs f_done].
  unfold frame_node, frame_children, cdata_nodes. cbn [f_tag f_attrs f_done f_cdata app]. rewrite Hc. cbn [app]. reflexivity.
Qed.

(* ---- the text nodes of tn_union are not empty: the XML generator accepts the tree ---- *)
Definition is_nechars (ev : event) : bool := match ev with EvChars (_ :: _) => true | _ => false end.
Lemma nechars_chars b : forallb is_nechars (MG.chars b) = true.
Proof. destruct b; reflexivity. Qed.

Lemma tev_u_nechars L e keep f p c : forallb is_nechars (UN.tev_u L e keep f p c) = true.
Proof.
  unfold UN.tev_u. destruct (UN.class_of (D2.to_blang L)).
  - unfold Proofs.EncWbxmlDenoteWv.tev_wv. destruct (Proofs.EncWbxmlDenoteWv.wv_norm keep c); [reflexivity|].
    cbv zeta. repeat match goal with |- context [if ?b then _ else _] => destruct b end; apply nechars_chars.
  - unfold Proofs.EncWbxmlClasses.tev_drm. destruct (Proofs.EncWbxmlDenoteWv.wv_norm keep c); [reflexivity|].
    destruct (Proofs.EncWbxmlClasses.is_keyvalue p); apply nechars_chars.
  - unfold Proofs.EncWbxmlClasses.tev_sy. destruct (Proofs.EncWbxmlDenoteWv.wv_norm keep c); [reflexivity|]. apply nechars_chars.
  - unfold D5.tev_plain. destruct (Proofs.EncWbxmlAbs4.tag_bin p); [apply nechars_chars|].
    unfold TreeNorm.norm_text. destruct (keep || false); [|destruct (E.only_ws c)]; cbn [flat_map TK.events3 app]; try reflexivity;
      match goal with |- context [cstr ?x] => destruct (cstr x) end; reflexivity.
  - unfold D5.tev_plain. destruct (Proofs.EncWbxmlAbs4.tag_bin p); [apply nechars_chars|].
    unfold TreeNorm.norm_text. destruct (keep || false); [|destruct (E.only_ws c)]; cbn [flat_map TK.events3 app]; try reflexivity;
      match goal with |- context [cstr ?x] => destruct (cstr x) end; reflexivity.
Qed.
