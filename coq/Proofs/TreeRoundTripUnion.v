(* C03 (round trip at model level, UNION fragment of Proofs/EncWbxmlUnion.v: every language class - Wireless Village, DRMREL,
   SyncML, OTA settings, all others incl. SI / EMN - with typed content in its canonical form, binary content, CDATA sections
   and embedded trees) — the tree that the parser and the tree builder make of the encoder's bytes, for documents WITHOUT an
   element named Data (where the SyncML data-type rule of wbxml_tree_clb_wbxml_characters cannot fire; the rule itself is
   stated below: the data_rule lemmas).

   tn_union: an element keeps tag (tag_event) and attributes with their CANONICAL values (acan_u: canon_dt for %Datetime
   attributes, base64 of the OTA icon, the value otherwise); every other node becomes the text node(s) of the character data
   the decoder reports for it (tev_u: the canonical forms canon_wv_int / canon_wv_date / canon_b64 / mime_of, base64 text for
   binary-flagged elements, the trimmed text otherwise; a CDATA section: its text, LF -> CR LF in SyncML; an embedded tree:
   the octets of the embedded document) and adjacent text nodes are one node (merge_text).  Outside <Data> the builder
   re-creates no CDATA node and parses no embedded document. *)
From Coq Require Import String Ascii.
From Coq Require Import List NArith ZArith Lia Bool.
From Wbxml Require Import Model.Codec Model.TablesDefs Model.Parser Model.Spec Model.TreeBuild
     Proofs.ParserProofsBase Proofs.ParserProofsStr Proofs.ParserProofsDoc Proofs.ParserProofsTyped Proofs.ParserProofsWv
     Proofs.TreeBuildProofs Proofs.TreeBuildProofs2 Proofs.TreeBuildProofs3 Proofs.TreeRoundTrip Proofs.TreeRoundTripWide.
From Wbxml Require Model.EncWbxml Model.EncWbxmlEvents Model.TreeNorm Proofs.EncWbxmlProofs Proofs.EncWbxmlAbs Proofs.EncWbxmlAbs4 Proofs.EncWbxmlAbs5 Proofs.EncWbxmlMerge
     Proofs.EncWbxmlDenote2 Proofs.EncWbxmlTblOk Proofs.EncWbxmlDenote3 Proofs.EncWbxmlDenote5 Proofs.EncWbxmlDenoteWv
     Proofs.EncWbxmlDenote6 Proofs.EncWbxmlClass6 Proofs.EncWbxmlClasses Proofs.EncWbxmlUnion.
Import ListNotations.
Local Open Scope N_scope.

Module D5 := Wbxml.Proofs.EncWbxmlDenote5.
Module D6 := Wbxml.Proofs.EncWbxmlDenote6.
Module C6 := Wbxml.Proofs.EncWbxmlClass6.
Module UN := Wbxml.Proofs.EncWbxmlUnion.

(* ---- character-data events as text nodes ---- *)
Definition texts_of (evs : list event) : list tnode :=
  flat_map (fun ev => match ev with EvChars b => [TText b] | _ => [] end) evs.

Lemma spec_forest_chars evs : forallb MG.is_chars evs = true -> spec_forest evs (texts_of evs).
Proof.
  induction evs as [|x r IH]; [constructor|]. cbn [forallb]. intros H. apply andb_true_iff in H. destruct H as [Hx Hr].
  destruct x; try discriminate. cbn [texts_of flat_map app]. constructor. exact (IH Hr).
Qed.

Lemma chars_is_chars b : forallb MG.is_chars (MG.chars b) = true.
Proof. destruct b; reflexivity. Qed.

(* ---- the tree of the union fragment in the builder's type ---- *)
Section TnU.
Variable acan : E.tagname -> list E.attr -> E.attr -> E.bytes.
Variable tev : bool -> option E.tagname -> E.bytes -> list event.
Variable sy : bool.
Variable edoc : N -> list E.node -> E.bytes.
Variable wa : bool.
Hypothesis tev_chars : forall f p c, forallb MG.is_chars (tev f p c) = true.

Fixpoint tnu (first : bool) (par : option E.tagname) (n : E.node) : list tnode :=
  match n with
  | E.NElt tag attrs ch =>
    [TElt (TK.tag_event tag) (if wa then map (D5.attr_event5 (acan tag attrs)) attrs else [])
          (merge_text ((fix go (f : bool) (l : list E.node) : list tnode :=
                          match l with [] => [] | x :: r => tnu f (Some tag) x ++ go false r end) true ch))]
  | E.NText c => texts_of (tev first par c)
  | E.NCData ch => texts_of (MG.chars (D6.cdata_of sy ch))
  | E.NTree lid roots => texts_of (MG.chars (edoc lid roots))
  | E.NPi => []
  end.

Lemma spec_forest_nodes6 : forall n first par, spec_forest (D6.events6 acan tev sy edoc wa first par n) (tnu first par n).
Proof.
  fix IH 1. intros n first par. destruct n as [tag attrs ch|c|ch| |lid roots]; cbn [D6.events6 tnu].
  - assert (Hc : forall f, spec_forest ((fix go (f : bool) (l : list E.node) : list event :=
                                          match l with [] => [] | x :: r => D6.events6 acan tev sy edoc wa f (Some tag) x ++ go false r end) f ch)
                                       ((fix go (f : bool) (l : list E.node) : list tnode :=
                                          match l with [] => [] | x :: r => tnu f (Some tag) x ++ go false r end) f ch)).
    { induction ch as [|x r IHr]; intros f; [constructor|]. apply spec_forest_app; [apply IH|apply IHr]. }
    match goal with |- spec_forest (_ :: ?kids ++ [EvEndElt ?t]) _ => change (kids ++ [EvEndElt t]) with (kids ++ EvEndElt t :: []) end.
    constructor; [apply Hc|constructor].
  - apply spec_forest_chars. apply tev_chars.
  - apply spec_forest_chars. apply chars_is_chars.
  - constructor.
  - apply spec_forest_chars. apply chars_is_chars.
Qed.
End TnU.

(* the canonical text events of every class are character data only *)
Lemma tev_u_chars L e keep f p c : forallb MG.is_chars (UN.tev_u L e keep f p c) = true.
Proof.
  unfold UN.tev_u. destruct (UN.class_of (D2.to_blang L)).
  - unfold Proofs.EncWbxmlDenoteWv.tev_wv. destruct (Proofs.EncWbxmlDenoteWv.wv_norm keep c); [reflexivity|].
    cbv zeta. repeat match goal with |- context [if ?b then _ else _] => destruct b end; apply chars_is_chars.
  - unfold Proofs.EncWbxmlClasses.tev_drm. destruct (Proofs.EncWbxmlDenoteWv.wv_norm keep c); [reflexivity|].
    destruct (Proofs.EncWbxmlClasses.is_keyvalue p); apply chars_is_chars.
  - unfold Proofs.EncWbxmlClasses.tev_sy. destruct (Proofs.EncWbxmlDenoteWv.wv_norm keep c); [reflexivity|]. apply chars_is_chars.
  - unfold D5.tev_plain. destruct (Proofs.EncWbxmlAbs4.tag_bin p); [apply chars_is_chars|].
    unfold TreeNorm.norm_text. destruct (keep || false); [|destruct (E.only_ws c)]; cbn [flat_map TK.events3 app]; try reflexivity;
      match goal with |- context [cstr ?x] => destruct (cstr x) end; reflexivity.
  - unfold D5.tev_plain. destruct (Proofs.EncWbxmlAbs4.tag_bin p); [apply chars_is_chars|].
    unfold TreeNorm.norm_text. destruct (keep || false); [|destruct (E.only_ws c)]; cbn [flat_map TK.events3 app]; try reflexivity;
      match goal with |- context [cstr ?x] => destruct (cstr x) end; reflexivity.
Qed.

(* ---- the round trip on the union fragment (no element named Data) ---- *)
Definition tn_union (tblb : list E.blang) (L : lang) (o : E.options) (root : E.node) : list tnode :=
  let e := E.enc_env (D2.to_blang L) o in
  tnu (UN.acan_u L) (UN.tev_u L e (E.o_keep_ws o)) (E.is_syncml (E.e_lang e)) (D6.emb_doc tblb e) (E.has_attr_table e) true None root.

Theorem roundtrip_union tblb TBL L o tag attrs ch bs :
  let e := E.enc_env (D2.to_blang L) o in
  D2.vals_ok L = true -> UN.side_u L = true -> Proofs.EncWbxmlAbs5.tag_tbl_ok e = true ->
  D6.tree_ok6 L (UN.aok_u L) (UN.tok_u L (E.o_keep_ws o)) (UN.cok_plain L) (UN.eok_plain tblb e L) (E.is_syncml (E.e_lang e)) 0 true None (E.NElt tag attrs ch) = true ->
  find (fun x => l_id x =? l_id L) TBL = Some L -> l_id L <> 0 ->
  E.o_version o < 4 -> E.header_public_id e < 4294967296 -> E.header_public_id e <> 0 ->
  (match Proofs.EncWbxmlAbs.header_pid e with Some p => D2.okb p = true | None => True end) ->
  E.len bs < 4294967296 ->
  E.enc_wbxml tblb (D2.to_blang L) o [E.NElt tag attrs ch] = E.EOk bs ->
  no_data (C6.doc_events6 tblb L e (UN.acan_u L) (UN.tev_u L e (E.o_keep_ws o)) (E.NElt tag attrs ch)) = true ->
  forall ef, tree_from_wbxml TBL (l_id L) 0 ef bs = BOk (mk_wtree (l_id L) 106 (hd_error (tn_union tblb L o (E.NElt tag attrs ch)))).
Proof.
  cbv zeta. intros HV HSD HTB HT HFind Hid Hv H1 H0 Hpid Hlen He Hnd ef.
  destruct (UN.strict_decode_union tblb TBL L o tag attrs ch bs HV HSD HTB HT HFind Hv H1 H0 Hpid Hlen He)
    as (d & evs & Hbs & _ & Hden & _ & HM).
  subst bs.
  assert (Hp : parse_with TBL (l_id L) 0 (S (length (serialize d))) (serialize d) = POk evs).
  { apply (parse_denote_with TBL (fun l0 _ _ => typed_wv_agree_proved) typed_datetime_agree_proved (l_id L) (Some L) d); [|exact Hden].
    split; [reflexivity|]. split; [exact Hid|exact HFind]. }
  unfold tree_from_wbxml. rewrite Hp. unfold tn_union.
  set (e := E.enc_env (D2.to_blang L) o) in *. set (wa := E.has_attr_table e) in *.
  set (acan := UN.acan_u L) in *. set (tev := UN.tev_u L e (E.o_keep_ws o)) in *. set (sy := E.is_syncml (E.e_lang e)) in *.
  set (edoc := D6.emb_doc tblb e) in *.
  assert (Htc : forall f p c, forallb MG.is_chars (tev f p c) = true) by (intros f p c; apply tev_u_chars).
  pose proof (spec_forest_nodes6 acan tev sy edoc wa Htc (E.NElt tag attrs ch) true None) as Hsf.
  revert HM Hnd Hsf. unfold C6.doc_events6. fold wa sy edoc. cbn [D6.events6 tnu].
  set (kidsE := (fix go (f : bool) (l : list E.node) : list event :=
                   match l with [] => [] | x :: r => D6.events6 acan tev sy edoc wa f (Some tag) x ++ go false r end) true ch).
  set (kidsT := (fix go (f : bool) (l : list E.node) : list tnode :=
                   match l with [] => [] | x :: r => tnu acan tev sy edoc wa f (Some tag) x ++ go false r end) true ch).
  set (t := TK.tag_event tag). set (a := if wa then map (D5.attr_event5 (acan tag attrs)) attrs else []).
  intros HM Hnd Hsf. cbn [hd_error].
  cbn [EV.merge_chars EV.glue app] in HM.
  destruct (merge_head evs _ _ HM eq_refl) as (r1 & -> & HM1).
  destruct (merge_head r1 _ _ HM1 eq_refl) as (r2 & -> & HM2).
  unfold no_data in Hnd. cbn [forallb app] in Hnd. apply andb_true_iff in Hnd as [_ Hnd]. apply andb_true_iff in Hnd as [Ht Hn2].
  fold (no_data ((kidsE ++ [EvEndElt t]) ++ [EvEndDoc])) in Hn2.
  subst a. rewrite (build_merge_doc TBL ef 106 (l_id L) t _ r2 _ Ht Hn2 HM2).
  assert (Hni : no_data kidsE = true).
  { unfold no_data in *. rewrite !forallb_app in Hn2. apply andb_true_iff in Hn2 as [Hn2 _]. apply andb_true_iff in Hn2 as [Hn2 _]. exact Hn2. }
  (* the children's forest *)
  assert (Hk : spec_forest kidsE kidsT).
  { inversion Hsf as [| | |t0 a0 inner r0 ch0 ns0 Hi Hr Eq1 Eq2]; subst.
    (* inner ++ EvEndElt t :: r0 = kidsE ++ [EvEndElt t]: the statement of spec_forest_nodes6 for the children, directly *)
    clear -Htc. subst kidsE kidsT. generalize true as f. induction ch as [|x r IHr]; intros f; [constructor|].
    apply spec_forest_app; [apply spec_forest_nodes6; exact Htc|apply IHr]. }
  pose proof (build_of_shape TBL ef 106 (l_id L) [] t (if wa then map (D5.attr_event5 (acan tag attrs)) attrs else []) kidsE [] kidsT eq_refl eq_refl Hk Ht Hni) as Hb.
  cbn [app] in Hb. rewrite app_nil_r in Hb. exact Hb.
Qed.

(* ---- the SyncML data-type rule of the builder (wbxml_tree_clb_wbxml_characters), for an element with ONE run of character
   data: what the element becomes under its parent, by the type the rule finds for it ---- *)
Definition after_child (st : bstate) (p : frame) (up : list frame) (n : tnode) : bstate :=
  mk_bstate (b_lang st) (b_charset st) (mk_frame (f_tag p) (f_attrs p) (f_done p ++ [n]) None :: up) (b_root st).

Lemma data_rule_normal tbl lv t a b st p up r : b_stack st = p :: up -> f_cdata p = None ->
  syncml_data_type (mk_frame t a [] None :: p :: up) = D_NORMAL ->
  build_from tbl lv (EvStartElt t a :: EvChars b :: EvEndElt t :: r) st = build_from tbl lv r (after_child st p up (TElt t a [TText b])).
Proof.
  intros Hs Hc Hd. rewrite build_from_eq. unfold cb_start_element. rewrite Hs. unfold leave_cdata. rewrite Hc. cbn [bnext].
  assert (Hp : mk_frame (f_tag p) (f_attrs p) (f_done p) (f_cdata p) = p) by (destruct p; reflexivity).
  rewrite build_from_eq. cbn [b_stack]. rewrite Hd. unfold add_to_current. cbn [b_stack f_cdata f_tag f_attrs f_done bnext b_lang b_charset b_root add_node].
  rewrite build_from_eq. unfold cb_end_element. cbn [b_stack bnext b_lang b_charset b_root f_tag f_attrs f_done].
  unfold frame_node, frame_children, cdata_nodes. cbn [f_tag f_attrs f_done f_cdata app]. rewrite Hc. cbn [app]. reflexivity.
Qed.

(* a vObject / "clear" type: the text is put into a CDATA node the builder creates *)
Lemma data_rule_cdata tbl lv t a b st p up r : b_stack st = p :: up -> f_cdata p = None ->
  syncml_data_type (mk_frame t a [] None :: p :: up) = D_CDATA ->
  build_from tbl lv (EvStartElt t a :: EvChars b :: EvEndElt t :: r) st = build_from tbl lv r (after_child st p up (TElt t a [TCData [TText b]])).
Proof.
  intros Hs Hc Hd. rewrite build_from_eq. unfold cb_start_element. rewrite Hs. unfold leave_cdata. rewrite Hc. cbn [bnext].
  rewrite build_from_eq. cbn [b_stack]. rewrite Hd. unfold open_cdata, add_to_current.
  cbn [b_stack f_cdata f_tag f_attrs f_done bnext b_lang b_charset b_root add_node].
  rewrite build_from_eq. unfold cb_end_element. cbn [b_stack bnext b_lang b_charset b_root f_tag f_attrs f_done].
  unfold frame_node, frame_children, cdata_nodes. cbn [f_tag f_attrs f_done f_cdata app]. rewrite Hc. cbn [app]. reflexivity.
Qed.

(* an embedded WBXML document (DevInf, DM DDF): parsed with the language not forced and built one level down; the sub-tree node *)
Lemma data_rule_embedded tbl lv t a b st p up r evs' st' : b_stack st = p :: up -> f_cdata p = None ->
  syncml_data_type (mk_frame t a [] None :: p :: up) = D_WBXML ->
  parse_with tbl 0 (b_charset st) (S (length b)) b = POk evs' -> build_from tbl lv evs' st_init = BOk st' ->
  build_from tbl (S lv) (EvStartElt t a :: EvChars b :: EvEndElt t :: r) st
  = build_from tbl (S lv) r (after_child st p up (TElt t a [TSub (wt_lang (tree_of_state st')) (wt_charset (tree_of_state st')) (wt_root (tree_of_state st'))])).
Proof.
  intros Hs Hc Hd Hp Hb. rewrite build_from_eq. unfold cb_start_element. rewrite Hs. unfold leave_cdata. rewrite Hc. cbn [bnext].
  rewrite build_from_eq. cbn [b_stack b_charset]. rewrite Hd, Hp, Hb. cbv zeta. unfold add_to_current.
  cbn [b_stack f_cdata f_tag f_attrs f_done bnext b_lang b_charset b_root add_node].
  rewrite build_from_eq. unfold cb_end_element. cbn [b_stack bnext b_lang b_charset b_root f_tag f_attrs f_done].
  unfold frame_node, frame_children, cdata_nodes. cbn [f_tag f_attrs f_done f_cdata app]. rewrite Hc. cbn [app]. reflexivity.
Qed.

(* ... beyond WBXML_MAX_EMBEDDED_DEPTH, or when the content does not parse, it stays a text node *)
Lemma data_rule_embedded_limit tbl t a b st p up r : b_stack st = p :: up -> f_cdata p = None ->
  syncml_data_type (mk_frame t a [] None :: p :: up) = D_WBXML ->
  build_from tbl 0 (EvStartElt t a :: EvChars b :: EvEndElt t :: r) st = build_from tbl 0 r (after_child st p up (TElt t a [TText b])).
Proof.
  intros Hs Hc Hd. rewrite build_from_eq. unfold cb_start_element. rewrite Hs. unfold leave_cdata. rewrite Hc. cbn [bnext].
  rewrite build_from_eq. cbn [b_stack]. rewrite Hd. unfold add_to_current. cbn [b_stack f_cdata f_tag f_attrs f_done bnext b_lang b_charset b_root add_node].
  rewrite build_from_eq. unfold cb_end_element. cbn [b_stack bnext b_lang b_charset b_root f_tag f_attrs f_done].
  unfold frame_node, frame_children, cdata_nodes. cbn [f_tag f_attrs f_done f_cdata app]. rewrite Hc. cbn [app]. reflexivity.
Qed.

(* ---- the text nodes of tn_union are not empty: the XML generator accepts the tree ---- *)
Definition is_nechars (ev : event) : bool := match ev with EvChars (_ :: _) => true | _ => false end.
Lemma nechars_chars b : forallb is_nechars (MG.chars b) = true.
Proof. destruct b; reflexivity. Qed.

Lemma tev_u_nechars L e keep f p c : forallb is_nechars (UN.tev_u L e keep f p c) = true.
Proof.
  unfold UN.tev_u. destruct (UN.class_of (D2.to_blang L)).
  - unfold Proofs.EncWbxmlDenoteWv.tev_wv. destruct (Proofs.EncWbxmlDenoteWv.wv_norm keep c); [reflexivity|].
    cbv zeta. repeat match goal with |- context [if ?b then _ else _] => destruct b end; apply nechars_chars.
  - unfold Proofs.EncWbxmlClasses.tev_drm. destruct (Proofs.EncWbxmlDenoteWv.wv_norm keep c); [reflexivity|].
    destruct (Proofs.EncWbxmlClasses.is_keyvalue p); apply nechars_chars.
  - unfold Proofs.EncWbxmlClasses.tev_sy. destruct (Proofs.EncWbxmlDenoteWv.wv_norm keep c); [reflexivity|]. apply nechars_chars.
  - unfold D5.tev_plain. destruct (Proofs.EncWbxmlAbs4.tag_bin p); [apply nechars_chars|].
    unfold TreeNorm.norm_text. destruct (keep || false); [|destruct (E.only_ws c)]; cbn [flat_map TK.events3 app]; try reflexivity;
      match goal with |- context [cstr ?x] => destruct (cstr x) end; reflexivity.
  - unfold D5.tev_plain. destruct (Proofs.EncWbxmlAbs4.tag_bin p); [apply nechars_chars|].
    unfold TreeNorm.norm_text. destruct (keep || false); [|destruct (E.only_ws c)]; cbn [flat_map TK.events3 app]; try reflexivity;
      match goal with |- context [cstr ?x] => destruct (cstr x) end; reflexivity.
Qed.

(* ---- THROUGH <Data>: the forest of the union tree as items, the builder's frames threaded through it (Proofs/TreeBuildData.v) ---- *)
From Wbxml Require Proofs.TreeBuildData.
Module TD := Wbxml.Proofs.TreeBuildData.

Definition items_of_events (evs : list event) : list TD.item :=
  flat_map (fun ev => match ev with EvChars b => [TD.IChars b] | _ => [] end) evs.

Lemma ev_items_of_events evs : forallb MG.is_chars evs = true -> flat_map TD.ev_of (items_of_events evs) = evs.
Proof.
  induction evs as [|x r IH]; [reflexivity|]. cbn [forallb]. intros H. apply andb_true_iff in H. destruct H as [Hx Hr].
  destruct x; try discriminate. cbn [items_of_events flat_map app TD.ev_of]. f_equal. exact (IH Hr).
Qed.

Section ItU.
Variable acan : E.tagname -> list E.attr -> E.attr -> E.bytes.
Variable tev : bool -> option E.tagname -> E.bytes -> list event.
Variable sy : bool.
Variable edoc : N -> list E.node -> E.bytes.
Variable wa : bool.
Hypothesis tev_chars : forall f p c, forallb MG.is_chars (tev f p c) = true.

Fixpoint itU (first : bool) (par : option E.tagname) (n : E.node) : list TD.item :=
  match n with
  | E.NElt tag attrs ch =>
    [TD.IElt (TK.tag_event tag) (if wa then map (D5.attr_event5 (acan tag attrs)) attrs else [])
             ((fix go (f : bool) (l : list E.node) : list TD.item :=
                 match l with [] => [] | x :: r => itU f (Some tag) x ++ go false r end) true ch)]
  | E.NText c => items_of_events (tev first par c)
  | E.NCData ch => items_of_events (MG.chars (D6.cdata_of sy ch))
  | E.NTree lid roots => items_of_events (MG.chars (edoc lid roots))
  | E.NPi => []
  end.

Lemma ev_itU : forall n first par, flat_map TD.ev_of (itU first par n) = D6.events6 acan tev sy edoc wa first par n.
Proof.
  fix IH 1. intros n first par. destruct n as [tag attrs ch|c|ch| |lid roots]; cbn [itU D6.events6].
  - cbn [flat_map TD.ev_of app]. rewrite app_nil_r. f_equal. f_equal.
    generalize true at 1 2 as f. induction ch as [|x r IHr]; intros f; [reflexivity|]. rewrite flat_map_app, (IH x f (Some tag)), (IHr false). reflexivity.
  - apply ev_items_of_events. apply tev_chars.
  - apply ev_items_of_events. apply chars_is_chars.
  - reflexivity.
  - apply ev_items_of_events. apply chars_is_chars.
Qed.
End ItU.

(* the root element's forest *)
Definition kids_union (tblb : list E.blang) (L : lang) (o : E.options) (tag : E.tagname) (ch : list E.node) : list TD.item :=
  let e := E.enc_env (D2.to_blang L) o in
  (fix go (f : bool) (l : list E.node) : list TD.item :=
     match l with [] => [] | x :: r => itU (UN.acan_u L) (UN.tev_u L e (E.o_keep_ws o)) (E.is_syncml (E.e_lang e)) (D6.emb_doc tblb e) (E.has_attr_table e) f (Some tag) x ++ go false r end) true ch.

(* the builder on the events the union theorem specifies, THROUGH <Data>: the tree is the root with the children of the frame
   that TreeBuildData.bis computes - every text, CDATA section and embedded tree outside <Data> a text node (merged), and a Data
   element with one run of character data decided by syncml_data_type of the frames built so far *)
Theorem build_union_through_data tblb TBL L o lv tag attrs ch f' :
  let e := E.enc_env (D2.to_blang L) o in
  let t := TK.tag_event tag in
  let a := if E.has_attr_table e then map (D5.attr_event5 (UN.acan_u L tag attrs)) attrs else [] in
  forallb TD.iwf (kids_union tblb L o tag ch) = true ->
  (not_data t = true \/ forallb TD.is_ielt (kids_union tblb L o tag ch) = true) ->
  TD.bis TBL lv 106 [] (mk_frame t a [] None) (kids_union tblb L o tag ch) = Some f' ->
  build TBL lv (C6.doc_events6 tblb L e (UN.acan_u L) (UN.tev_u L e (E.o_keep_ws o)) (E.NElt tag attrs ch))
  = BOk (mk_wtree (l_id L) 106 (Some (TElt t a (f_done f')))).
Proof.
  cbv zeta. intros Hw Hd Hb. set (e := E.enc_env (D2.to_blang L) o) in *.
  pose proof (TD.build_doc TBL lv 106 (l_id L) _ _ _ f' Hw Hd Hb) as H.
  unfold C6.doc_events6. cbn [D6.events6]. 
  assert (Hk : flat_map TD.ev_of (kids_union tblb L o tag ch)
               = (fix go (f : bool) (l : list E.node) : list event :=
                    match l with [] => [] | x :: r => D6.events6 (UN.acan_u L) (UN.tev_u L e (E.o_keep_ws o)) (E.is_syncml (E.e_lang e)) (D6.emb_doc tblb e) (E.has_attr_table e) f (Some tag) x ++ go false r end) true ch).
  { clear Hw Hd Hb H. unfold kids_union. fold e. generalize true at 1 2 as f. induction ch as [|x r IHr]; intros f; [reflexivity|].
    rewrite flat_map_app, (ev_itU _ _ _ _ _ (fun f0 p c => tev_u_chars L e (E.o_keep_ws o) f0 p c) x f (Some tag)), (IHr false). reflexivity. }
  rewrite Hk in H. exact H.
Qed.

(* ... composed with the parser.  The union theorem of the encoder gives the parser's events only MODULO merge_chars; inside a Data
   element whose type is an embedded document the builder is NOT indifferent to how the character data is cut (each piece would be
   parsed on its own), so here the events are required exactly (the parser reports one OPAQUE as one event; exporting that is
   wbxmlenc's: hypothesis data_events_exact) *)
Theorem roundtrip_union_through_data tblb TBL L o lv tag attrs ch f' bs forced :
  let e := E.enc_env (D2.to_blang L) o in
  let t := TK.tag_event tag in
  let a := if E.has_attr_table e then map (D5.attr_event5 (UN.acan_u L tag attrs)) attrs else [] in
  (* data_events_exact *)
  parse_with TBL forced 0 (S (length bs)) bs = POk (C6.doc_events6 tblb L e (UN.acan_u L) (UN.tev_u L e (E.o_keep_ws o)) (E.NElt tag attrs ch)) ->
  forallb TD.iwf (kids_union tblb L o tag ch) = true ->
  (not_data t = true \/ forallb TD.is_ielt (kids_union tblb L o tag ch) = true) ->
  TD.bis TBL lv 106 [] (mk_frame t a [] None) (kids_union tblb L o tag ch) = Some f' ->
  tree_from_wbxml TBL forced 0 lv bs = BOk (mk_wtree (l_id L) 106 (Some (TElt t a (f_done f')))).
Proof.
  cbv zeta. intros Hp Hw Hd Hb. unfold tree_from_wbxml. rewrite Hp. exact (build_union_through_data tblb TBL L o lv tag attrs ch f' Hw Hd Hb).
Qed.

(* ---- the unforced reading on the union, with the public-id field of the abstract document as a NAMED hypothesis (for the wide
   fragment it is proved: ConvWideUnforced.strict_decode_of_encoding3_pub; for the union it is wbxmlenc's to export) ---- *)
From Wbxml Require Proofs.ConvRoundTrip Proofs.ConvWideUnforced.
Module CWU := Wbxml.Proofs.ConvWideUnforced.

Definition union_pub_field (TBL : list lang) (L : lang) (e : E.env) (bs : E.bytes) : Prop :=
  forall d evs, bs = serialize d -> denote_with TBL (Some L) d = Some evs ->
    (Proofs.EncWbxmlAbs.header_pid e = None -> wd_pub d = PubNum (E.header_public_id e)) /\
    (forall p, Proofs.EncWbxmlAbs.header_pid e = Some p ->
       exists i, wd_pub d = PubIdx i /\ str_at (wd_strtbl d) i = Some p /\ blen (wd_strtbl d) < 4294967296).

Lemma union_core tblb TBL L o tag attrs ch forced d evs :
  let e := E.enc_env (D2.to_blang L) o in
  find (fun x => l_id x =? l_id L) TBL = Some L -> CWU.lang_choiceW TBL L e forced ->
  E.header_public_id e < 4294967296 -> E.header_public_id e <> 0 ->
  denote_with TBL (Some L) d = Some evs ->
  EV.merge_chars evs = EV.merge_chars (C6.doc_events6 tblb L e (UN.acan_u L) (UN.tev_u L e (E.o_keep_ws o)) (E.NElt tag attrs ch)) ->
  (Proofs.EncWbxmlAbs.header_pid e = None -> wd_pub d = PubNum (E.header_public_id e)) ->
  (forall p, Proofs.EncWbxmlAbs.header_pid e = Some p ->
     exists i, wd_pub d = PubIdx i /\ str_at (wd_strtbl d) i = Some p /\ blen (wd_strtbl d) < 4294967296) ->
  no_data (C6.doc_events6 tblb L e (UN.acan_u L) (UN.tev_u L e (E.o_keep_ws o)) (E.NElt tag attrs ch)) = true ->
  forall ef, tree_from_wbxml TBL forced 0 ef (serialize d) = BOk (mk_wtree (l_id L) 106 (hd_error (tn_union tblb L o (E.NElt tag attrs ch)))).
Proof.
  cbv zeta. intros HFind Hch H1 H0 Hden HM Hpub Hpubt Hnd ef.
  assert (Hp : parse_with TBL forced 0 (S (length (serialize d))) (serialize d) = POk evs).
  { destruct Hch as [[[-> Hid] | [-> [Hp1 Hfp]]] | [-> (p & Hp & Hfp)]].
    - apply (parse_denote_with TBL (fun l0 _ _ => typed_wv_agree_proved) typed_datetime_agree_proved (l_id L) (Some L) d); [|exact Hden].
      split; [reflexivity|]. split; [exact Hid|exact HFind].
    - apply (parse_denote TBL (fun l0 _ _ => typed_wv_agree_proved) typed_datetime_agree_proved d).
      apply (Proofs.ConvRoundTrip.denote_unforced TBL L d); [|exact Hden].
      rewrite Hpub.
      + unfold lang_of_pub.
        replace (E.header_public_id (E.enc_env (D2.to_blang L) o) =? 1) with false by (symmetry; apply N.eqb_neq; exact Hp1).
        replace (u32_okb (E.header_public_id (E.enc_env (D2.to_blang L) o))) with true by (symmetry; unfold u32_okb; apply N.ltb_lt; exact H1).
        replace (E.header_public_id (E.enc_env (D2.to_blang L) o) =? 0) with false by (symmetry; apply N.eqb_neq; exact H0).
        cbn [negb orb]. exact Hfp.
      + unfold Proofs.EncWbxmlAbs.header_pid. replace (E.header_public_id (E.enc_env (D2.to_blang L) o) =? 1) with false by (symmetry; apply N.eqb_neq; exact Hp1).
        reflexivity.
    - apply (parse_denote TBL (fun l0 _ _ => typed_wv_agree_proved) typed_datetime_agree_proved d).
      apply (Proofs.ConvRoundTrip.denote_unforced TBL L d); [|exact Hden].
      destruct (Hpubt p Hp) as (i & Hi & Hs & Hb). rewrite Hi. unfold lang_of_pub.
      assert (Hlt : i < blen (wd_strtbl d)).
      { unfold str_at in Hs. destruct (i <? blen (wd_strtbl d)) eqn:El; [apply N.ltb_lt; exact El|discriminate]. }
      replace (u32_okb i) with true by (symmetry; unfold u32_okb; apply N.ltb_lt; lia).
      replace (i =? 4294967295) with false by (symmetry; apply N.eqb_neq; lia).
      cbn [negb andb]. rewrite Hs. exact Hfp. }
  (* from here as in roundtrip_union *)
  unfold tree_from_wbxml. rewrite Hp. unfold tn_union.
  set (e := E.enc_env (D2.to_blang L) o) in *. set (wa := E.has_attr_table e) in *.
  set (acan := UN.acan_u L) in *. set (tev := UN.tev_u L e (E.o_keep_ws o)) in *. set (sy := E.is_syncml (E.e_lang e)) in *.
  set (edoc := D6.emb_doc tblb e) in *.
  assert (Htc : forall f p c, forallb MG.is_chars (tev f p c) = true) by (intros f p c; apply tev_u_chars).
  revert HM Hnd. unfold C6.doc_events6. fold wa sy edoc. cbn [D6.events6 tnu].
  set (kidsE := (fix go (f : bool) (l : list E.node) : list event :=
                   match l with [] => [] | x :: r => D6.events6 acan tev sy edoc wa f (Some tag) x ++ go false r end) true ch).
  set (kidsT := (fix go (f : bool) (l : list E.node) : list tnode :=
                   match l with [] => [] | x :: r => tnu acan tev sy edoc wa f (Some tag) x ++ go false r end) true ch).
  set (t := TK.tag_event tag).
  intros HM Hnd. cbn [hd_error].
  cbn [EV.merge_chars EV.glue app] in HM.
  destruct (merge_head evs _ _ HM eq_refl) as (r1 & -> & HM1).
  destruct (merge_head r1 _ _ HM1 eq_refl) as (r2 & -> & HM2).
  unfold no_data in Hnd. cbn [forallb app] in Hnd. apply andb_true_iff in Hnd as [_ Hnd]. apply andb_true_iff in Hnd as [Ht Hn2].
  fold (no_data ((kidsE ++ [EvEndElt t]) ++ [EvEndDoc])) in Hn2.
  rewrite (build_merge_doc TBL ef 106 (l_id L) t _ r2 _ Ht Hn2 HM2).
  assert (Hni : no_data kidsE = true).
  { unfold no_data in *. rewrite !forallb_app in Hn2. apply andb_true_iff in Hn2 as [Hn2 _]. apply andb_true_iff in Hn2 as [Hn2 _]. exact Hn2. }
  assert (Hk : spec_forest kidsE kidsT).
  { clear -Htc. subst kidsE kidsT. generalize true as f. induction ch as [|x r IHr]; intros f; [constructor|].
    apply spec_forest_app; [apply spec_forest_nodes6; exact Htc|apply IHr]. }
  pose proof (build_of_shape TBL ef 106 (l_id L) [] t (if wa then map (D5.attr_event5 (acan tag attrs)) attrs else []) kidsE [] kidsT eq_refl eq_refl Hk Ht Hni) as Hb.
  cbn [app] in Hb. rewrite app_nil_r in Hb. exact Hb.
Qed.

Theorem roundtrip_union_choice tblb TBL L o tag attrs ch bs forced :
  let e := E.enc_env (D2.to_blang L) o in
  D2.vals_ok L = true -> UN.side_u L = true -> Proofs.EncWbxmlAbs5.tag_tbl_ok e = true ->
  D6.tree_ok6 L (UN.aok_u L) (UN.tok_u L (E.o_keep_ws o)) (UN.cok_plain L) (UN.eok_plain tblb e L) (E.is_syncml (E.e_lang e)) 0 true None (E.NElt tag attrs ch) = true ->
  find (fun x => l_id x =? l_id L) TBL = Some L -> CWU.lang_choiceW TBL L e forced -> union_pub_field TBL L e bs ->
  E.o_version o < 4 -> E.header_public_id e < 4294967296 -> E.header_public_id e <> 0 ->
  (match Proofs.EncWbxmlAbs.header_pid e with Some p => D2.okb p = true | None => True end) ->
  E.len bs < 4294967296 ->
  E.enc_wbxml tblb (D2.to_blang L) o [E.NElt tag attrs ch] = E.EOk bs ->
  no_data (C6.doc_events6 tblb L e (UN.acan_u L) (UN.tev_u L e (E.o_keep_ws o)) (E.NElt tag attrs ch)) = true ->
  forall ef, tree_from_wbxml TBL forced 0 ef bs = BOk (mk_wtree (l_id L) 106 (hd_error (tn_union tblb L o (E.NElt tag attrs ch)))).
Proof.
  cbv zeta. intros HV HSD HTB HT HFind Hch Hpubf Hv H1 H0 Hpid Hlen He Hnd ef.
  destruct (UN.strict_decode_union tblb TBL L o tag attrs ch bs HV HSD HTB HT HFind Hv H1 H0 Hpid Hlen He)
    as (d & evs & Hbs & _ & Hden & _ & HM).
  destruct (Hpubf d evs Hbs Hden) as [Hpub Hpubt]. subst bs.
  exact (union_core tblb TBL L o tag attrs ch forced d evs HFind Hch H1 H0 Hden HM Hpub Hpubt Hnd ef).
Qed.

(* ... and with the public-id field as wbxmlenc exports it for the union (Proofs/EncWbxmlUnionPub.v): no hypothesis left *)
From Wbxml Require Proofs.EncWbxmlUnionPub.
Lemma denote_strtbl_u32 TBL fo d evs : denote_with TBL fo d = Some evs -> blen (wd_strtbl d) < 4294967296.
Proof.
  unfold denote_with.
  match goal with |- (if ?c then _ else _) = _ -> _ => destruct c eqn:E end; [|discriminate].
  intros _. apply andb_true_iff in E. destruct E as [E _]. apply andb_true_iff in E. destruct E as [_ E]. unfold u32_okb in E. apply N.ltb_lt in E. exact E.
Qed.

Theorem roundtrip_union_unforced tblb TBL L o tag attrs ch bs forced :
  let e := E.enc_env (D2.to_blang L) o in
  D2.vals_ok L = true -> UN.side_u L = true -> Proofs.EncWbxmlAbs5.tag_tbl_ok e = true ->
  D6.tree_ok6 L (UN.aok_u L) (UN.tok_u L (E.o_keep_ws o)) (UN.cok_plain L) (UN.eok_plain tblb e L) (E.is_syncml (E.e_lang e)) 0 true None (E.NElt tag attrs ch) = true ->
  find (fun x => l_id x =? l_id L) TBL = Some L -> CWU.lang_choiceW TBL L e forced ->
  E.o_version o < 4 -> E.header_public_id e < 4294967296 -> E.header_public_id e <> 0 ->
  (match Proofs.EncWbxmlAbs.header_pid e with Some p => D2.okb p = true | None => True end) ->
  E.len bs < 4294967296 ->
  E.enc_wbxml tblb (D2.to_blang L) o [E.NElt tag attrs ch] = E.EOk bs ->
  no_data (C6.doc_events6 tblb L e (UN.acan_u L) (UN.tev_u L e (E.o_keep_ws o)) (E.NElt tag attrs ch)) = true ->
  forall ef, tree_from_wbxml TBL forced 0 ef bs = BOk (mk_wtree (l_id L) 106 (hd_error (tn_union tblb L o (E.NElt tag attrs ch)))).
Proof.
  cbv zeta. intros HV HSD HTB HT HFind Hch Hv H1 H0 Hpid Hlen He Hnd ef.
  destruct (Proofs.EncWbxmlUnionPub.strict_decode_of_encoding6_pub tblb TBL L o tag attrs ch bs HV HSD HTB HT HFind Hv H1 H0 Hpid Hlen He)
    as (d & evs & Hbs & _ & Hden & _ & HM & Hpf). subst bs.
  apply (union_core tblb TBL L o tag attrs ch forced d evs HFind Hch H1 H0 Hden HM); [| |exact Hnd].
  - intros Hn. rewrite Hn in Hpf. exact Hpf.
  - intros p Hp. rewrite Hp in Hpf. destruct Hpf as (i & Hi & Hs). exists i. split; [exact Hi|]. split; [exact Hs|exact (denote_strtbl_u32 _ _ _ _ Hden)].
Qed.
