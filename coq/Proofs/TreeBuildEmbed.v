(* C03 / C01 (tree builder) — embedded documents nest at most as deep as the number of levels the builder is given:
   a tree built with `levels` levels has no chain of more than `levels` TREE nodes (WBXML_MAX_EMBEDDED_DEPTH = 1 for
   wbxml_tree_from_wbxml: an embedded document never contains an embedded document). *)
From Coq Require Import String Ascii.
From Coq Require Import List NArith ZArith Lia Bool.
From Wbxml Require Import Model.Codec Model.TablesDefs Model.Parser Model.TreeBuild Proofs.TreeBuildProofs.
Import ListNotations.
Local Open Scope N_scope.

(* sle k n: every chain of nested TREE nodes in n has at most k members *)
Fixpoint sle (k : nat) (n : tnode) : bool :=
  match n with
  | TElt _ _ ch => forallb (sle k) ch
  | TText _ => true
  | TCData ch => forallb (sle k) ch
  | TSub _ _ r => match k with O => false | S k' => match r with Some x => sle k' x | None => true end end
  end.

Lemma add_node_sle k l n : forallb (sle k) l = true -> sle k n = true -> forallb (sle k) (add_node l n) = true.
Proof.
  induction l as [|x r IH]; intros Hl Hn; [cbn; rewrite Hn; reflexivity|].
  destruct r as [|y r'].
  - cbn [forallb] in Hl. rewrite andb_true_r in Hl.
    destruct x, n; cbn [add_node forallb]; rewrite ?Hl, ?Hn; reflexivity.
  - change (add_node (x :: y :: r') n) with (x :: add_node (y :: r') n).
    cbn [forallb] in Hl |- *. apply andb_prop in Hl. destruct Hl as [Hx Hr]. rewrite Hx. cbn [andb]. apply IH; [exact Hr|exact Hn].
Qed.

Definition frame_sle (k : nat) (f : frame) : bool :=
  forallb (sle k) (f_done f) && match f_cdata f with Some c => forallb (sle k) c | None => true end.
Definition state_sle (k : nat) (st : bstate) : bool :=
  forallb (frame_sle k) (b_stack st) && match b_root st with Some r => sle k r | None => true end.

Lemma frame_node_sle k f inner : frame_sle k f = true -> forallb (sle k) inner = true -> sle k (frame_node f inner) = true.
Proof.
  unfold frame_sle, frame_node, frame_children, cdata_nodes. intros Hf Hi. apply andb_prop in Hf. destruct Hf as [Hd Hc].
  cbn [sle]. rewrite !forallb_app, Hd, Hi. destruct (f_cdata f) as [c|]; cbn [forallb sle]; rewrite ?Hc; reflexivity.
Qed.

Lemma leave_cdata_sle k f : frame_sle k f = true -> frame_sle k (leave_cdata f) = true.
Proof.
  unfold leave_cdata. destruct (f_cdata f) as [c|] eqn:Ec; [|exact (fun H => H)].
  unfold frame_sle. rewrite Ec. intros H. apply andb_prop in H. destruct H as [Hd Hc]. cbn [f_done f_cdata].
  rewrite forallb_app, Hd. cbn [forallb sle]. rewrite Hc. reflexivity.
Qed.

Lemma add_to_current_sle k st n st' : state_sle k st = true -> sle k n = true ->
  add_to_current st n = BOk st' -> state_sle k st' = true.
Proof.
  unfold add_to_current, state_sle. intros Hs Hn. destruct (b_stack st) as [|f up] eqn:Es.
  - destruct (b_root st); [discriminate|]. intros H. injection H as <-. cbn. exact Hn.
  - intros H. injection H as <-. cbn [b_stack b_root forallb] in *. apply andb_prop in Hs. destruct Hs as [Hf Hr].
    apply andb_prop in Hf. destruct Hf as [Hf Hup]. rewrite Hup, Hr, !andb_true_r.
    unfold frame_sle in *. apply andb_prop in Hf. destruct Hf as [Hd Hc].
    destruct (f_cdata f) as [c|]; cbn [f_done f_cdata].
    + rewrite Hd. cbn [andb]. apply add_node_sle; assumption.
    + rewrite andb_true_r. apply add_node_sle; assumption.
Qed.

Lemma open_cdata_sle k st : state_sle k st = true -> state_sle k (open_cdata st) = true.
Proof.
  unfold open_cdata, state_sle. destruct (b_stack st) as [|f up] eqn:Es; [rewrite Es; exact (fun H => H)|].
  destruct (f_cdata f) as [c|] eqn:Ec; [rewrite Es; exact (fun H => H)|].
  cbn [b_stack b_root forallb]. unfold frame_sle. rewrite Ec. cbn [f_done f_cdata forallb]. intros H. exact H.
Qed.

Lemma start_element_sle k t a st st' : state_sle k st = true -> cb_start_element t a st = BOk st' -> state_sle k st' = true.
Proof.
  unfold cb_start_element, state_sle. intros Hs. destruct (b_stack st) as [|f up] eqn:Es.
  - destruct (b_root st); [discriminate|]. intros H. injection H as <-. reflexivity.
  - intros H. injection H as <-. cbn [b_stack b_root forallb] in *. apply andb_prop in Hs. destruct Hs as [Hf Hr].
    apply andb_prop in Hf. destruct Hf as [Hf Hup]. rewrite (leave_cdata_sle k f Hf), Hup, Hr. reflexivity.
Qed.

Lemma end_element_sle k st st' : state_sle k st = true -> cb_end_element st = BOk st' -> state_sle k st' = true.
Proof.
  unfold cb_end_element, state_sle. intros Hs. destruct (b_stack st) as [|f [|p up]] eqn:Es; [discriminate| |].
  - destruct (f_cdata f) eqn:Ec.
    + intros H. injection H as <-. cbn [b_stack b_root forallb] in *. rewrite andb_true_r in Hs. apply andb_prop in Hs. destruct Hs as [Hf _].
      apply frame_node_sle; [exact Hf|reflexivity].
    + intros H. injection H as <-. rewrite Es. exact Hs.
  - intros H. injection H as <-. cbn [b_stack b_root forallb] in *. apply andb_prop in Hs. destruct Hs as [Hf Hr].
    apply andb_prop in Hf. destruct Hf as [Hf Hp]. apply andb_prop in Hp. destruct Hp as [Hp Hup]. rewrite Hup, Hr, !andb_true_r.
    unfold frame_sle at 1. cbn [f_done f_cdata]. rewrite andb_true_r.
    pose proof (frame_node_sle k p [frame_node f []] Hp) as Hn. cbn [forallb] in Hn. rewrite (frame_node_sle k f [] Hf eq_refl) in Hn.
    specialize (Hn eq_refl). unfold frame_node in Hn at 1. cbn [sle] in Hn. exact Hn.
Qed.

Lemma view_sle k st : forall inner, forallb (frame_sle k) st = true -> forallb (sle k) inner = true ->
  forallb (sle k) (view st inner) = true.
Proof.
  induction st as [|f up IH]; intros inner Hs Hi; cbn [view]; [exact Hi|].
  cbn [forallb] in Hs. apply andb_prop in Hs. destruct Hs as [Hf Hup]. apply IH; [exact Hup|].
  cbn [forallb]. rewrite (frame_node_sle k f inner Hf Hi). reflexivity.
Qed.

Definition tree_sle (k : nat) (t : wtree) : bool := match wt_root t with Some r => sle k r | None => true end.

Lemma tree_of_state_sle k st : state_sle k st = true -> tree_sle k (tree_of_state st) = true.
Proof.
  unfold state_sle, tree_of_state, tree_sle. intros H. apply andb_prop in H. destruct H as [Hs Hr]. cbn [wt_root].
  destruct (b_stack st) as [|f up] eqn:Es; [exact Hr|].
  pose proof (view_sle k (f :: up) [] Hs eq_refl) as Hv.
  destruct (view (f :: up) []) as [|x r]; [reflexivity|]. cbn [hd_error]. cbn [forallb] in Hv. apply andb_prop in Hv. tauto.
Qed.

Lemma build_from_sle tbl : forall lv evs st st', state_sle lv st = true ->
  build_from tbl lv evs st = BOk st' -> state_sle lv st' = true.
Proof.
  induction lv as [|lv IHl]; intros evs st st' Hs.
  - revert st Hs. induction evs as [|e r IH]; intros st Hs; rewrite build_from_eq; [intros H; injection H as <-; exact Hs|].
    assert (Htext : forall s0 c, state_sle 0 s0 = true -> bnext (add_to_current s0 (TText c)) (build_from tbl 0 r) = BOk st' -> state_sle 0 st' = true).
    { intros s0 c H0. unfold bnext. destruct (add_to_current s0 (TText c)) as [st1|er|] eqn:E; try discriminate.
      apply IH. apply (add_to_current_sle 0 s0 (TText c) st1 H0 eq_refl E). }
    destruct e as [cs lid|t attrs|ch|tg dt|t|].
    + apply IH. exact Hs.
    + unfold bnext. destruct (cb_start_element t attrs st) as [st1|er|] eqn:E; try discriminate. apply IH. apply (start_element_sle 0 t attrs st st1 Hs E).
    + destruct (syncml_data_type (b_stack st)); [apply Htext; exact Hs|apply Htext; exact Hs|apply Htext; apply open_cdata_sle; exact Hs].
    + apply IH. exact Hs.
    + unfold bnext. destruct (cb_end_element st) as [st1|er|] eqn:E; try discriminate. apply IH. apply (end_element_sle 0 st st1 Hs E).
    + apply IH. exact Hs.
  - revert st Hs. induction evs as [|e r IH]; intros st Hs; rewrite build_from_eq; [intros H; injection H as <-; exact Hs|].
    assert (Htext : forall s0 c, state_sle (S lv) s0 = true -> bnext (add_to_current s0 (TText c)) (build_from tbl (S lv) r) = BOk st' -> state_sle (S lv) st' = true).
    { intros s0 c H0. unfold bnext. destruct (add_to_current s0 (TText c)) as [st1|er|] eqn:E; try discriminate.
      apply IH. apply (add_to_current_sle (S lv) s0 (TText c) st1 H0 eq_refl E). }
    destruct e as [cs lid|t attrs|ch|tg dt|t|].
    + apply IH. exact Hs.
    + unfold bnext. destruct (cb_start_element t attrs st) as [st1|er|] eqn:E; try discriminate. apply IH. apply (start_element_sle (S lv) t attrs st st1 Hs E).
    + destruct (syncml_data_type (b_stack st)); [apply Htext; exact Hs| |apply Htext; apply open_cdata_sle; exact Hs].
      destruct (parse_with tbl 0 (b_charset st) (S (length ch)) ch) as [evs'|er|]; [|apply Htext; exact Hs|discriminate].
      destruct (build_from tbl lv evs' st_init) as [st2|er|] eqn:E2; [|apply Htext; exact Hs|discriminate].
      assert (Hn : sle (S lv) (TSub (wt_lang (tree_of_state st2)) (wt_charset (tree_of_state st2)) (wt_root (tree_of_state st2))) = true).
      { cbn [sle]. apply (tree_of_state_sle lv st2). apply (IHl evs' st_init st2 eq_refl E2). }
      cbv zeta. unfold bnext. destruct (add_to_current st _) as [st1|er|] eqn:E; try discriminate.
      apply IH. apply (add_to_current_sle (S lv) st _ st1 Hs Hn E).
    + apply IH. exact Hs.
    + unfold bnext. destruct (cb_end_element st) as [st1|er|] eqn:E; try discriminate. apply IH. apply (end_element_sle (S lv) st st1 Hs E).
    + apply IH. exact Hs.
Qed.

Theorem build_embed_depth tbl lv evs t : build tbl lv evs = BOk t -> tree_sle lv t = true.
Proof.
  unfold build. destruct (build_from tbl lv evs st_init) as [st|e|] eqn:E; try discriminate.
  intros H. injection H as <-. apply tree_of_state_sle. apply (build_from_sle tbl lv evs st_init st eq_refl E).
Qed.
