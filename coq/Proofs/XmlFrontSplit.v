(* C02 (front end) — splitting a character-data event into non-empty pieces does not change what the callbacks build
   (Expat may split one text at entity references and buffer boundaries; wbxml_tree_add_node joins the pieces), outside
   the one case where the pieces are visible: the LF -> CR LF hack looks at a piece that is exactly one LF (and, since
   the LF-hack fix, at whether the text before that piece ends with a CR: then the LF is left alone). *)
From Coq Require Import String.
From Coq Require Import List NArith Lia Bool.
From Wbxml Require Import Model.TablesDefs Model.Tables Model.Codec Model.LangSelect Model.EncWbxml Model.XmlFront Model.XmlFrontLfOld.
From Wbxml Require Import Gen.TablesData.
From Wbxml Require Import Proofs.XmlFrontProofs Proofs.XmlFrontDataType.
Import ListNotations.
Local Open Scope N_scope.

Definition dt_vobj (d : dtype) : bool :=
  match d with DT_DIRECTORY_VCARD | DT_VCALENDAR | DT_VCARD | DT_VOBJECT => true | _ => false end.
Definition dt_wants_cdata (d : dtype) : bool := match d with DT_NORMAL | DT_WBXML => false | _ => true end.
(* prev: the text the piece will be joined with ends with a CR *)
Definition lf_hack (d : dtype) (prev : bool) (ch : bytes) : bytes :=
  if dt_vobj d then match ch with [10] => if prev then ch else [13; 10] | _ => ch end else ch.

(* where a piece of text goes: into the cache of a binary-flagged element, or into the children *)
Definition store (g : frame) (x : bytes) : frame :=
  if is_binary_frame g then
    match f_kind g with
    | FElt tag attrs content => mk_frame (FElt tag attrs (Some (match content with Some b => b ++ x | None => x end))) (f_rkids g)
    | FCData => g
    end
  else add_text_kid g x.

(* the characters callback in normal form (no error, not skipping, a `current`) *)
Lemma on_characters_normal main sub input c f up d ch :
  c_error c = WBXML_OK -> c_skip_lvl c = 0 -> c_spine c = f :: up -> syncml_data_type (f :: up) = Some d ->
  step main sub input c (EvCharacters ch) =
  if dt_wants_cdata d && negb (is_cdata_frame f) && negb (first_kid_is_cdata f)
  then set_spine c (store (mk_frame FCData []) (lf_hack d (prev_ends_cr (f :: up)) ch) :: f :: up)
  else set_spine c (store f (lf_hack d (prev_ends_cr (f :: up)) ch) :: up).
Proof.
  intros E K S DT. cbn [XmlFront.step]. unfold on_characters. rewrite E, K, S, DT. cbn [negb N.eqb WBXML_OK N.ltb N.compare].
  assert (P : (match d with
               | DT_DIRECTORY_VCARD | DT_VCALENDAR | DT_VCARD | DT_VOBJECT =>
                 (match ch with [10] => if prev_ends_cr (f :: up) then ch else [13; 10] | _ => ch end, true)
               | DT_CLEAR => (ch, true)
               | _ => (ch, false)
               end) = (lf_hack d (prev_ends_cr (f :: up)) ch, dt_wants_cdata d)) by (destruct d; reflexivity).
  rewrite P. rewrite ?S.
  destruct (dt_wants_cdata d && negb (is_cdata_frame f) && negb (first_kid_is_cdata f)).
  - unfold push_frame. rewrite S. cbn [c_spine set_spine]. unfold store. cbn [is_binary_frame f_kind]. unfold add_text. cbn [c_spine set_spine].
    destruct c; reflexivity.
  - rewrite ?S. unfold store. destruct (is_binary_frame f) eqn:B.
    + unfold is_binary_frame in B. destruct (f_kind f) as [tg at0 ct|]; [reflexivity|discriminate].
    + unfold add_text. rewrite S. reflexivity.
Qed.

Lemma add_text_kid_twice g a b : add_text_kid (add_text_kid g a) b = add_text_kid g (a ++ b).
Proof.
  unfold add_text_kid, add_kid. destruct (f_rkids g) as [|[] r]; cbn [f_rkids f_kind]; try reflexivity. now rewrite <- app_assoc.
Qed.

Lemma add_text_kid_binary g a : is_binary_frame (add_text_kid g a) = is_binary_frame g.
Proof. unfold add_text_kid, add_kid, is_binary_frame. destruct (f_rkids g) as [|[] r]; reflexivity. Qed.

Lemma store_twice g a b : store (store g a) b = store g (a ++ b).
Proof.
  unfold store. destruct (is_binary_frame g) eqn:B.
  - destruct (f_kind g) as [tag attrs content|] eqn:K; [|unfold is_binary_frame in B; rewrite K in B; discriminate].
    assert (B' : is_binary_frame (mk_frame (FElt tag attrs (Some match content with Some b0 => b0 ++ a | None => a end)) (f_rkids g)) = true).
    { unfold is_binary_frame in *. rewrite K in B. exact B. }
    rewrite B'. cbn [f_kind f_rkids]. destruct content; [now rewrite <- app_assoc|reflexivity].
  - rewrite add_text_kid_binary, B. apply add_text_kid_twice.
Qed.

Lemma store_tag g x : frame_tag (store g x) = frame_tag g.
Proof.
  unfold store, frame_tag. destruct (is_binary_frame g).
  - destruct (f_kind g) eqn:K; cbn; rewrite ?K; reflexivity.
  - unfold add_text_kid, add_kid. destruct (f_rkids g) as [|[] r]; reflexivity.
Qed.

Lemma store_cdata g x : is_cdata_frame (store g x) = is_cdata_frame g.
Proof.
  unfold store, is_cdata_frame. destruct (is_binary_frame g).
  - destruct (f_kind g) eqn:K; cbn; rewrite ?K; reflexivity.
  - unfold add_text_kid, add_kid. destruct (f_rkids g) as [|[] r]; reflexivity.
Qed.

(* the first child stays the first child when a piece of text arrives, unless the node was empty *)
Lemma store_first_kid g x : first_kid_is_cdata g = true -> first_kid_is_cdata (store g x) = true.
Proof.
  unfold store. destruct (is_binary_frame g).
  - destruct (f_kind g); unfold first_kid_is_cdata, kids_of; cbn [f_rkids]; auto.
  - unfold first_kid_is_cdata, kids_of, add_text_kid, add_kid. rewrite !rev_append_rev, !app_nil_r.
    destruct (f_rkids g) as [|y r] eqn:R; [cbn; discriminate|].
    destruct y; cbn [f_rkids rev]; destruct (rev r); cbn; auto.
Qed.

Lemma store_nil_not_cdata x : first_kid_is_cdata (store (mk_frame FCData []) x) = false.
Proof. reflexivity. Qed.

(* ------------------------------------------------------------------ the last octet *)

Lemma last_app_ne (a b : bytes) d : b <> [] -> last (a ++ b) d = last b d.
Proof.
  intros NB. induction a as [|x r IH]; [reflexivity|]. cbn [app]. destruct (r ++ b) eqn:E.
  - apply app_eq_nil in E. destruct E as [_ E]. contradiction.
  - cbn [last]. exact IH.
Qed.

Lemma ends_cr_app a b : b <> [] -> ends_cr (a ++ b) = ends_cr b.
Proof. intros NB. unfold ends_cr. now rewrite last_app_ne. Qed.

Lemma store_binary g x : is_binary_frame (store g x) = is_binary_frame g.
Proof.
  unfold store. destruct (is_binary_frame g) eqn:B.
  - destruct (f_kind g) as [tg a c|] eqn:K; [|exact B]. unfold is_binary_frame in *. cbn [f_kind]. now rewrite K in B.
  - now rewrite add_text_kid_binary.
Qed.

(* after a piece has been stored, "the text before" is that piece *)
Lemma prev_after_store g x rest : x <> [] -> prev_ends_cr (store g x :: rest) = ends_cr x.
Proof.
  intros NX. unfold prev_ends_cr. rewrite store_binary. unfold store. destruct (is_binary_frame g) eqn:B.
  - destruct (f_kind g) as [tg a c|] eqn:K; [|unfold is_binary_frame in B; rewrite K in B; discriminate].
    cbn [f_kind]. destruct c; [now apply ends_cr_app|reflexivity].
  - unfold add_text_kid, add_kid. destruct (f_rkids g) as [|[] r]; cbn [f_rkids]; try reflexivity. now apply ends_cr_app.
Qed.

Section Split.
  Variable main : list lang.
  Variable sub : bytes -> xtree + N.
  Variable input : bytes.
  Notation step := (step main sub input).
  Notation run := (run main sub input).

  (* the only way the pieces can be told apart: under a vObject data type, a piece that is exactly one LF and does not
     follow a CR gets a CR (the intended hack: "a", LF, "b" is not "a\nb") *)
  Definition lone_lf_hack (c : ctx) (a b : bytes) : Prop :=
    match syncml_data_type (c_spine c) with
    | Some d => dt_vobj d = true /\ ((a = [10] /\ prev_ends_cr (c_spine c) = false) \/ (b = [10] /\ ends_cr a = false))
    | None => False
    end.

  Lemma lf_hack_same d P x : (dt_vobj d = true -> x = [10] -> P = true) -> lf_hack d P x = x.
  Proof.
    intros H. unfold lf_hack. destruct (dt_vobj d); [|reflexivity].
    destruct x as [|y t]; [reflexivity|]. destruct (N.eq_dec y 10) as [->|NY].
    - destruct t; [now rewrite (H eq_refl eq_refl)|reflexivity].
    - destruct y as [|q]; [destruct t; reflexivity|]. repeat (destruct q as [q|q|]; try (destruct t; reflexivity)). now elim NY.
  Qed.

  Theorem text_split_step c a b :
    a <> [] -> b <> [] ->
    (c_error c = WBXML_OK -> c_skip_lvl c = 0 -> c_spine c <> []) ->      (* text before the root element is not Expat's *)
    ~ lone_lf_hack c a b ->
    step (step c (EvCharacters a)) (EvCharacters b) = step c (EvCharacters (a ++ b)).
  Proof.
    intros NA NB NS NH.
    destruct (N.eq_dec (c_error c) WBXML_OK) as [E|E].
    2:{ pose proof (step_failed_unchanged main sub input c (EvCharacters a) E) as U1. cbn in U1. cbn [XmlFront.step]. rewrite U1.
        pose proof (step_failed_unchanged main sub input c (EvCharacters b) E) as U2. cbn in U2. rewrite U2.
        pose proof (step_failed_unchanged main sub input c (EvCharacters (a ++ b)) E) as U3. cbn in U3. now rewrite U3. }
    destruct (N.eq_dec (c_skip_lvl c) 0) as [K|K].
    2:{ assert (KK : (0 <? c_skip_lvl c) = true) by (apply N.ltb_lt; lia).
        cbn [XmlFront.step]. unfold on_characters. rewrite E, KK. cbn [negb N.eqb WBXML_OK]. rewrite E, KK. reflexivity. }
    destruct (c_spine c) as [|f up] eqn:S; [now elim (NS E K)|].
    unfold lone_lf_hack in NH. rewrite S in NH.
    destruct (syncml_data_type (f :: up)) as [d|] eqn:DT.
    2:{ cbn [XmlFront.step]. unfold on_characters. rewrite E, K, S, DT. cbn [negb N.eqb WBXML_OK N.ltb N.compare c_error set_error]. reflexivity. }
    (* the hack leaves the first piece and the whole text alone; the second piece: see below *)
    set (P := prev_ends_cr (f :: up)) in *.
    assert (HA : lf_hack d P a = a).
    { apply lf_hack_same. intros V A. destruct P; [reflexivity|]. exfalso. apply NH. auto. }
    assert (HAB : lf_hack d P (a ++ b) = a ++ b).
    { apply lf_hack_same. intros _ X. exfalso. destruct a as [|x [|y r]]; [now elim NA| |discriminate]. destruct b; [now elim NB|discriminate]. }
    assert (HB : forall g rest, lf_hack d (prev_ends_cr (store g a :: rest)) b = b).
    { intros g rest. apply lf_hack_same. intros V B. rewrite (prev_after_store g a rest NA).
      destruct (ends_cr a) eqn:EA; [reflexivity|]. exfalso. apply NH. auto. }
    rewrite (on_characters_normal main sub input c f up d a E K S DT), (on_characters_normal main sub input c f up d (a ++ b) E K S DT).
    fold P. rewrite HA, HAB.
    assert (FT : frame_tag f <> None \/ is_cdata_frame f = true).
    { unfold frame_tag, is_cdata_frame. destruct (f_kind f); [left; discriminate|right; reflexivity]. }
    destruct (dt_wants_cdata d && negb (is_cdata_frame f) && negb (first_kid_is_cdata f)) eqn:PU.
    - (* a CDATA node was added; the second piece finds it *)
      apply andb_true_iff in PU. destruct PU as [PU _]. apply andb_true_iff in PU. destruct PU as [_ NC]. apply negb_true_iff in NC.
      destruct FT as [FT|FT]; [|rewrite FT in NC; discriminate].
      set (g := store (mk_frame FCData []) a).
      assert (DT' : syncml_data_type (g :: f :: up) = Some d).
      { rewrite (dt_through_cdata g f f up); [exact DT| |reflexivity|exact FT]. subst g. now rewrite store_cdata. }
      rewrite (on_characters_normal main sub input (set_spine c (g :: f :: up)) g (f :: up) d b E K eq_refl DT').
      subst g. rewrite HB. set (g := store (mk_frame FCData []) a).
      assert (CG : is_cdata_frame g = true) by (subst g; now rewrite store_cdata).
      rewrite CG. cbn [negb andb]. rewrite andb_false_r. cbn [set_spine]. subst g. now rewrite store_twice.
    - set (g := store f a).
      assert (DT' : syncml_data_type (g :: up) = Some d).
      { destruct FT as [FT|FT].
        - rewrite <- DT. apply dt_same_tag; [subst g; apply store_tag|subst g; now rewrite store_tag].
        - (* f is a CDATA node: the decision is its parent's *)
          destruct up as [|p up'].
          + unfold syncml_data_type in DT. rewrite FT in DT. discriminate.
          + assert (CG : is_cdata_frame g = true) by (subst g; now rewrite store_cdata).
            destruct (f_kind p) as [tp ap cp|] eqn:KP.
            * assert (PT : frame_tag p <> None) by (unfold frame_tag; rewrite KP; discriminate).
              rewrite (dt_through_cdata g p p up' CG eq_refl PT). rewrite <- DT. symmetry. now apply (dt_through_cdata f p p up').
            * (* a CDATA node below a CDATA node: NORMAL on both sides *)
              rewrite <- DT. unfold syncml_data_type. rewrite CG, FT. cbv beta iota. now rewrite KP. }
      rewrite (on_characters_normal main sub input (set_spine c (g :: up)) g up d b E K eq_refl DT').
      subst g. rewrite HB. set (g := store f a).
      assert (PU' : (dt_wants_cdata d && negb (is_cdata_frame g) && negb (first_kid_is_cdata g)) = false).
      { subst g. rewrite store_cdata. destruct (dt_wants_cdata d); [|reflexivity]. destruct (is_cdata_frame f); [reflexivity|].
        cbn [andb negb] in PU |- *. apply negb_false_iff in PU. now rewrite (store_first_kid f a PU). }
      rewrite PU'. cbn [set_spine]. subst g. now rewrite store_twice.
  Qed.

  (* any number of pieces.  A piece that is exactly one LF is an exception unless the piece before it (for the first
     piece: the text already there) ends with a CR.  The condition looks at the context BEFORE the first piece only: the
     proof joins the first two pieces and starts again from the same context. *)
  Definition in_element (c : ctx) : Prop := c_error c = WBXML_OK -> c_skip_lvl c = 0 -> c_spine c <> [].
  Fixpoint lf_after_cr (prev : bool) (pieces : list bytes) : Prop :=
    match pieces with
    | [] => True
    | p :: r => (p = [10] -> prev = true) /\ lf_after_cr (ends_cr p) r
    end.
  Definition no_lone_lf (c : ctx) (pieces : list bytes) : Prop :=
    match pieces with
    | [_] => True
    | _ => match syncml_data_type (c_spine c) with
           | Some d => dt_vobj d = true -> lf_after_cr (prev_ends_cr (c_spine c)) pieces
           | None => True
           end
    end.

  Theorem text_split_run c p pieces :
    Forall (fun p => p <> []) (p :: pieces) -> in_element c -> no_lone_lf c (p :: pieces) ->
    run c (map EvCharacters (p :: pieces)) = step c (EvCharacters (concat (p :: pieces))).
  Proof.
    revert p. induction pieces as [|q r IH]; intros p NE IN NL.
    - cbn [map concat]. now rewrite app_nil_r.
    - cbn [map]. rewrite !run_cons.
      inversion NE as [|? ? NP NE1]; subst. inversion NE1 as [|? ? NQ NE2]; subst.
      assert (NH : ~ lone_lf_hack c p q).
      { unfold lone_lf_hack. unfold no_lone_lf in NL. destruct (syncml_data_type (c_spine c)) as [d|]; [|tauto].
        intros (V & W). specialize (NL V). cbn [lf_after_cr] in NL. destruct NL as (P1 & Q1 & _).
        destruct W as [(A & B)|(A & B)]; [rewrite (P1 A) in B|rewrite (Q1 A) in B]; discriminate. }
      rewrite (text_split_step c p q NP NQ IN NH).
      change (run (step c (EvCharacters (p ++ q))) (map EvCharacters r)) with (run c (map EvCharacters ((p ++ q) :: r))).
      rewrite (IH (p ++ q)).
      + cbn [concat]. now rewrite app_assoc.
      + constructor; [|exact NE2]. destruct p; [now elim NP|discriminate].
      + exact IN.
      + unfold no_lone_lf in *. destruct r as [|r1 r2]; [exact I|].
        destruct (syncml_data_type (c_spine c)) as [d|]; [|exact I]. intros V. specialize (NL V).
        cbn [lf_after_cr] in NL |- *. destruct NL as (_ & _ & NL). rewrite (ends_cr_app p q NQ). split; [|exact NL].
        intros X. exfalso. destruct p as [|x [|y t]]; [now elim NP| |discriminate]. destruct q; [now elim NQ|discriminate].
  Qed.

  (* the function: a text delivered in pieces anywhere in the event list *)
  Theorem text_split_invariant pre p pieces post expat_ok :
    Forall (fun p => p <> []) (p :: pieces) ->
    in_element (run init_ctx pre) -> no_lone_lf (run init_ctx pre) (p :: pieces) ->
    tree_from_xml main sub input (pre ++ map EvCharacters (p :: pieces) ++ post) expat_ok =
    tree_from_xml main sub input (pre ++ EvCharacters (concat (p :: pieces)) :: post) expat_ok.
  Proof.
    intros NE IN NL. unfold tree_from_xml.
    rewrite !run_app. rewrite (text_split_run _ p pieces NE IN NL). reflexivity.
  Qed.

  (* the repair: a lone LF piece after a text that ends with a CR is left alone — the two pieces are the one text
     "...CR LF", which the hack does not touch *)
  Theorem lone_lf_after_cr c a :
    ends_cr a = true -> in_element c ->
    step (step c (EvCharacters a)) (EvCharacters [10]) = step c (EvCharacters (a ++ [10])).
  Proof.
    intros EA IN. assert (NA : a <> []) by (intros ->; discriminate).
    apply (text_split_step c a [10] NA); [discriminate|exact IN|].
    unfold lone_lf_hack. destruct (syncml_data_type (c_spine c)); [|tauto]. intros (_ & [(A & _)|(_ & B)]).
    - subst a. discriminate.
    - rewrite EA in B. discriminate.
  Qed.

  (* and that text is stored as it is: exactly CR LF, no second CR *)
  Theorem lone_lf_after_cr_stored c f up d a :
    c_error c = WBXML_OK -> c_skip_lvl c = 0 -> c_spine c = f :: up -> syncml_data_type (f :: up) = Some d -> ends_cr a = true ->
    step (step c (EvCharacters a)) (EvCharacters [10]) =
    if dt_wants_cdata d && negb (is_cdata_frame f) && negb (first_kid_is_cdata f)
    then set_spine c (store (mk_frame FCData []) (a ++ [10]) :: f :: up)
    else set_spine c (store f (a ++ [10]) :: up).
  Proof.
    intros E K S DT EA. rewrite (lone_lf_after_cr c a EA) by (intros _ _; rewrite S; discriminate).
    rewrite (on_characters_normal main sub input c f up d (a ++ [10]) E K S DT).
    assert (H : lf_hack d (prev_ends_cr (f :: up)) (a ++ [10]) = a ++ [10]).
    { apply lf_hack_same. intros _ X. destruct a as [|x [|y r]]; discriminate. }
    now rewrite H.
  Qed.
End Split.

Local Open Scope string_scope.
(* "\n" delivered as one piece of a vCard text becomes CR LF; as part of a larger piece it does not *)
Definition lf_pre : list event :=
  [EvStartElement (bs "SyncML") [] 0; EvStartElement (bs "Add") [] 0; EvStartElement (bs "Meta") [] 0;
   EvStartElement (bs "Type") [] 0; EvCharacters (bs "text/x-vcard"); EvEndElement (bs "Type") 0; EvEndElement (bs "Meta") 0;
   EvStartElement (bs "Item") [] 0; EvStartElement (bs "Data") [] 0].
Definition lf_post : list event :=
  [EvEndElement (bs "Data") 0; EvEndElement (bs "Item") 0; EvEndElement (bs "Add") 0; EvEndElement (bs "SyncML") 0].
Example lone_lf_differs :
  tree_from_xml main_table (fun _ => inr 104) [60] (lf_pre ++ [EvCharacters [65]; EvCharacters [10]] ++ lf_post) true <>
  tree_from_xml main_table (fun _ => inr 104) [60] (lf_pre ++ [EvCharacters [65; 10]] ++ lf_post) true.
Proof. vm_compute. discriminate. Qed.
Example lone_lf_differs_is_ok :
  exists t, tree_from_xml main_table (fun _ => inr 104) [60] (lf_pre ++ [EvCharacters [65]; EvCharacters [10]] ++ lf_post) true = inl t.
Proof. eexists. vm_compute. reflexivity. Qed.

(* the defect and its repair on a vCard: "BEGIN:VCARD&#13;&#10;" comes from Expat as three pieces *)
Definition cr_lf_pieces : list event := [EvCharacters (bs "BEGIN:VCARD"); EvCharacters [13]; EvCharacters [10]].
Example lone_lf_fixed_vcard :
  tree_from_xml main_table (fun _ => inr 104) [60] ((lf_pre ++ cr_lf_pieces ++ lf_post)%list) true =
  tree_from_xml main_table (fun _ => inr 104) [60] (lf_pre ++ [EvCharacters ((bs "BEGIN:VCARD" ++ [13; 10])%list)] ++ lf_post) true.
Proof. vm_compute. reflexivity. Qed.
(* before the fix (Model/XmlFrontLfOld.v): a second CR *)
Example lone_lf_old_witness :
  tree_from_xml_old main_table (fun _ => inr 104) [60] ((lf_pre ++ cr_lf_pieces ++ lf_post)%list) true =
  tree_from_xml main_table (fun _ => inr 104) [60] (lf_pre ++ [EvCharacters ((bs "BEGIN:VCARD" ++ [13; 13; 10])%list)] ++ lf_post) true.
Proof. vm_compute. reflexivity. Qed.
(* CR LF in one event: the hack never touched it *)
Example cr_lf_one_event_untouched :
  tree_from_xml_old main_table (fun _ => inr 104) [60] (lf_pre ++ [EvCharacters ((bs "BEGIN:VCARD" ++ [13; 10])%list)] ++ lf_post) true =
  tree_from_xml main_table (fun _ => inr 104) [60] (lf_pre ++ [EvCharacters ((bs "BEGIN:VCARD" ++ [13; 10])%list)] ++ lf_post) true.
Proof. vm_compute. reflexivity. Qed.
