(* C02 (front end) — the clauses of evs_canon that are about the SHAPE of the event list (2: text or CDATA outside any
   element, 8: XML declaration / DOCTYPE after the root element started, 10: an end tag with another name closing a skipped
   embedded document, 12: an end tag leaving the root element from inside a CDATA section) never fire on a list of the shape
   Expat delivers (prolog, root element with balanced content, processing instructions). *)
From Coq Require Import List NArith Lia Bool.
From Wbxml Require Import Model.TablesDefs Model.Tables Model.Codec Model.LangSelect Model.EncWbxml Model.XmlFront
     Model.XmlFrontEvents Model.XmlFrontCanonEvents.
From Wbxml Require Import Proofs.XmlFrontProofs Proofs.XmlFrontBalance.
Import ListNotations.
Local Open Scope N_scope.

Definition quiet (k : N) : Prop := k <> 2 /\ k <> 8 /\ k <> 10 /\ k <> 12.

Lemma quiet_0 : quiet 0.  Proof. repeat split; discriminate. Qed.

Section Shape.
  Variable main : list lang.
  Variable sub : bytes -> xtree + N.
  Variable input : bytes.
  Variable emb : N -> list node -> bool.
  Hypothesis sub_inr_nonzero : forall d, sub d <> inr WBXML_OK.
  Notation step := (step main sub input).
  Notation run := (run main sub input).
  Notation step_clause := (step_clause main sub input emb).
  Notation run_clause := (run_clause main sub input emb).

  Lemma run_clause_cons c e r :
    run_clause c (e :: r) = if step_clause c e =? 0 then run_clause (step c e) r else step_clause c e.
  Proof. reflexivity. Qed.

  Lemma run_clause_app c a : forall b,
    run_clause c (a ++ b) = if run_clause c a =? 0 then run_clause (run c a) b else run_clause c a.
  Proof.
    revert c. induction a as [|e r IH]; intros c b; [reflexivity|].
    cbn [app]. rewrite !run_clause_cons, run_cons. destruct (step_clause c e =? 0) eqn:Z; [apply IH|]. now rewrite Z.
  Qed.

  Lemma step_clause_failed c e : failed c -> step_clause c e = 0.
  Proof. intros F. unfold XmlFrontCanonEvents.step_clause. now rewrite (failed_eqb c F). Qed.

  Lemma run_clause_failed evs : forall c, failed c -> run_clause c evs = 0.
  Proof.
    induction evs as [|e r IH]; intros c F; [reflexivity|]. rewrite run_clause_cons, (step_clause_failed c e F). cbn.
    apply IH. now apply error_never_cleared_step.
  Qed.

  Definition Q (c : ctx) (evs : list event) : Prop := quiet (run_clause c evs).

  Lemma Q_failed c evs : failed c -> Q c evs.
  Proof. intros F. unfold Q. rewrite (run_clause_failed evs c F). exact quiet_0. Qed.

  Lemma Q_cons c e r : quiet (step_clause c e) -> (step_clause c e = 0 -> Q (step c e) r) -> Q c (e :: r).
  Proof.
    intros A B. unfold Q. rewrite run_clause_cons. destruct (step_clause c e =? 0) eqn:Z; [apply N.eqb_eq in Z; now apply B|exact A].
  Qed.

  Lemma Q_app c a b : Q c a -> (run_clause c a = 0 -> Q (run c a) b) -> Q c (a ++ b).
  Proof.
    intros A B. unfold Q. rewrite run_clause_app. destruct (run_clause c a =? 0) eqn:Z; [apply N.eqb_eq in Z; now apply B|exact A].
  Qed.

  (* what a state inside the root element looks like, as far as the shape clauses care *)
  Definition inside (c : ctx) : Prop := failed c \/ c_spine c <> [].

  Lemma post_inside lvl f up c : post lvl f up c -> inside c.
  Proof.
    intros [X|(_ & f' & _ & [S|(_ & _ & _ & k & S)])]; [now left| |]; right; rewrite S; discriminate.
  Qed.

  Lemma Q_inside c evs : (forall f up, c_spine c = f :: up -> Q c evs) -> inside c -> Q c evs.
  Proof.
    intros H [F|S]; [now apply Q_failed|]. destruct (c_spine c) as [|f up] eqn:E; [now elim S|]. now apply (H f up).
  Qed.

  (* ---------------------------------------------------------------- single events *)

  Lemma chars_clause_quiet c f up ch : c_spine c = f :: up -> quiet (step_clause c (EvCharacters ch)).
  Proof.
    intros S. unfold XmlFrontCanonEvents.step_clause. destruct (_ || _); [exact quiet_0|].
    destruct (0 <? c_skip_lvl c); [exact quiet_0|]. destruct ch; [repeat split; discriminate|]. rewrite S. exact quiet_0.
  Qed.

  Lemma start_cdata_clause_quiet c f up : c_spine c = f :: up -> quiet (step_clause c EvStartCdata).
  Proof.
    intros S. unfold XmlFrontCanonEvents.step_clause. destruct (_ || _); [exact quiet_0|].
    destruct (0 <? c_skip_lvl c); [exact quiet_0|]. rewrite S. destruct (is_binary_frame f); [repeat split; discriminate|exact quiet_0].
  Qed.

  Lemma elt_clause_quiet l up k : quiet (elt_clause l up k).
  Proof.
    unfold elt_clause. destruct k; [|exact quiet_0].
    repeat match goal with |- quiet (if ?b then _ else _) => destruct b end; try exact quiet_0; repeat split; discriminate.
  Qed.

  Lemma head_clause_quiet c : quiet (head_clause c).
  Proof. unfold head_clause. destruct (c_spine c); [exact quiet_0|]. destruct (c_lang c); [apply elt_clause_quiet|exact quiet_0]. Qed.

  Lemma start_clause_quiet c n a i : quiet (step_clause c (EvStartElement n a i)).
  Proof.
    unfold XmlFrontCanonEvents.step_clause. destruct (_ || _); [exact quiet_0|].
    destruct (0 <? c_skip_lvl c); [exact quiet_0|]. destruct (c_spine c) as [|f up]; [apply head_clause_quiet|].
    destruct (is_embedded_name n); [|apply head_clause_quiet].
    destruct (_ || _); [repeat split; discriminate|exact quiet_0].
  Qed.

  Lemma eqb_ok c : c_error c = WBXML_OK -> (c_error c =? WBXML_OK) = true.
  Proof. intros ->. reflexivity. Qed.

  (* a start tag inside the root element *)
  Lemma start_shape c f up n a i :
    c_spine c = f :: up -> c_error c = WBXML_OK -> c_error (step c (EvStartElement n a i)) = WBXML_OK ->
    let c1 := step c (EvStartElement n a i) in
    (0 < c_skip_lvl c /\ c_spine c1 = f :: up /\ c_skip_lvl c1 = u32 (c_skip_lvl c + 1)) \/
    (c_skip_lvl c = 0 /\ is_embedded_name n = true /\ c_spine c1 = f :: up /\ c_skip_lvl c1 = 1) \/
    (c_skip_lvl c = 0 /\ is_embedded_name n = false /\
     exists f' new, c_spine c1 = new :: f' :: up /\ is_cdata_frame new = false /\ c_skip_lvl c1 = 0 /\
                    exists l, c_lang c1 = Some l /\ c_lang c = Some l /\ f_kind new = FElt (fst (resolve_tag l n)) (map (resolve_attr l) a) None).
  Proof.
    intros S E E'. cbv zeta. cbn [XmlFront.step] in *. unfold on_start_element in *. rewrite (eqb_ok _ E) in *. cbn [negb] in *.
    destruct (0 <? c_skip_lvl c) eqn:K.
    { left. apply N.ltb_lt in K. cbn. auto. }
    apply N.ltb_ge in K. assert (K0 : c_skip_lvl c = 0) by lia. right.
    rewrite S in *. rewrite ?(eqb_ok _ E) in *. cbn [negb] in *. rewrite ?S in *. cbn [negb andb] in *. rewrite andb_true_r in *.
    destruct (is_embedded_name n) eqn:EN.
    - left. cbn. rewrite K0. auto.
    - right. split; [exact K0|]. split; [reflexivity|].
      destruct (flush_binary_fields c) as (FL & _ & _ & FR & FK & _ & _).
      pose proof (flush_binary_spine c) as FS. rewrite S in FS. destruct FS as (f' & S2 & _).
      set (c2 := flush_binary c) in *.
      destruct (N.eq_dec (c_error c2) WBXML_OK) as [E2|E2].
      2:{ exfalso. unfold start_child in E'. rewrite (failed_eqb c2 E2) in E'. contradiction. }
      unfold start_child in *. rewrite (eqb_ok _ E2), S2 in *. cbn [negb] in *.
      destruct (WBXML_MAX_NESTING_DEPTH <=? N.of_nat (List.length (f' :: up))); [cbn in E'; discriminate|].
      destruct (c_lang c2) as [l|] eqn:L2; [|cbn in E'; discriminate].
      destruct (resolve_tag l n) as [tag page] eqn:RT.
      unfold push_frame in *. cbn [c_spine c_root set_page] in *. rewrite S2 in *.
      eexists. eexists. cbn [c_spine c_skip_lvl c_lang set_spine set_page]. split; [reflexivity|]. split; [reflexivity|]. split; [now rewrite FK|].
      exists l. split; [exact L2|]. split; [now rewrite <- FL|cbn [f_kind]; now rewrite RT].
  Qed.

  Lemma pi_clause c t d : step_clause c (EvPi t d) = 0.
  Proof. unfold XmlFrontCanonEvents.step_clause. destruct (_ || _); reflexivity. Qed.

  Lemma end_cdata_clause c : step_clause c EvEndCdata = 0.
  Proof. unfold XmlFrontCanonEvents.step_clause. destruct (_ || _); reflexivity. Qed.

  Lemma Q_nil c : Q c [].
  Proof. exact quiet_0. Qed.

  (* an end tag: what must hold before it *)
  Definition end_ok (c : ctx) (n : bytes) : Prop :=
    (c_skip_lvl c = 1 -> is_embedded_name n = true) /\
    (c_skip_lvl c = 0 -> match c_spine c with [g; _] => is_cdata_frame g = false | _ => True end).

  Lemma end_clause_quiet c n i : failed c \/ end_ok c n -> quiet (step_clause c (EvEndElement n i)).
  Proof.
    intros [F|(A & B)]; [rewrite (step_clause_failed c _ F); exact quiet_0|].
    unfold XmlFrontCanonEvents.step_clause. destruct (_ || _); [exact quiet_0|].
    destruct (0 <? c_skip_lvl c) eqn:K.
    - destruct (c_skip_lvl c =? 1) eqn:K1; [|exact quiet_0]. apply N.eqb_eq in K1. rewrite (A K1).
      destruct (c_spine (step c (EvEndElement n i))) as [|g r]; [exact quiet_0|].
      destruct (f_rkids g) as [|[| | | |lid roots] r']; try exact quiet_0.
      destruct (emb lid roots); [exact quiet_0|repeat split; discriminate].
    - apply N.ltb_ge in K. assert (K0 : c_skip_lvl c = 0) by lia. specialize (B K0).
      destruct (c_spine c) as [|g [|p [|q r]]]; try exact quiet_0. rewrite B. exact quiet_0.
  Qed.

  Lemma chars_quiet chs : Forall is_chars chs -> forall c, inside c -> Q c chs.
  Proof.
    induction 1 as [|e r He F IH]; intros c I; [apply Q_nil|]. destruct e; try contradiction.
    apply Q_inside; [|exact I]. intros f up S. apply Q_cons; [now apply (chars_clause_quiet c f up)|]. intros _.
    apply IH. exact (post_inside _ _ _ _ (chars_step main sub input c f up ch S)).
  Qed.

  Definition LIM : N := 4294967296.

  Theorem balanced_quiet evs : balanced evs ->
    forall c f up, c_spine c = f :: up -> N.of_nat (List.length evs) + c_skip_lvl c < LIM -> Q c evs.
  Proof.
    unfold LIM.
    induction 1 as [|ch r Hr IHr|t d r Hr IHr|chs r Hc Hr IHr|n a i i' body r Hb IHb Hr IHr]; intros c f up S B.
    - apply Q_nil.
    - (* characters *)
      cbn [List.length] in B. apply Q_cons; [now apply (chars_clause_quiet c f up)|]. intros _.
      destruct (chars_step main sub input c f up ch S) as [X|(K & f' & _ & [S'|(_ & _ & _ & k & S')])].
      + now apply Q_failed.
      + apply (IHr _ _ _ S'). rewrite K. lia.
      + apply (IHr _ _ _ S'). rewrite K. lia.
    - (* processing instruction *)
      cbn [List.length] in B. apply Q_cons; [rewrite pi_clause; exact quiet_0|]. intros _. apply (IHr c f up S). cbn [XmlFront.step]. unfold on_pi. lia.
    - (* CDATA section *)
      assert (LEN : N.of_nat (List.length r) + c_skip_lvl c < 4294967296).
      { cbn [List.length] in B. rewrite app_length in B. cbn [List.length] in B. lia. }
      replace (EvStartCdata :: chs ++ EvEndCdata :: r) with ((EvStartCdata :: chs ++ [EvEndCdata]) ++ r)
        by (cbn [app]; rewrite <- app_assoc; reflexivity).
      apply Q_app.
      + apply Q_cons; [now apply (start_cdata_clause_quiet c f up)|]. intros _.
        assert (I1 : inside (step c EvStartCdata)).
        { cbn [XmlFront.step]. unfold on_start_cdata. destruct (negb (c_error c =? WBXML_OK)) eqn:E.
          - left. unfold failed. intros X. rewrite X in E. discriminate.
          - destruct (0 <? c_skip_lvl c); [right; rewrite S; discriminate|]. unfold push_frame. rewrite S. right. cbn. discriminate. }
        apply Q_app; [now apply chars_quiet|]. intros _. apply Q_cons; [rewrite end_cdata_clause; exact quiet_0|]. intros _. apply Q_nil.
      + intros _.
        pose proof (balanced_cont main sub input sub_inr_nonzero _ (B_cdata chs [] Hc B_nil) c f up S) as P.
        assert (LEN' : N.of_nat (List.length (EvStartCdata :: chs ++ [EvEndCdata])) + c_skip_lvl c < 4294967296).
        { cbn [List.length] in *. rewrite app_length in *. cbn [List.length] in *. lia. }
        specialize (P LEN'). destruct P as [X|(K & f' & _ & [S'|(_ & _ & _ & k & S')])].
        * now apply Q_failed.
        * apply (IHr _ _ _ S'). rewrite K. exact LEN.
        * apply (IHr _ _ _ S'). rewrite K. exact LEN.
    - (* element *)
      assert (LEN : N.of_nat (List.length r) + c_skip_lvl c < 4294967296 /\ N.of_nat (List.length body) + (c_skip_lvl c + 1) < 4294967296).
      { cbn [List.length] in B. rewrite app_length in B. cbn [List.length] in B. lia. }
      destruct LEN as [LENr LENb].
      replace (EvStartElement n a i :: body ++ EvEndElement n i' :: r) with ((EvStartElement n a i :: body ++ [EvEndElement n i']) ++ r)
        by (cbn [app]; rewrite <- app_assoc; reflexivity).
      apply Q_app.
      + apply Q_cons; [apply start_clause_quiet|]. intros _.
        set (c1 := step c (EvStartElement n a i)).
        destruct (N.eq_dec (c_error c1) WBXML_OK) as [E1|E1]; [|now apply Q_failed].
        destruct (N.eq_dec (c_error c) WBXML_OK) as [E|E]; [|elim (error_never_cleared_step main sub input c (EvStartElement n a i) E); exact E1].
        assert (SH := start_shape c f up n a i S E E1). cbv zeta in SH. fold c1 in SH.
        assert (ENDQ : forall c2, failed c2 \/ end_ok c2 n -> Q c2 [EvEndElement n i']).
        { intros c2 H. apply Q_cons; [now apply end_clause_quiet|]. intros _. apply Q_nil. }
        destruct SH as [(K & S1 & K1)|[(K & EN & S1 & K1)|(K & EN & f' & new & S1 & NC & K1 & _)]].
        * assert (K1' : c_skip_lvl c1 = c_skip_lvl c + 1) by (rewrite K1; unfold u32; apply N.mod_small; lia).
          apply Q_app; [apply (IHb c1 f up S1); rewrite K1'; exact LENb|]. intros _. apply ENDQ.
          pose proof (balanced_cont main sub input sub_inr_nonzero _ Hb c1 f up S1) as P. rewrite K1' in P. specialize (P LENb).
          destruct P as [X|(K2 & _)]; [now left|]. right. split; intros X; lia.
        * apply Q_app; [apply (IHb c1 f up S1); rewrite K1; lia|]. intros _. apply ENDQ.
          pose proof (balanced_cont main sub input sub_inr_nonzero _ Hb c1 f up S1) as P. rewrite K1 in P.
          assert (L1 : N.of_nat (List.length body) + 1 < 4294967296) by lia. specialize (P L1).
          destruct P as [X|(K2 & _)]; [now left|]. right. split; intros X; [exact EN|lia].
        * apply Q_app; [apply (IHb c1 new (f' :: up) S1); rewrite K1; lia|]. intros _. apply ENDQ.
          pose proof (balanced_cont main sub input sub_inr_nonzero _ Hb c1 new (f' :: up) S1) as P. rewrite K1 in P.
          assert (L1 : N.of_nat (List.length body) + 0 < 4294967296) by lia. specialize (P L1).
          destruct P as [X|(K2 & new' & SK & [S2|(_ & _ & _ & k & S2)])]; [now left| |]; right; (split; intros X; [lia|]); rewrite S2.
          -- destruct up; [|exact I]. now rewrite (same_kind_cdata _ _ SK).
          -- exact I.
      + intros _.
        pose proof (balanced_cont main sub input sub_inr_nonzero _ (B_elt n a i i' body [] Hb B_nil) c f up S) as P.
        assert (LEN' : N.of_nat (List.length (EvStartElement n a i :: body ++ [EvEndElement n i'])) + c_skip_lvl c < 4294967296).
        { cbn [List.length] in *. rewrite app_length in *. cbn [List.length] in *. lia. }
        specialize (P LEN'). destruct P as [X|(K & f' & _ & [S'|(_ & _ & _ & k & S')])].
        * now apply Q_failed.
        * apply (IHr _ _ _ S'). rewrite K. exact LENr.
        * apply (IHr _ _ _ S'). rewrite K. exact LENr.
  Qed.

  (* ---------------------------------------------------------------- a whole document *)

  Lemma prolog_quiet evs : Forall prolog_any evs -> forall c, c_spine c = [] -> run_clause c evs = 0.
  Proof.
    induction 1 as [|e r He F IH]; intros c S; [reflexivity|]. rewrite run_clause_cons.
    assert (Z : step_clause c e = 0).
    { unfold XmlFrontCanonEvents.step_clause. destruct (_ || _); [reflexivity|]. destruct e; try contradiction; try reflexivity; now rewrite S. }
    rewrite Z. cbn. apply IH.
    destruct (prolog_any_run main sub input c [e] (Forall_cons _ He (Forall_nil _))) as (S' & _). cbn in S'. now rewrite S'.
  Qed.

  Lemma pis_quiet evs : Forall is_pi evs -> forall c, run_clause c evs = 0.
  Proof.
    induction 1 as [|e r He F IH]; intros c; [reflexivity|]. destruct e; try contradiction.
    rewrite run_clause_cons, pi_clause. cbn. apply IH.
  Qed.

  (* the start tag of the root element *)
  Lemma start_root_shape c n a i :
    c_spine c = [] -> c_skip_lvl c = 0 -> c_error (step c (EvStartElement n a i)) = WBXML_OK ->
    exists new, c_spine (step c (EvStartElement n a i)) = [new] /\ is_cdata_frame new = false /\ c_skip_lvl (step c (EvStartElement n a i)) = 0 /\
                exists l, c_lang (step c (EvStartElement n a i)) = Some l /\ f_kind new = FElt (fst (resolve_tag l n)) (map (resolve_attr l) a) None.
  Proof.
    intros S K E'.
    destruct (N.eq_dec (c_error c) WBXML_OK) as [E|E]; [|now elim (error_never_cleared_step main sub input c (EvStartElement n a i) E)].
    cbn [XmlFront.step] in *. unfold on_start_element in *. rewrite (eqb_ok _ E), K, S in *. cbn [negb N.ltb N.compare] in *.
    set (c1 := match c_lang c with
               | Some _ => c
               | None => match search_table main None None (Some (str n)) with
                         | Some l => set_lang c (Some l)
                         | None => set_error c E_UNKNOWN_XML_LANGUAGE
                         end
               end) in *.
    assert (H1 : failed c1 \/ (c_error c1 = WBXML_OK /\ c_spine c1 = [] /\ c_skip_lvl c1 = 0 /\ exists l, c_lang c1 = Some l)).
    { subst c1. destruct (c_lang c) as [l|] eqn:L; [right; rewrite L; repeat split; eauto|].
      destruct (search_table main None None (Some (str n))) as [l|]; [right; cbn; repeat split; eauto|left; unfold failed; cbn; discriminate]. }
    destruct H1 as [X|(E1 & S1 & K1 & l & L1)].
    { exfalso. rewrite (failed_eqb _ X) in E'. contradiction. }
    rewrite (eqb_ok _ E1), S1 in *. rewrite andb_false_r in *. cbn [negb] in *.
    assert (FN : flush_binary c1 = c1) by (unfold flush_binary; now rewrite S1).
    rewrite FN in *. unfold start_child in *. rewrite (eqb_ok _ E1), S1, L1 in *. cbn [List.length N.of_nat negb] in *.
    change (WBXML_MAX_NESTING_DEPTH <=? 0) with false in *. cbv iota in *.
    destruct (resolve_tag l n) as [tag page] eqn:RT.
    unfold push_frame in *. cbn [c_spine c_root set_page] in *. rewrite S1 in *.
    destruct (c_root c1); [cbn in E'; discriminate|].
    eexists. cbn [c_spine c_skip_lvl c_lang set_spine set_page]. split; [reflexivity|]. split; [reflexivity|]. split; [exact K1|].
    exists l. split; [exact L1|cbn [f_kind]; now rewrite RT].
  Qed.

  (* no shape clause fires on a list of the shape Expat delivers *)
  Theorem shape_clauses_silent prolog root attrs i i' body epilog :
    Forall prolog_any prolog -> balanced body -> Forall is_pi epilog -> N.of_nat (List.length body) + 1 < LIM ->
    quiet (evs_clause main sub input emb (prolog ++ EvStartElement root attrs i :: body ++ EvEndElement root i' :: epilog)).
  Proof.
    unfold LIM. intros FP HB FE LEN. unfold evs_clause. change (quiet (run_clause init_ctx ?e)) with (Q init_ctx e).
    apply Q_app; [unfold Q; rewrite (prolog_quiet prolog FP init_ctx eq_refl); exact quiet_0|]. intros _.
    destruct (prolog_any_run main sub input init_ctx prolog FP) as (S0 & R0 & E0 & K0). cbn in S0, R0, E0, K0.
    set (c0 := run init_ctx prolog) in *.
    replace (EvStartElement root attrs i :: body ++ EvEndElement root i' :: epilog)
      with ((EvStartElement root attrs i :: body ++ [EvEndElement root i']) ++ epilog) by (cbn [app]; rewrite <- app_assoc; reflexivity).
    apply Q_app; [|intros _; unfold Q; rewrite (pis_quiet epilog FE); exact quiet_0].
    apply Q_cons; [apply start_clause_quiet|]. intros _.
    set (c1 := step c0 (EvStartElement root attrs i)).
    destruct (N.eq_dec (c_error c1) WBXML_OK) as [E1|E1]; [|now apply Q_failed].
    destruct (start_root_shape c0 root attrs i S0 K0 E1) as (new & S1 & NC & K1 & _). fold c1 in S1, K1.
    apply Q_app; [apply (balanced_quiet body HB c1 new [] S1); unfold LIM; rewrite K1; lia|]. intros _.
    apply Q_cons; [|intros _; apply Q_nil]. apply end_clause_quiet.
    pose proof (balanced_cont main sub input sub_inr_nonzero _ HB c1 new [] S1) as P. rewrite K1 in P.
    assert (L1 : N.of_nat (List.length body) + 0 < 4294967296) by lia. specialize (P L1).
    destruct P as [X|(K2 & new' & SK & [S2|(_ & _ & UP & _)])]; [now left| |now elim UP].
    right. split; intros X; [lia|]. now rewrite S2.
  Qed.
End Shape.

(* ------------------------------------------------------------------ the clauses that matter on the project's tables *)

From Wbxml Require Import Proofs.XmlFrontImage Gen.TablesData.

Definition ev_octets (e : event) : Prop :=
  match e with
  | EvStartElement _ a _ => Forall (fun nv => Forall (fun c => c < 256) (fst nv)) a
  | _ => True
  end.

(* 5 (tag not found again) and 7 (attributes not found again) excluded *)
Definition no57 (k : N) : Prop := In k [0; 1; 2; 3; 4; 6; 8; 9; 10; 11; 12].

Section MainTable.
  Variable sub : bytes -> xtree + N.
  Variable input : bytes.
  Variable emb : N -> list node -> bool.
  Notation step := (step main_table sub input).
  Notation run := (run main_table sub input).
  Notation step_clause := (step_clause main_table sub input emb).
  Notation run_clause := (run_clause main_table sub input emb).

  Lemma elt_clause_no57 l up n a :
    In l main_table -> Forall (fun nv => Forall (fun c => c < 256) (fst nv)) a ->
    no57 (elt_clause l up (FElt (fst (resolve_tag l n)) (map (resolve_attr l) a) None)).
  Proof.
    intros IL OA. unfold elt_clause. rewrite (main_table_tag_clause_silent l n IL), (attrs_canon_octets l a OA). cbn [negb].
    unfold no57. repeat match goal with |- In (if ?b then _ else _) _ => destruct b end; cbn; tauto.
  Qed.

  Lemma step_clause_no57 c e : lang_in main_table c -> ev_octets e -> no57 (step_clause c e).
  Proof.
    intros LI OC. unfold XmlFrontCanonEvents.step_clause.
    destruct (negb (c_error c =? WBXML_OK)) eqn:E0; [cbn; tauto|]. cbn [orb].
    destruct (negb (c_error (step c e) =? WBXML_OK)) eqn:E1; [cbn; tauto|].
    apply negb_false_iff, N.eqb_eq in E0, E1.
    destruct e as [v enc|dn sysid pubid| |n a i|n i|ch| | |tg dt].
    - destruct (c_spine c); cbn; tauto.
    - destruct (c_spine c); cbn; tauto.
    - cbn; tauto.
    - destruct (0 <? c_skip_lvl c) eqn:K; [cbn; tauto|]. apply N.ltb_ge in K. assert (K0 : c_skip_lvl c = 0) by lia.
      pose proof (lang_in_step main_table sub input c (EvStartElement n a i) LI) as LI'.
      destruct (c_spine c) as [|f up] eqn:S.
      + destruct (start_root_shape main_table sub input c n a i S K0 E1) as (new & S1 & _ & _ & l & L1 & KD).
        unfold head_clause. rewrite S1, L1, KD. apply elt_clause_no57; [now apply LI'|exact OC].
      + destruct (is_embedded_name n) eqn:EN; [destruct (_ || _); cbn; tauto|].
        destruct (start_shape main_table sub input c f up n a i S E0 E1) as [(K' & _)|[(_ & EN' & _)|(_ & _ & f' & new & S1 & _ & _ & l & L1 & _ & KD)]];
          [lia|congruence|].
        unfold head_clause. rewrite S1, L1, KD. apply elt_clause_no57; [now apply LI'|exact OC].
    - destruct (0 <? c_skip_lvl c); [destruct (c_skip_lvl c =? 1); [destruct (is_embedded_name n)|]|].
      + destruct (c_spine (step c (EvEndElement n i))) as [|g r]; [cbn; tauto|].
        destruct (f_rkids g) as [|[| | | |lid roots] r']; try (cbn; tauto). destruct (emb lid roots); cbn; tauto.
      + cbn; tauto.
      + cbn; tauto.
      + destruct (c_spine c) as [|g [|p [|q r]]]; try (cbn; tauto). destruct (is_cdata_frame g); cbn; tauto.
    - destruct (0 <? c_skip_lvl c); [cbn; tauto|]. destruct ch; [cbn; tauto|]. destruct (c_spine c); cbn; tauto.
    - destruct (0 <? c_skip_lvl c); [cbn; tauto|]. destruct (c_spine c) as [|f up]; [cbn; tauto|]. destruct (is_binary_frame f); cbn; tauto.
    - cbn; tauto.
    - cbn; tauto.
  Qed.

  Lemma run_clause_no57 evs : Forall ev_octets evs -> forall c, lang_in main_table c -> no57 (run_clause c evs).
  Proof.
    induction 1 as [|e r He F IH]; intros c LI; [cbn; tauto|].
    rewrite (run_clause_cons main_table sub input emb). destruct (step_clause c e =? 0); [|now apply step_clause_no57].
    apply IH. now apply lang_in_step.
  Qed.

  (* for a document of the shape Expat delivers, on the project's tables, with attribute names made of octets:
     only the clauses 1 (empty text), 3 (CDATA in a binary element), 4 (embedded document in a binary element or a CDATA
     section), 6 (embedded-document name by resolution), 9 (binary Data) and 11 (embedded tree not accepted) can fire *)
  Theorem clauses_that_matter prolog root attrs i i' body epilog :
    (forall d, sub d <> inr WBXML_OK) ->
    Forall prolog_any prolog -> balanced body -> Forall is_pi epilog -> N.of_nat (List.length body) + 1 < LIM ->
    let evs := prolog ++ EvStartElement root attrs i :: body ++ EvEndElement root i' :: epilog in
    Forall ev_octets evs ->
    In (evs_clause main_table sub input emb evs) [0; 1; 3; 4; 6; 9; 11].
  Proof.
    intros SN FP HB FE LEN evs OC.
    pose proof (shape_clauses_silent main_table sub input emb SN prolog root attrs i i' body epilog FP HB FE LEN) as (A & B & C & D).
    fold evs in A, B, C, D.
    assert (N57 : no57 (evs_clause main_table sub input emb evs)).
    { unfold evs_clause. apply run_clause_no57; [exact OC|]. intros l H. discriminate. }
    unfold no57 in N57. cbn [In] in *. intuition.
  Qed.
End MainTable.
