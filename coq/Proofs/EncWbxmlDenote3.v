(* C06 — denotation of the encoder's output on the WIDE fragment, string table ON or OFF, literal tag / attribute names
   included: the abstract document written (Proofs/EncWbxmlAbs.v) denotes, for the decoder's table L (the encoder's tables
   being to_blang L), the events of the normalised source tree MODULO merge_chars (Model/EncWbxmlEvents.v): a text that
   the encoder cut into STR_I / STR_T pieces is reported piecewise, its pieces spell the text.  Attribute values need no
   such normal form (the decoder concatenates the pieces of a value itself).

   TF is the table of entries that is finally written, tb its octets: every reference / literal index the encoder emits is
   the offset of an entry of the table in force at that moment, which is a prefix of TF (the table is append-only), and
   that offset resolves on tb to the entry's string (Proofs/EncWbxmlTblOk.v: entry_resolves). *)
From Coq Require Import List NArith Lia Bool.
From Wbxml Require Import Base.Bits Model.Codec Model.TablesDefs Model.EncWbxml Model.TreeNorm Model.EncWbxmlEvents
     Proofs.EncWbxmlProofs Proofs.TreeNormProofs Proofs.EncWbxmlAbs Proofs.EncWbxmlStrict2 Proofs.EncWbxmlDenote2
     Proofs.EncWbxmlMerge Proofs.EncWbxmlTblOk.
From Wbxml Require Model.Parser Model.Spec Proofs.EncWbxmlDenote Proofs.ParserProofsStrict3.
Import ListNotations.
Local Open Scope N_scope.

(* ---- value elements, now with table references ------------------------------------------------------------------------------ *)
Definition vden3 (rows : list bval) (TF : list ste) (v : velt) : bytes :=
  match v with VRef off => ref_str TF off | _ => vden rows v end.

(* a reference is good when it is the offset of an entry of TF made of octets 1..255 (only such entries resolve to their
   string on the table written; an entry with a NUL — a byte array of a binary-flagged element that occurs twice — is never
   referenced from a C string, see find_name_okb) *)
Definition has_ok (TF : list ste) (off : N) : bool := existsb (fun x => (s_off x =? off) && okb (s_str x)) TF.

Definition av_ok3 (rows : list bval) (TF : list ste) (v : velt) : bool :=
  match v with VRef off => has_ok TF off | _ => av_ok rows v end.

Lemma find_name_okb nm s i m : okb s = true -> find_name nm s = Some (i, m) -> okb nm = true.
Proof.
  intros Hs. unfold find_name. destruct nm as [|c nm'] eqn:N; [reflexivity|]. rewrite <- N.
  destruct (find_sub nm s) as [k|] eqn:F; [|discriminate]. intros _.
  destruct (find_sub_spec nm s k F) as [Hp _]. destruct (is_prefix_firstn _ _ Hp) as [Hf _].
  rewrite <- Hf. apply okb_firstn. now apply okb_skipn.
Qed.

Lemma split_sweep_av3 rows TF find mk : (forall s i m, okb s = true -> find s = Some (i, m) -> av_ok3 rows TF mk = true) ->
  forall fuel l l', split_sweep fuel find mk l = Some l' -> forallb (av_ok3 rows TF) l = true -> forallb (av_ok3 rows TF) l' = true.
Proof.
  intros Hm0. induction fuel as [|f IH]; intros l l'; cbn [split_sweep]; [discriminate|].
  destruct l as [|v r]; [intros H; now injection H as <-|].
  destruct v as [s|t|p t|off]; cbn [forallb].
  - destruct (find s) as [[idx mlen]|] eqn:Fd.
    + destruct (split_sweep f find mk _) as [r'|] eqn:Sx; [|discriminate]. intros H Hl; injection H as <-.
      apply andb_true_iff in Hl as [Hs Hr]. cbn [av_ok3 av_ok] in Hs. pose proof (Hm0 s idx mlen Hs Fd) as Hm.
      cbn [forallb]. rewrite Hm. cbn [av_ok3 av_ok]. rewrite (okb_firstn _ _ Hs). cbn [andb]. apply (IH _ _ Sx).
      destruct (idx + mlen <? len s); cbn [forallb av_ok3 av_ok]; [rewrite (okb_skipn _ _ Hs)|]; exact Hr.
    + destruct (split_sweep f find mk r) as [r'|] eqn:Sx; [|discriminate]. intros H Hl; injection H as <-.
      apply andb_true_iff in Hl as [Hs Hr]. cbn [forallb]. rewrite Hs. now apply (IH _ _ Sx).
  - intros _ H. discriminate.
  - destruct (split_sweep f find mk r) as [r'|] eqn:Sx; [|discriminate]. intros H Hl; injection H as <-.
    apply andb_true_iff in Hl as [Hs Hr]. cbn [forallb]. rewrite Hs. now apply (IH _ _ Sx).
  - destruct (split_sweep f find mk r) as [r'|] eqn:Sx; [|discriminate]. intros H Hl; injection H as <-.
    apply andb_true_iff in Hl as [Hs Hr]. cbn [forallb]. rewrite Hs. now apply (IH _ _ Sx).
Qed.

Lemma pass_vals_av3 rows TF sub : (forall r, In r sub -> In r rows) ->
  forall l l', pass_vals sub l = Some l' -> forallb (av_ok3 rows TF) l = true -> forallb (av_ok3 rows TF) l' = true.
Proof.
  induction sub as [|r rest IH]; intros Hin l l'; cbn [pass_vals]; [intros H; now injection H as <-|].
  unfold sweep. destruct (split_sweep _ _ _ l) as [l1|] eqn:Sx; [|discriminate]. intros H Hl.
  apply (IH (fun y Hy => Hin y (or_intror Hy)) _ _ H). eapply split_sweep_av3; [|exact Sx|exact Hl].
  intros _ _ _ _ _. cbn [av_ok3 av_ok]. apply existsb_exists. exists r. split; [apply Hin; now left|now rewrite !N.eqb_refl].
Qed.

Lemma pass_strtbl_av3 rows TF sub : (forall x, In x sub -> In x TF) ->
  forall l l', pass_strtbl sub l = Some l' -> forallb (av_ok3 rows TF) l = true -> forallb (av_ok3 rows TF) l' = true.
Proof.
  induction sub as [|x rest IH]; intros Hin l l'; cbn [pass_strtbl]; [intros H; now injection H as <-|].
  unfold sweep. destruct (split_sweep _ _ _ l) as [l1|] eqn:Sx; [|discriminate]. intros H Hl.
  apply (IH (fun y Hy => Hin y (or_intror Hy)) _ _ H). eapply split_sweep_av3; [|exact Sx|exact Hl].
  intros s i m Hs Hf. cbn [av_ok3]. unfold has_ok. apply existsb_exists. exists x. split; [apply Hin; now left|].
  now rewrite N.eqb_refl, (find_name_okb _ _ _ _ Hs Hf).
Qed.

Lemma split_value_ok3 e st TF ia buf l :
  (forall x, In x (strtbl st) -> In x TF) -> bl_exts (e_lang e) = None -> okb buf = true ->
  split_value e st ia buf = Some l ->
  forallb (av_ok3 (match bl_vals (e_lang e) with Some rows => rows | None => [] end) TF) l = true.
Proof.
  intros Hsub HX Hb. unfold split_value. cbv zeta.
  destruct (if ia then _ else Some [VStr buf]) as [l1|] eqn:E1; [|discriminate].
  assert (H1 : forallb (av_ok3 (match bl_vals (e_lang e) with Some rows => rows | None => [] end) TF) l1 = true).
  { destruct ia; [|injection E1 as <-; cbn; now rewrite Hb].
    destruct (bl_vals (e_lang e)) as [rows|]; [|injection E1 as <-; cbn; now rewrite Hb].
    apply (pass_vals_av3 rows TF rows (fun r H => H) _ _ E1). cbn. now rewrite Hb. }
  destruct (if negb ia && negb (in_cdata st) then _ else Some l1) as [l2|] eqn:E2; [|discriminate].
  assert (H2 : forallb (av_ok3 (match bl_vals (e_lang e) with Some rows => rows | None => [] end) TF) l2 = true).
  { destruct (negb ia && negb (in_cdata st)); [|injection E2 as <-; exact H1]. rewrite HX in E2. injection E2 as <-. exact H1. }
  destruct (e_use_strtbl e && negb (in_cdata st && negb ia)).
  - intros H. exact (pass_strtbl_av3 _ TF (strtbl st) Hsub _ _ H H2).
  - intros H; injection H as <-. exact H2.
Qed.

Lemma notattr_state l : forall st, forallb notattr l = true -> snd (abs_velts st l) = st.
Proof.
  induction l as [|v r IH]; intros st H; cbn [abs_velts]; [reflexivity|].
  cbn [forallb] in H. apply andb_true_iff in H as [Hv Hr].
  destruct v as [s|t|p t|off]; try discriminate; (specialize (IH st Hr); destruct (abs_velts st r) as [w' st2]; exact IH).
Qed.

Lemma abs_seq_ext e par ns : forall st items st', abs_seq (abs_node e) par ns st = Some (items, st') ->
  exists x, strtbl st' = strtbl st ++ x.
Proof.
  induction ns as [|n r IH]; intros st items st'; cbn [abs_seq].
  - intros E; injection E as _ <-. exists []. now rewrite app_nil_r.
  - destruct (abs_node e par n st) as [[a sa]|] eqn:A; [|discriminate].
    destruct (abs_seq (abs_node e) par r sa) as [[b sb]|] eqn:B; [|discriminate]. intros E; injection E as _ <-.
    destruct (abs_node_sx _ _ _ _ _ _ A) as [[x Hx] _]. destruct (IH _ _ _ B) as [y Hy].
    exists (x ++ y). now rewrite Hy, Hx, app_assoc.
Qed.

(* the element rule of Spec.den_item, with its three ingredients named *)
Definition named_of (env : S.denv) (tag : S.wtag) (st0 : S.dstate) : option (P.tagname * option (N * N) * S.dstate) :=
  match tag return option (P.tagname * option (N * N) * S.dstate) with
  | S.WTagTok t =>
    if S.tag_tok_okb t then
      match S.lookup_tag (S.de_lang env) (S.ds_tagcp st0) t with
      | Some r => Some (P.TagTok (t_page r) (t_tok r) (P.B (t_name r)), Some (t_page r, t_tok r),
                        S.set_dcur st0 (Some (t_page r, t_tok r)))
      | None => None
      end
    else None
  | S.WTagLit idx =>
    if S.u32_okb idx then
      match S.str_at (S.de_strtbl env) idx with
      | Some s => Some (P.TagLit s, None, st0)
      | None => None
      end
    else None
  end.

Lemma den_elt_intro env d me0 sw wtag ws (hasc : bool) its dst name me dst0 al dstA evs dst3 :
  S.sw_okb sw = true -> (d <=? 1000) = true ->
  named_of env wtag (S.apply_sw P.TagSpace sw dst) = Some (name, me, dst0) ->
  S.den_attrs env ws dst0 = Some (al, dstA) ->
  (if hasc then D1.den_items env (d + 1) me its dstA = Some (evs, dst3) else its = [] /\ evs = [] /\ dst3 = dstA) ->
  S.den_item env d me0 (S.WItemElt sw wtag ws hasc its) dst
  = Some (P.EvStartElt name al :: evs ++ [P.EvEndElt name], S.set_dcur dst3 None).
Proof.
  intros Hsw Hd Hn Ha Hk. cbn [S.den_item]. rewrite Hsw, Hd. cbn [andb]. unfold named_of in Hn.
  destruct wtag as [t|idx].
  - destruct (S.tag_tok_okb t); [|discriminate].
    destruct (S.lookup_tag (S.de_lang env) (S.ds_tagcp (S.apply_sw P.TagSpace sw dst)) t) as [r|]; [|discriminate].
    injection Hn as <- <- <-. rewrite Ha. destruct hasc.
    + unfold D1.den_items in Hk. rewrite Hk. reflexivity.
    + destruct Hk as (-> & -> & ->). reflexivity.
  - destruct (S.u32_okb idx); [|discriminate].
    destruct (S.str_at (S.de_strtbl env) idx) as [s|]; [|discriminate].
    injection Hn as <- <- <-. rewrite Ha. destruct hasc.
    + unfold D1.den_items in Hk. rewrite Hk. reflexivity.
    + destruct Hk as (-> & -> & ->). reflexivity.
Qed.

Section D3.
  Variable L : lang.
  Variable e : env.
  Hypothesis HE : e_lang e = to_blang L.
  Hypothesis HP : plain_env e = true.
  Hypothesis HV : vals_ok L = true.
  Hypothesis HX : l_exts L = None.
  Hypothesis Hopts : e_ignore_empty e = e_remove_blanks e.
  Variable TF : list ste.
  Variable tb : bytes.
  Hypothesis HRES : forall x, In x TF -> okb (s_str x) = true -> S.str_at tb (s_off x) = Some (s_str x).
  Hypothesis HU32 : forall x, In x TF -> S.u32_okb (s_off x) = true.
  Hypothesis HREF : forall x, In x TF -> ref_str TF (s_off x) = s_str x.

  Definition sub (st : est) : Prop := forall x, In x (strtbl st) -> In x TF.

  Lemma sub_ext st st' : (exists x, strtbl st' = strtbl st ++ x) -> sub st' -> sub st.
  Proof. intros [x Hx] H y Hy. apply H. rewrite Hx. apply in_or_app. now left. Qed.

  Lemma sub_same st st' : same_tbl st st' -> sub st' -> sub st.
  Proof. intros [H _] Hs y Hy. apply Hs. now rewrite H. Qed.

  Lemma den_ref sp par off (dst : S.dstate) : has_ok TF off = true ->
    S.den_str (S.mk_denv L tb) sp par (S.WStrT off) dst = Some (ref_str TF off, dst).
  Proof.
    intros H. unfold has_ok in H. apply existsb_exists in H as (x & Hin & Hx). apply andb_true_iff in Hx as [Hx Hok].
    apply N.eqb_eq in Hx. subst off.
    cbn [S.den_str S.de_strtbl]. now rewrite (HU32 x Hin), (HRES x Hin Hok), (HREF x Hin).
  Qed.

  Lemma den_velts3 l : forall (st : est) (dst : S.dstate),
    forallb (av_ok3 (match bl_vals (to_blang L) with Some r => r | None => [] end) TF) l = true -> S.ds_attrcp dst = attrcp st ->
    exists dst', S.den_vals (S.mk_denv L tb) (fst (abs_velts st l)) dst
                 = Some (flat_map (vden3 (match bl_vals (to_blang L) with Some r => r | None => [] end) TF) l, dst') /\
                 S.ds_attrcp dst' = attrcp (snd (abs_velts st l)) /\ S.ds_tagcp dst' = S.ds_tagcp dst /\ S.ds_cur dst' = S.ds_cur dst.
  Proof.
    set (rows := match bl_vals (to_blang L) with Some r => r | None => [] end).
    induction l as [|v r IH]; intros st dst Hl Hcp; cbn [abs_velts flat_map].
    - exists dst. cbn. auto.
    - cbn [forallb] in Hl. apply andb_true_iff in Hl as [Hv Hr].
      destruct v as [s|t|p t|off]; try discriminate.
      + destruct (IH st dst Hr Hcp) as (dst' & E & A & B & C).
        destruct (abs_velts st r) as [w' st2]. cbn [fst snd] in *.
        exists dst'. split; [|auto]. cbn [av_ok3 av_ok] in Hv. cbn [vden3 vden].
        destruct (0 <? len s) eqn:Z.
        * cbn [app S.den_vals S.den_val S.den_str]. unfold okb in Hv. rewrite Hv, E. reflexivity.
        * assert (s = []) by (destruct s; [reflexivity|unfold len in Z; cbn in Z; discriminate]). subst s.
          cbn [app]. exact E.
      + cbn [av_ok3 av_ok] in Hv.
        assert (Hst : attrcp (snd (enc_attr_token st t p)) = p) by (unfold enc_attr_token; destruct (attrcp st =? p) eqn:E; cbn; [now apply N.eqb_eq in E|reflexivity]).
        rewrite <- Hcp. change (vden3 rows TF (VAttrTok p t)) with (vden rows (VAttrTok p t)).
        destruct (den_tok L HV tb p t dst Hv) as [D|[Heq D]].
        * destruct (IH (snd (enc_attr_token st t p)) (S.mk_dstate (S.ds_tagcp dst) p (S.ds_cur dst)) Hr) as (dst' & E & A & B & C);
            [cbn; now rewrite Hst|].
          destruct (abs_velts (snd (enc_attr_token st t p)) r) as [w' st2]. cbn [fst snd] in *.
          exists dst'. split; [|auto]. cbn [app S.den_vals]. rewrite D, E. reflexivity.
        * destruct (IH (snd (enc_attr_token st t p)) dst Hr) as (dst' & E & A & B & C); [now rewrite Hst|].
          destruct (abs_velts (snd (enc_attr_token st t p)) r) as [w' st2]. cbn [fst snd] in *.
          exists dst'. split; [|auto]. rewrite Heq, N.eqb_refl. cbn [app S.den_vals]. rewrite D, E. reflexivity.
      + destruct (IH st dst Hr Hcp) as (dst' & E & A & B & C).
        destruct (abs_velts st r) as [w' st2]. cbn [fst snd] in *.
        exists dst'. split; [|auto]. cbn [av_ok3] in Hv. cbn [vden3].
        cbn [app S.den_vals S.den_val]. rewrite (den_ref P.AttrSpace None off dst Hv), E. reflexivity.
  Qed.

  Lemma vden3_row r : In r (match bl_vals (to_blang L) with Some r => r | None => [] end) ->
    vden3 (match bl_vals (to_blang L) with Some r => r | None => [] end) TF (VAttrTok (bv_page r) (bv_tok r)) = bv_name r.
  Proof. intros Hin. cbn [vden3]. exact (vden_row L HV r Hin). Qed.

  (* what the value elements spell *)
  Lemma split_value_spells st ia buf l : sub st -> split_value e st ia buf = Some l ->
    flat_map (vden3 (match bl_vals (to_blang L) with Some r => r | None => [] end) TF) l = buf.
  Proof.
    intros Hs SV.
    apply (split_value_den (vden3 (match bl_vals (to_blang L) with Some r => r | None => [] end) TF) (fun s0 => eq_refl) e st ia buf l); [| | |exact SV].
    - rewrite HE. intros r Hr. now apply vden3_row.
    - rewrite HE. cbn [to_blang bl_exts]. rewrite HX. intros r [].
    - intros y Hy. cbn [vden3]. apply HREF. now apply Hs.
  Qed.

  Lemma exts_none : bl_exts (e_lang e) = None.
  Proof. rewrite HE. cbn [to_blang bl_exts]. now rewrite HX. Qed.

  (* the value part of an attribute *)
  Lemma den_value3 st buf w st' (dst : S.dstate) :
    sub st -> okb buf = true -> S.ds_attrcp dst = attrcp st ->
    abs_value e st true buf = Some (w, st') ->
    exists dst', S.den_vals (S.mk_denv L tb) w dst = Some (buf, dst') /\ S.ds_attrcp dst' = attrcp st' /\
                 S.ds_tagcp dst' = S.ds_tagcp dst /\ S.ds_cur dst' = S.ds_cur dst.
  Proof.
    intros Hs Hb Hcp. unfold abs_value. destruct buf as [|x s].
    - intros E; injection E as <- <-. exists dst. cbn. auto.
    - destruct (split_value e st true (x :: s)) as [l|] eqn:SV; [|discriminate]. intros E.
      pose proof (split_value_ok3 e st TF true _ l Hs exts_none Hb SV) as Hav. rewrite HE in Hav.
      pose proof (split_value_spells st true _ l Hs SV) as Hden.
      destruct (den_velts3 l st dst Hav Hcp) as (dst' & D & A & B & C).
      destruct (abs_velts st l) as [w0 st0]. injection E as <- <-. cbn [fst snd] in *.
      exists dst'. rewrite D, Hden. auto.
  Qed.

  Lemma den_one_attr3 st a w st' (dst : S.dstate) :
    sub st' -> attr_ok3 L a = true -> S.ds_attrcp dst = attrcp st ->
    (match at_name a with AttrTok p t _ _ => S.is_datetime_attr (l_id L) p t = false | AttrLit _ => True end) ->
    abs_attr e st a = Some (w, st') ->
    exists dst', S.den_attr (S.mk_denv L tb) w dst = Some (fst (attr_event a), at_value a, dst') /\ S.ds_attrcp dst' = attrcp st' /\
                 S.ds_tagcp dst' = S.ds_tagcp dst /\ S.ds_cur dst' = S.ds_cur dst.
  Proof.
    intros Hsub Hok Hcp Hnd. unfold attr_ok3 in Hok. apply andb_true_iff in Hok as [Hval Hok].
    unfold abs_attr, abs_attr_start, attr_event. cbv zeta. rewrite (okb_cstr _ Hval).
    destruct (at_name a) as [p t nm oval|nm]; cbn [fst].
    - (* token start *)
      apply andb_true_iff in Hok as [Hok Hlk]. apply andb_true_iff in Hok as [Htok Hpage].
      destruct (S.lookup_attr L p t) as [r|] eqn:LK; [|discriminate].
      apply andb_true_iff in Hlk as [Hlk Hvv]. apply andb_true_iff in Hlk as [Hlk Hn]. apply andb_true_iff in Hlk as [Hrp Hrt].
      apply N.eqb_eq in Hrp, Hrt. apply beq_eq in Hn.
      set (sw := if attrcp st =? p then None else Some p).
      set (st1 := snd (enc_attr_token st t p)).
      assert (Hst1 : attrcp st1 = p /\ same_tbl st st1).
      { subst st1. split; [|apply attr_token_same_tbl]. unfold enc_attr_token. destruct (attrcp st =? p) eqn:E; cbn; [now apply N.eqb_eq in E|reflexivity]. }
      assert (START : exists dst1, S.den_astart (S.mk_denv L tb) (S.AStartTok sw t) dst
                       = Some (P.AttrTok p t nm, match a_value r with Some v => P.B v | None => [] end, dst1) /\
                       S.ds_attrcp dst1 = p /\ S.ds_tagcp dst1 = S.ds_tagcp dst /\ S.ds_cur dst1 = S.ds_cur dst).
      { subst sw. rewrite <- Hcp. cbn [S.den_astart]. destruct (S.ds_attrcp dst =? p) eqn:E.
        - apply N.eqb_eq in E. exists dst. cbn [S.sw_okb S.apply_sw andb]. rewrite Htok. cbn [S.de_lang].
          rewrite E, LK, Hrp, Hrt, Hn. auto.
        - eexists. cbn [S.sw_okb S.apply_sw S.ds_attrcp]. unfold S.is_byte. rewrite Hpage, Htok. cbn [andb].
          cbn [S.de_lang]. rewrite LK, Hrp, Hrt, Hn. split; [reflexivity|]. cbn. auto. }
      destruct START as (dst1 & DS & A1 & B1 & C1).
      assert (FIN : forall v dst2, S.den_attr_raw (S.mk_denv L tb) w dst = Some (P.AttrTok p t nm, v, dst2) ->
                    S.den_attr (S.mk_denv L tb) w dst = Some (P.AttrTok p t nm, v, dst2)).
      { intros v dst2 R. unfold S.den_attr. rewrite R. destruct v; [reflexivity|]. cbn [S.de_lang]. now rewrite Hnd. }
      destruct (a_value r) as [rv|] eqn:RV; destruct oval as [xv|]; try discriminate.
      + apply andb_true_iff in Hvv as [Hxv Hpre]. apply beq_eq in Hxv. rewrite Hpre.
        pose proof (is_prefix_split xv _ Hpre) as Hsplit.
        destruct (len xv <? len (at_value a)) eqn:Hlen.
        * rewrite (okb_cstr _ (okb_skipn _ _ Hval)).
          destruct (abs_value e st1 true (skipn (List.length xv) (at_value a))) as [[w0 st2]|] eqn:AV; [|discriminate].
          intros E; injection E as <- <-.
          assert (Hs1 : sub st1) by (apply (sub_same _ _ (abs_value_same _ _ _ _ _ _ AV)); exact Hsub).
          destruct (den_value3 st1 _ w0 st2 dst1 Hs1 (okb_skipn _ _ Hval) (eq_trans A1 (eq_sym (proj1 Hst1))) AV) as (dst2 & DV & A2 & B2 & C2).
          exists dst2. split; [|repeat split; congruence].
          apply FIN. unfold S.den_attr_raw. cbn [S.wa_start S.wa_vals]. rewrite DS, DV, Hxv, <- Hsplit. reflexivity.
        * intros E; injection E as <- <-. exists dst1. split; [|split; [rewrite A1; symmetry; exact (proj1 Hst1)|split; [exact B1|exact C1]]].
          apply FIN. unfold S.den_attr_raw. cbn [S.wa_start S.wa_vals S.den_vals]. rewrite DS, Hxv, app_nil_r.
          assert (Hsk : skipn (List.length xv) (at_value a) = []).
          { apply N.ltb_ge in Hlen. unfold len in Hlen. apply skipn_all2. lia. }
          rewrite Hsk, app_nil_r in Hsplit. now rewrite <- Hsplit.
      + destruct (abs_value e st1 true (at_value a)) as [[w0 st2]|] eqn:AV; [|discriminate].
        intros E; injection E as <- <-.
        assert (Hs1 : sub st1) by (apply (sub_same _ _ (abs_value_same _ _ _ _ _ _ AV)); exact Hsub).
        destruct (den_value3 st1 _ w0 st2 dst1 Hs1 Hval (eq_trans A1 (eq_sym (proj1 Hst1))) AV) as (dst2 & DV & A2 & B2 & C2).
        exists dst2. split; [|repeat split; congruence].
        apply FIN. unfold S.den_attr_raw. cbn [S.wa_start S.wa_vals]. rewrite DS, DV. reflexivity.
    - (* literal start: the name goes through the string table *)
      apply andb_true_iff in Hok as [Hnm Hun]. rewrite HE.
      destruct (get_attr_from_xml (to_blang L) nm (at_value a)); [discriminate|].
      destruct (e_use_strtbl e); [|discriminate]. rewrite (okb_cstr _ Hnm).
      destruct (strtbl_add (strtbl st) (strtbl_len st) nm) as [[idx tbl'] tlen'] eqn:A.
      destruct (strtbl_add_entry _ _ _ _ _ _ A) as (x & Hin & Hoff & Hstr).
      set (st1 := set_strtbl st tbl' tlen').
      destruct (abs_value e st1 true (at_value a)) as [[w0 st2]|] eqn:AV; [|discriminate].
      intros E; injection E as <- <-.
      assert (Hs1 : sub st1) by (apply (sub_same _ _ (abs_value_same _ _ _ _ _ _ AV)); exact Hsub).
      assert (HxT : In x TF) by (apply Hs1; exact Hin).
      destruct (den_value3 st1 _ w0 st2 dst Hs1 Hval Hcp AV) as (dst2 & DV & A2 & B2 & C2).
      exists dst2. split; [|auto].
      unfold S.den_attr, S.den_attr_raw. cbn [S.wa_start S.wa_vals S.den_astart S.de_strtbl].
      assert (Hxo : okb (s_str x) = true) by (rewrite Hstr; exact Hnm).
      rewrite <- Hoff, (HU32 x HxT), (HRES x HxT Hxo), Hstr, DV. reflexivity.
  Qed.

  Lemma den_all_attrs3 l : forall st ws st' (dst : S.dstate),
    sub st' -> forallb (attr_ok3 L) l = true -> S.ds_attrcp dst = attrcp st ->
    abs_attrs e st l = Some (ws, st') ->
    exists dst', S.den_attrs (S.mk_denv L tb) ws dst = Some (map attr_event l, dst') /\ S.ds_attrcp dst' = attrcp st' /\
                 S.ds_tagcp dst' = S.ds_tagcp dst /\ S.ds_cur dst' = S.ds_cur dst.
  Proof.
    induction l as [|a r IH]; intros st ws st' dst Hs Hok Hcp; cbn [abs_attrs map].
    - intros E; injection E as <- <-. exists dst. cbn. auto.
    - cbn [forallb] in Hok. apply andb_true_iff in Hok as [Ha Hr].
      destruct (abs_attr e st a) as [[w st1]|] eqn:A; [|discriminate].
      destruct (abs_attrs e st1 r) as [[ws' st2]|] eqn:R; [|discriminate]. intros E; injection E as <- <-.
      assert (Hs1 : sub st1) by (apply (sub_ext _ _ (proj1 (abs_attrs_sx _ _ _ _ _ R))); exact Hs).
      assert (Hnd : match at_name a with AttrTok p t _ _ => S.is_datetime_attr (l_id L) p t = false | AttrLit _ => True end)
        by (destruct (at_name a); [apply (not_datetime L e HE HP)|exact I]).
      destruct (den_one_attr3 st a w st1 dst Hs1 Ha Hcp Hnd A) as (dst1 & D1' & A1 & B1 & C1).
      destruct (IH st1 ws' st2 dst1 Hs Hr A1 R) as (dst2 & D2' & A2 & B2 & C2).
      exists dst2. cbn [S.den_attrs]. rewrite D1', D2'. unfold attr_event at 1. cbn [fst].
      repeat split; congruence.
  Qed.

  (* ---- text: pieces ------------------------------------------------------------------------------------------------------------- *)
  Lemma items_den l d me (dst : S.dstate) : forall st,
    forallb (av_ok3 (match bl_vals (to_blang L) with Some r => r | None => [] end) TF) l = true -> forallb notattr l = true ->
    D1.den_items (S.mk_denv L tb) d me (items_of (fst (abs_velts st l))) dst
    = Some (flat_map (fun v => chars (vden3 (match bl_vals (to_blang L) with Some r => r | None => [] end) TF v)) l, dst).
  Proof.
    induction l as [|v r IH]; intros st Hl Hn; cbn [abs_velts flat_map]; [reflexivity|].
    cbn [forallb] in Hl, Hn. apply andb_true_iff in Hl as [Hv Hr]. apply andb_true_iff in Hn as [Hnv Hnr].
    destruct v as [s|t|p t|off]; try discriminate.
    - specialize (IH st Hr Hnr). destruct (abs_velts st r) as [w' st2]. cbn [fst] in *.
      cbn [av_ok3 av_ok] in Hv. cbn [vden3 vden]. unfold items_of in *.
      destruct (0 <? len s) eqn:Z.
      + cbn [app flat_map]. change (D1.den_items (S.mk_denv L tb) d me (S.WItemStr (S.WStrI s) :: flat_map _ w') dst)
          with (match S.den_item (S.mk_denv L tb) d me (S.WItemStr (S.WStrI s)) dst with
                | Some (e0, st'0) => match D1.den_items (S.mk_denv L tb) d me (flat_map (fun v => match v with S.WValStr s0 => [S.WItemStr s0] | S.WValTok _ _ => [] end) w') st'0 with
                                    | Some (e', st'') => Some (e0 ++ e', st'') | None => None end
                | None => None end).
        cbn [S.den_item S.den_str]. unfold okb in Hv. rewrite Hv, IH. reflexivity.
      + assert (s = []) by (destruct s; [reflexivity|unfold len in Z; cbn in Z; discriminate]). subst s.
        cbn [app flat_map chars]. exact IH.
    - specialize (IH st Hr Hnr). destruct (abs_velts st r) as [w' st2]. cbn [fst] in *.
      cbn [av_ok3] in Hv. cbn [vden3]. unfold items_of in *. cbn [app flat_map].
      change (D1.den_items (S.mk_denv L tb) d me (S.WItemStr (S.WStrT off) :: flat_map _ w') dst)
        with (match S.den_item (S.mk_denv L tb) d me (S.WItemStr (S.WStrT off)) dst with
              | Some (e0, st'0) => match D1.den_items (S.mk_denv L tb) d me (flat_map (fun v => match v with S.WValStr s0 => [S.WItemStr s0] | S.WValTok _ _ => [] end) w') st'0 with
                                  | Some (e', st'') => Some (e0 ++ e', st'') | None => None end
              | None => None end).
      cbn [S.den_item]. rewrite (den_ref P.TagSpace me off dst Hv), IH. reflexivity.
  Qed.

  Lemma text_den3 st par c items st' d me (dst : S.dstate) :
    sub st' -> okb c = true -> abs_text e st par c = Some (items, st') ->
    exists evs, D1.den_items (S.mk_denv L tb) d me items dst = Some (evs, dst) /\
      merge_chars evs = merge_chars (flat_map (events3 (has_attr_table e)) (norm_text (negb (e_remove_blanks e)) false c)) /\
      tagcp st' = tagcp st /\ attrcp st' = attrcp st.
  Proof.
    intros Hsub Hc A. pose proof (abs_text_same _ _ _ _ _ _ A) as Hs.
    assert (Hs0 : sub st) by (exact (sub_same _ _ Hs Hsub)).
    unfold abs_text in A. destruct (is_binary_tag st par); [discriminate|].
    unfold norm_text. rewrite Hopts in A.
    assert (VAL : forall buf, okb buf = true ->
              match abs_value e st false (cstr buf) with Some (w, st'0) => Some (items_of w, st'0) | None => None end = Some (items, st') ->
              exists evs, D1.den_items (S.mk_denv L tb) d me items dst = Some (evs, dst) /\
                          merge_chars evs = merge_chars (match cstr buf with [] => [] | s => [P.EvChars s] end) /\
                          tagcp st' = tagcp st /\ attrcp st' = attrcp st).
    { intros buf Hb. rewrite (okb_cstr _ Hb). unfold abs_value.
      destruct buf as [|x s].
      - intros E; injection E as <- <-. exists []. auto.
      - destruct (split_value e st false (x :: s)) as [l|] eqn:SV; [|discriminate]. intros E.
        pose proof (split_value_ok3 e st TF false _ l Hs0 exts_none Hb SV) as Hav. rewrite HE in Hav.
        pose proof (split_value_spells st false _ l Hs0 SV) as Hden.
        pose proof (split_value_content_notattr e st _ l SV) as Hn.
        pose proof (items_den l d me dst st Hav Hn) as DI.
        pose proof (notattr_state l st Hn) as Hst.
        destruct (abs_velts st l) as [w0 st0]. cbn [fst snd] in *. injection E as <- <-.
        eexists. split; [exact DI|]. split; [|subst st0; auto].
        rewrite merge_pieces_f, Hden. reflexivity. }
    destruct (e_remove_blanks e) eqn:R; cbn [negb orb andb] in *.
    - destruct (in_cdata st) eqn:IC; cbn [negb andb] in A.
      + discriminate.
      + destruct (only_ws c) eqn:W.
        * injection A as <- <-. exists []. cbn. auto.
        * destruct (VAL (strip_blanks c) (okb_strip c Hc) A) as (evs & Dn & M & T1 & T2). exists evs.
          cbn [flat_map events3]. rewrite app_nil_r. auto.
    - destruct (in_cdata st) eqn:IC; cbn [negb andb] in A; [discriminate|].
      destruct (VAL c Hc A) as (evs & Dn & M & T1 & T2). exists evs. cbn [flat_map events3]. rewrite app_nil_r. auto.
  Qed.

  (* ---- tags ------------------------------------------------------------------------------------------------------------------------ *)
  Lemma unknown_lit nm : unknown_tag L nm = true -> lit_unknown e nm = true.
  Proof. unfold unknown_tag, lit_unknown. now rewrite HE. Qed.

  Lemma tag_den3 st tag ha hc sw wtag st1 (dst : S.dstate) :
    match tag with
    | TagTok p t o nm =>
      (5 <=? t) && (t <? 64) && (p <? 256) &&
      match S.lookup_tag L p t with
      | Some r => (t_page r =? p) && (t_tok r =? t) && beq (P.B (t_name r)) nm
      | None => false
      end
    | TagLit nm => okb nm && unknown_tag L nm
    end = true ->
    sub st1 -> S.ds_tagcp dst = tagcp st -> S.ds_attrcp dst = attrcp st ->
    abs_tag e st tag ha hc = Some (sw, wtag, st1) ->
    S.sw_okb sw = true /\ exists me1 dst0,
      named_of (S.mk_denv L tb) wtag (S.apply_sw P.TagSpace sw dst) = Some (tag_event tag, me1, dst0) /\
      S.ds_tagcp dst0 = tagcp st1 /\ S.ds_attrcp dst0 = attrcp st1.
  Proof.
    intros Htag Hsub H1 H2. unfold abs_tag. destruct tag as [p t o nm|nm]; cbn [tag_triple tag_xml_name tag_event].
    - repeat (apply andb_true_iff in Htag; destruct Htag as [Htag ?]).
      match goal with X : match S.lookup_tag L p t with Some _ => _ | None => _ end = true |- _ => rename X into Hlk end.
      match goal with X : (p <? 256) = true |- _ => rename X into Hp end.
      match goal with X : (t <? 64) = true |- _ => rename X into H64 end.
      rename Htag into H5.
      destruct (S.lookup_tag L p t) as [r|] eqn:LK; [|discriminate].
      apply andb_true_iff in Hlk as [Hlk Hn]. apply andb_true_iff in Hlk as [Hrp Hrt].
      apply N.eqb_eq in Hrp, Hrt. apply beq_eq in Hn.
      assert (Hz : (t =? 0) = false) by (apply N.eqb_neq; apply N.leb_le in H5; lia).
      cbv zeta. rewrite Hz, H5, H64. cbn [andb]. intros E; injection E as <- <- <-.
      cbn [tagcp attrcp set_cur_tag set_pages].
      split; [destruct (tagcp st =? p); [reflexivity|exact Hp]|].
      assert (Hcp0 : S.ds_tagcp (S.apply_sw P.TagSpace (if tagcp st =? p then None else Some p) dst) = p /\
                     S.ds_attrcp (S.apply_sw P.TagSpace (if tagcp st =? p then None else Some p) dst) = S.ds_attrcp dst).
      { rewrite <- H1. destruct (S.ds_tagcp dst =? p) eqn:E; cbn; [apply N.eqb_eq in E|]; auto. }
      destruct Hcp0 as [Q1 Q2].
      eexists _, _. split.
      + unfold named_of. unfold S.tag_tok_okb. rewrite H5, H64. cbn [andb S.de_lang]. rewrite Q1, LK, Hrp, Hrt, Hn. reflexivity.
      + cbn. split; [exact Q1|congruence].
    - apply andb_true_iff in Htag as [Hnm Hun].
      rewrite (lit_unknown_none e nm (tagcp st) (unknown_lit nm Hun)). cbv zeta. cbn [N.eqb].
      destruct (e_use_strtbl e); [|discriminate]. rewrite (okb_cstr _ Hnm). cbn [strtbl strtbl_len set_cur_tag].
      destruct (strtbl_add (strtbl st) (strtbl_len st) nm) as [[idx tbl'] tlen'] eqn:A.
      destruct (strtbl_add_entry _ _ _ _ _ _ A) as (x & Hin & Hoff & Hstr).
      intros E; injection E as <- <- <-. split; [reflexivity|].
      assert (HxT : In x TF) by (apply Hsub; cbn; exact Hin).
      eexists _, _. split.
      + assert (Hxo : okb (s_str x) = true) by (rewrite Hstr; exact Hnm).
        unfold named_of. cbn [S.de_strtbl S.apply_sw]. rewrite <- Hoff, (HU32 x HxT), (HRES x HxT Hxo), Hstr. reflexivity.
      + cbn. auto.
  Qed.

  (* ---- the tree ---------------------------------------------------------------------------------------------------------------------- *)
  Definition node_den3 (n : node) : Prop :=
    forall par d me st items st' (dst : S.dstate),
      tree_ok3 L d n = true -> sub st' -> S.ds_tagcp dst = tagcp st -> S.ds_attrcp dst = attrcp st ->
      abs_node e par n st = Some (items, st') ->
      exists evs dst', D1.den_items (S.mk_denv L tb) d me items dst = Some (evs, dst') /\
        merge_chars evs = merge_chars (flat_map (events3 (has_attr_table e)) (norm_node (negb (e_remove_blanks e)) false n)) /\
        S.ds_tagcp dst' = tagcp st' /\ S.ds_attrcp dst' = attrcp st'.

  Lemma seq_den3 ns : Forall node_den3 ns ->
    forall par d me st items st' (dst : S.dstate),
      forallb (tree_ok3 L d) ns = true -> sub st' -> S.ds_tagcp dst = tagcp st -> S.ds_attrcp dst = attrcp st ->
      abs_seq (abs_node e) par ns st = Some (items, st') ->
      exists evs dst', D1.den_items (S.mk_denv L tb) d me items dst = Some (evs, dst') /\
        merge_chars evs = merge_chars (flat_map (events3 (has_attr_table e)) (flat_map (norm_node (negb (e_remove_blanks e)) false) ns)) /\
        S.ds_tagcp dst' = tagcp st' /\ S.ds_attrcp dst' = attrcp st'.
  Proof.
    induction 1 as [|x r Hx _ IH]; intros par d me st items st' dst HT Hsub H1 H2; cbn [abs_seq flat_map].
    - intros E; injection E as <- <-. exists [], dst. cbn. auto.
    - cbn [forallb] in HT. apply andb_true_iff in HT as [HT1 HT2].
      destruct (abs_node e par x st) as [[a sa]|] eqn:A; [|discriminate].
      destruct (abs_seq (abs_node e) par r sa) as [[b sb]|] eqn:B; [|discriminate]. intros E; injection E as <- <-.
      assert (Hsa : sub sa) by (exact (sub_ext _ _ (abs_seq_ext _ _ _ _ _ _ B) Hsub)).
      destruct (Hx par d me st a sa dst HT1 Hsa H1 H2 A) as (ev1 & dst1 & D1' & M1 & P1 & P2).
      destruct (IH par d me sa b sb dst1 HT2 Hsub P1 P2 B) as (ev2 & dst2 & D2' & M2 & Q1 & Q2).
      exists (ev1 ++ ev2), dst2. split; [eapply D1.den_items_app; eassumption|]. split; [|auto].
      rewrite flat_map_app. now apply merge_app_congr.
  Qed.

  Lemma all_node_den3 n : node_den3 n.
  Proof.
    induction n as [tag attrs ch IH|c|ch IH| |lid roots IH] using node_ind';
      intros par d me st items st' dst HT Hsub H1 H2; cbn [tree_ok3] in HT; try discriminate.
    - apply andb_true_iff in HT as [HT HTch]. apply andb_true_iff in HT as [HT HTa]. apply andb_true_iff in HT as [Hd Htag].
      cbn [abs_node norm_node].
      destruct (abs_tag e st tag (nonempty attrs) (nonempty ch)) as [[[sw wtag] st1]|] eqn:AT; [|discriminate].
      destruct (if has_attr_table e then abs_attrs e st1 attrs else Some ([], st1)) as [[ws st2]|] eqn:AA; [|discriminate].
      destruct (abs_seq (abs_node e) (Some tag) ch st2) as [[its st3]|] eqn:AS; [|discriminate].
      intros E; injection E as <- <-.
      assert (Hs3 : sub st3) by exact Hsub.
      assert (Hs2 : sub st2) by (exact (sub_ext _ _ (abs_seq_ext _ _ _ _ _ _ AS) Hs3)).
      assert (Hs1 : sub st1).
      { destruct (has_attr_table e); [exact (sub_ext _ _ (proj1 (abs_attrs_sx _ _ _ _ _ AA)) Hs2)|injection AA as _ <-; exact Hs2]. }
      assert (Htag' : match tag with
                      | TagTok p t o nm => (5 <=? t) && (t <? 64) && (p <? 256) &&
                          match S.lookup_tag L p t with
                          | Some r => (t_page r =? p) && (t_tok r =? t) && beq (P.B (t_name r)) nm
                          | None => false
                          end
                      | TagLit nm => okb nm && unknown_tag L nm
                      end = true).
      { destruct tag as [p t o nm|nm]; [|exact Htag].
        repeat (apply andb_true_iff in Htag; destruct Htag as [Htag ?]).
        repeat (apply andb_true_iff; split); assumption. }
      destruct (tag_den3 st tag _ _ sw wtag st1 dst Htag' Hs1 H1 H2 AT) as (Hsw & me1 & dst0 & NM & R1 & R2).
      assert (ATT : exists dst2, S.den_attrs (S.mk_denv L tb) ws dst0 = Some (if (has_attr_table e) then map attr_event attrs else [], dst2) /\
                     S.ds_attrcp dst2 = attrcp st2 /\ S.ds_tagcp dst2 = tagcp st2).
      { destruct (has_attr_table e).
        - destruct (den_all_attrs3 attrs st1 ws st2 dst0 Hs2 HTa R2 AA) as (dst2 & DA & A2 & B2 & C2).
          exists dst2. split; [exact DA|]. split; [exact A2|]. rewrite (abs_attrs_tagcp e attrs st1 ws st2 AA). congruence.
        - injection AA as <- <-. exists dst0. split; [reflexivity|]. split; [exact R2|exact R1]. }
      destruct ATT as (dst2 & DA & A2 & B2).
      destruct (seq_den3 ch IH (Some tag) (d + 1) me1 st2 its st3 dst2 HTch Hs3 B2 A2 AS) as (evk & dst3 & D3 & M3 & P1 & P2).
      assert (KIDS : if nonempty ch then D1.den_items (S.mk_denv L tb) (d + 1) me1 its dst2 = Some (evk, dst3)
                     else its = [] /\ evk = [] /\ dst3 = dst2).
      { destruct ch as [|c0 ch0]; cbn [nonempty]; [|exact D3].
        cbn [abs_seq] in AS. injection AS as <- <-. cbn [D1.den_items] in D3. injection D3 as <- <-. auto. }
      pose proof (den_elt_intro (S.mk_denv L tb) d me sw wtag ws (nonempty ch) its dst _ _ _ _ _ _ _ Hsw Hd NM DA KIDS) as DI.
      eexists _, (S.set_dcur dst3 None). split.
      + cbn [D1.den_items]. rewrite DI. reflexivity.
      + split; [|cbn; auto].
        cbn [flat_map events3]. rewrite !app_nil_r. cbn [merge_chars]. f_equal.
        apply merge_app_congr; [exact M3|reflexivity].
    - cbn [abs_node norm_node].
      destruct (abs_text e st par c) as [[its st1]|] eqn:AT; [|discriminate]. intros E; injection E as <- <-.
      destruct (text_den3 st par c its st1 d me dst Hsub HT AT) as (evs & Dn & M & T1 & T2).
      exists evs, dst. split; [exact Dn|]. split; [exact M|]. cbn. rewrite T1, T2. auto.
  Qed.
End D3.

(* ---- the document --------------------------------------------------------------------------------------------------------------------- *)
Definition doc_events3 (L : lang) (e : env) (keep : bool) (root : node) : list P.event :=
  P.EvStartDoc 106 (l_id L) :: flat_map (events3 (has_attr_table e)) (norm keep [root]) ++ [P.EvEndDoc].

(* the entries of the table that the header writes (with the public id string, if it goes there) *)
Definition final_tbl (e : env) (st : est) : list ste := let '(_, t, _) := header_table e st in t.
Definition final_idx (e : env) (st : est) : N := let '(i, _, _) := header_table e st in i.

Lemma tree_ok3_frag2 L e : e_lang e = to_blang L -> forall n d, tree_ok3 L d n = true -> frag2_node e n = true.
Proof.
  intros HE. induction n as [tag attrs ch IH|c|ch IH| |lid roots IH] using node_ind'; intros d H; cbn [tree_ok3] in H; try discriminate; [|reflexivity].
  apply andb_true_iff in H as [H Hch]. apply andb_true_iff in H as [H _]. apply andb_true_iff in H as [_ Htag].
  cbn [frag2_node]. apply andb_true_iff. split.
  - destruct tag as [p t o nm|nm].
    + repeat (apply andb_true_iff in Htag; destruct Htag as [Htag ?]).
      repeat (apply andb_true_iff; split); assumption.
    + apply andb_true_iff in Htag as [_ Hun]. unfold unknown_tag in Hun. unfold lit_unknown. now rewrite HE.
  - clear -IH Hch. induction IH as [|x r Hx _ IHr]; [reflexivity|]. cbn [forallb] in *.
    apply andb_true_iff in Hch as [H1 H2]. now rewrite (Hx _ H1), IHr.
Qed.

(* the document around a root element that denotes evs *)
Lemma doc_wrap TBL L (e : env) st' sw wtag ws hc its evs dst' :
  D1.den_items (S.mk_denv L (doc_strtbl e st')) 0 None [S.WItemElt sw wtag ws hc its] (S.mk_dstate 0 0 None) = Some (evs, dst') ->
  e_version e < 4 -> header_public_id e < 4294967296 -> header_public_id e <> 0 ->
  S.bytes_okb (doc_strtbl e st') = true -> Parser.blen (doc_strtbl e st') < 4294967296 ->
  final_idx e st' < 4294967296 ->
  S.denote_with TBL (Some L) (abs_doc2 e st' (S.WItemElt sw wtag ws hc its)) = Some (P.EvStartDoc 106 (l_id L) :: evs ++ [P.EvEndDoc]).
Proof.
  intros DN Hv Hp1 Hp0 Hb1 Hb2 Hidx. set (root := S.WItemElt sw wtag ws hc its) in *.
  unfold S.denote_with.
  assert (F : S.wd_ver (abs_doc2 e st' root) = u8 (e_version e) /\ S.wd_strtbl (abs_doc2 e st' root) = doc_strtbl e st' /\
              S.wd_charset (abs_doc2 e st' root) = (if e_version e =? 0 then None else Some 106) /\
              S.wd_root (abs_doc2 e st' root) = root /\ S.wd_pis_before (abs_doc2 e st' root) = [] /\ S.wd_pis_after (abs_doc2 e st' root) = [] /\
              S.wd_pub (abs_doc2 e st' root) = (match header_pid e with Some _ => S.PubIdx (final_idx e st') | None => S.PubNum (header_public_id e) end)).
  { unfold abs_doc2, final_idx. destruct (header_table e st') as [[i t] tl]. cbn. auto 10. }
  destruct F as (F1 & F2 & F3 & F4 & F5 & F6 & F7). rewrite F1, F2, F7.
  assert (Hu8 : u8 (e_version e) = e_version e) by (unfold u8; apply N.mod_small; lia). rewrite Hu8.
  replace (e_version e <? 4) with true by (symmetry; now apply N.ltb_lt).
  rewrite Hb1. replace (S.u32_okb (Parser.blen (doc_strtbl e st'))) with true by (symmetry; unfold S.u32_okb; now apply N.ltb_lt).
  assert (Hpub : match (match header_pid e with Some _ => S.PubIdx (final_idx e st') | None => S.PubNum (header_public_id e) end) with
                 | S.PubNum n => S.u32_okb n && negb (n =? 0) | S.PubIdx i => S.u32_okb i end = true).
  { destruct (header_pid e); [unfold S.u32_okb; now apply N.ltb_lt|]. unfold S.u32_okb. apply andb_true_iff. split; [now apply N.ltb_lt|].
    apply negb_true_iff. now apply N.eqb_neq. }
  rewrite Hpub. cbn [andb].
  assert (Hcs : S.charset_of (abs_doc2 e st' root) = Some 106).
  { unfold S.charset_of. rewrite F1, F3, Hu8. destruct (e_version e) as [|v] eqn:V; reflexivity. }
  rewrite Hcs, F4, F5, F6. subst root.
  cbn [S.den_pis]. cbn [D1.den_items] in DN.
  destruct (S.den_item _ 0 None (S.WItemElt sw wtag ws hc its) _) as [[e2 st2']|]; [|discriminate].
  injection DN as DN _. rewrite app_nil_r in DN. subst e2. cbn [app]. now rewrite app_nil_r.
Qed.

Theorem abs_doc3_denotes TBL L o tag attrs ch st' root :
  let e := enc_env (to_blang L) o in
  plain_env e = true -> vals_ok L = true -> l_exts L = None ->
  tree_ok3 L 0 (NElt tag attrs ch) = true ->
  abs_node e None (NElt tag attrs ch) (start_state e [NElt tag attrs ch]) = Some ([root], st') ->
  (forall x, In x (final_tbl e st') -> okb (s_str x) = true -> S.str_at (doc_strtbl e st') (s_off x) = Some (s_str x)) ->
  (forall x, In x (final_tbl e st') -> S.u32_okb (s_off x) = true) ->
  (forall x, In x (final_tbl e st') -> ref_str (final_tbl e st') (s_off x) = s_str x) ->
  (forall x, In x (strtbl st') -> In x (final_tbl e st')) ->
  o_version o < 4 -> header_public_id e < 4294967296 -> header_public_id e <> 0 ->
  S.bytes_okb (doc_strtbl e st') = true -> Parser.blen (doc_strtbl e st') < 4294967296 ->
  final_idx e st' < 4294967296 ->
  exists evs, S.denote_with TBL (Some L) (abs_doc2 e st' root) = Some evs /\
              merge_chars evs = merge_chars (doc_events3 L e (o_keep_ws o) (NElt tag attrs ch)).
Proof.
  cbv zeta. intros HP HV HX HT AN HRES HU32 HREF HSUB Hv Hp1 Hp0 Hb1 Hb2 Hidx. set (e := enc_env (to_blang L) o) in *.
  assert (HE : e_lang e = to_blang L) by reflexivity.
  assert (Ho : e_ignore_empty e = e_remove_blanks e) by reflexivity.
  assert (Hk : negb (e_remove_blanks e) = o_keep_ws o) by (subst e; unfold enc_env, make_env; cbn; now rewrite negb_involutive).
  assert (Hst0 : tagcp (start_state e [NElt tag attrs ch]) = 0 /\ attrcp (start_state e [NElt tag attrs ch]) = 0).
  { unfold start_state. destruct (e_use_strtbl e); [destruct (strtbl_initialize _ _)|]; cbn; auto. }
  destruct Hst0 as (Z2 & Z3).
  destruct (all_node_den3 L e HE HP HV HX Ho (final_tbl e st') (doc_strtbl e st') HRES HU32 HREF (NElt tag attrs ch) None 0 None _ [root] st'
                          (S.mk_dstate 0 0 None) HT HSUB (eq_sym Z2) (eq_sym Z3) AN) as (evs & dst' & DN & MG & _).
  cbn [abs_node] in AN.
  destruct (abs_tag e _ tag _ _) as [[[sw wtag] st2]|]; [|discriminate].
  destruct (if has_attr_table e then abs_attrs e st2 attrs else Some ([], st2)) as [[ws st3]|]; [|discriminate].
  destruct (abs_seq (abs_node e) (Some tag) ch st3) as [[its st4]|]; [|discriminate]. injection AN as <- <-.
  eexists. split; [exact (doc_wrap TBL L e _ _ _ _ _ _ evs dst' DN Hv Hp1 Hp0 Hb1 Hb2 Hidx)|].
  unfold doc_events3, norm. cbn [flat_map app]. rewrite !app_nil_r. cbn [merge_chars]. f_equal.
  apply merge_app_congr; [|reflexivity]. rewrite MG, Hk. cbn [flat_map]. now rewrite ?app_nil_r.
Qed.

(* ---- the facts about the table that is written -------------------------------------------------------------------------------------- *)
Lemma entry_size T x : In x T -> len (s_str x) + 1 <= tbl_size T.
Proof.
  induction T as [|y r IH]; [intros []|]. cbn [tbl_size]. intros [->|H]; [lia|]. specialize (IH H). lia.
Qed.

Lemma fill_header_len e st :
  (if e_use_strtbl e then tbl_size (final_tbl e st) else match header_pid e with Some p => len p + 1 | None => 0 end)
  <= len (fill_header e st).
Proof.
  unfold fill_header, final_tbl, header_table, header_pid. cbv zeta.
  destruct ((header_public_id e =? 1) && negb (e_anonymous e)); [destruct (bl_pub_text (e_lang e)) as [p|]|].
  - destruct (e_use_strtbl e).
    + destruct (strtbl_add _ _ _) as [[idx t] tl]. rewrite !len_app, strtbl_construct_len. lia.
    + rewrite !len_app. change (len [0]) with 1. lia.
  - destruct (e_use_strtbl e); rewrite !len_app, ?strtbl_construct_len; lia.
  - destruct (e_use_strtbl e); rewrite !len_app, ?strtbl_construct_len; lia.
Qed.

(* generic in what is known of the final state: its table holds octets < 256, and it is empty when no table is used *)
Lemma final_facts_gen tblb l o roots body st' :
  let e := enc_env l o in
  enc_body tblb l o roots = EOk (body, st') ->
  tbl_lt (strtbl st') = true ->
  (e_use_strtbl e = false -> strtbl st' = [] /\ strtbl_len st' = 0) ->
  (match header_pid e with Some p => okb p = true | None => True end) ->
  (if e_use_strtbl e then tbl_size (final_tbl e st') < 4294967296
   else match header_pid e with Some p => len p + 1 < 4294967296 | None => True end) ->
  (forall x, In x (final_tbl e st') -> okb (s_str x) = true -> S.str_at (doc_strtbl e st') (s_off x) = Some (s_str x)) /\
  (forall x, In x (final_tbl e st') -> S.u32_okb (s_off x) = true) /\
  (forall x, In x (final_tbl e st') -> ref_str (final_tbl e st') (s_off x) = s_str x) /\
  (forall x, In x (strtbl st') -> In x (final_tbl e st')) /\
  S.bytes_okb (doc_strtbl e st') = true /\ Parser.blen (doc_strtbl e st') < 4294967296 /\
  final_idx e st' < 4294967296 /\
  (let '(_, t, _) := header_table e st' in tbl_size t < 4294967296) /\
  (match header_pid e with Some p => len p + 1 < 4294967296 | None => True end).
Proof.
  cbv zeta. intros EB TOK NOTBL Hpid Hsz. set (e := enc_env l o) in *.
  destruct (e_use_strtbl e) eqn:HU.
  - (* string table in use *)
    assert (GEN : forall idx t, (exists x, t = strtbl st' ++ x) -> tbl_lt t = true -> offsets_from 0 t ->
              tbl_size t < 4294967296 -> (idx = 0 \/ exists x, In x t /\ s_off x = idx) ->
              (forall x, In x t -> okb (s_str x) = true -> S.str_at (strtbl_construct t) (s_off x) = Some (s_str x)) /\
              (forall x, In x t -> S.u32_okb (s_off x) = true) /\
              (forall x, In x t -> ref_str t (s_off x) = s_str x) /\
              (forall x, In x (strtbl st') -> In x t) /\
              S.bytes_okb (strtbl_construct t) = true /\ Parser.blen (strtbl_construct t) < 4294967296 /\
              idx < 4294967296 /\ tbl_size t < 4294967296).
    { intros idx t [y ->] Tok Hot Hb Hidx.
      assert (U32 : forall x, In x (strtbl st' ++ y) -> S.u32_okb (s_off x) = true).
      { intros x Hin. unfold S.u32_okb. apply N.ltb_lt. pose proof (offsets_lt 0 _ x Hot Hin). lia. }
      split; [|split; [exact U32|split; [|split; [|split; [|split; [|split]]]]]].
      - intros x Hin Hok. now apply entry_resolves.
      - intros x Hin. exact (ref_str_resolves 0 _ x Hot Hin).
      - intros x Hin. apply in_or_app. now left.
      - now apply construct_lt.
      - change (Parser.blen (strtbl_construct (strtbl st' ++ y))) with (len (strtbl_construct (strtbl st' ++ y))).
        now rewrite strtbl_construct_len.
      - destruct Hidx as [->|(x & Hin & <-)]; [lia|]. specialize (U32 x Hin). unfold S.u32_okb in U32. now apply N.ltb_lt in U32.
      - exact Hb. }
    unfold final_tbl, final_idx, doc_strtbl in *. unfold header_table in *. rewrite HU in *.
    destruct (header_pid e) as [p|].
    + destruct (strtbl_add (strtbl st') (strtbl_len st') p) as [[idx t] tlen] eqn:A.
      destruct (strtbl_add_ok _ _ _ _ _ _ A) as (Hx & HI).
      assert (Hbnd : bnd st') by (destruct Hx as [x ->]; unfold bnd; rewrite tbl_size_app in Hsz; lia).
      pose proof (enc_body_strtbl_exact tblb l o _ body st' EB Hbnd) as [Ho Hl].
      destruct (HI (conj Ho Hl) Hsz) as [Hot _].
      destruct (strtbl_add_entry _ _ _ _ _ _ A) as (x0 & Hin0 & Hoff0 & Hstr0).
      destruct (GEN idx t Hx (strtbl_add_all _ _ _ _ _ _ _ TOK (okb_lt _ Hpid) A) Hot Hsz (or_intror (ex_intro _ x0 (conj Hin0 Hoff0))))
        as (G1 & G2 & G3 & G4 & G5 & G6 & G7 & G8).
      repeat split; try assumption.
      pose proof (entry_size t x0 Hin0) as Hes. rewrite Hstr0 in Hes. lia.
    + pose proof (enc_body_strtbl_exact tblb l o _ body st' EB Hsz) as [Ho Hl].
      destruct (GEN 0 (strtbl st') (ex_intro _ [] (eq_sym (app_nil_r _))) TOK Ho Hsz (or_introl eq_refl))
        as (G1 & G2 & G3 & G4 & G5 & G6 & G7 & G8).
      repeat split; try assumption.
  - (* no string table: the encoder's table stays empty *)
    destruct (NOTBL eq_refl) as [S1 S2].
    unfold final_tbl, final_idx, doc_strtbl in *. unfold header_table in *. rewrite HU in *.
    destruct (header_pid e) as [p|]; rewrite S1; cbn [tbl_size].
    + repeat split; try (intros x []); try lia; try exact Hsz.
      * unfold S.bytes_okb. rewrite forallb_app. unfold okb, S.str_okb in Hpid. apply andb_true_iff in Hpid as [Hp _].
        unfold S.bytes_okb in Hp. now rewrite Hp.
      * change (Parser.blen (p ++ [0])) with (len (p ++ [0])). rewrite len_app. exact Hsz.
    + repeat split; try (intros x []); try lia; try reflexivity.
Qed.

Lemma final_facts tblb L o tag attrs ch body st' root :
  let e := enc_env (to_blang L) o in
  tree_ok3 L 0 (NElt tag attrs ch) = true ->
  enc_body tblb (to_blang L) o [NElt tag attrs ch] = EOk (body, st') ->
  abs_node e None (NElt tag attrs ch) (start_state e [NElt tag attrs ch]) = Some ([root], st') ->
  (match header_pid e with Some p => okb p = true | None => True end) ->
  (if e_use_strtbl e then tbl_size (final_tbl e st') < 4294967296
   else match header_pid e with Some p => len p + 1 < 4294967296 | None => True end) ->
  (forall x, In x (final_tbl e st') -> okb (s_str x) = true -> S.str_at (doc_strtbl e st') (s_off x) = Some (s_str x)) /\
  (forall x, In x (final_tbl e st') -> S.u32_okb (s_off x) = true) /\
  (forall x, In x (final_tbl e st') -> ref_str (final_tbl e st') (s_off x) = s_str x) /\
  (forall x, In x (strtbl st') -> In x (final_tbl e st')) /\
  S.bytes_okb (doc_strtbl e st') = true /\ Parser.blen (doc_strtbl e st') < 4294967296 /\
  final_idx e st' < 4294967296 /\
  (let '(_, t, _) := header_table e st' in tbl_size t < 4294967296) /\
  (match header_pid e with Some p => len p + 1 < 4294967296 | None => True end).
Proof.
  cbv zeta. intros HT EB AN Hpid Hsz.
  apply (final_facts_gen tblb (to_blang L) o _ body st' EB); [| |exact Hpid|exact Hsz].
  - apply tbl_ok_lt. exact (abs_node_tok _ L _ None 0 _ _ _ HT (start_state_ok _ L _ 0 HT) AN).
  - intros HU. pose proof (abs_node_same _ _ HU _ _ _ _ AN) as [S1 S2].
    unfold start_state in S1, S2. rewrite HU in S1, S2. cbn in S1, S2. auto.
Qed.

(* ---- the whole statement, string table on or off ------------------------------------------------------------------------------------ *)
Theorem strict_decode_of_encoding3 tblb TBL L o tag attrs ch bs :
  let e := enc_env (to_blang L) o in
  plain_env e = true -> vals_ok L = true -> l_exts L = None ->
  tree_ok3 L 0 (NElt tag attrs ch) = true ->
  find (fun x => l_id x =? l_id L) TBL = Some L ->
  o_version o < 4 -> header_public_id e < 4294967296 -> header_public_id e <> 0 ->
  (match header_pid e with Some p => okb p = true | None => True end) ->
  len bs < 4294967296 ->
  enc_wbxml tblb (to_blang L) o [NElt tag attrs ch] = EOk bs ->
  exists d evs, bs = S.serialize d /\ S.strict_doc d = true /\
            S.denote_with TBL (Some L) d = Some evs /\ S.decode_lang TBL (l_id L) bs = Some evs /\
            merge_chars evs = merge_chars (doc_events3 L e (o_keep_ws o) (NElt tag attrs ch)).
Proof.
  cbv zeta. intros HP HV HX HT HFind Hv Hp1 Hp0 Hpid Hlen E. set (e := enc_env (to_blang L) o) in *.
  assert (HF : frag2_node e (NElt tag attrs ch) = true) by (apply (tree_ok3_frag2 L e eq_refl _ 0 HT)).
  destruct (enc_wbxml_serialize2 tblb (to_blang L) o tag attrs ch bs HP HF E) as (st' & root & EB & AN & HS).
  assert (Hsz : if e_use_strtbl e then tbl_size (final_tbl e st') < 4294967296
                else match header_pid e with Some p => len p + 1 < 4294967296 | None => True end).
  { rewrite enc_wbxml_form_local, EB in E. injection E as <-. rewrite len_app in Hlen.
    pose proof (fill_header_len e st') as HL. fold e in Hlen.
    destruct (e_use_strtbl e); [lia|]. destruct (header_pid e); [lia|exact I]. }
  destruct (final_facts tblb L o tag attrs ch _ st' root HT EB AN Hpid Hsz) as (G1 & G2 & G3 & G4 & G5 & G6 & G7 & G8 & G9).
  pose proof (header_len_ok_holds tblb (to_blang L) o tag attrs ch _ st' root EB AN G8 G9) as HL.
  pose proof (abs_doc2_strict tblb (to_blang L) o tag attrs ch _ st' root EB AN G8) as Hstrict.
  destruct (abs_doc3_denotes TBL L o tag attrs ch st' root HP HV HX HT AN G1 G2 G3 G4 Hv Hp1 Hp0 G5 G6 G7) as (evs & Hden & MG).
  exists (abs_doc2 e st' root), evs. split; [exact (HS HL)|]. split; [exact Hstrict|]. split; [exact Hden|]. split; [|exact MG].
  rewrite (HS HL). apply Proofs.ParserProofsStrict3.decode_lang_serialize; [|exact Hstrict]. rewrite HFind. exact Hden.
Qed.

(* C07: the outputs for ANY two option tuples {version} x {string table} x {anonymous} (same white-space option) decode
   (proved strict decoder, language forced) to event lists that are equal modulo merge_chars *)
Theorem options_decode_equal3 tblb TBL L v1 v2 s1 s2 a1 a2 k tag attrs ch bs1 bs2 :
  let o1 := mk_opts v1 s1 k a1 in let o2 := mk_opts v2 s2 k a2 in
  plain_env (enc_env (to_blang L) o1) = true -> vals_ok L = true -> l_exts L = None ->
  tree_ok3 L 0 (NElt tag attrs ch) = true ->
  find (fun x => l_id x =? l_id L) TBL = Some L ->
  v1 < 4 -> v2 < 4 -> l_pub_num L < 4294967296 -> l_pub_num L <> 0 ->
  (match l_pub_text L with Some p => okb (P.B p) = true | None => True end) ->
  len bs1 < 4294967296 -> len bs2 < 4294967296 ->
  enc_wbxml tblb (to_blang L) o1 [NElt tag attrs ch] = EOk bs1 ->
  enc_wbxml tblb (to_blang L) o2 [NElt tag attrs ch] = EOk bs2 ->
  exists ev1 ev2, S.decode_lang TBL (l_id L) bs1 = Some ev1 /\ S.decode_lang TBL (l_id L) bs2 = Some ev2 /\
                  merge_chars ev1 = merge_chars ev2.
Proof.
  cbv zeta. intros HP HV HX HT HFind Hv1 Hv2 Hn1 Hn0 Hpt Hl1 Hl2 E1 E2.
  assert (PID : forall v s a, header_public_id (enc_env (to_blang L) (mk_opts v s k a)) < 4294967296 /\
                              header_public_id (enc_env (to_blang L) (mk_opts v s k a)) <> 0 /\
                              match header_pid (enc_env (to_blang L) (mk_opts v s k a)) with
                              | Some p => okb p = true | None => True end).
  { intros v s a. unfold header_public_id, header_pid, header_public_id. cbn [e_anonymous enc_env make_env e_lang to_blang bl_pub_num bl_pub_text o_anonymous].
    destruct a; cbn [negb andb].
    - rewrite andb_false_r. split; [lia|]. split; [lia|exact I].
    - split; [exact Hn1|]. split; [exact Hn0|]. destruct ((l_pub_num L =? 1) && true); [|exact I].
      destruct (l_pub_text L); [exact Hpt|exact I]. }
  destruct (PID v1 s1 a1) as (P1 & P2 & P3). destruct (PID v2 s2 a2) as (Q1 & Q2 & Q3).
  destruct (strict_decode_of_encoding3 tblb TBL L (mk_opts v1 s1 k a1) tag attrs ch bs1 HP HV HX HT HFind Hv1 P1 P2 P3 Hl1 E1)
    as (d1 & ev1 & _ & _ & _ & D1' & M1).
  destruct (strict_decode_of_encoding3 tblb TBL L (mk_opts v2 s2 k a2) tag attrs ch bs2 HP HV HX HT HFind Hv2 Q1 Q2 Q3 Hl2 E2)
    as (d2 & ev2 & _ & _ & _ & D2' & M2).
  exists ev1, ev2. split; [exact D1'|]. split; [exact D2'|]. rewrite M1, M2. reflexivity.
Qed.
