(* C03 — from the first iteration to the second: the normalised form of a source tree that has the properties of a
   front-end tree (src_ok) satisfies every hypothesis the second-iteration theorem makes about its tree. *)
From Coq Require Import String Ascii.
From Coq Require Import List NArith ZArith Lia Bool.
From Wbxml Require Import Model.Codec Model.TablesDefs Model.Parser Model.TreeBuild Model.TreeConv Model.Conv Model.ConvConcrete
     Proofs.TreeBuildProofs Proofs.TreeBuildProofs3 Proofs.TreeRoundTrip Proofs.ConvRoundTrip Proofs.ConvSecondIter.
From Wbxml Require Model.EncWbxml Model.TreeNorm Proofs.TreeNormProofs Proofs.EncWbxmlProofs Proofs.EncWbxmlSerialize Proofs.EncWbxmlDenote.
From Wbxml Require Model.EncXml Model.XmlRead Proofs.EncXmlProofs Proofs.EncXmlIndent.
From Wbxml Require Model.XmlFront Model.ConvXml2Wbxml Proofs.FrontSimple.
Import ListNotations.
Local Open Scope N_scope.

Module TN := Wbxml.Model.TreeNorm.
Module TNP := Wbxml.Proofs.TreeNormProofs.
Module D := Wbxml.Proofs.EncWbxmlDenote.
Module SZ := Wbxml.Proofs.EncWbxmlSerialize.

(* ---- the two copies of the white-space functions agree (EncXml / EncWbxml) ---- *)
Lemma only_ws_same c : X.only_ws c = E.only_ws c.
Proof. reflexivity. Qed.
Lemma drop_ws_same c : X.drop_ws c = E.drop_ws c.
Proof. induction c as [|b r IH]; [reflexivity|]. cbn [X.drop_ws E.drop_ws]. change (X.c_isspace b) with (E.isspace b). destruct (E.isspace b); [exact IH|reflexivity]. Qed.
Lemma strip_same c : X.strip_blanks c = E.strip_blanks c.
Proof. unfold X.strip_blanks. rewrite TNP.strip_blanks_eq, !drop_ws_same; reflexivity. Qed.

Lemma beq_eq a : forall b, E.beq a b = true -> a = b.
Proof.
  induction a as [|x a IH]; intros [|y b]; cbn [E.beq]; try discriminate; [reflexivity|].
  intros H. apply andb_prop in H. destruct H as [H1 H2]. apply N.eqb_eq in H1. subst. f_equal. apply IH. exact H2.
Qed.
Lemma beq_bytes_eqb a : forall b, E.beq a b = bytes_eqb a b.
Proof. induction a as [|x a IH]; intros [|y b]; cbn [E.beq bytes_eqb]; try reflexivity; rewrite IH; reflexivity. Qed.

(* ---- NUL-free texts ---- *)
Definition nulfree (c : bytes) : bool := forallb (fun b => negb (b =? 0)) c.
Lemma cstr_nulfree c : cstr c = c <-> nulfree c = true.
Proof.
  unfold nulfree. induction c as [|b r IH]; cbn [cstr forallb]; [tauto|].
  destruct (N.eqb b 0) eqn:E; cbn [negb andb].
  - split; discriminate.
  - split; [intros H; injection H as H; apply IH; exact H|intros H; f_equal; apply IH; exact H].
Qed.
Lemma nulfree_drop c : nulfree c = true -> nulfree (E.drop_ws c) = true.
Proof.
  unfold nulfree. induction c as [|b r IH]; cbn [E.drop_ws forallb]; [reflexivity|]. intros H. apply andb_prop in H. destruct H as [H1 H2].
  destruct (E.isspace b); [apply IH; exact H2|]. cbn [forallb]. rewrite H1, H2. reflexivity.
Qed.
Lemma nulfree_rev c : nulfree c = true -> nulfree (rev c) = true.
Proof. unfold nulfree. intros H. apply forallb_forall. intros x Hx. apply in_rev in Hx. rewrite forallb_forall in H. apply H. exact Hx. Qed.
Lemma nulfree_strip c : nulfree c = true -> nulfree (E.strip_blanks c) = true.
Proof. intros H. rewrite TNP.strip_blanks_eq. apply nulfree_rev, nulfree_drop, nulfree_rev, nulfree_drop, H. Qed.

(* ---- the source tree: what the front end builds from Expat's events (not proved here; every clause is decidable) ---- *)
Fixpoint src_ok (L : lang) (d : nat) (n : E.node) : Prop :=
  match n with
  | E.NElt (E.TagTok p t o nm) [] ch =>
    XF.resolve_tag L nm = (E.TagTok p t o nm, p) /\ XF.is_embedded_name nm = false /\ (d < 1000)%nat /\
    X.tag_is_binary (XP.cur_of (to_tname L (TagTok p t nm))) = false /\ FS.no_adj ch = true /\
    (fix all (l : list E.node) : Prop := match l with [] => True | x :: r => src_ok L (S d) x /\ all r end) ch
  | E.NText c => cstr c = c /\ c <> []
  | _ => False
  end.

Fixpoint all_src (L : lang) (d : nat) (l : list E.node) : Prop := match l with [] => True | x :: r => src_ok L d x /\ all_src L d r end.

(* ---- norm keeps the absence of adjacent texts ---- *)
Lemma norm_elt_shape keep n : FS.is_text n = false -> (match n with E.NElt _ _ _ => True | _ => False end) ->
  exists n', TN.norm_node keep false n = [n'] /\ FS.is_text n' = false.
Proof. destruct n; try contradiction. intros _ _. eexists. split; [reflexivity|reflexivity]. Qed.

Lemma norm_no_adj L d keep : forall ch, all_src L d ch -> FS.no_adj ch = true -> FS.no_adj (flat_map (TN.norm_node keep false) ch) = true.
Proof.
  induction ch as [|x r IH]; intros Ha Hn; [reflexivity|]. destruct Ha as [Hx Hr]. cbn [FS.no_adj] in Hn. apply andb_prop in Hn. destruct Hn as [Hn1 Hn2].
  specialize (IH Hr Hn2). cbn [flat_map].
  destruct x as [tg a ch0|c|ch0| |lid roots]; cbn [src_ok] in Hx; try contradiction.
  - cbn [TN.norm_node app FS.no_adj FS.is_text andb negb]. exact IH.
  - cbn [TN.norm_node]. unfold TN.norm_text. destruct (keep || false); [|destruct (E.only_ws c)]; cbn [app]; try exact IH.
    all: cbn [FS.no_adj FS.is_text andb]; rewrite IH, andb_true_r; apply negb_true_iff;
      destruct r as [|y r']; [reflexivity|]; cbn [FS.is_text andb] in Hn1; apply negb_true_iff in Hn1;
      destruct Hr as [Hy _]; destruct y as [tg a ch1|c1|ch1| |lid roots]; cbn [src_ok] in Hy; try contradiction; [reflexivity|discriminate].
Qed.

(* ---- the normalised tree satisfies enormal ---- *)
Lemma norm_text_enormal keep c : cstr c = c -> c <> [] -> Forall (enormal keep) (TN.norm_text keep false c).
Proof.
  intros Hcs Hne. unfold TN.norm_text. destruct keep; cbn [orb].
  - constructor; [|constructor]. cbn [enormal]. repeat split; [exact Hcs|exact Hne|left; reflexivity].
  - destruct (E.only_ws c) eqn:Ew; constructor; [|constructor]. cbn [enormal].
    pose proof (TNP.strip_blanks_not_blank c Ew) as Hnb.
    repeat split.
    + apply cstr_nulfree, nulfree_strip, cstr_nulfree. exact Hcs.
    + intros E0. rewrite E0 in Hnb. discriminate.
    + right. split; [exact Hnb|apply TNP.strip_blanks_idem].
Qed.

Lemma norm_enormal L keep : forall n d, src_ok L d n -> Forall (enormal keep) (TN.norm_node keep false n).
Proof.
  fix IH 1. intros n d Hn. destruct n as [tg a ch|c|ch| |lid roots]; cbn [src_ok] in Hn; try contradiction.
  - destruct tg as [p t o nm|nm]; [|contradiction]. destruct a as [|a0 ar]; [|contradiction].
    destruct Hn as (_ & _ & _ & _ & Hna & Hall). cbn [TN.norm_node]. constructor; [|constructor].
    cbn [enormal]. split.
    + apply (norm_no_adj L (S d)); [|exact Hna]. clear -Hall. induction ch as [|x r IHr]; [exact I|]. destruct Hall as [Hx Hr]. split; [exact Hx|exact (IHr Hr)].
    + assert (HF : Forall (enormal keep) (flat_map (TN.norm_node keep false) ch)).
      { clear Hna. induction ch as [|x r IHr]; [constructor|]. destruct Hall as [Hx Hr]. cbn [flat_map]. apply Forall_app. split; [exact (IH x (S d) Hx)|exact (IHr Hr)]. }
      clear -HF. induction HF as [|y ys Hy _ IHy]; [exact I|]. split; [exact Hy|exact IHy].
  - destruct Hn as [Hcs Hne]. cbn [TN.norm_node]. exact (norm_text_enormal keep c Hcs Hne).
Qed.

(* ---- fgood, nm_ok, tgood for the normalised tree ---- *)
Definition s_Data_is : XF.s_Data = B "Data"%string := eq_refl.

Lemma norm_fgood L keep : forall n d, src_ok L d n -> SZ.frag_node n = true ->
  no_data (flat_map D.events_node (TN.norm_node keep false n)) = true ->
  Forall (FS.fgood L d) (TN.norm_node keep false n).
Proof.
  fix IH 1. intros n d Hn Hf Hnd. destruct n as [tg a ch|c|ch| |lid roots]; cbn [src_ok] in Hn; try contradiction.
  - destruct tg as [p t o nm|nm]; [|contradiction]. destruct a as [|a0 ar]; [|contradiction].
    destruct Hn as (Hres & Hemb & Hd & _ & Hna & Hall). cbn [TN.norm_node] in *. constructor; [|constructor].
    cbn [SZ.frag_node] in Hf. rewrite !andb_true_iff in Hf. destruct Hf as [[[_ _] Hbin] Hfch]. apply N.eqb_eq in Hbin.
    cbn [flat_map D.events_node app] in Hnd. rewrite app_nil_r in Hnd. unfold no_data in Hnd. cbn [forallb] in Hnd. rewrite forallb_app in Hnd.
    rewrite !andb_true_iff in Hnd. destruct Hnd as [Hnd0 [Hndch _]].
    cbn [FS.fgood]. repeat split.
    + exact Hres.
    + exact Hbin.
    + unfold not_data in Hnd0. apply negb_true_iff in Hnd0. cbn [tag_name] in Hnd0. rewrite beq_bytes_eqb. exact Hnd0.
    + exact Hemb.
    + exact Hd.
    + apply (norm_no_adj L (S d)); [|exact Hna]. clear -Hall. induction ch as [|x r IHr]; [exact I|]. destruct Hall as [Hx Hr]. split; [exact Hx|exact (IHr Hr)].
    + assert (HF : Forall (FS.fgood L (S d)) (flat_map (TN.norm_node keep false) ch)).
      { clear Hna. induction ch as [|x r IHr]; [constructor|]. destruct Hall as [Hx Hr]. cbn [flat_map forallb] in *.
        apply andb_prop in Hfch. destruct Hfch as [Hfx Hfr]. rewrite flat_map_app, forallb_app in Hndch. apply andb_prop in Hndch. destruct Hndch as [Hnx Hnr].
        apply Forall_app. split; [exact (IH x (S d) Hx Hfx Hnx)|exact (IHr Hr Hfr Hnr)]. }
      clear -HF. induction HF as [|y ys Hy _ IHy]; [exact I|]. split; [exact Hy|exact IHy].
  - cbn [TN.norm_node]. unfold TN.norm_text. destruct (keep || false); [|destruct (E.only_ws c)]; repeat constructor.
Qed.

Lemma norm_nm_ok L keep : forall n d, D.tree_ok L d n = true -> Forall (nm_ok L) (TN.norm_node keep false n).
Proof.
  fix IH 1. intros n d Ht. destruct n as [tg a ch|c|ch| |lid roots]; cbn [D.tree_ok] in Ht; try discriminate.
  - destruct tg as [p t o nm|nm]; [|discriminate]. rewrite !andb_true_iff in Ht. destruct Ht as [[[_ _] Hlk] Hch].
    cbn [TN.norm_node]. constructor; [|constructor]. cbn [nm_ok]. split.
    + unfold to_tname. unfold Spec.lookup_tag in Hlk. destruct (find _ (opt_list (l_tags L))) as [r|]; [|discriminate].
      rewrite !andb_true_iff in Hlk. destruct Hlk as [_ Hb]. apply beq_eq in Hb. cbn [X.tname_bytes X.trow_of X.tr_name]. exact Hb.
    + assert (HF : Forall (nm_ok L) (flat_map (TN.norm_node keep false) ch)).
      { induction ch as [|x r IHr]; [constructor|]. cbn [flat_map forallb] in *. apply andb_prop in Hch. destruct Hch as [Hx Hr].
        apply Forall_app. split; [exact (IH x (d + 1) Hx)|exact (IHr Hr)]. }
      clear -HF. induction HF as [|y ys Hy _ IHy]; [exact I|]. split; [exact Hy|exact IHy].
  - cbn [TN.norm_node]. unfold TN.norm_text. destruct (keep || false); [|destruct (E.only_ws c)]; repeat constructor.
Qed.

(* the generator's white-space policy does not go further than the encoder's did *)
Definition keep_compatible (ekeep : bool) (xo : X.opts) : Prop :=
  (X.o_ignore_empty xo = false /\ X.o_remove_blanks xo = false) \/ ekeep = false.

Lemma norm_text_tgood L keep xo c : keep_compatible keep xo -> c <> [] ->
  Forall (fun m => tgood L xo (tnode_of m)) (TN.norm_text keep false c).
Proof.
  intros Hk Hne. unfold TN.norm_text. destruct keep; cbn [orb].
  - constructor; [|constructor]. cbn [tnode_of tgood]. unfold gen_stable. destruct Hk as [[H1 H2]|H]; [|discriminate].
    repeat split; [exact Hne|left; exact H1|left; exact H2].
  - destruct (E.only_ws c) eqn:Ew; constructor; [|constructor]. cbn [tnode_of tgood]. unfold gen_stable.
    pose proof (TNP.strip_blanks_not_blank c Ew) as Hnb.
    repeat split.
    + intros E0. rewrite E0 in Hnb. discriminate.
    + right. rewrite only_ws_same. exact Hnb.
    + right. rewrite strip_same. apply TNP.strip_blanks_idem.
Qed.

Lemma norm_tgood L keep xo : keep_compatible keep xo -> forall n d, src_ok L d n ->
  Forall (fun m => tgood L xo (tnode_of m)) (TN.norm_node keep false n).
Proof.
  intros Hk. fix IH 1. intros n d Hn. destruct n as [tg a ch|c|ch| |lid roots]; cbn [src_ok] in Hn; try contradiction.
  - destruct tg as [p t o nm|nm]; [|contradiction]. destruct a as [|a0 ar]; [|contradiction].
    destruct Hn as (_ & _ & _ & Hnb & Hna & Hall). cbn [TN.norm_node]. constructor; [|constructor].
    cbn [tnode_of tgood]. split; [exact Hnb|]. split.
    + apply no_adj_map. apply (norm_no_adj L (S d)); [|exact Hna]. clear -Hall. induction ch as [|x r IHr]; [exact I|]. destruct Hall as [Hx Hr]. split; [exact Hx|exact (IHr Hr)].
    + assert (HF : Forall (fun m => tgood L xo (tnode_of m)) (flat_map (TN.norm_node keep false) ch)).
      { clear Hna. induction ch as [|x r IHr]; [constructor|]. destruct Hall as [Hx Hr]. cbn [flat_map]. apply Forall_app. split; [exact (IH x (S d) Hx)|exact (IHr Hr)]. }
      induction HF as [|y ys Hy _ IHy]; [exact I|]. cbn [map]. split; [exact Hy|exact IHy].
  - destruct Hn as [Hcs Hne]. cbn [TN.norm_node]. exact (norm_text_tgood L keep xo c Hk Hne).
Qed.

(* fragment predicates of the normalised tree *)
Lemma norm_frag keep : forall n, SZ.frag_node n = true -> forallb SZ.frag_node (TN.norm_node keep false n) = true.
Proof.
  fix IH 1. intros n Hf. destruct n as [tg a ch|c|ch| |lid roots]; cbn [SZ.frag_node] in Hf; try discriminate.
  - destruct tg as [p t o nm|nm]; [|discriminate]. destruct a as [|a0 ar]; [|discriminate].
    rewrite !andb_true_iff in Hf. destruct Hf as [[[H1 H2] H3] Hch].
    cbn [TN.norm_node forallb SZ.frag_node]. rewrite H1, H2, H3, andb_true_r. cbn [andb].
    induction ch as [|x r IHr]; [reflexivity|]. cbn [flat_map forallb] in *. apply andb_prop in Hch. destruct Hch as [Hx Hr].
    rewrite forallb_app, (IH x Hx), (IHr Hr). reflexivity.
  - cbn [TN.norm_node]. unfold TN.norm_text. destruct (keep || false); [|destruct (E.only_ws c)]; reflexivity.
Qed.

Lemma norm_tree_ok L keep : forall n d, D.tree_ok L d n = true -> forallb (D.tree_ok L d) (TN.norm_node keep false n) = true.
Proof.
  fix IH 1. intros n d Ht. destruct n as [tg a ch|c|ch| |lid roots]; cbn [D.tree_ok] in Ht; try discriminate.
  - destruct tg as [p t o nm|nm]; [|discriminate]. rewrite !andb_true_iff in Ht. destruct Ht as [[[H1 H2] H3] Hch].
    cbn [TN.norm_node forallb D.tree_ok]. rewrite H1, H2, H3, andb_true_r. cbn [andb].
    induction ch as [|x r IHr]; [reflexivity|]. cbn [flat_map forallb] in *. apply andb_prop in Hch. destruct Hch as [Hx Hr].
    rewrite forallb_app, (IH x (d + 1) Hx), (IHr Hr). reflexivity.
  - cbn [TN.norm_node]. unfold TN.norm_text. destruct (keep || false); [|destruct (E.only_ws c)]; cbn [forallb D.tree_ok]; rewrite ?andb_true_r; try reflexivity; try exact Ht.
    apply D.strip_lt. exact Ht.
Qed.

(* ---- one theorem: round trip and idempotence from the hypotheses about the SOURCE ---- *)
Section EndToEnd.
Variables (main TBL : list lang) (btbl : list E.blang) (sub : E.bytes -> XF.xtree + N).

Theorem roundtrip_and_idempotence evs expat_ok o doc w (L : lang) l p t opts nm ch o' :
  let root := E.NElt (E.TagTok p t opts nm) [] ch in
  let R2 := E.NElt (E.TagTok p t opts nm) [] (flat_map (TN.norm_node (E.o_keep_ws o) false) ch) in
  let root' := tnode_of R2 in
  let xl := X.xlang_of L in
  let xo := X.opts_of_params (gen_of (wo_gen o')) (wo_indent o') (wo_keep_ws o') in
  (* the hypotheses of the first-iteration theorem *)
  r_out (ConvXml2Wbxml.xml2wbxml_events main btbl sub evs expat_ok o doc) = Some w ->
  (forall t0, XF.tree_from_xml main sub doc evs expat_ok = inl t0 ->
     E.find_lang btbl (XF.xt_lang t0) = Some l /\ XF.xt_roots t0 = [root]) ->
  SZ.frag_lang l = true -> E.o_use_strtbl o = false -> Proofs.EncWbxmlProofs.no_pid (E.enc_env l o) = true ->
  SZ.frag_node root = true ->
  find (fun y => l_id y =? l_id L) TBL = Some L ->
  lang_choice TBL L (E.header_public_id (E.enc_env l o)) (wo_lang o') -> wo_charset o' = 0 ->
  D.tree_ok L 0 root = true ->
  E.o_version o < 4 -> E.header_public_id (E.enc_env l o) < 4294967296 -> E.header_public_id (E.enc_env l o) <> 0 ->
  no_data (flat_map D.events_node (TN.norm (E.o_keep_ws o) [root])) = true ->
  (* the source tree is a tree of the front end: names resolve back, depth, no NUL, no empty or adjacent texts *)
  src_ok L 0 root -> E.find_lang btbl (l_id L) = Some l ->
  LangSelect.search_table main (option_map XF.str (X.xl_pub xl)) (Some (XF.str (X.xl_dtd xl))) None = Some L ->
  (* the generator: compact or canonical, no namespace table, not SyncML, white-space policy not stricter than the encoder's *)
  X.is_indent xo = false -> X.xl_ns xl = None -> X.is_syncml xl = false -> keep_compatible (E.o_keep_ws o) xo ->
  (* the strings of the tree are XML names and characters (for the reader) *)
  XP.lang_ok xl = true -> XI.node_ok_g xl xo X.proot None (to_xnode TBL L root') = true ->
  exists x c d,
    (* one trip *)
    wbxml2xml_model TBL o' w = mk_res ST_OK (Some (x ++ [0])) (N.of_nat (length x)) /\
    X.enc_xml_opts xl xo [to_xnode TBL L root'] = X.XOk x /\
    d = XP.doc_of xl [XR.XE (X.tname_bytes (to_tname L (TagTok p t nm))) [] c] /\
    c = flat_map (item_of L) (map tnode_of (flat_map (TN.norm_node (E.o_keep_ws o) false) ch)) /\
    (forall fuel, (XP.node_fuel (to_xnode TBL L root') + 2 <= fuel)%nat -> XR.read_xml fuel x = XR.ROk d) /\
    (* the second trip *)
    events_of_info d = FS.doc_events (X.xl_root xl) (Some (X.xl_dtd xl)) (X.xl_pub xl) R2 /\
    forall doc2, doc2 <> [] ->
      XF.tree_from_xml main sub doc2 (events_of_info d) true = inl (XF.mk_xtree (l_id L) 0 [R2]) /\
      exists w2, r_out (ConvXml2Wbxml.xml2wbxml_events main btbl sub (events_of_info d) true o doc2) = Some w2 /\
                 wbxml2xml_model TBL o' w2 = mk_res ST_OK (Some (x ++ [0])) (N.of_nat (length x)).
Proof.
  intros root R2 root' xl xo H1 Hfront HL HU HP HF HFind Hch Hcs HT Hv Hp1 Hp0 Hnd Hsrc Hfl Hst Hcomp Hns Hsyn Hkc Hlok Hok.
  set (keep := E.o_keep_ws o) in *.
  set (ch2 := flat_map (TN.norm_node keep false) ch) in *.
  (* facts about R2 *)
  assert (Hnorm : TN.norm_node keep false root = [R2]) by reflexivity.
  assert (Hen : enormal keep R2).
  { pose proof (norm_enormal L keep root 0%nat Hsrc) as H. rewrite Hnorm in H. inversion H. assumption. }
  assert (Hidem : flat_map (TN.norm_node keep false) ch2 = ch2).
  { subst ch2. apply TNP.flat_map_idem. apply Forall_forall. intros y _. apply TNP.norm_node_idem. }
  assert (Hroot' : TElt (TagTok p t nm) [] (merge_text (flat_map tn ch2)) = root').
  { rewrite <- Hidem at 1. exact (normal_fix_root keep p t opts nm ch2 Hen). }
  assert (Hnd1 : no_data (flat_map D.events_node (TN.norm_node keep false root)) = true).
  { revert Hnd. unfold TN.norm. cbn [flat_map]. rewrite app_nil_r. exact (fun h => h). }
  assert (Hfg : FS.fgood L 0 R2).
  { pose proof (norm_fgood L keep root 0%nat Hsrc HF Hnd1) as H. rewrite Hnorm in H. inversion H. assumption. }
  assert (Hnm : nm_ok L R2).
  { pose proof (norm_nm_ok L keep root 0 HT) as H. rewrite Hnorm in H. inversion H. assumption. }
  assert (Htg : tgood L xo root').
  { pose proof (norm_tgood L keep xo Hkc root 0%nat Hsrc) as H. rewrite Hnorm in H. inversion H. assumption. }
  assert (HF2 : SZ.frag_node R2 = true).
  { pose proof (norm_frag keep root HF) as H. rewrite Hnorm in H. cbn [forallb] in H. rewrite andb_true_r in H. exact H. }
  assert (HT2 : D.tree_ok L 0 R2 = true).
  { pose proof (norm_tree_ok L keep root 0 HT) as H. rewrite Hnorm in H. cbn [forallb] in H. rewrite andb_true_r in H. exact H. }
  assert (Hnd2 : no_data (flat_map D.events_node (TN.norm keep [R2])) = true).
  { assert (E1 : TN.norm keep [root] = [R2]) by (unfold TN.norm; cbn [flat_map]; rewrite app_nil_r; reflexivity).
    pose proof (TNP.norm_idempotent keep [root]) as Hi. rewrite E1 in Hi. rewrite Hi. rewrite <- E1. exact Hnd. }
  (* the first trip *)
  destruct (conversion_roundtrip main TBL btbl sub evs expat_ok o doc w L l p t opts nm ch o' H1 Hfront HL HU HP HF HFind Hch Hcs HT Hv Hp1 Hp0 Hnd)
    as (x & Hm & Hx & _).
  cbv zeta in Hx. fold keep ch2 in Hx. rewrite Hroot' in Hx. fold xl xo in Hx.
  (* the second trip *)
  destruct (second_iteration_normal main TBL btbl sub L l o o' p t opts nm ch2 x Hx Hlok Hok Hcomp Hns Hsyn Htg Hnm Hfg Hst Hen Hfl
              HL HU HP HF2 HFind Hch Hcs HT2 Hv Hp1 Hp0 Hnd2) as (c & d & Hd & Hread & Hev & Hsecond).
  exists x, c, d. split; [exact Hm|]. split; [exact Hx|]. split; [exact Hd|].
  (* the content, explicitly *)
  assert (Hc : c = flat_map (item_of L) (map tnode_of ch2)).
  { assert (Hb0 : X.tag_is_binary (X.text_tag (X.est0 0) X.proot) = false) by reflexivity.
    destruct (info_compact TBL L xo Hcomp Hns Hsyn root' Htg X.proot (X.est0 0) eq_refl Hb0) as (s2 & Hi2 & _).
    assert (Hxe : to_xnode TBL L root' = X.Elt (to_tname L (TagTok p t nm)) [] (map (to_xnode TBL L) (map tnode_of ch2))) by reflexivity.
    rewrite Hxe in Hx, Hok. destruct (XI.read_enc_g xl xo _ _ _ x Hlok Hok Hx) as (c' & s' & Hinfo & Hread').
    rewrite Hxe in Hi2. subst xl. rewrite Hi2 in Hinfo.
    assert (Hsa : XP.spec_attrs (X.xlang_of L) xo X.proot (to_tname L (TagTok p t nm)) [] = []) by (apply spec_attrs_nil; exact Hns).
    change (map to_attr []) with (@nil X.attr) in *. rewrite Hsa in Hinfo, Hread'.
    cbn [items_for item_of tnode_of root' R2 app] in Hinfo. injection Hinfo as Hc' _.
    (* both readings of x are the same document *)
    specialize (Hread (XP.node_fuel (to_xnode TBL L root') + 2)%nat (Nat.le_refl _)).
    specialize (Hread' (XP.node_fuel (X.Elt (to_tname L (TagTok p t nm)) [] (map (to_xnode TBL L) (map tnode_of ch2))) + 2)%nat (Nat.le_refl _)).
    rewrite Hxe in Hread. rewrite Hread in Hread'. rewrite Hd in Hread'. unfold XP.doc_of in Hread'. injection Hread' as Hcc. congruence. }
  split; [exact Hc|]. split; [exact Hread|]. split; [exact Hev|exact Hsecond].
Qed.
End EndToEnd.
