(* merge_chars (Model/EncWbxmlEvents.v): idempotent, and a congruence for concatenation. *)
From Coq Require Import List NArith Bool.
From Wbxml Require Import Model.Parser Model.EncWbxmlEvents.
Import ListNotations.

Definition is_chars (x : event) : bool := match x with EvChars _ => true | _ => false end.

(* no two adjacent character events *)
Fixpoint nf (l : list event) : bool :=
  match l with
  | [] => true
  | x :: r => negb (is_chars x && match r with y :: _ => is_chars y | [] => false end) && nf r
  end.

Lemma glue_other x r : is_chars x = false -> glue x r = x :: r.
Proof. destruct x; cbn; try reflexivity. discriminate. Qed.

Lemma nf_merge l : nf l = true -> merge_chars l = l.
Proof.
  induction l as [|x r IH]; [reflexivity|]. cbn [nf merge_chars]. intros H. apply andb_true_iff in H as [H1 H2].
  rewrite (IH H2). destruct x; try reflexivity. destruct r as [|y r']; [reflexivity|].
  destruct y; try reflexivity. discriminate.
Qed.

Lemma nf_glue x m : nf m = true -> nf (glue x m) = true.
Proof.
  intros H. destruct x; try (cbn [glue nf is_chars andb negb]; exact H).
  destruct m as [|y m']; [reflexivity|]. destruct y; try (cbn [glue nf is_chars andb negb] in *; exact H).
Qed.

Lemma merge_nf l : nf (merge_chars l) = true.
Proof. induction l as [|x r IH]; [reflexivity|]. cbn [merge_chars]. now apply nf_glue. Qed.

Lemma merge_idem l : merge_chars (merge_chars l) = merge_chars l.
Proof. apply nf_merge, merge_nf. Qed.

Lemma glue_glue a b m : glue (EvChars a) (glue (EvChars b) m) = glue (EvChars (a ++ b)) m.
Proof. destruct m as [|y m']; [reflexivity|]. destruct y; try reflexivity. cbn. now rewrite app_assoc. Qed.

Lemma merge_app_r a b : merge_chars (a ++ b) = merge_chars (a ++ merge_chars b).
Proof. induction a as [|x a IH]; cbn [app merge_chars]; [now rewrite merge_idem|now rewrite IH]. Qed.

Lemma merge_app_l a b : merge_chars (a ++ b) = merge_chars (merge_chars a ++ b).
Proof.
  induction a as [|x a IH]; [reflexivity|]. cbn [app merge_chars]. rewrite IH.
  destruct x; try reflexivity.
  destruct (merge_chars a) as [|y m']; [reflexivity|].
  destruct y; try reflexivity.
  change (glue (EvChars b0) (glue (EvChars b1) (merge_chars (m' ++ b))) = glue (EvChars (b0 ++ b1)) (merge_chars (m' ++ b))).
  apply glue_glue.
Qed.

Lemma merge_app_congr a a' b b' :
  merge_chars a = merge_chars a' -> merge_chars b = merge_chars b' -> merge_chars (a ++ b) = merge_chars (a' ++ b').
Proof.
  intros Ha Hb. rewrite (merge_app_l a b), (merge_app_r _ b), Ha, Hb, <- merge_app_r, <- merge_app_l. reflexivity.
Qed.

Lemma merge_cons_other x a a' : is_chars x = false -> merge_chars a = merge_chars a' ->
  merge_chars (x :: a) = merge_chars (x :: a').
Proof. intros _ H. cbn [merge_chars]. now rewrite H. Qed.

(* pieces of one text *)
Definition chars (b : list N) : list event := match b with [] => [] | _ => [EvChars b] end.

Lemma merge_chars_chars b : merge_chars (chars b) = chars b.
Proof. destruct b; reflexivity. Qed.

Lemma merge_pieces (pieces : list (list N)) :
  merge_chars (flat_map chars pieces) = chars (concat pieces).
Proof.
  induction pieces as [|p r IH]; [reflexivity|]. cbn [flat_map concat].
  destruct p as [|c p']; [exact IH|].
  cbn [chars app merge_chars]. rewrite IH. destruct (concat r) as [|d r'] eqn:E; cbn; [now rewrite app_nil_r|reflexivity].
Qed.

Lemma merge_pieces_f {A} (f : A -> list N) (l : list A) :
  merge_chars (flat_map (fun v => chars (f v)) l) = chars (flat_map f l).
Proof.
  induction l as [|a r IH]; [reflexivity|]. cbn [flat_map].
  destruct (f a) as [|c p']; [exact IH|].
  cbn [chars app merge_chars]. rewrite IH. destruct (flat_map f r) as [|d r'] eqn:E; cbn; [now rewrite app_nil_r|reflexivity].
Qed.
