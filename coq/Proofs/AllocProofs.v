(* C16 — proofs over Model/Alloc.v.  Every positive theorem quantifies over EVERY failure oracle `fails`
   (any set of refused requests, so in particular every single failure); the refutations give the single failure. *)
From Coq Require Import List NArith Bool Lia.
From Wbxml Require Import Model.Alloc.
Import ListNotations.
Local Open Scope N_scope.

(* blocks of the final heap that nobody owns any more *)
Definition leaked (h : heap) (owned : list N) : list N := filter (fun b => negb (mem b owned)) (h_live h).
Definition all_live (h : heap) (bs : list N) : bool := forallb (fun b => mem b (h_live h)) bs.

Definition buf_blocks (b : buffer) : list N := b_blk b :: match b_data b with Some d => [d] | None => [] end.
Definition obuf_blocks (b : option buffer) : list N := match b with Some b => buf_blocks b | None => [] end.
Definition named_blocks (t : named) : list N := n_blk t :: obuf_blocks (n_name t).
Definition onamed_blocks (t : option named) : list N := match t with Some t => named_blocks t | None => [] end.
Definition attr_blocks (a : attribute) : list N := a_blk a :: onamed_blocks (a_name a) ++ obuf_blocks (a_value a).
Definition list_blocks {A} (item_blocks : A -> list N) (l : wlist A) : list N :=
  l_blk l :: flat_map (fun ei => fst ei :: item_blocks (snd ei)) (l_elts l).

(* a function that creates an object out of nothing: no heap violation; on failure nothing is left behind; on
   success the result is the failure-free result and exactly its blocks (plus the caller's) are live *)
Definition creates {R} (blocks : R -> list N) (caller : list N) (run : list bool -> heap * option R) : Prop :=
  forall fails, let '(h, r) := run fails in
    clean h /\ all_live h caller = true /\
    match r with
    | None => leaked h caller = []
    | Some x => r = snd (run nofail) /\ leaked h (blocks x ++ caller) = [] /\ all_live h (blocks x) = true
    end.

(* case analysis on the first n answers of the oracle (an exhausted oracle grants everything), then computation *)
Ltac split_oracle o n :=
  match n with
  | O => idtac
  | S ?k => destruct o as [|[|] o]; [ | split_oracle o k | split_oracle o k ]
  end.
Ltac oracle o n :=
  split_oracle o n; vm_compute; repeat split; try reflexivity; try discriminate; try congruence.

(* ---------------------------------------------------------------- buffers *)
Lemma buffer_create_ok : forall ne, creates buf_blocks [] (fun o => buffer_create (heap0 o) ne).
Proof. intros ne fails. destruct ne; oracle fails 2%nat. Qed.

(* create, then destroy: the heap is as before *)
Lemma buffer_create_destroy : forall fails ne,
  let '(h, b) := buffer_create (heap0 fails) ne in
  clean (buffer_destroy h b) /\ h_live (buffer_destroy h b) = [].
Proof. intros fails ne. destruct ne; oracle fails 2%nat. Qed.

(* a buffer with bytes owned by the caller: blocks 1 (structure) and 2 (bytes) *)
Definition a_buffer : buffer := mkBuf 1 (Some 2).
Definition heap_buf (o : list bool) : heap := heap_with o [1; 2] 3.

(* grow_buff as it is: when the realloc is refused the old bytes are lost — REFUTED *)
Lemma grow_buff_refuted :
  exists k, let '(h, b, ok) := grow_buff (heap_buf (single k)) a_buffer true in
    ok = false /\ b_data b = None /\ leaked (buffer_destroy h (Some b)) [] = [2].
Proof. exists 0%nat. vm_compute. repeat split; reflexivity. Qed.
Lemma insert_data_refuted :
  exists k, let '(h, b, ok) := insert_data (heap_buf (single k)) a_buffer true in
    ok = false /\ leaked (buffer_destroy h (Some b)) [] <> [].
Proof. exists 0%nat. vm_compute. repeat split; try reflexivity. discriminate. Qed.

(* the repaired grow_buff / insert_data: for every oracle the buffer stays a valid buffer, TRUE only if it grew,
   and destroying it afterwards releases everything *)
Lemma insert_data_fixed_ok : forall fails room,
  let '(h, b, ok) := insert_data_fixed (heap_buf fails) a_buffer room in
  clean h /\ all_live h (buf_blocks b) = true /\ leaked h (buf_blocks b) = [] /\
  (ok = false -> b = a_buffer) /\
  clean (buffer_destroy h (Some b)) /\ h_live (buffer_destroy h (Some b)) = [].
Proof. intros fails room. destruct room; oracle fails 1%nat. Qed.

Lemma buffer_duplicate_ok : creates buf_blocks [1; 2] (fun o => buffer_duplicate (heap_buf o) (Some a_buffer)).
Proof. intros fails. oracle fails 2%nat. Qed.

(* ---------------------------------------------------------------- lists *)
Lemma list_create_ok : creates (list_blocks (fun _ : N => [])) [] (fun o => @list_create N (heap0 o)).
Proof. intros fails. oracle fails 1%nat. Qed.

(* a list (block 1) with one element (block 2) holding the caller's item 3; the new item is block 4 *)
Definition a_list : wlist N := mkList 1 [(2, 3)].
Definition heap_list (o : list bool) : heap := heap_with o [1; 2; 3; 4] 5.

(* append / insert: TRUE and linked in, or FALSE and the list exactly as before; the item is never touched *)
Lemma list_append_ok : forall fails,
  let '(h, l, ok) := list_append (heap_list fails) a_list 4 in
  clean h /\ all_live h [1; 2; 3; 4] = true /\
  (if ok then l = snd (fst (list_append (heap_list nofail) a_list 4)) else l = a_list) /\
  leaked h (4 :: list_blocks (fun i => [i]) l) = [].
Proof. intros fails. oracle fails 1%nat. Qed.
Lemma list_insert_ok : forall fails pos, (pos <= 2)%nat ->
  let '(h, l, ok) := list_insert (heap_list fails) a_list 4 pos in
  clean h /\ all_live h [1; 2; 3; 4] = true /\
  (if ok then l = snd (fst (list_insert (heap_list nofail) a_list 4 pos)) else l = a_list) /\
  leaked h (4 :: list_blocks (fun i => [i]) l) = [].
Proof.
  intros fails pos Hp. destruct pos as [|[|[|p]]]; try lia; oracle fails 1%nat.
Qed.

(* destroying a list of 0..3 buffers with the buffer destructor releases everything, once *)
Definition buf_item_destroy (h : heap) (b : buffer) : heap := buffer_destroy h (Some b).
Lemma list_destroy_upto3 :
  let run (l : wlist buffer) (live : list N) := list_destroy buf_item_destroy (heap_with [] live 20) (Some l) in
  (clean (run (mkList 1 []) [1]) /\ h_live (run (mkList 1 []) [1]) = []) /\
  (clean (run (mkList 1 [(2, mkBuf 3 (Some 4))]) [1; 2; 3; 4]) /\ h_live (run (mkList 1 [(2, mkBuf 3 (Some 4))]) [1; 2; 3; 4]) = []) /\
  (let l := mkList 1 [(2, mkBuf 3 (Some 4)); (5, mkBuf 6 None); (7, mkBuf 8 (Some 9))] in
   clean (run l [1; 2; 3; 4; 5; 6; 7; 8; 9]) /\ h_live (run l [1; 2; 3; 4; 5; 6; 7; 8; 9]) = []).
Proof. vm_compute. repeat split; reflexivity. Qed.
(* ... and destroying it twice is seen *)
Lemma list_destroy_twice_detected :
  let l := mkList 1 [(2, mkBuf 3 (Some 4))] in
  h_bad (list_destroy buf_item_destroy (list_destroy buf_item_destroy (heap_with [] [1; 2; 3; 4] 20) (Some l)) (Some l)) <> [].
Proof. vm_compute. discriminate. Qed.

(* ---------------------------------------------------------------- tags / attribute names *)
Lemma named_create_literal_ok : creates named_blocks [] (fun o => named_create_literal (heap0 o)).
Proof. intros fails. oracle fails 3%nat. Qed.
Lemma named_create_destroy : forall fails,
  let '(h, t) := named_create_literal (heap0 fails) in
  clean (named_destroy h t) /\ h_live (named_destroy h t) = [].
Proof. intros fails. oracle fails 3%nat. Qed.

(* a literal tag owned by the caller: structure 1, name buffer (2, bytes 3) *)
Definition a_named : named := mkNamed 1 true (Some (mkBuf 2 (Some 3))).
Definition heap_named (o : list bool) : heap := heap_with o [1; 2; 3] 4.

(* wbxml_tag_duplicate / wbxml_attribute_name_duplicate as they are: a refused duplicate of the name gives a
   "successful" copy WITHOUT its name — neither an error nor the failure-free result: REFUTED *)
Lemma named_duplicate_refuted :
  exists k t, snd (named_duplicate (heap_named (single k)) (Some a_named)) = Some t /\ n_name t = None /\
    Some t <> snd (named_duplicate (heap_named nofail) (Some a_named)).
Proof. exists 1%nat. eexists. split; [vm_compute; reflexivity | split; [reflexivity | vm_compute; discriminate]]. Qed.
Lemma named_duplicate_fixed_ok : creates named_blocks [1; 2; 3] (fun o => named_duplicate_fixed (heap_named o) (Some a_named)).
Proof. intros fails. oracle fails 3%nat. Qed.

(* ---------------------------------------------------------------- attributes *)
(* an attribute of the caller: structure 1, literal name (2, buffer 3 with bytes 4), value buffer (5, bytes 6) *)
Definition an_attr : attribute := mkAttr 1 (Some (mkNamed 2 true (Some (mkBuf 3 (Some 4))))) (Some (mkBuf 5 (Some 6))).
Definition heap_attr (o : list bool) : heap := heap_with o [1; 2; 3; 4; 5; 6] 7.

Lemma attribute_create_ok : creates attr_blocks [] (fun o => attribute_create (heap0 o)).
Proof. intros fails. oracle fails 1%nat. Qed.
Lemma attribute_destroy_ok : clean (attribute_destroy (heap_attr []) (Some an_attr)) /\
  h_live (attribute_destroy (heap_attr []) (Some an_attr)) = [].
Proof. vm_compute. split; reflexivity. Qed.

(* wbxml_attribute_duplicate as it is: REFUTED (a copy without its value, reported as success) *)
Lemma attribute_duplicate_refuted :
  exists k a, snd (attribute_duplicate (heap_attr (single k)) (Some an_attr)) = Some a /\ a_value a = None /\
    Some a <> snd (attribute_duplicate (heap_attr nofail) (Some an_attr)).
Proof. exists 4%nat. eexists. split; [vm_compute; reflexivity | split; [reflexivity | vm_compute; discriminate]]. Qed.
Lemma attribute_duplicate_fixed_ok :
  creates attr_blocks [1; 2; 3; 4; 5; 6] (fun o => attribute_duplicate_fixed (heap_attr o) (Some an_attr)).
Proof. intros fails. oracle fails 6%nat. Qed.

(* ---------------------------------------------------------------- wbxml_tree_node_add_attr *)
(* as it is: when the append is refused the CALLER's attribute is destroyed (the caller destroys it again:
   double free) and the duplicate is lost: REFUTED.  Requests: 0 list, 1..6 duplicate, 7 list element. *)
Lemma add_attr_refuted :
  exists k, let '(h, _, st) := add_attr (heap_attr (single k)) None an_attr in
    st = ERR /\ all_live h (attr_blocks an_attr) = false /\
    h_bad (attribute_destroy h (Some an_attr)) <> [] /\      (* what the caller does next *)
    leaked h [7] <> [].                                                  (* 7 = the list, owned by the node *)
Proof. exists 7%nat. vm_compute. repeat split; try reflexivity; discriminate. Qed.

(* repaired (destroys the duplicate; duplicate checked): for every oracle no violation, the caller's attribute is
   intact, on error nothing but the node's list remains, on success exactly the list with the duplicate *)
Lemma add_attr_fixed_ok : forall fails,
  let '(h, l, st) := add_attr_fixed (heap_attr fails) None an_attr in
  clean h /\ all_live h (attr_blocks an_attr) = true /\
  match st with
  | ERR => leaked h (attr_blocks an_attr ++ match l with Some l => [l_blk l] | None => [] end) = [] /\
           match l with Some l => l_elts l = [] | None => True end
  | OK => l = snd (fst (add_attr_fixed (heap_attr nofail) None an_attr)) /\
          match l with Some l => leaked h (attr_blocks an_attr ++ list_blocks attr_blocks l) = [] | None => False end
  end.
Proof. intros fails. oracle fails 8%nat. Qed.

(* ---------------------------------------------------------------- parse_element: attribute table *)
(* as it is: the second realloc refused -> the old table and the first attribute are lost: REFUTED
   (requests: 0 attr, 1 realloc, 2 attr, 3 realloc).  Block 1 = the element tag. *)
Lemma parse_element_attrs_refuted :
  exists k, let '(h, r, st) := attrs_loop false 2 (heap_with (single k) [1] 2) 1 None [] in
    st = ERR /\ r = None /\ clean h /\ leaked h [] = [3; 2].
Proof. exists 3%nat. vm_compute. repeat split; reflexivity. Qed.

(* repaired (the old table is kept until the new one exists): for every oracle and 0..3 attributes: no violation,
   on error nothing is left (the element tag included), on success element + table + attributes *)
Lemma parse_element_attrs_fixed_upto3 : forall fails n, (n <= 3)%nat ->
  let '(h, r, st) := attrs_loop true n (heap_with fails [1] 2) 1 None [] in
  clean h /\
  match st, r with
  | ERR, None => h_live h = []
  | OK, Some (t, es) => leaked h (1 :: t :: es) = [] /\ all_live h (1 :: t :: es) = true /\ length es = n
  | OK, None => n = 0%nat /\ h_live h = [1]
  | ERR, Some _ => False
  end.
Proof.
  intros fails n Hn. destruct n as [|[|[|[|n]]]]; try lia; oracle fails 6%nat.
Qed.

(* ---------------------------------------------------------------- parse_attr_start, LITERAL branch *)
(* as it is: OK is returned with no name, and the caller dereferences it: REFUTED *)
Lemma attr_start_literal_refuted :
  exists k, let '(h, nm, st) := attr_start_literal false (heap_buf (single k)) a_buffer in
    st = OK /\ nm = None /\
    h_bad (fst (attr_start_literal_then_use false (heap_buf (single k)) a_buffer)) <> [].
Proof. exists 0%nat. vm_compute. repeat split; try reflexivity. discriminate. Qed.
Lemma attr_start_literal_fixed_ok : forall fails,
  let '(h, st) := attr_start_literal_then_use true (heap_buf fails) a_buffer in
  clean h /\ h_live h = [] /\ (st = ERR -> exists k, nth_error fails k = Some true).
Proof.
  intros fails. split_oracle fails 3%nat; vm_compute; repeat split; try reflexivity; try discriminate;
    intros _; first [exists 0%nat; reflexivity | exists 1%nat; reflexivity | exists 2%nat; reflexivity].
Qed.

(* ---------------------------------------------------------------- encoder output buffer *)
(* pinned code (before /repo ab95676): the encoder is destroyed by encoder_encode_tree AND by its caller: REFUTED *)
Lemma encoder_output_failure_refuted :
  exists k, h_bad (fst (encoder_run true (heap0 (single k)))) <> [].
Proof. exists 2%nat. vm_compute. discriminate. Qed.
Lemma encoder_output_failure_fixed_ok : forall fails,
  let '(h, st) := encoder_run false (heap0 fails) in
  clean h /\ h_live h = [] /\ (st = ERR -> exists k, nth_error fails k = Some true).
Proof.
  intros fails. split_oracle fails 3%nat; vm_compute; repeat split; try reflexivity; try discriminate;
    intros _; first [exists 0%nat; reflexivity | exists 1%nat; reflexivity | exists 2%nat; reflexivity].
Qed.

(* ---------------------------------------------------------------- string-table elements: who owns the buffer (D22, D23) *)
Definition selt_blocks (e : selt) : list N := se_blk e :: (if se_stat e then [] else buf_blocks (se_string e)).
(* the encoder's string table: list structure = block 1, empty *)
Definition a_table : wlist selt := mkList 1 [].
Definition heap_tbl (o : list bool) : heap := heap_with o [1] 2.

(* D23, old code: (a) the append is refused -> the name buffer is freed twice; (b) on a reset encoder (NULL list, defect D14)
   the same happens WITHOUT any allocation failure *)
Lemma encode_literal_refuted :
  (exists k, h_bad (fst (fst (encode_literal true (heap_tbl (single k)) (Some a_table) false))) <> []) /\
  h_bad (fst (fst (encode_literal true (heap_tbl nofail) None false))) <> [].
Proof. split; [exists 3%nat|]; vm_compute; discriminate. Qed.
(* repaired: every oracle, string new or already in the table, list present or NULL *)
Lemma encode_literal_fixed_ok : forall (fails : list bool) (already tbl_present : bool),
  let tbl := (if tbl_present then Some a_table else None) : option (wlist selt) in
  let '(h, tbl', st) := encode_literal false (heap_tbl fails) tbl already in
  clean h /\ all_live h [1] = true /\
  match st with
  | ERR => leaked h [1] = [] /\ tbl' = tbl
  | OK => match tbl' with Some l => leaked h (list_blocks selt_blocks l) = [] | None => False end
  end.
Proof. intros fails [|] [|]; oracle fails 4%nat. Qed.

(* D22, old code: the public-id string is already in the table (no allocation fails at all) -> `pid` freed twice *)
Lemma fill_header_pid_refuted :
  h_bad (fst (fst (fill_header_pid true (heap_tbl nofail) (Some a_table) true))) <> [] /\
  (exists k, h_bad (fst (fst (fill_header_pid true (heap_tbl (single k)) (Some a_table) false))) <> []).
Proof. split; [|exists 3%nat]; vm_compute; discriminate. Qed.
Lemma fill_header_pid_fixed_ok : forall (fails : list bool) (already tbl_present : bool),
  let tbl := (if tbl_present then Some a_table else None) : option (wlist selt) in
  let '(h, tbl', st) := fill_header_pid false (heap_tbl fails) tbl already in
  clean h /\ all_live h [1] = true /\
  match st with
  | ERR => leaked h [1] = [] /\ tbl' = tbl
  | OK => match tbl' with Some l => leaked h (list_blocks selt_blocks l) = [] | None => False end
  end.
Proof. intros fails [|] [|]; oracle fails 4%nat. Qed.

(* ---------------------------------------------------------------- `single k` is an oracle: the per-k form *)
Lemma single_failure_instances : forall k,
  (let '(h, r) := buffer_create (heap0 (single k)) true in clean h /\ (r = None -> leaked h [] = [])) /\
  (let '(h, l, st) := add_attr_fixed (heap_attr (single k)) None an_attr in clean h /\ all_live h (attr_blocks an_attr) = true).
Proof.
  intros k. split.
  - pose proof (buffer_create_ok true (single k)) as H. cbv beta in H.
    destruct (buffer_create (heap0 (single k)) true) as [h r]. destruct H as [H1 [_ H3]]. split; [exact H1|].
    intros ->. exact H3.
  - pose proof (add_attr_fixed_ok (single k)) as H.
    destruct (add_attr_fixed (heap_attr (single k)) None an_attr) as [[h l] st]. destruct H as [H1 [H2 _]]. split; assumption.
Qed.

(* ====================================================================== *)
(* the trace checker is sound and complete for the heap discipline *)
Inductive disciplined : list N -> list ev -> Prop :=
| d_end : disciplined [] []                                               (* everything has been freed *)
| d_alloc : forall live b t, ~ In b live -> disciplined (b :: live) t -> disciplined live (EA b :: t)
| d_free : forall live b t, In b live -> disciplined (del b live) t -> disciplined live (EF b :: t)   (* no double / unknown free *)
| d_realloc_null : forall live n t, ~ In n live -> disciplined (n :: live) t -> disciplined live (ER 0 n :: t)
| d_realloc : forall live o n t, o <> 0 -> In o live -> ~ In n (del o live) -> disciplined (n :: del o live) t ->
              disciplined live (ER o n :: t)
| d_refused : forall live t, disciplined live t -> disciplined live (EX :: t).

Lemma mem_In : forall b l, mem b l = true <-> In b l.
Proof.
  intros b l. unfold mem. rewrite existsb_exists. split.
  - intros [x [Hx He]]. apply N.eqb_eq in He. subst. exact Hx.
  - intros H. exists b. split; [exact H | apply N.eqb_refl].
Qed.
Lemma mem_false : forall b l, mem b l = false <-> ~ In b l.
Proof. intros b l. rewrite <- mem_In. destruct (mem b l); split; congruence. Qed.

Lemma trace_run_sound : forall t live, trace_run live t = Some [] -> disciplined live t.
Proof.
  induction t as [|e t IH]; intros live H; cbn [trace_run] in H.
  - inversion H. constructor.
  - destruct e as [b | b | o n | ].
    + destruct (mem b live) eqn:E; [discriminate|]. apply d_alloc; [apply mem_false; exact E | apply IH; exact H].
    + destruct (mem b live) eqn:E; [|discriminate]. apply d_free; [apply mem_In; exact E | apply IH; exact H].
    + destruct (N.eqb o 0) eqn:E0.
      * apply N.eqb_eq in E0. subst o. destruct (mem n live) eqn:E; [discriminate|].
        apply d_realloc_null; [apply mem_false; exact E | apply IH; exact H].
      * apply N.eqb_neq in E0. destruct (mem o live) eqn:E1; [|discriminate].
        destruct (mem n (del o live)) eqn:E2; [discriminate|].
        apply d_realloc; [exact E0 | apply mem_In; exact E1 | apply mem_false; exact E2 | apply IH; exact H].
    + apply d_refused. apply IH. exact H.
Qed.
Lemma trace_run_complete : forall live t, disciplined live t -> trace_run live t = Some [].
Proof.
  intros live t H. induction H; cbn [trace_run].
  - reflexivity.
  - apply mem_false in H. rewrite H. exact IHdisciplined.
  - apply mem_In in H. rewrite H. exact IHdisciplined.
  - cbn. apply mem_false in H. rewrite H. exact IHdisciplined.
  - apply N.eqb_neq in H. rewrite H. apply mem_In in H0. rewrite H0. apply mem_false in H1. rewrite H1. exact IHdisciplined.
  - exact IHdisciplined.
Qed.
Theorem trace_ok_sound : forall t, trace_ok t = true -> disciplined [] t.
Proof.
  intros t H. unfold trace_ok in H. destruct (trace_run [] t) as [[|x l]|] eqn:E; try discriminate.
  apply trace_run_sound. exact E.
Qed.
Theorem trace_ok_complete : forall t, disciplined [] t -> trace_ok t = true.
Proof. intros t H. unfold trace_ok. rewrite (trace_run_complete [] t H). reflexivity. Qed.
