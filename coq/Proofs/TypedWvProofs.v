(* C12 — proofs about the Wireless-Village date-time codec of Model/Typed.v *)
From Coq Require Import List NArith ZArith Lia Bool ZifyBool ZifyN PeanoNat.
From Wbxml Require Import Base.Bits Model.Codec Model.Typed Proofs.CodecProofs Proofs.TypedProofs Proofs.TypedDtProofs.
Import ListNotations.
Local Open Scope N_scope.
Ltac Zify.zify_post_hook ::= Z.div_mod_to_equations.

Arguments N.mul : simpl never.
Arguments N.add : simpl never.
Arguments N.div : simpl never.
Arguments N.modulo : simpl never.
Arguments N.shiftr : simpl never.
Arguments N.shiftl : simpl never.
Arguments N.land : simpl never.
Arguments N.lor : simpl never.
Arguments N.pow : simpl never.
Arguments N.sub : simpl never.
Arguments N.ltb : simpl never.
Arguments N.leb : simpl never.
Arguments N.eqb : simpl never.
Arguments is_digit : simpl never.
Arguments strtoul10 : simpl never.
Arguments u8 : simpl never.
Arguments enc_opaque : simpl never.
Arguments sprintf_0u : simpl never.

(* ------------------------------------------------------------------ *)
(* masks and shifts as arithmetic                                       *)

Lemma land_3 a : N.land a 3 = a mod 4.
Proof. change 3 with (N.ones 2). rewrite N.land_ones. reflexivity. Qed.
Lemma land_1 a : N.land a 1 = a mod 2.
Proof. change 1 with (N.ones 1). rewrite N.land_ones. reflexivity. Qed.
Lemma land_31 a : N.land a 31 = a mod 32.
Proof. change 31 with (N.ones 5). rewrite N.land_ones. reflexivity. Qed.

Lemma shr_land a mask k q : N.shiftr mask k = N.ones q -> N.shiftr (N.land a mask) k = (a / 2 ^ k) mod 2 ^ q.
Proof. intros H. rewrite N.shiftr_land, H, N.land_ones, N.shiftr_div_pow2. reflexivity. Qed.

Lemma shl_mul a k : N.shiftl a k = a * 2 ^ k.
Proof. apply N.shiftl_mul_pow2. Qed.
Lemma shr_div a k : N.shiftr a k = a / 2 ^ k.
Proof. apply N.shiftr_div_pow2. Qed.

Lemma u8_small x : x < 256 -> u8 x = x.
Proof. intros H. unfold u8. apply N.mod_small. exact H. Qed.

(* the six octets the encoder builds from the numeric fields *)
Definition pack_c (year month day hour minute second : N) : list N :=
  let o0 := u8 (N.shiftr (N.land year 4032) 6) in
  let o1 := u8 (N.land year 63) in
  let o1 := u8 (N.shiftl o1 2) in
  let o1 := u8 (o1 + u8 (N.shiftr (N.land month 12) 2)) in
  let o2 := u8 (N.land month 3) in
  let o2 := u8 (N.shiftl o2 5) in
  let o2 := u8 (o2 + u8 (N.land day 31)) in
  let o2 := u8 (N.shiftl o2 1) in
  let o2 := u8 (o2 + u8 (N.shiftr (N.land hour 16) 4)) in
  let o3 := u8 (N.land hour 15) in
  let o3 := u8 (N.shiftl o3 4) in
  let o3 := u8 (o3 + u8 (N.shiftr (N.land minute 60) 2)) in
  let o4 := u8 (N.land minute 3) in
  let o4 := u8 (N.shiftl o4 6) in
  let o4 := u8 (o4 + u8 (N.land second 63)) in
  [o0; o1; o2; o3; o4].

Lemma pack_c_spec Y M D h m s : Y < 4096 -> M < 16 -> D < 32 -> h < 32 -> m < 64 -> s < 64 ->
  pack_c Y M D h m s =
  [Y / 64; (Y mod 64) * 4 + M / 4; (M mod 4) * 64 + D * 2 + h / 16; (h mod 16) * 16 + m / 4; (m mod 4) * 64 + s].
Proof.
  intros HY HM HD Hh Hm Hs. unfold pack_c.
  rewrite (shr_land Y 4032 6 6) by reflexivity. rewrite (shr_land M 12 2 2) by reflexivity.
  rewrite (shr_land h 16 4 1) by reflexivity. rewrite (shr_land m 60 2 4) by reflexivity.
  rewrite land_63, land_63, land_3, land_3, land_31, land_15, !shl_mul.
  change (2 ^ 6) with 64. change (2 ^ 2) with 4. change (2 ^ 4) with 16. change (2 ^ 1) with 2. change (2 ^ 5) with 32.
  assert (E0 : u8 ((Y / 64) mod 64) = Y / 64) by (rewrite u8_small; lia).
  assert (E1a : u8 (Y mod 64) = Y mod 64) by (rewrite u8_small; lia).
  rewrite E0, E1a.
  assert (E1b : u8 (Y mod 64 * 4) = Y mod 64 * 4) by (rewrite u8_small; lia). rewrite E1b.
  assert (E1c : u8 ((M / 4) mod 4) = M / 4) by (rewrite u8_small; lia). rewrite E1c.
  assert (E1d : u8 (Y mod 64 * 4 + M / 4) = Y mod 64 * 4 + M / 4) by (rewrite u8_small; lia). rewrite E1d.
  assert (E2a : u8 (M mod 4) = M mod 4) by (rewrite u8_small; lia). rewrite E2a.
  assert (E2b : u8 (M mod 4 * 32) = M mod 4 * 32) by (rewrite u8_small; lia). rewrite E2b.
  assert (E2c : u8 (D mod 32) = D) by (rewrite u8_small; lia). rewrite E2c.
  assert (E2d : u8 (M mod 4 * 32 + D) = M mod 4 * 32 + D) by (rewrite u8_small; lia). rewrite E2d.
  assert (E2e : u8 ((M mod 4 * 32 + D) * 2) = (M mod 4 * 32 + D) * 2) by (rewrite u8_small; lia). rewrite E2e.
  assert (E2f : u8 ((h / 16) mod 2) = h / 16) by (rewrite u8_small; lia). rewrite E2f.
  assert (E2g : u8 ((M mod 4 * 32 + D) * 2 + h / 16) = M mod 4 * 64 + D * 2 + h / 16) by (rewrite u8_small; lia). rewrite E2g.
  assert (E3a : u8 (h mod 16) = h mod 16) by (rewrite u8_small; lia). rewrite E3a.
  assert (E3b : u8 (h mod 16 * 16) = h mod 16 * 16) by (rewrite u8_small; lia). rewrite E3b.
  assert (E3c : u8 ((m / 4) mod 16) = m / 4) by (rewrite u8_small; lia). rewrite E3c.
  assert (E3d : u8 (h mod 16 * 16 + m / 4) = h mod 16 * 16 + m / 4) by (rewrite u8_small; lia). rewrite E3d.
  assert (E4a : u8 (m mod 4) = m mod 4) by (rewrite u8_small; lia). rewrite E4a.
  assert (E4b : u8 (m mod 4 * 64) = m mod 4 * 64) by (rewrite u8_small; lia). rewrite E4b.
  assert (E4c : u8 (s mod 64) = s) by (rewrite u8_small; lia). rewrite E4c.
  assert (E4d : u8 (m mod 4 * 64 + s) = m mod 4 * 64 + s) by (rewrite u8_small; lia). rewrite E4d.
  reflexivity.
Qed.

(* the fields the decoder extracts from the six octets *)
Lemma unpack_year Y M : Y < 4096 -> M < 16 ->
  N.shiftl (N.land (Y / 64) 63) 6 + N.land (N.shiftr ((Y mod 64) * 4 + M / 4) 2) 63 = Y.
Proof. intros. rewrite !land_63, shl_mul, shr_div. change (2 ^ 6) with 64. change (2 ^ 2) with 4. lia. Qed.

Lemma unpack_month Y M D h : M < 16 -> D < 32 -> h < 32 ->
  N.lor (N.shiftl (N.land ((Y mod 64) * 4 + M / 4) 3) 2) (N.land (N.shiftr ((M mod 4) * 64 + D * 2 + h / 16) 6) 3) = M.
Proof.
  intros. rewrite !land_3, shr_div. rewrite lor_shiftl_low by (change (2 ^ 2) with 4; lia).
  change (2 ^ 6) with 64. change (2 ^ 2) with 4. lia.
Qed.

Lemma unpack_day M D h : D < 32 -> h < 32 ->
  N.land (N.shiftr ((M mod 4) * 64 + D * 2 + h / 16) 1) 31 = D.
Proof. intros. rewrite land_31, shr_div. change (2 ^ 1) with 2. lia. Qed.

Lemma unpack_hour M D h m : h < 32 -> m < 64 ->
  N.lor (N.shiftl (N.land ((M mod 4) * 64 + D * 2 + h / 16) 1) 4) (N.land (N.shiftr ((h mod 16) * 16 + m / 4) 4) 15) = h.
Proof.
  intros. rewrite land_1, land_15, shr_div. rewrite lor_shiftl_low by (change (2 ^ 4) with 16; lia).
  change (2 ^ 4) with 16. lia.
Qed.

Lemma unpack_minute h m s : m < 64 -> s < 64 ->
  N.lor (N.shiftl (N.land ((h mod 16) * 16 + m / 4) 15) 2) (N.land (N.shiftr ((m mod 4) * 64 + s) 6) 3) = m.
Proof.
  intros. rewrite land_15, land_3, shr_div. rewrite lor_shiftl_low by (change (2 ^ 2) with 4; lia).
  change (2 ^ 6) with 64. change (2 ^ 2) with 4. lia.
Qed.

Lemma unpack_second m s : s < 64 -> N.land ((m mod 4) * 64 + s) 63 = s.
Proof. intros. rewrite land_63. lia. Qed.

(* ------------------------------------------------------------------ *)
(* sprintf "%02u" / "%04u" and strtoul                                  *)

Lemma sprintf_02u n : n < 100 -> sprintf_0u 2 n = d2 n.
Proof.
  intros H. unfold sprintf_0u, sprintf_u, d2. cbn [dec_fuel].
  destruct (n <? 10) eqn:H1.
  - cbn [length Nat.sub repeat app]. f_equal; [lia|f_equal; lia].
  - replace (n / 10 <? 10) with true by lia. cbn [app length Nat.sub repeat]. reflexivity.
Qed.

Lemma sprintf_04u n : n < 10000 -> sprintf_0u 4 n = d4 n.
Proof.
  intros H. unfold sprintf_0u, sprintf_u, d4. cbn [dec_fuel].
  destruct (n <? 10) eqn:H1.
  { cbn [length Nat.sub repeat app]. list_lia. }
  destruct (n / 10 <? 10) eqn:H2.
  { cbn [length Nat.sub repeat app]. list_lia. }
  destruct (n / 10 / 10 <? 10) eqn:H3.
  { cbn [length Nat.sub repeat app]. list_lia. }
  replace (n / 10 / 10 / 10 <? 10) with true by lia.
  cbn [length Nat.sub repeat app]. list_lia.
Qed.

Lemma strtoul10_2 a b : a < 10 -> b < 10 -> strtoul10 [48 + a; 48 + b] = a * 10 + b.
Proof.
  intros Ha Hb. unfold strtoul10. cbn [digits_val]. rewrite !dec_digit_ok by assumption. lia.
Qed.

Lemma strtoul10_4 a b c d : a < 10 -> b < 10 -> c < 10 -> d < 10 ->
  strtoul10 [48 + a; 48 + b; 48 + c; 48 + d] = a * 1000 + b * 100 + c * 10 + d.
Proof.
  intros Ha Hb Hc Hd. unfold strtoul10. cbn [digits_val]. rewrite !dec_digit_ok by assumption. lia.
Qed.

Lemma mem_absent c l : Forall (fun x => x <> c) l -> mem c l = false.
Proof.
  unfold mem. induction 1 as [|x l Hx _ IH]; [reflexivity|].
  cbn [existsb]. rewrite IH. replace (c =? x) with false by lia. reflexivity.
Qed.

(* ------------------------------------------------------------------ *)
(* the encoder on the sixteen-character text                            *)

Definition wv_text16 (a1 a2 a3 a4 a5 a6 a7 a8 a9 a10 a11 a12 a13 a14 z : N) : list N :=
  [48 + a1; 48 + a2; 48 + a3; 48 + a4; 48 + a5; 48 + a6; 48 + a7; 48 + a8; 84;
   48 + a9; 48 + a10; 48 + a11; 48 + a12; 48 + a13; 48 + a14; z].
Definition wv_text14 (a1 a2 a3 a4 a5 a6 a7 a8 a9 a10 a11 a12 z : N) : list N :=
  [48 + a1; 48 + a2; 48 + a3; 48 + a4; 48 + a5; 48 + a6; 48 + a7; 48 + a8; 84;
   48 + a9; 48 + a10; 48 + a11; 48 + a12; z].

Section WvDigits.
  Variables a1 a2 a3 a4 a5 a6 a7 a8 a9 a10 a11 a12 a13 a14 z : N.
  Hypothesis H1 : a1 < 10. Hypothesis H2 : a2 < 10. Hypothesis H3 : a3 < 10. Hypothesis H4 : a4 < 10.
  Hypothesis H5 : a5 < 10. Hypothesis H6 : a6 < 10. Hypothesis H7 : a7 < 10. Hypothesis H8 : a8 < 10.
  Hypothesis H9 : a9 < 10. Hypothesis H10 : a10 < 10. Hypothesis H11 : a11 < 10. Hypothesis H12 : a12 < 10.
  Hypothesis H13 : a13 < 10. Hypothesis H14 : a14 < 10.
  Hypothesis Hz : wv_zone_ok z = true.

  Lemma zone_bounds : 65 <= z <= 90 /\ z <> 74.
  Proof. unfold wv_zone_ok in Hz. lia. Qed.

  Lemma opaque16 :
    enc_wv_datetime_opaque (wv_text16 a1 a2 a3 a4 a5 a6 a7 a8 a9 a10 a11 a12 a13 a14 z) =
    Emit (enc_opaque (pack_c (a1 * 1000 + a2 * 100 + a3 * 10 + a4) (a5 * 10 + a6) (a7 * 10 + a8)
                             (a9 * 10 + a10) (a11 * 10 + a12) (a13 * 10 + a14) ++ [z])).
  Proof.
    pose proof zone_bounds as [Hz1 Hz2].
    unfold enc_wv_datetime_opaque, wv_text16.
    cbn [length Nat.eqb orb negb andb nth delete_at Nat.leb firstn skipn app Nat.add forallb].
    replace (84 =? 84) with true by reflexivity. cbn [negb].
    replace (z <? 65) with false by lia. replace (z =? 74) with false by lia. replace (90 <? z) with false by lia.
    cbn [orb].
    rewrite !is_digit_ok by assumption. cbn [andb negb].
    rewrite strtoul10_4 by assumption. rewrite !strtoul10_2 by assumption.
    reflexivity.
  Qed.

  (* no '-', '+', ':' in such a text; it is sent inline exactly when the zone is 'Z' *)
  Lemma no_separators c : (c <? 48) || (c =? 58) = true ->
    mem c (wv_text16 a1 a2 a3 a4 a5 a6 a7 a8 a9 a10 a11 a12 a13 a14 z) = false.
  Proof.
    pose proof zone_bounds as [Hz1 Hz2]. intros Hc. apply mem_absent. unfold wv_text16.
    repeat (constructor; [lia|]). constructor.
  Qed.

  Lemma len16 : length (wv_text16 a1 a2 a3 a4 a5 a6 a7 a8 a9 a10 a11 a12 a13 a14 z) = 16%nat.
  Proof. reflexivity. Qed.
  Lemma last16 : nth 15 (wv_text16 a1 a2 a3 a4 a5 a6 a7 a8 a9 a10 a11 a12 a13 a14 z) 0 = z.
  Proof. reflexivity. Qed.

  Lemma enc16 : z <> 90 ->
    enc_wv_datetime (wv_text16 a1 a2 a3 a4 a5 a6 a7 a8 a9 a10 a11 a12 a13 a14 z) =
    Emit (enc_opaque (pack_c (a1 * 1000 + a2 * 100 + a3 * 10 + a4) (a5 * 10 + a6) (a7 * 10 + a8)
                             (a9 * 10 + a10) (a11 * 10 + a12) (a13 * 10 + a14) ++ [z])).
  Proof.
    intros Hnz. unfold enc_wv_datetime. rewrite !no_separators by reflexivity.
    rewrite len16. cbn [Nat.sub orb]. rewrite last16.
    replace (z =? 90) with false by lia. apply opaque16.
  Qed.

  Lemma enc16_Z : z = 90 ->
    enc_wv_datetime (wv_text16 a1 a2 a3 a4 a5 a6 a7 a8 a9 a10 a11 a12 a13 a14 z) =
    EInline (wv_text16 a1 a2 a3 a4 a5 a6 a7 a8 a9 a10 a11 a12 a13 a14 z).
  Proof.
    intros Hz90. unfold enc_wv_datetime. rewrite !no_separators by reflexivity.
    rewrite len16. cbn [Nat.sub orb]. rewrite last16. subst z. reflexivity.
  Qed.

  Lemma no_separators14 c : (c <? 48) || (c =? 58) = true ->
    mem c (wv_text14 a1 a2 a3 a4 a5 a6 a7 a8 a9 a10 a11 a12 z) = false.
  Proof.
    pose proof zone_bounds as [Hz1 Hz2]. intros Hc. apply mem_absent. unfold wv_text14.
    repeat (constructor; [lia|]). constructor.
  Qed.
End WvDigits.

(* the fourteen-character text (seconds left out) is completed with "00" and treated alike *)
Lemma opaque14 a1 a2 a3 a4 a5 a6 a7 a8 a9 a10 a11 a12 z :
  enc_wv_datetime_opaque (wv_text14 a1 a2 a3 a4 a5 a6 a7 a8 a9 a10 a11 a12 z) =
  enc_wv_datetime_opaque (wv_text16 a1 a2 a3 a4 a5 a6 a7 a8 a9 a10 a11 a12 0 0 z).
Proof. reflexivity. Qed.

(* ------------------------------------------------------------------ *)
(* fields                                                               *)

Lemma wv_render_full Y M D h m s z : z <> 0 ->
  wv_render true Y M D h m s z =
  wv_text16 (Y / 1000) ((Y / 100) mod 10) ((Y / 10) mod 10) (Y mod 10) (M / 10) (M mod 10) (D / 10) (D mod 10)
            (h / 10) (h mod 10) (m / 10) (m mod 10) (s / 10) (s mod 10) z.
Proof. intros Hz. unfold wv_render. replace (z =? 0) with false by lia. reflexivity. Qed.

Lemma wv_render_short Y M D h m s z : z <> 0 ->
  wv_render false Y M D h m s z =
  wv_text14 (Y / 1000) ((Y / 100) mod 10) ((Y / 10) mod 10) (Y mod 10) (M / 10) (M mod 10) (D / 10) (D mod 10)
            (h / 10) (h mod 10) (m / 10) (m mod 10) z.
Proof. intros Hz. unfold wv_render. replace (z =? 0) with false by lia. reflexivity. Qed.

Lemma wv_octets_pack Y M D h m s z : wv_fields_ok Y M D h m s ->
  wv_octets Y M D h m s z = pack_c Y M D h m s ++ [z].
Proof.
  intros (HY & HM & HD & Hh & Hm & Hs). rewrite pack_c_spec by lia. reflexivity.
Qed.

(* the encoder on the full text: the six octets of the specification *)
Lemma enc_wv_datetime_full Y M D h m s z : wv_fields_ok Y M D h m s -> wv_zone_ok z = true -> z <> 90 ->
  enc_wv_datetime (wv_render true Y M D h m s z) = Emit (enc_opaque (wv_octets Y M D h m s z)).
Proof.
  intros Hf Hz Hnz. pose proof Hf as (HY & HM & HD & Hh & Hm & Hs).
  assert (HY' : Y <= 9999) by (clear - HY; lia).
  assert (HM' : 0 <= M <= 99) by (clear - HM; lia). assert (HD' : 0 <= D <= 99) by (clear - HD; lia).
  assert (Hh' : h < 100) by (clear - Hh; lia). assert (Hm' : m < 100) by (clear - Hm; lia). assert (Hs' : s < 100) by (clear - Hs; lia).
  assert (z <> 0) by (clear - Hz; unfold wv_zone_ok in Hz; lia).
  digit_bounds Y M D h m s HY' HM' HD' Hh' Hm' Hs'.
  rewrite wv_render_full by assumption. rewrite enc16 by assumption.
  rewrite wv_octets_pack by exact Hf.
  replace (Y / 1000 * 1000 + (Y / 100) mod 10 * 100 + (Y / 10) mod 10 * 10 + Y mod 10) with Y by (clear - HY'; lia).
  replace (M / 10 * 10 + M mod 10) with M by (clear; lia).
  replace (D / 10 * 10 + D mod 10) with D by (clear; lia).
  replace (h / 10 * 10 + h mod 10) with h by (clear; lia).
  replace (m / 10 * 10 + m mod 10) with m by (clear; lia).
  replace (s / 10 * 10 + s mod 10) with s by (clear; lia).
  reflexivity.
Qed.

(* the text without seconds denotes second 0 and is encoded to the same octets *)
Lemma enc14 a1 a2 a3 a4 a5 a6 a7 a8 a9 a10 a11 a12 z :
  a1 < 10 -> a2 < 10 -> a3 < 10 -> a4 < 10 -> a5 < 10 -> a6 < 10 -> a7 < 10 -> a8 < 10 -> a9 < 10 -> a10 < 10 ->
  a11 < 10 -> a12 < 10 -> wv_zone_ok z = true -> z <> 90 ->
  enc_wv_datetime (wv_text14 a1 a2 a3 a4 a5 a6 a7 a8 a9 a10 a11 a12 z) =
  enc_wv_datetime (wv_text16 a1 a2 a3 a4 a5 a6 a7 a8 a9 a10 a11 a12 0 0 z).
Proof.
  intros H1 H2 H3 H4 H5 H6 H7 H8 H9 H10 H11 H12 Hz Hnz.
  assert (H0 : 0 < 10) by reflexivity.
  rewrite (enc16 a1 a2 a3 a4 a5 a6 a7 a8 a9 a10 a11 a12 0 0 z) by assumption.
  unfold enc_wv_datetime.
  rewrite !(no_separators14 a1 a2 a3 a4 a5 a6 a7 a8 a9 a10 a11 a12 0 0 z) by (assumption || reflexivity).
  change (length (wv_text14 a1 a2 a3 a4 a5 a6 a7 a8 a9 a10 a11 a12 z)) with 14%nat. cbn [Nat.sub orb].
  change (nth 13 (wv_text14 a1 a2 a3 a4 a5 a6 a7 a8 a9 a10 a11 a12 z) 0) with z.
  replace (z =? 90) with false by (clear - Hnz; lia).
  rewrite opaque14. apply opaque16; assumption.
Qed.

Lemma enc_wv_datetime_short Y M D h m z : wv_fields_ok Y M D h m 0 -> wv_zone_ok z = true -> z <> 90 ->
  enc_wv_datetime (wv_render false Y M D h m 0 z) = enc_wv_datetime (wv_render true Y M D h m 0 z).
Proof.
  intros Hf Hz Hnz. pose proof Hf as (HY & HM & HD & Hh & Hm & Hs).
  assert (HY' : Y <= 9999) by (clear - HY; lia).
  assert (HM' : 0 <= M <= 99) by (clear - HM; lia). assert (HD' : 0 <= D <= 99) by (clear - HD; lia).
  assert (Hh' : h < 100) by (clear - Hh; lia). assert (Hm' : m < 100) by (clear - Hm; lia). assert (Hs' : 0 < 100) by reflexivity.
  assert (Hz0 : z <> 0) by (clear - Hz; unfold wv_zone_ok in Hz; lia).
  digit_bounds Y M D h m 0 HY' HM' HD' Hh' Hm' Hs'.
  rewrite wv_render_full, wv_render_short by assumption.
  change (0 / 10) with 0. change (0 mod 10) with 0.
  apply enc14; assumption.
Qed.

(* the decoder on the six octets of the specification: the same fields, seconds printed only when not 0 *)
Lemma dec_wv_datetime_octets Y M D h m s z : wv_fields_ok Y M D h m s -> wv_zone_ok z = true ->
  dec_wv_datetime (wv_octets Y M D h m s z) = TOk (wv_render (negb (s =? 0)) Y M D h m s z).
Proof.
  intros (HY & HM & HD & Hh & Hm & Hs) Hz.
  assert (Hzb : 65 <= z <= 90 /\ z <> 74) by (unfold wv_zone_ok in Hz; lia).
  unfold dec_wv_datetime, wv_octets.
  rewrite unpack_year, unpack_month, unpack_day, unpack_hour, unpack_minute, unpack_second by lia.
  rewrite sprintf_04u by lia. rewrite !sprintf_02u by lia.
  replace (z =? 0) with false by lia. replace (z <? 65) with false by lia.
  replace (90 <? z) with false by lia. replace (z =? 74) with false by lia. cbn [orb].
  unfold wv_render. replace (z =? 0) with false by lia.
  destruct (s =? 0) eqn:Hs0; cbn [negb]; rewrite <- !app_assoc; reflexivity.
Qed.

(* Theorem 3 *)
Lemma wv_datetime_roundtrip Y M D h m s z : wv_fields_ok Y M D h m s -> wv_zone_ok z = true -> z <> 90 ->
  exists p, payload_of (enc_wv_datetime (wv_render true Y M D h m s z)) = Some p /\
            p = wv_octets Y M D h m s z /\
            dec_wv_datetime p = TOk (wv_render (negb (s =? 0)) Y M D h m s z).
Proof.
  intros Hf Hz Hnz. rewrite enc_wv_datetime_full by assumption.
  exists (wv_octets Y M D h m s z). split; [|split; [reflexivity|apply dec_wv_datetime_octets; assumption]].
  cbn [payload_of]. apply opaque_payload_enc. reflexivity.
Qed.

(* second iteration: what was decoded is encoded to the same octets again, and decodes to itself *)
Lemma wv_datetime_fixpoint Y M D h m s z : wv_fields_ok Y M D h m s -> wv_zone_ok z = true -> z <> 90 ->
  enc_wv_datetime (wv_render (negb (s =? 0)) Y M D h m s z) = Emit (enc_opaque (wv_octets Y M D h m s z)).
Proof.
  intros Hf Hz Hnz. destruct (s =? 0) eqn:Hs0; cbn [negb].
  - assert (s = 0) by lia. subst s. rewrite enc_wv_datetime_short by assumption.
    apply enc_wv_datetime_full; assumption.
  - apply enc_wv_datetime_full; assumption.
Qed.

(* zone Z: the text is sent as it is, as an inline string *)
Lemma wv_datetime_Z Y M D h m s : Y <= 9999 -> M <= 99 -> D <= 99 -> h <= 99 -> m <= 99 -> s <= 99 ->
  enc_wv_datetime (wv_render true Y M D h m s 90) = EInline (wv_render true Y M D h m s 90).
Proof.
  intros HY HM HD Hh Hm Hs.
  assert (HM' : 0 <= M <= 99) by lia. assert (HD' : 0 <= D <= 99) by lia.
  assert (Hh' : h < 100) by lia. assert (Hm' : m < 100) by lia. assert (Hs' : s < 100) by lia.
  digit_bounds Y M D h m s HY HM' HD' Hh' Hm' Hs'.
  rewrite wv_render_full by discriminate. apply enc16_Z; try assumption; reflexivity.
Qed.

(* ------------------------------------------------------------------ *)
(* zone octets and letters that are no zone designator                  *)

(* the decoder on the six specification octets, whatever the zone octet is *)
Lemma dec_wv_datetime_any_zone Y M D h m s z : wv_fields_ok Y M D h m s ->
  dec_wv_datetime (wv_octets Y M D h m s z) = TOk (wv_render (negb (s =? 0)) Y M D h m s 0 ++ zone_suffix z).
Proof.
  intros (HY & HM & HD & Hh & Hm & Hs).
  unfold dec_wv_datetime, wv_octets.
  rewrite unpack_year, unpack_month, unpack_day, unpack_hour, unpack_minute, unpack_second by lia.
  rewrite sprintf_04u by lia. rewrite !sprintf_02u by lia.
  unfold wv_render, zone_suffix. change (0 =? 0) with true. cbv iota.
  destruct (z =? 0); [|destruct ((z <? 65) || (90 <? z) || (z =? 74))];
    destruct (s =? 0) eqn:Hs0; cbn [negb]; rewrite <- ?app_assoc; cbn [app]; rewrite ?app_nil_r; reflexivity.
Qed.

(* 'J' (and any octet outside 'A'..'Z') is never printed as a zone designator *)
Lemma dec_wv_datetime_no_zone_J Y M D h m s : wv_fields_ok Y M D h m s ->
  dec_wv_datetime (wv_octets Y M D h m s 74) = TOk (wv_render (negb (s =? 0)) Y M D h m s 0).
Proof.
  intros Hf. rewrite dec_wv_datetime_any_zone by exact Hf. unfold zone_suffix.
  change (74 =? 0) with false. change ((74 <? 65) || (90 <? 74) || (74 =? 74)) with true. cbv iota.
  rewrite app_nil_r. reflexivity.
Qed.

(* the encoder refuses zone 'J' *)
Lemma enc16_J a1 a2 a3 a4 a5 a6 a7 a8 a9 a10 a11 a12 a13 a14 :
  a1 < 10 -> a2 < 10 -> a3 < 10 -> a4 < 10 -> a5 < 10 -> a6 < 10 -> a7 < 10 -> a8 < 10 -> a9 < 10 -> a10 < 10 ->
  a11 < 10 -> a12 < 10 -> a13 < 10 -> a14 < 10 ->
  enc_wv_datetime (wv_text16 a1 a2 a3 a4 a5 a6 a7 a8 a9 a10 a11 a12 a13 a14 74) = EErr T_WV_DATETIME_FORMAT.
Proof.
  intros H1 H2 H3 H4 H5 H6 H7 H8 H9 H10 H11 H12 H13 H14.
  assert (Hsep : forall c, (c <? 48) || (c =? 58) = true ->
                           mem c (wv_text16 a1 a2 a3 a4 a5 a6 a7 a8 a9 a10 a11 a12 a13 a14 74) = false).
  { intros c Hc. apply mem_absent. unfold wv_text16. repeat (constructor; [lia|]). constructor. }
  unfold enc_wv_datetime. rewrite !Hsep by reflexivity.
  change (length (wv_text16 a1 a2 a3 a4 a5 a6 a7 a8 a9 a10 a11 a12 a13 a14 74)) with 16%nat. cbn [Nat.sub orb].
  change (nth 15 (wv_text16 a1 a2 a3 a4 a5 a6 a7 a8 a9 a10 a11 a12 a13 a14 74) 0) with 74.
  change (74 =? 90) with false. cbv iota.
  unfold enc_wv_datetime_opaque, wv_text16.
  cbn [length Nat.eqb orb negb andb nth app].
  replace (84 =? 84) with true by reflexivity. cbn [negb].
  change ((74 <? 65) || (74 =? 74) || (90 <? 74)) with true. reflexivity.
Qed.

Lemma wv_datetime_zone_J_refused Y M D h m s : Y <= 9999 -> M <= 99 -> D <= 99 -> h <= 99 -> m <= 99 -> s <= 99 ->
  enc_wv_datetime (wv_render true Y M D h m s 74) = EErr T_WV_DATETIME_FORMAT.
Proof.
  intros HY HM HD Hh Hm Hs.
  assert (HM' : 0 <= M <= 99) by (clear - HM; lia). assert (HD' : 0 <= D <= 99) by (clear - HD; lia).
  assert (Hh' : h < 100) by (clear - Hh; lia). assert (Hm' : m < 100) by (clear - Hm; lia). assert (Hs' : s < 100) by (clear - Hs; lia).
  digit_bounds Y M D h m s HY HM' HD' Hh' Hm' Hs'.
  rewrite wv_render_full by discriminate. apply enc16_J; assumption.
Qed.
