(* X_typed — the typed-content codecs were transcribed independently in several developments:
     Model/Typed.v      (C12: encoders and decoders, dispatch)
     Model/Parser.v     (C04/C13/C01: the decoders inside the event parser)
     Model/EncWbxml.v   (C06/C17: the encoders inside the WBXML encoder)
     Model/EncXml.v, Model/XmlFront.v, Model/BufferModel.v (users of the base64 / hex routines)
     Gen/HardWired.v    (C08: behavioural probe of the C, regenerated)
   This file proves that the transcriptions are the same functions, modulo the obvious conversions of
   result types (error enumerations, option / result wrappers). *)
From Coq Require Import List NArith ZArith Lia Bool ZifyBool ZifyN PeanoNat.
From Wbxml Require Import Base.Bits Model.Codec Model.TablesDefs.
From Wbxml Require Model.Typed Model.Parser Model.Spec Model.EncWbxml Model.EncXml Model.XmlFront Model.BufferModel.
From Wbxml Require Import Proofs.CodecProofs Proofs.TypedProofs Proofs.TypedDtProofs.
Import ListNotations.
Local Open Scope N_scope.
Ltac Zify.zify_post_hook ::= Z.div_mod_to_equations.

Arguments N.mul : simpl never.
Arguments N.add : simpl never.
Arguments N.div : simpl never.
Arguments N.modulo : simpl never.
Arguments N.shiftr : simpl never.
Arguments N.shiftl : simpl never.
Arguments N.land : simpl never.
Arguments N.lor : simpl never.
Arguments N.pow : simpl never.
Arguments N.sub : simpl never.
Arguments N.ltb : simpl never.
Arguments N.leb : simpl never.
Arguments N.eqb : simpl never.
Arguments N.min : simpl never.

(* ------------------------------------------------------------------ *)
(* conversions                                                          *)

(* Typed.v error -> Parser.v error (T_B64_DEC is an encoder-side error: no decoder returns it) *)
Definition perr_of (e : Typed.terr) : Parser.perr :=
  match e with
  | Typed.T_BAD_DATETIME => Parser.PE_BAD_DATETIME
  | Typed.T_INTERNAL => Parser.PE_INTERNAL
  | Typed.T_B64_ENC => Parser.PE_B64_ENC
  | Typed.T_B64_DEC => Parser.PE_INTERNAL
  | Typed.T_WV_DATETIME_FORMAT => Parser.PE_WV_DATETIME_FORMAT
  | Typed.T_WV_INTEGER_OVERFLOW => Parser.PE_WV_INTEGER_OVERFLOW
  end.

Definition pres_of {A} (r : Typed.tres A) : Parser.pres A :=
  match r with Typed.TOk a => Parser.POk a | Typed.TErr e => Parser.PErr (perr_of e) end.

(* Typed.v error -> the numeric WBXMLError code EncWbxml.v uses *)
Definition code_of (e : Typed.terr) : N :=
  match e with
  | Typed.T_BAD_DATETIME => 11
  | Typed.T_INTERNAL => 13
  | Typed.T_B64_ENC => 18
  | Typed.T_B64_DEC => 19
  | Typed.T_WV_DATETIME_FORMAT => 20
  | Typed.T_WV_INTEGER_OVERFLOW => 80
  end.

(* what a Typed.v encoding routine did, as EncWbxml.v expresses it: None = WBXML_NOT_ENCODED *)
Definition eres_of (o : Typed.enc_out) : option (EncWbxml.eres (list N)) :=
  match o with
  | Typed.Emit b => Some (EncWbxml.EOk b)
  | Typed.EInline s => Some (EncWbxml.EOk (EncWbxml.enc_inline_string s))
  | Typed.ENotEncoded => None
  | Typed.EErr e => Some (EncWbxml.EErr (code_of e))
  end.

(* ------------------------------------------------------------------ *)
(* (1) SI / EMN %Datetime decoder                                        *)

Lemma datetime_decoder_eq v : Parser.decode_datetime v = pres_of (Typed.dec_datetime v).
Proof.
  unfold Parser.decode_datetime, Typed.dec_datetime.
  generalize (bin_to_hex true v) as h. intro h.
  (* both are functions of the hex string and its length: one case per length 0..14, and "longer" *)
  remember (length h) as n eqn:En.
  do 15 (destruct n as [|n]; [reflexivity|]).
  reflexivity.
Qed.

Lemma attr_typed_eq env page tok nm value :
  Parser.attr_typed env (Parser.AttrTok page tok nm) value =
  pres_of (Typed.decode_attr_value (l_id (Parser.e_lang env)) page tok value).
Proof.
  unfold Parser.attr_typed, Typed.decode_attr_value, Typed.attr_value_kind, Typed.L_SI10, Typed.L_EMN10.
  destruct value as [|c r]; [reflexivity|].
  set (id := l_id (Parser.e_lang env)).
  destruct (id =? 1301) eqn:H1.
  - cbn [andb]. destruct ((page =? 0) && ((tok =? 10) || (tok =? 16))); cbn [Typed.decode_by_kind pres_of];
      [apply datetime_decoder_eq|].
    assert (id =? 1701 = false) by lia. rewrite H. reflexivity.
  - cbn [andb]. destruct (id =? 1701); cbn [andb]; [|reflexivity].
    destruct ((page =? 0) && (tok =? 5)); cbn [Typed.decode_by_kind pres_of]; [apply datetime_decoder_eq|reflexivity].
Qed.

Lemma attr_typed_literal env nm value : Parser.attr_typed env (Parser.AttrLit nm) value = Parser.POk value.
Proof. unfold Parser.attr_typed. destruct value; reflexivity. Qed.

(* ------------------------------------------------------------------ *)
(* (2) Wireless-Village decoders                                        *)

(* sprintf "%u": Parser.v accumulates the digits from the least significant one, Typed.v recurses on n / 10 *)
Lemma dec_digits_fuel f v acc : v < 10 ^ N.of_nat f ->
  Parser.dec_digits f v acc = Typed.dec_fuel f v ++ acc.
Proof.
  revert v acc. induction f as [|f IH]; intros v acc Hv.
  - reflexivity.
  - cbn [Parser.dec_digits Typed.dec_fuel].
    destruct (v <? 10) eqn:H10.
    + replace (v / 10 =? 0) with true by lia. cbn [app]. f_equal. f_equal. lia.
    + replace (v / 10 =? 0) with false by lia.
      rewrite IH by (rewrite Nat2N.inj_succ, N.pow_succ_r' in Hv; lia).
      rewrite <- app_assoc. reflexivity.
Qed.

Lemma dec_fuel_more f g v : v < 10 ^ N.of_nat (S f) -> (S f <= g)%nat -> Typed.dec_fuel g v = Typed.dec_fuel (S f) v.
Proof.
  revert g v. induction f as [|f IH]; intros g v Hv Hg.
  - destruct g as [|g]; [lia|]. cbn [Typed.dec_fuel]. change (10 ^ N.of_nat 1) with 10 in Hv.
    replace (v <? 10) with true by lia. reflexivity.
  - destruct g as [|g]; [lia|]. cbn [Typed.dec_fuel].
    destruct (v <? 10) eqn:H10; [reflexivity|].
    rewrite (IH g) by (try (rewrite (Nat2N.inj_succ (S f)), N.pow_succ_r' in Hv); lia). reflexivity.
Qed.

Lemma fmt_u_eq v : v < 4294967296 -> Parser.fmt_u v = Typed.sprintf_u v.
Proof.
  intros Hv. unfold Parser.fmt_u, Typed.sprintf_u.
  assert (H10 : v < 10 ^ N.of_nat 10) by (change (10 ^ N.of_nat 10) with 10000000000; lia).
  rewrite dec_digits_fuel by exact H10. rewrite app_nil_r.
  symmetry. apply (dec_fuel_more 9 20); [exact H10|lia].
Qed.

Lemma fmt_0u_eq w v : v < 4294967296 -> Parser.pad_to w (Parser.fmt_u v) = Typed.sprintf_0u w v.
Proof. intros Hv. unfold Parser.pad_to, Typed.sprintf_0u. rewrite fmt_u_eq by exact Hv. reflexivity. Qed.

(* the loop variable is 0 or a value reduced mod 2^32 *)
Lemma wv_int_loop_eq d acc :
  Parser.wv_int_loop d acc = pres_of (Typed.wv_int_loop d acc) /\
  (acc < 4294967296 -> forall v, Typed.wv_int_loop d acc = Typed.TOk v -> v < 4294967296).
Proof.
  revert acc. induction d as [|ch r IH]; intros acc.
  - split; [reflexivity|]. intros Ha v E. cbn in E. injection E as <-. exact Ha.
  - cbn [Parser.wv_int_loop Typed.wv_int_loop].
    destruct (16777215 <? acc); [split; [reflexivity|discriminate]|].
    destruct (IH (u32 (N.lor (N.shiftl acc 8) (N.land ch 255)))) as [E1 E2].
    split; [exact E1|]. intros _. apply E2. unfold u32. apply N.mod_lt. discriminate.
Qed.

Lemma wv_integer_decoder_eq d : Parser.decode_wv_integer d = pres_of (Typed.dec_wv_int d).
Proof.
  unfold Parser.decode_wv_integer, Typed.dec_wv_int.
  destruct (wv_int_loop_eq d 0) as [E B]. rewrite E.
  destruct (Typed.wv_int_loop d 0) as [v|e] eqn:L; cbn [pres_of]; [|reflexivity].
  rewrite fmt_u_eq; [reflexivity|]. apply B; reflexivity.
Qed.

Lemma wv_datetime_decoder_eq d : Parser.decode_wv_datetime d = pres_of (Typed.dec_wv_datetime d).
Proof.
  unfold Parser.decode_wv_datetime, Typed.dec_wv_datetime.
  destruct d as [|d0 [|d1 [|d2 [|d3 [|d4 [|d5 [|d6 r]]]]]]]; try reflexivity.
  unfold Parser.fmt_04u, Parser.fmt_02u.
  assert (B63 : forall a, N.land a 63 < 64) by (intro a; rewrite land_63; apply N.mod_lt; discriminate).
  assert (B3 : forall a, N.land a 3 < 4).
  { intro a. change 3 with (N.ones 2). rewrite N.land_ones. apply N.mod_lt. discriminate. }
  assert (B15 : forall a, N.land a 15 < 16) by (intro a; rewrite land_15; apply N.mod_lt; discriminate).
  assert (B31 : forall a, N.land a 31 < 32).
  { intro a. change 31 with (N.ones 5). rewrite N.land_ones. apply N.mod_lt. discriminate. }
  assert (B1 : forall a, N.land a 1 < 2).
  { intro a. change 1 with (N.ones 1). rewrite N.land_ones. apply N.mod_lt. discriminate. }
  assert (Hy : N.shiftl (N.land d0 63) 6 + N.land (N.shiftr d1 2) 63 < 4294967296).
  { rewrite N.shiftl_mul_pow2. change (2 ^ 6) with 64. pose proof (B63 d0). pose proof (B63 (N.shiftr d1 2)). lia. }
  assert (Hmo : N.lor (N.shiftl (N.land d1 3) 2) (N.land (N.shiftr d2 6) 3) < 4294967296).
  { rewrite lor_shiftl_low by (change (2 ^ 2) with 4; apply B3). change (2 ^ 2) with 4.
    pose proof (B3 d1). pose proof (B3 (N.shiftr d2 6)). lia. }
  assert (Hd : N.land (N.shiftr d2 1) 31 < 4294967296) by (pose proof (B31 (N.shiftr d2 1)); lia).
  assert (Hh : N.lor (N.shiftl (N.land d2 1) 4) (N.land (N.shiftr d3 4) 15) < 4294967296).
  { rewrite lor_shiftl_low by (change (2 ^ 4) with 16; apply B15). change (2 ^ 4) with 16.
    pose proof (B1 d2). pose proof (B15 (N.shiftr d3 4)). lia. }
  assert (Hmi : N.lor (N.shiftl (N.land d3 15) 2) (N.land (N.shiftr d4 6) 3) < 4294967296).
  { rewrite lor_shiftl_low by (change (2 ^ 2) with 4; apply B3). change (2 ^ 2) with 4.
    pose proof (B15 d3). pose proof (B3 (N.shiftr d4 6)). lia. }
  assert (Hs : N.land d4 63 < 4294967296) by (pose proof (B63 d4); lia).
  cbv zeta. rewrite !fmt_0u_eq by assumption.
  cbn [pres_of]. destruct (d5 =? 0); [reflexivity|].
  destruct ((d5 <? 65) || (90 <? d5) || (d5 =? 74)); reflexivity.
Qed.

(* ------------------------------------------------------------------ *)
(* (2) dispatch: which (language, code page, token) gets which type      *)

Definition wv_type_of (k : Typed.tkind) : Parser.wv_type :=
  match k with
  | Typed.K_WVInteger => Parser.WV_INTEGER
  | Typed.K_WVDateTime => Parser.WV_DATETIME
  | _ => Parser.WV_STRING
  end.

Ltac tok_cases tok :=
  repeat match goal with |- context [tok =? ?k] => destruct (tok =? k) end; reflexivity.

Lemma wv_dec_kind_other page tok :
  page <> 0 -> page <> 1 -> page <> 3 -> page <> 5 -> page <> 6 -> page <> 9 -> Typed.wv_dec_kind page tok = Typed.K_Plain.
Proof.
  intros. destruct page as [|p]; [congruence|].
  do 4 (try (destruct p as [p|p|]; try reflexivity; try congruence)).
Qed.

Lemma wv_enc_kind_other page tok :
  page <> 0 -> page <> 1 -> page <> 3 -> page <> 6 -> page <> 9 -> Typed.wv_enc_kind page tok = Typed.K_Plain.
Proof.
  intros. destruct page as [|p]; [congruence|].
  do 4 (try (destruct p as [p|p|]; try reflexivity; try congruence)).
Qed.

Lemma wv_kind_eq page tok : Parser.wv_data_type page tok = wv_type_of (Typed.wv_dec_kind page tok).
Proof.
  unfold Parser.wv_data_type.
  destruct (page =? 0) eqn:P0; [apply N.eqb_eq in P0; subst; unfold Typed.wv_dec_kind, Typed.in_list; cbv iota; cbn [existsb]; tok_cases tok|].
  destruct (page =? 1) eqn:P1; [apply N.eqb_eq in P1; subst; unfold Typed.wv_dec_kind, Typed.in_list; cbv iota; cbn [existsb]; tok_cases tok|].
  destruct (page =? 3) eqn:P3; [apply N.eqb_eq in P3; subst; unfold Typed.wv_dec_kind, Typed.in_list; cbv iota; cbn [existsb]; tok_cases tok|].
  destruct (page =? 5) eqn:P5; [apply N.eqb_eq in P5; subst; unfold Typed.wv_dec_kind, Typed.in_list; cbv iota; cbn [existsb]; tok_cases tok|].
  destruct (page =? 6) eqn:P6; [apply N.eqb_eq in P6; subst; unfold Typed.wv_dec_kind, Typed.in_list; cbv iota; cbn [existsb]; tok_cases tok|].
  destruct (page =? 9) eqn:P9; [apply N.eqb_eq in P9; subst; unfold Typed.wv_dec_kind, Typed.in_list; cbv iota; cbn [existsb]; tok_cases tok|].
  apply N.eqb_neq in P0, P1, P3, P5, P6, P9. rewrite wv_dec_kind_other by assumption. reflexivity.
Qed.

Lemma wv_dec_kind_range page tok :
  Typed.wv_dec_kind page tok = Typed.K_Plain \/ Typed.wv_dec_kind page tok = Typed.K_WVInteger \/
  Typed.wv_dec_kind page tok = Typed.K_WVDateTime.
Proof.
  unfold Typed.wv_dec_kind. destruct page as [|p]; [|do 4 (try destruct p as [p|p|])];
    repeat match goal with |- context [if ?c then _ else _] => destruct c end; auto.
Qed.

Lemma wv_content_decoder_eq page tok d :
  Parser.decode_wv_content (Some (page, tok)) d = pres_of (Typed.decode_by_kind (Typed.wv_dec_kind page tok) d).
Proof.
  unfold Parser.decode_wv_content. rewrite wv_kind_eq.
  destruct (wv_dec_kind_range page tok) as [E|[E|E]]; rewrite E; cbn [wv_type_of Typed.decode_by_kind pres_of];
    [reflexivity | apply wv_integer_decoder_eq | apply wv_datetime_decoder_eq].
Qed.

Lemma base64_decoder_eq d : Parser.decode_base64_value d = pres_of (Typed.dec_base64_value d).
Proof. unfold Parser.decode_base64_value, Typed.dec_base64_value. destruct (b64_enc d); reflexivity. Qed.

Lemma opaque_content_decoder_eq env page tok d :
  Parser.decode_opaque_content env (Some (page, tok)) d =
  pres_of (Typed.decode_opaque_content (l_id (Parser.e_lang env)) page tok d).
Proof.
  unfold Parser.decode_opaque_content, Typed.decode_opaque_content, Typed.opaque_content_kind,
    Parser.is_wv_lang, Parser.is_syncml_lang, Parser.cur_is,
    Typed.L_WV_CSP11, Typed.L_WV_CSP12, Typed.L_DRMREL10, Typed.L_SYNCML10, Typed.L_SYNCML11, Typed.L_SYNCML12.
  set (id := l_id (Parser.e_lang env)).
  destruct ((id =? 2301) || (id =? 2302)); [apply wv_content_decoder_eq|].
  destruct (id =? 1801).
  { destruct ((page =? 0) && (tok =? 12)); cbn [Typed.decode_by_kind pres_of]; [apply base64_decoder_eq|reflexivity]. }
  destruct ((id =? 2001) || (id =? 2101) || (id =? 2201)); [|reflexivity].
  destruct ((page =? 1) && (tok =? 16)); cbn [Typed.decode_by_kind pres_of]; [apply base64_decoder_eq|reflexivity].
Qed.

Lemma opaque_content_no_tag env d : Parser.decode_opaque_content env None d = Parser.POk d.
Proof.
  unfold Parser.decode_opaque_content, Parser.decode_wv_content, Parser.cur_is.
  destruct (Parser.is_wv_lang _); [reflexivity|]. destruct (_ =? 1801); [reflexivity|].
  destruct (Parser.is_syncml_lang _); reflexivity.
Qed.

Lemma opaque_attr_decoder_eq env d :
  Parser.decode_opaque_attr_value env d = pres_of (Typed.decode_opaque_attr_value (l_id (Parser.e_lang env)) d).
Proof.
  unfold Parser.decode_opaque_attr_value, Typed.decode_opaque_attr_value, Typed.opaque_attr_kind, Typed.L_OTA_SETTINGS.
  destruct (_ =? 1901); cbn [Typed.decode_by_kind pres_of]; [apply base64_decoder_eq|reflexivity].
Qed.

(* the specification side of C04 (Model/Spec.v) singles out the same elements *)
Definition okind_of (k : Typed.tkind) : Spec.okind :=
  match k with
  | Typed.K_WVInteger => Spec.OWvInt
  | Typed.K_WVDateTime => Spec.OWvDate
  | Typed.K_Base64 => Spec.OBase64
  | _ => Spec.OPlain
  end.

From Wbxml Require Proofs.ParserProofsWv.

Lemma spec_opaque_kind_eq id page tok :
  Spec.opaque_kind id (Some (page, tok)) = okind_of (Typed.opaque_content_kind id page tok).
Proof.
  unfold Typed.opaque_content_kind, Typed.L_WV_CSP11, Typed.L_WV_CSP12, Typed.L_DRMREL10,
    Typed.L_SYNCML10, Typed.L_SYNCML11, Typed.L_SYNCML12.
  destruct ((id =? 2301) || (id =? 2302)) eqn:Ewv.
  - transitivity (Spec.opaque_kind 2301 (Some (page, tok))).
    { unfold Spec.opaque_kind. rewrite Ewv. reflexivity. }
    rewrite <- ParserProofsWv.wv_kind_agree, wv_kind_eq.
    destruct (wv_dec_kind_range page tok) as [E|[E|E]]; rewrite E; reflexivity.
  - unfold Spec.opaque_kind. rewrite Ewv. unfold Spec.pair_in. cbn [existsb fst snd].
    rewrite !(N.eqb_sym _ page), !(N.eqb_sym _ tok), !orb_false_r.
    destruct (id =? 1801); [destruct ((page =? 0) && (tok =? 12)); reflexivity|].
    destruct ((id =? 2001) || (id =? 2101) || (id =? 2201)); [|reflexivity].
    destruct ((page =? 1) && (tok =? 16)); reflexivity.
Qed.

Lemma spec_datetime_attr_eq id page tok :
  Spec.is_datetime_attr id page tok =
  match Typed.attr_value_kind id page tok with Typed.K_Datetime => true | _ => false end.
Proof.
  unfold Spec.is_datetime_attr, Typed.attr_value_kind, Typed.L_SI10, Typed.L_EMN10.
  destruct (id =? 1301) eqn:E1.
  - assert (id =? 1701 = false) by lia. rewrite H. cbn [andb orb].
    destruct ((page =? 0) && ((tok =? 10) || (tok =? 16))); reflexivity.
  - cbn [andb orb]. destruct (id =? 1701); cbn [andb]; [|reflexivity].
    destruct ((page =? 0) && (tok =? 5)); reflexivity.
Qed.

(* ---- against the behavioural probe of the C (Gen/HardWired.v, regenerated from the current tree) ---- *)
From Wbxml Require Import Model.HardWiredDefs Gen.TablesData Gen.HardWired.

Definition tkind_eqb (a b : Typed.tkind) : bool :=
  match a, b with
  | Typed.K_Plain, Typed.K_Plain | Typed.K_WVInteger, Typed.K_WVInteger | Typed.K_WVDateTime, Typed.K_WVDateTime
  | Typed.K_Base64, Typed.K_Base64 | Typed.K_Datetime, Typed.K_Datetime => true
  | _, _ => false
  end.

(* the type Typed.v gives to the place of a probe entry (decoder side) *)
Definition typed_dec_kind (w : hw_where) (lang page tok : N) : Typed.tkind :=
  match w with
  | HContent => Typed.opaque_content_kind lang page tok
  | HAttrDT => Typed.attr_value_kind lang page tok
  | HAttrAny => Typed.opaque_attr_kind lang
  | _ => Typed.K_Plain
  end.

(* ... and on the encoder side: WV content, DRMREL content, SI/EMN attribute values, the OTA VALUE attribute *)
Definition typed_enc_kind (w : hw_where) (lang page tok : N) : Typed.tkind :=
  match w with
  | HContent =>
      if (lang =? Typed.L_WV_CSP11) || (lang =? Typed.L_WV_CSP12) then Typed.wv_enc_kind page tok
      else if lang =? Typed.L_DRMREL10 then
        match Typed.enc_drmrel_content page tok [65] with Typed.ENotEncoded => Typed.K_Plain | _ => Typed.K_Base64 end
      else Typed.K_Plain
  | HAttrDT => Typed.attr_value_kind lang page tok
  | HAttrVal => if (lang =? Typed.L_OTA_SETTINGS) && (page =? 0) && (tok =? 17) then Typed.K_Base64 else Typed.K_Plain
  | _ => Typed.K_Plain
  end.

Definition kind_matches (k : hw_kind) (t : Typed.tkind) : bool :=
  match k, t with
  | HInteger, Typed.K_WVInteger | HDateTime, Typed.K_WVDateTime | HDateTime, Typed.K_Datetime | HBase64, Typed.K_Base64 => true
  | _, _ => false
  end.

(* the probe entries that are about typed content (the SyncML MIME-type rewrite is not) *)
Definition is_typed_entry (h : hw) : bool :=
  match hw_type h with HInteger | HDateTime | HBase64 => true | _ => false end.

(* every probe entry is typed the same way by Typed.v *)
Definition probe_sound (kind : hw_where -> N -> N -> N -> Typed.tkind) (l : list hw) : bool :=
  forallb (fun h => negb (is_typed_entry h) || kind_matches (hw_type h) (kind (hw_place h) (hw_lang h) (hw_page h) (hw_tok h))) l.

(* everything Typed.v types at place w is a probe entry: all languages of the tables, all code pages, all tokens *)
Definition has_entry (l : list hw) (w : hw_where) (lang page tok : N) (t : Typed.tkind) : bool :=
  existsb (fun h => (hw_lang h =? lang) && where_eqb (hw_place h) w && (hw_page h =? page) && (hw_tok h =? tok) &&
                    kind_matches (hw_type h) t) l.

Definition probe_complete (kind : hw_where -> N -> N -> N -> Typed.tkind) (l : list hw) (w : hw_where) : bool :=
  forallb (fun lang => forallb (fun page => forallb (fun tok =>
     let t := kind w lang page tok in
     (* `if`, not `||`: vm_compute is call-by-value *)
     if tkind_eqb t Typed.K_Plain then true else has_entry l w lang page tok t) (N_range 256)) (N_range 256)) (map l_id main_table).

Lemma probe_dec_sound : probe_sound typed_dec_kind dec_hardwired = true.
Proof. vm_compute. reflexivity. Qed.
Lemma probe_enc_sound : probe_sound typed_enc_kind enc_hardwired = true.
Proof. vm_compute. reflexivity. Qed.

Lemma probe_dec_complete_content : probe_complete typed_dec_kind dec_hardwired HContent = true.
Proof. vm_compute. reflexivity. Qed.
Lemma probe_dec_complete_attr : probe_complete typed_dec_kind dec_hardwired HAttrDT = true.
Proof. vm_compute. reflexivity. Qed.
Lemma probe_dec_complete_attr_any :
  forallb (fun lang => tkind_eqb (Typed.opaque_attr_kind lang) Typed.K_Plain ||
                       existsb (fun h => (hw_lang h =? lang) && where_eqb (hw_place h) HAttrAny &&
                                         kind_matches (hw_type h) (Typed.opaque_attr_kind lang)) dec_hardwired)
          (map l_id main_table) = true.
Proof. vm_compute. reflexivity. Qed.
Lemma probe_enc_complete_content : probe_complete typed_enc_kind enc_hardwired HContent = true.
Proof. vm_compute. reflexivity. Qed.
Lemma probe_enc_complete_attr : probe_complete typed_enc_kind enc_hardwired HAttrDT = true.
Proof. vm_compute. reflexivity. Qed.
Lemma probe_enc_complete_attr_val : probe_complete typed_enc_kind enc_hardwired HAttrVal = true.
Proof. vm_compute. reflexivity. Qed.

Lemma tkind_eqb_eq a b : tkind_eqb a b = true <-> a = b.
Proof. destruct a, b; cbn; split; intro H; try reflexivity; try discriminate. Qed.

Lemma probe_complete_spec kind l w : probe_complete kind l w = true ->
  forall lang page tok, In lang (map l_id main_table) -> page < 256 -> tok < 256 ->
  kind w lang page tok <> Typed.K_Plain ->
  exists h, In h l /\ hw_lang h = lang /\ hw_place h = w /\ hw_page h = page /\ hw_tok h = tok /\
            kind_matches (hw_type h) (kind w lang page tok) = true.
Proof.
  intros H lang page tok Hl Hp Ht Hk. unfold probe_complete in H.
  rewrite forallb_forall in H. specialize (H lang Hl).
  rewrite forallb_forall in H. specialize (H page (N_range_In 256 page Hp)).
  rewrite forallb_forall in H. specialize (H tok (N_range_In 256 tok Ht)). cbv zeta in H.
  destruct (tkind_eqb (kind w lang page tok) Typed.K_Plain) eqn:E.
  { apply tkind_eqb_eq in E. contradiction. }
  unfold has_entry in H. apply existsb_exists in H. destruct H as (h & Hin & Hh).
  repeat (apply andb_true_iff in Hh; destruct Hh as [Hh ?]).
  exists h. repeat split; try assumption; try (apply N.eqb_eq; assumption).
  destruct (hw_place h), w; try discriminate; reflexivity.
Qed.

Lemma probe_sound_spec kind l : probe_sound kind l = true ->
  forall h, In h l -> is_typed_entry h = true ->
  kind_matches (hw_type h) (kind (hw_place h) (hw_lang h) (hw_page h) (hw_tok h)) = true.
Proof.
  intros H h Hin Ht. unfold probe_sound in H. rewrite forallb_forall in H. specialize (H h Hin).
  rewrite Ht in H. exact H.
Qed.

(* ------------------------------------------------------------------ *)
(* (3) encoders                                                         *)

Lemma enc_opaque_eq d : Typed.enc_opaque d = EncWbxml.enc_opaque d.
Proof. reflexivity. Qed.

(* SI / EMN %Datetime *)
Lemma dt_filter_eq b : Typed.dt_filter b = EncWbxml.datetime_digits b.
Proof.
  induction b as [|c r IH]; [reflexivity|].
  cbn [Typed.dt_filter EncWbxml.datetime_digits]. change (EncWbxml.isdigit c) with (Typed.is_digit c).
  rewrite IH. destruct (Typed.is_digit c); [reflexivity|].
  destruct ((c =? 84) || (c =? 90) || (c =? 45) || (c =? 58)); reflexivity.
Qed.

Lemma frev_rev b : EncWbxml.frev b = rev b.
Proof. unfold EncWbxml.frev. rewrite rev_append_rev. apply app_nil_r. Qed.

Lemma drop_zeros_strip l : rev (EncWbxml.drop_zeros (rev l)) = strip l.
Proof.
  induction l as [|x l IH] using rev_ind; [reflexivity|].
  rewrite rev_app_distr. cbn [rev app EncWbxml.drop_zeros].
  destruct (x =? 0) eqn:E.
  - apply N.eqb_eq in E. subst x. rewrite strip_snoc_zero. exact IH.
  - rewrite strip_snoc_nz by lia. cbn [rev]. rewrite rev_involutive. reflexivity.
Qed.

Lemma rtz_eq b : Typed.rtz b = EncWbxml.remove_trailing_zeros b.
Proof. unfold EncWbxml.remove_trailing_zeros. rewrite !frev_rev, drop_zeros_strip. apply rtz_strip. Qed.

Lemma enc_datetime_eq b : eres_of (Typed.enc_datetime b) = Some (EncWbxml.enc_datetime b).
Proof.
  unfold Typed.enc_datetime, EncWbxml.enc_datetime. rewrite dt_filter_eq.
  destruct (EncWbxml.datetime_digits b); cbn [eres_of code_of]; [|reflexivity].
  rewrite rtz_eq. reflexivity.
Qed.

(* atol / strtol *)
Lemma skip_space_eq b : Typed.skip_space b = EncWbxml.drop_ws b.
Proof. induction b as [|c r IH]; [reflexivity|]. cbn [Typed.skip_space EncWbxml.drop_ws].
  change (EncWbxml.isspace c) with (is_cspace c). destruct (is_cspace c); [exact IH|reflexivity]. Qed.

Lemma split_sign_eq b : Typed.split_sign b = EncWbxml.c_sign b.
Proof. reflexivity. Qed.

Lemma dec_digits_val_eq acc r :
  Typed.digits_val 10 Typed.dec_digit acc r = EncWbxml.dec_val acc (EncWbxml.take_while EncWbxml.isdigit r).
Proof.
  revert acc. induction r as [|c r IH]; intros acc; [reflexivity|].
  cbn [Typed.digits_val EncWbxml.take_while]. unfold Typed.dec_digit.
  change (EncWbxml.isdigit c) with (Typed.is_digit c).
  destruct (Typed.is_digit c); [cbn [EncWbxml.dec_val]; apply IH|reflexivity].
Qed.

Lemma hex_digits_val_eq acc r :
  Typed.digits_val 16 Typed.hex_digit acc r = EncWbxml.hex_val acc (EncWbxml.take_while EncWbxml.is_hexdigit r).
Proof.
  revert acc. induction r as [|c r IH]; intros acc; [reflexivity|].
  cbn [Typed.digits_val EncWbxml.take_while]. unfold EncWbxml.is_hexdigit.
  change (EncWbxml.hexdigit_val c) with (Typed.hex_digit c).
  destruct (Typed.hex_digit c) as [v|] eqn:E; [|reflexivity].
  cbn [EncWbxml.hex_val]. change (EncWbxml.hexdigit_val c) with (Typed.hex_digit c). rewrite E. apply IH.
Qed.

Lemma long_to_u32_eq neg v : Typed.long_to_u32 neg v = EncWbxml.sat_long neg v.
Proof.
  unfold Typed.long_to_u32, EncWbxml.sat_long, u32. destruct neg.
  - destruct (9223372036854775808 <? v) eqn:E.
    + rewrite N.min_r by lia. reflexivity.
    + rewrite N.min_l by lia. reflexivity.
  - destruct (9223372036854775807 <? v) eqn:E.
    + rewrite N.min_r by lia. reflexivity.
    + rewrite N.min_l by lia. reflexivity.
Qed.

Lemma atol_eq b : Typed.atol_u32 b = EncWbxml.atol32 b.
Proof.
  unfold Typed.atol_u32, EncWbxml.atol32. rewrite skip_space_eq, split_sign_eq.
  destruct (EncWbxml.c_sign (EncWbxml.drop_ws b)) as [neg r].
  rewrite dec_digits_val_eq. apply long_to_u32_eq.
Qed.

Lemma strtol16_eq b : Typed.strtol16_u32 b = EncWbxml.strtol16_32 b.
Proof.
  unfold Typed.strtol16_u32, EncWbxml.strtol16_32. rewrite skip_space_eq, split_sign_eq.
  destruct (EncWbxml.c_sign (EncWbxml.drop_ws b)) as [neg r].
  rewrite hex_digits_val_eq. apply long_to_u32_eq.
Qed.

Lemma int_octets_eq k v acc : Typed.wv_int_octets k v acc = EncWbxml.int_octets k v acc.
Proof. revert v acc. induction k as [|k IH]; intros v acc; [reflexivity|].
  cbn [Typed.wv_int_octets EncWbxml.int_octets]. destruct (v =? 0); [reflexivity|apply IH]. Qed.

Lemma int_octets_length k v acc : (length (EncWbxml.int_octets k v acc) <= k + length acc)%nat.
Proof.
  revert v acc. induction k as [|k IH]; intros v acc; cbn [EncWbxml.int_octets]; [lia|].
  destruct (v =? 0); [lia|]. specialize (IH (N.shiftr v 8) (N.land v 255 :: acc)). cbn [length] in IH. lia.
Qed.

Lemma enc_wv_int_eq b : Typed.enc_wv_int b = Typed.Emit (EncWbxml.enc_wv_integer b).
Proof.
  unfold Typed.enc_wv_int, EncWbxml.enc_wv_integer. f_equal.
  assert (E : (if (nth 1 b 0 =? 120) || (nth 1 b 0 =? 88) then Typed.strtol16_u32 b else Typed.atol_u32 b) =
              match b with
              | _ :: x :: _ => if (x =? 120) || (x =? 88) then EncWbxml.strtol16_32 b else EncWbxml.atol32 b
              | _ => EncWbxml.atol32 b
              end).
  { rewrite strtol16_eq, atol_eq. destruct b as [|c0 [|c1 r]]; reflexivity. }
  rewrite E. rewrite int_octets_eq.
  set (o := EncWbxml.int_octets 4 _ []).
  unfold EncWbxml.enc_opaque, EncWbxml.len. cbn [app].
  pose proof (int_octets_length 4 (match b with
              | _ :: x :: _ => if (x =? 120) || (x =? 88) then EncWbxml.strtol16_32 b else EncWbxml.atol32 b
              | _ => EncWbxml.atol32 b end) []) as Hl. fold o in Hl. cbn [length] in Hl.
  unfold u32. rewrite N.mod_small by lia. reflexivity.
Qed.

(* base64 text -> OPAQUE on the DRMREL / OTA path *)
Lemma take_b64_cstr b : take_b64 (cstr b) = take_b64 b.
Proof.
  induction b as [|c r IH]; [reflexivity|]. cbn [cstr]. destruct (N.eqb c 0) eqn:E.
  - apply N.eqb_eq in E. subst c. reflexivity.
  - cbn [take_b64]. rewrite IH. reflexivity.
Qed.

Lemma enc_b64_cstr_eq b : Typed.enc_b64_cstr b = Typed.Emit (EncWbxml.enc_opaque (EncWbxml.b64_raw b)).
Proof.
  unfold Typed.enc_b64_cstr, EncWbxml.b64_raw, b64_dec. rewrite take_b64_cstr.
  destruct (b64_dec_count (N.of_nat (length (take_b64 b))) =? 0) eqn:E; [|reflexivity].
  apply N.eqb_eq in E. rewrite E. reflexivity.
Qed.

(* Wireless-Village date and time *)
Lemma mem_eq c b : Typed.mem c b = existsb (fun x => x =? c) b.
Proof. unfold Typed.mem. induction b as [|x r IH]; [reflexivity|]. cbn [existsb]. rewrite IH, (N.eqb_sym c x). reflexivity. Qed.

Lemma last_nth (b : list N) : nth (length b - 1) b 0 = last b 0.
Proof.
  induction b as [|x r IH]; [reflexivity|]. destruct r as [|y r']; [reflexivity|].
  cbn [length Nat.sub] in *. rewrite Nat.sub_0_r in *. cbn [nth last]. exact IH.
Qed.

(* strtoul on checked digits: at most four of them, so nothing is lost in the 32-bit variable *)
Lemma strtoul10_checked s : forallb Typed.is_digit s = true -> (length s <= 4)%nat ->
  Typed.strtoul10 s = u32 (EncWbxml.dec_val 0 s).
Proof.
  intros Hd Hl. unfold Typed.strtoul10.
  assert (G : forall acc, Typed.digits_val 10 Typed.dec_digit acc s = EncWbxml.dec_val acc s).
  { clear Hl. induction s as [|c r IH]; intros acc; [reflexivity|].
    cbn [forallb] in Hd. apply andb_true_iff in Hd. destruct Hd as [Hc Hr].
    cbn [Typed.digits_val EncWbxml.dec_val]. unfold Typed.dec_digit. rewrite Hc. apply IH. exact Hr. }
  rewrite G. unfold u32. symmetry. apply N.mod_small.
  assert (B : forall s acc, forallb Typed.is_digit s = true -> EncWbxml.dec_val acc s < (acc + 1) * 10 ^ N.of_nat (length s)).
  { clear. induction s as [|c r IH]; intros acc Hd.
    - cbn [EncWbxml.dec_val length]. change (10 ^ N.of_nat 0) with 1. lia.
    - cbn [forallb] in Hd. apply andb_true_iff in Hd. destruct Hd as [Hc Hr]. unfold Typed.is_digit in Hc.
      cbn [EncWbxml.dec_val length]. specialize (IH (acc * 10 + (c - 48)) Hr).
      rewrite Nat2N.inj_succ, N.pow_succ_r'.
      assert (Hc9 : c - 48 <= 9) by lia.
      eapply N.lt_le_trans; [exact IH|].
      rewrite N.mul_assoc. apply N.mul_le_mono_r. lia. }
  specialize (B s 0 Hd).
  assert (10 ^ N.of_nat (length s) <= 10 ^ 4) by (apply N.pow_le_mono_r; lia).
  change (10 ^ 4) with 10000 in H. lia.
Qed.

Lemma strtoul10_4d a b c d : Typed.is_digit a = true -> Typed.is_digit b = true -> Typed.is_digit c = true ->
  Typed.is_digit d = true -> Typed.strtoul10 [a; b; c; d] = u32 (EncWbxml.dec_val 0 [a; b; c; d]).
Proof. intros Ha Hb Hc Hd. apply strtoul10_checked; [cbn [forallb]; rewrite Ha, Hb, Hc, Hd; reflexivity|cbn [length]; lia]. Qed.
Lemma strtoul10_2d a b : Typed.is_digit a = true -> Typed.is_digit b = true ->
  Typed.strtoul10 [a; b] = u32 (EncWbxml.dec_val 0 [a; b]).
Proof. intros Ha Hb. apply strtoul10_checked; [cbn [forallb]; rewrite Ha, Hb; reflexivity|cbn [length]; lia]. Qed.

Lemma enc_wv_datetime_opaque_eq b :
  eres_of (Typed.enc_wv_datetime_opaque b) = Some (EncWbxml.enc_wv_datetime_opaque b).
Proof.
  (* both sides branch on the length first: below 13 and above 16 are refused by both; 13..16 one by one *)
  destruct b as [|c0 [|c1 [|c2 [|c3 [|c4 [|c5 [|c6 [|c7 [|c8 [|c9 [|c10 [|c11 [|c12 r]]]]]]]]]]]]]; try reflexivity.
  destruct r as [|c13 [|c14 [|c15 [|c16 r]]]]; try reflexivity.
  - (* 13 characters: "00" appended *)
    unfold Typed.enc_wv_datetime_opaque, EncWbxml.enc_wv_datetime_opaque.
    cbn [length Nat.eqb app Typed.insert_at firstn skipn orb negb andb nth Typed.delete_at Nat.leb Nat.add EncWbxml.subb].
    destruct (c8 =? 84); cbn [negb]; [|reflexivity].
    change EncWbxml.isdigit with Typed.is_digit.
    destruct (forallb Typed.is_digit [c0; c1; c2; c3; c4; c5; c6; c7; c9; c10; c11; c12; 48; 48]) eqn:Hd; cbn [negb]; [|reflexivity].
    cbn [forallb] in Hd. repeat (apply andb_true_iff in Hd; destruct Hd as [? Hd]).
    rewrite strtoul10_4d by assumption. rewrite !strtoul10_2d by (assumption || reflexivity).
    reflexivity.
  - (* 14 characters: "00" inserted before the zone *)
    unfold Typed.enc_wv_datetime_opaque, EncWbxml.enc_wv_datetime_opaque.
    cbn [length Nat.eqb app Typed.insert_at firstn skipn orb negb andb nth Typed.delete_at Nat.leb Nat.add EncWbxml.subb].
    destruct (c8 =? 84); cbn [negb]; [|reflexivity].
    destruct ((c13 <? 65) || (c13 =? 74) || (90 <? c13)); [reflexivity|].
    change EncWbxml.isdigit with Typed.is_digit.
    destruct (forallb Typed.is_digit [c0; c1; c2; c3; c4; c5; c6; c7; c9; c10; c11; c12; 48; 48]) eqn:Hd; cbn [negb]; [|reflexivity].
    cbn [forallb] in Hd. repeat (apply andb_true_iff in Hd; destruct Hd as [? Hd]).
    rewrite strtoul10_4d by assumption. rewrite !strtoul10_2d by (assumption || reflexivity).
    reflexivity.
  - (* 15 characters: no zone *)
    unfold Typed.enc_wv_datetime_opaque, EncWbxml.enc_wv_datetime_opaque.
    cbn [length Nat.eqb app Typed.insert_at firstn skipn orb negb andb nth Typed.delete_at Nat.leb Nat.add EncWbxml.subb].
    destruct (c8 =? 84); cbn [negb]; [|reflexivity].
    change EncWbxml.isdigit with Typed.is_digit.
    destruct (forallb Typed.is_digit [c0; c1; c2; c3; c4; c5; c6; c7; c9; c10; c11; c12; c13; c14]) eqn:Hd; cbn [negb]; [|reflexivity].
    cbn [forallb] in Hd. repeat (apply andb_true_iff in Hd; destruct Hd as [? Hd]).
    rewrite strtoul10_4d by assumption. rewrite !strtoul10_2d by (assumption || reflexivity).
    reflexivity.
  - (* 16 characters: the last one is the zone *)
    unfold Typed.enc_wv_datetime_opaque, EncWbxml.enc_wv_datetime_opaque.
    cbn [length Nat.eqb app Typed.insert_at firstn skipn orb negb andb nth Typed.delete_at Nat.leb Nat.add EncWbxml.subb].
    destruct (c8 =? 84); cbn [negb]; [|reflexivity].
    destruct ((c15 <? 65) || (c15 =? 74) || (90 <? c15)); [reflexivity|].
    change EncWbxml.isdigit with Typed.is_digit.
    destruct (forallb Typed.is_digit [c0; c1; c2; c3; c4; c5; c6; c7; c9; c10; c11; c12; c13; c14]) eqn:Hd; cbn [negb]; [|reflexivity].
    cbn [forallb] in Hd. repeat (apply andb_true_iff in Hd; destruct Hd as [? Hd]).
    rewrite strtoul10_4d by assumption. rewrite !strtoul10_2d by (assumption || reflexivity).
    reflexivity.
Qed.

Lemma enc_wv_datetime_eq b : eres_of (Typed.enc_wv_datetime b) = Some (EncWbxml.enc_wv_datetime b).
Proof.
  unfold Typed.enc_wv_datetime, EncWbxml.enc_wv_datetime. rewrite !mem_eq, last_nth.
  destruct (_ || _ || _ || _); [reflexivity|apply enc_wv_datetime_opaque_eq].
Qed.

(* ---- dispatch of the encoders ---- *)

Lemma enc_wv_type_eq page tok :
  (EncWbxml.wv_data_type page tok =? 2) = tkind_eqb (Typed.wv_enc_kind page tok) Typed.K_WVInteger /\
  (EncWbxml.wv_data_type page tok =? 3) = tkind_eqb (Typed.wv_enc_kind page tok) Typed.K_WVDateTime.
Proof.
  unfold EncWbxml.wv_data_type.
  Ltac page_case page tok :=
    subst page; unfold Typed.wv_enc_kind, Typed.in_list; cbv iota; cbn [existsb]; rewrite ?(N.eqb_sym _ tok);
    repeat match goal with |- context [tok =? ?k] =>
             let E := fresh "E" in destruct (tok =? k) eqn:E; [apply N.eqb_eq in E; subst tok; split; reflexivity|] end;
    split; reflexivity.
  destruct (page =? 0) eqn:P0; [apply N.eqb_eq in P0; page_case page tok|].
  destruct (page =? 1) eqn:P1; [apply N.eqb_eq in P1; page_case page tok|].
  destruct (page =? 3) eqn:P3; [apply N.eqb_eq in P3; page_case page tok|].
  destruct (page =? 4) eqn:P4; [apply N.eqb_eq in P4; page_case page tok|].
  destruct (page =? 6) eqn:P6; [apply N.eqb_eq in P6; page_case page tok|].
  destruct (page =? 7) eqn:P7; [apply N.eqb_eq in P7; page_case page tok|].
  destruct (page =? 9) eqn:P9; [apply N.eqb_eq in P9; page_case page tok|].
  apply N.eqb_neq in P0, P1, P3, P6, P9. rewrite wv_enc_kind_other by assumption. split; reflexivity.
Qed.

Lemma wv_enc_kind_range page tok :
  Typed.wv_enc_kind page tok = Typed.K_Plain \/ Typed.wv_enc_kind page tok = Typed.K_WVInteger \/
  Typed.wv_enc_kind page tok = Typed.K_WVDateTime.
Proof.
  unfold Typed.wv_enc_kind. destruct page as [|p]; [|do 4 (try destruct p as [p|p|])];
    repeat match goal with |- context [if ?c then _ else _] => destruct c end; auto.
Qed.

(* wbxml_encode_wv_content: the typed part is Typed.enc_wv_content; the rest is the extension-token lookup *)
Lemma enc_wv_content_eq e st page tok opts buffer : EncWbxml.cur_tag st = Some (page, tok, opts) ->
  EncWbxml.enc_wv_content e st buffer =
  match eres_of (Typed.enc_wv_content page tok buffer) with
  | Some r => Some r
  | None => match EncWbxml.get_ext_from_xml (EncWbxml.e_lang e) buffer with
            | Some r => Some (EncWbxml.EOk (EncWbxml.enc_ext_t0 (u8 (EncWbxml.be_tok r))))
            | None => None
            end
  end.
Proof.
  intros Hc. unfold EncWbxml.enc_wv_content, Typed.enc_wv_content. rewrite Hc.
  destruct (enc_wv_type_eq page tok) as [E2 E3]. rewrite E2, E3.
  destruct (wv_enc_kind_range page tok) as [K|[K|K]]; rewrite K; cbn [tkind_eqb eres_of].
  - reflexivity.
  - rewrite enc_wv_int_eq. reflexivity.
  - rewrite enc_wv_datetime_eq. reflexivity.
Qed.

(* without a current tag nothing is typed *)
Lemma enc_wv_content_no_tag e st buffer : EncWbxml.cur_tag st = None ->
  EncWbxml.enc_wv_content e st buffer =
  match EncWbxml.get_ext_from_xml (EncWbxml.e_lang e) buffer with
  | Some r => Some (EncWbxml.EOk (EncWbxml.enc_ext_t0 (u8 (EncWbxml.be_tok r))))
  | None => None
  end.
Proof. intros Hc. unfold EncWbxml.enc_wv_content. rewrite Hc. reflexivity. Qed.

(* wbxml_encode_drmrel_content *)
Lemma enc_drmrel_content_eq page tok opts nm buffer :
  EncWbxml.enc_drmrel_content (Some (EncWbxml.TagTok page tok opts nm)) buffer =
  match Typed.enc_drmrel_content page tok buffer with Typed.Emit b => Some b | _ => None end.
Proof.
  unfold Typed.enc_drmrel_content. rewrite enc_b64_cstr_eq.
  destruct (N.eq_dec page 0) as [->|Hp].
  - destruct (N.eq_dec tok 12) as [->|Ht]; [reflexivity|].
    replace (tok =? 12) with false by (symmetry; apply N.eqb_neq; exact Ht). cbn [andb].
    destruct tok as [|p]; [reflexivity|]. do 4 (try destruct p as [p|p|]); try reflexivity; congruence.
  - replace (page =? 0) with false by (symmetry; apply N.eqb_neq; exact Hp). cbn [andb].
    destruct page as [|p]; [congruence|reflexivity].
Qed.

Lemma enc_drmrel_content_other parent buffer :
  (forall page tok opts nm, parent <> Some (EncWbxml.TagTok page tok opts nm)) ->
  EncWbxml.enc_drmrel_content parent buffer = None.
Proof.
  intros H. destruct parent as [[page tok opts nm|nm]|]; [exfalso; eapply H; reflexivity|reflexivity|reflexivity].
Qed.

(* wbxml_encode_ota_nokia_icon: when it applies, the OPAQUE is the one of Typed.enc_b64_cstr *)
Lemma enc_ota_icon_eq st attrs buffer b : EncWbxml.enc_ota_icon st attrs buffer = Some b ->
  Typed.enc_b64_cstr buffer = Typed.Emit b.
Proof.
  unfold EncWbxml.enc_ota_icon. rewrite enc_b64_cstr_eq.
  destruct (EncWbxml.cur_tag st); [|discriminate]. destruct (existsb _ attrs); [|discriminate].
  intros E. injection E as <-. reflexivity.
Qed.

(* the attribute-value branch of wbxml_encode_value_element_buffer: for every language but OTA, the typed result is
   Typed.enc_attr_value's, and an attribute that is not typed is encoded as if there were no current attribute *)
Lemma enc_value_attr_eq e st page tok node_attrs parent buffer :
  buffer <> [] -> EncWbxml.bl_id (EncWbxml.e_lang e) <> EncWbxml.LANG_OTA_SETTINGS ->
  EncWbxml.enc_value e st true (Some (page, tok)) node_attrs parent buffer =
  match eres_of (Typed.enc_attr_value (EncWbxml.bl_id (EncWbxml.e_lang e)) page tok buffer) with
  | Some (EncWbxml.EOk b) => EncWbxml.EOk (b, st)
  | Some (EncWbxml.EErr c) => EncWbxml.EErr c
  | None => EncWbxml.enc_value e st true None node_attrs parent buffer
  end.
Proof.
  intros Hne Hota. destruct buffer as [|c0 r]; [contradiction|].
  unfold Typed.enc_attr_value, Typed.attr_value_kind, Typed.L_SI10, Typed.L_EMN10.
  unfold EncWbxml.enc_value, EncWbxml.LANG_SI10, EncWbxml.LANG_EMN10, EncWbxml.LANG_OTA_SETTINGS in *.
  set (lid := EncWbxml.bl_id (EncWbxml.e_lang e)) in *.
  replace (lid =? 1901) with false by (symmetry; apply N.eqb_neq; exact Hota).
  destruct (lid =? 1301) eqn:E1.
  - destruct (N.eq_dec page 0) as [->|Hp].
    + change (0 =? 0) with true. cbn [andb].
      destruct ((tok =? 10) || (tok =? 16)); [|reflexivity].
      pose proof (enc_datetime_eq (c0 :: r)) as Hd.
      destruct (Typed.enc_datetime (c0 :: r)) as [b|s| |t]; cbn [eres_of] in Hd |- *; try discriminate;
        injection Hd as <-; reflexivity.
    + replace (page =? 0) with false by (symmetry; apply N.eqb_neq; exact Hp). cbn [andb eres_of].
      destruct page as [|p]; [congruence|reflexivity].
  - destruct (lid =? 1701) eqn:E2; [|reflexivity].
    destruct (N.eq_dec page 0) as [->|Hp].
    + change (0 =? 0) with true. cbn [andb].
      destruct (N.eq_dec tok 5) as [->|Ht].
      * change (5 =? 5) with true.
        pose proof (enc_datetime_eq (c0 :: r)) as Hd.
        destruct (Typed.enc_datetime (c0 :: r)) as [b|s| |t]; cbn [eres_of] in Hd |- *; try discriminate;
          injection Hd as <-; reflexivity.
      * replace (tok =? 5) with false by (symmetry; apply N.eqb_neq; exact Ht). cbn [eres_of].
        destruct tok as [|p]; [reflexivity|]. do 3 (try destruct p as [p|p|]); try reflexivity; congruence.
    + replace (page =? 0) with false by (symmetry; apply N.eqb_neq; exact Hp). cbn [andb eres_of].
      destruct page as [|p]; [congruence|reflexivity].
Qed.

(* ---- binary-flagged elements ---- *)

(* WBXML side: the text of an element whose tag carries WBXML_TAG_OPTION_BINARY leaves as one OPAQUE *)
Lemma enc_text_binary e st parent content : EncWbxml.is_binary_tag st parent = true ->
  EncWbxml.enc_text e st parent content = EncWbxml.EOk (Typed.enc_opaque content, st).
Proof. intros H. unfold EncWbxml.enc_text. rewrite H. reflexivity. Qed.

(* XML side: the cached text of such an element is decoded with Codec.buffer_b64_dec, as Typed.enc_binary_tag does *)
Lemma enc_binary_tag_unfold text :
  Typed.enc_binary_tag text =
  match buffer_b64_dec text with
  | Some d => Typed.Emit (EncWbxml.enc_opaque d)
  | None => Typed.EErr Typed.T_B64_DEC
  end.
Proof. reflexivity. Qed.

Lemma flush_binary_eq c p t opts nm attrs content kids up :
  XmlFront.c_spine c = XmlFront.mk_frame (XmlFront.FElt (EncWbxml.TagTok p t opts nm) attrs (Some content)) kids :: up ->
  N.land opts 1 <> 0 ->
  XmlFront.flush_binary c =
  let f0 := XmlFront.mk_frame (XmlFront.FElt (EncWbxml.TagTok p t opts nm) attrs None) kids in
  match buffer_b64_dec content with
  | None => XmlFront.set_error (XmlFront.set_spine c (f0 :: up)) (code_of Typed.T_B64_DEC)
  | Some dec => XmlFront.set_spine c (XmlFront.add_text_kid f0 dec :: up)
  end.
Proof.
  intros Hs Hb. unfold XmlFront.flush_binary. rewrite Hs. cbn [XmlFront.f_kind XmlFront.f_rkids].
  unfold XmlFront.WBXML_TAG_OPTION_BINARY.
  replace (N.land opts 1 =? 0) with false by (symmetry; apply N.eqb_neq; exact Hb). reflexivity.
Qed.

(* WBXML -> XML: the text of such an element is rendered with Codec.b64_enc, as Typed.dec_base64_value does *)
Lemma dec_base64_value_unfold bs :
  Typed.dec_base64_value bs = match b64_enc bs with Some t => Typed.TOk t | None => Typed.TErr Typed.T_B64_ENC end.
Proof. reflexivity. Qed.

(* ------------------------------------------------------------------ *)
(* (4) the low-level codecs used inside the other models are those of Model/Codec.v   *)

Definition pres_of_res {A} (r : res A) : Parser.pres A :=
  match r with Ok a => Parser.POk a | Err e => Parser.PErr (Parser.of_cerr e) end.

Lemma parser_mb_uint32_is_codec r : Parser.parse_mb_uint32 r = pres_of_res (mb_read r).
Proof. reflexivity. Qed.

Lemma parser_entity_is_codec r code r' : Parser.parse_mb_uint32 (tl r) = Parser.POk (code, r') ->
  Parser.parse_entity r = match entity_utf8 code with Ok s => Parser.POk (s, r') | Err e => Parser.PErr (Parser.of_cerr e) end.
Proof. intros H. unfold Parser.parse_entity. rewrite H. reflexivity. Qed.

Lemma parser_base64_is_codec d :
  Parser.decode_base64_value d = match b64_enc d with Some o => Parser.POk o | None => Parser.PErr Parser.PE_B64_ENC end.
Proof. reflexivity. Qed.

(* the specification side of C04 writes its own upper-case hex: the same as Codec.bin_to_hex on octets *)
Lemma spec_hex_upper_is_codec l : Forall (fun b => b < 256) l -> Spec.hex_upper l = bin_to_hex true l.
Proof.
  unfold Spec.hex_upper, bin_to_hex. induction 1 as [|b l Hb _ IH]; [reflexivity|].
  cbn [flat_map]. rewrite IH. f_equal. rewrite land_15.
  replace ((b / 16) mod 16) with (b / 16) by lia.
  unfold Spec.hex_digit, hexit.
  assert (E : forall d, (if d <? 10 then 48 + d else 55 + d) = (if d <? 10 then 48 + d else 65 + (d - 10))).
  { intro d. destruct (d <? 10) eqn:Hd; lia. }
  rewrite !E. reflexivity.
Qed.

Lemma spec_base64_is_codec d : d <> [] -> Forall (fun b => b < 256) d -> Spec.spec_base64 d = b64_enc d.
Proof.
  intros Hne Hb. destruct d as [|b r]; [contradiction|]. cbn [Spec.spec_base64 b64_enc].
  rewrite (b64_enc_is_rfc4648 (b :: r) Hb). reflexivity.
Qed.

Lemma encwbxml_opaque_is_codec d : EncWbxml.enc_opaque d = 195 :: mb_write (u32 (N.of_nat (length d))) ++ d.
Proof. reflexivity. Qed.

Lemma encwbxml_b64_raw_is_codec cs : EncWbxml.b64_raw cs = match b64_dec cs with Some d => d | None => [] end.
Proof.
  unfold EncWbxml.b64_raw, b64_dec.
  destruct (b64_dec_count (N.of_nat (length (take_b64 cs))) =? 0) eqn:E; [|reflexivity].
  apply N.eqb_eq in E. rewrite E. reflexivity.
Qed.

Lemma encwbxml_datetime_uses_codec_hex b d : EncWbxml.datetime_digits b = Some d ->
  EncWbxml.enc_datetime b = EncWbxml.EOk (EncWbxml.enc_opaque (Typed.rtz (hex_to_bin d))).
Proof. intros H. unfold EncWbxml.enc_datetime. rewrite H, rtz_eq. reflexivity. Qed.

(* the XML generator: text of a binary-flagged element *)
Lemma encxml_binary_text_is_codec l o parent s str : EncXml.e_in_cdata s = false ->
  EncXml.tag_is_binary (EncXml.text_tag s parent) = true ->
  EncXml.xml_encode_text l o parent s str =
  match Typed.dec_base64_value (EncXml.syncml_type_rewrite l (EncXml.e_cur_tag s) str) with
  | Typed.TOk t => EncXml.XOk (EncXml.escape (EncXml.is_canonical o) t,
                              EncXml.mk_est (EncXml.e_indent s) true (EncXml.e_in_cdata s) (EncXml.e_cur_tag s))
  | Typed.TErr _ => EncXml.XErr EncXml.X_B64_ENC
  end.
Proof.
  intros Hc Hb. unfold EncXml.xml_encode_text, Typed.dec_base64_value. rewrite Hc, Hb.
  destruct (b64_enc _); reflexivity.
Qed.

Lemma buffer_append_mb_is_codec b v :
  BufferModel.append_mb_uint_32 b v =
  if BufferModel.bstatic b then (b, false) else BufferModel.append_data b (mb_write v).
Proof. reflexivity. Qed.

(* ------------------------------------------------------------------ *)
(* consequences: Typed.v's decoders meet the specification of C04 (Model/Spec.v)          *)
From Wbxml Require Proofs.ParserProofsStr Proofs.ParserProofsTyped.

Lemma pres_of_ok {A} (r : Typed.tres A) (o : A) : Parser.POk o = pres_of r -> r = Typed.TOk o.
Proof. destruct r; cbn [pres_of]; intros E; [injection E as <-; reflexivity|discriminate]. Qed.

Lemma typed_datetime_meets_spec v o : Spec.spec_datetime v = Some o -> Typed.dec_datetime v = Typed.TOk o.
Proof.
  intros H. apply pres_of_ok. rewrite <- datetime_decoder_eq. symmetry.
  apply ParserProofsTyped.typed_datetime_agree_proved. exact H.
Qed.

Lemma typed_wv_meets_spec page tok d o : Spec.bytes_okb d = true ->
  Spec.spec_opaque (Spec.opaque_kind 2301 (Some (page, tok))) d = Some o ->
  Typed.decode_opaque_content 2301 page tok d = Typed.TOk o.
Proof.
  intros Hb H. apply pres_of_ok.
  pose proof (ParserProofsWv.typed_wv_agree_proved (Some (page, tok)) d o Hb H) as E.
  rewrite wv_content_decoder_eq in E. symmetry. exact E.
Qed.
